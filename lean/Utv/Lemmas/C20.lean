import Utv.Model.C20
/-!
C20 — the inductive invariant of the interleaving model (fixed code, `lg = false`) and its preservation
by every atomic step of every thread.  Helper material for `Utv/Props/C20.lean`.
-/
namespace Utv.C20

/-! ### classes of program counters -/

/-- inside `with _forward_refs_lock:` -/
def PC.inCS : PC → Bool
  | .list | .next | .get | .eval | .isev | .rdval | .wrA | .wrB | .fldTyQ | .fldTy | .rftIsev | .rftRdval
  | .rrfA | .rrfB | .rrfC | .fldOtyQ | .addn | .clr1 | .clr2 | .popd | .unlock => true
  | _ => false

/-- lines of the pre-fix code and of races the lock excludes: never reached -/
def PC.dead : PC → Bool
  | .wrcA | .wrcArg | .wrcB | .pop | .stuck | .tcRdval => true
  | _ => false

/-- after `resolve_forward_refs` returned normally, until the call ends -/
def PC.parsing : PC → Bool
  | .frfPos | .frfRet | .pv | .tcIsev | .nested | .nested2 | .nestedPv | .nestedErr | .pvErr => true
  | _ => false

/-- nothing is left to resolve: only names that do not exist are still listed (function parsers skip them) -/
def Resolved (W : World) (g : G) : Prop := ∀ i ∈ g.pending, W.defd i = false ∧ W.isFn = true

def Undef (W : World) (i : Nat) : Prop := W.defd i = false ∧ W.isFn = true

/-! ### invariant of the thread that holds the lock, by phase of its pass -/

structure Base (W : World) (rn : List Nat) (resolved : Bool) (clear : List Nat) : Prop where
  rnDef : ∀ i ∈ rn, W.defd i = true
  res   : resolved = false → rn = []
  clr   : clear = if W.isLocal then rn else []

/-- `for name in list(self.forward_refs)`: `td` = names of the snapshot still to visit -/
structure LoopF (W : World) (g : G) (rn : List Nat) (resolved : Bool) (clear : List Nat)
    (exc : Option Outcome) (td : List Nat) : Prop extends Base W rn resolved clear where
  exc0  : exc = none
  nodup : (td ++ rn).Nodup
  sub   : ∀ i ∈ td ++ rn, i ∈ g.pending
  own   : ∀ i ∈ g.pending, i ∈ td ∨ i ∈ rn ∨ Undef W i
  fty   : ∀ i ∈ g.pending, g.fty i = .ref
  evVal : ∀ i ∈ rn, g.ev i = true ∧ g.val i = .parsed

/-- `for field in self.fields.values()`: `dn i` = field i has been visited -/
structure FldF (W : World) (g : G) (rn : List Nat) (resolved : Bool) (clear : List Nat)
    (exc : Option Outcome) (dn : Nat → Bool) : Prop extends Base W rn resolved clear where
  exc0  : exc = none
  sub   : ∀ i ∈ rn, i ∈ g.pending
  own   : ∀ i ∈ g.pending, i ∈ rn ∨ Undef W i
  fty   : ∀ i ∈ g.pending, if rn.contains i && dn i then g.fty i = .res .parsed else g.fty i = .ref
  evVal : ∀ i ∈ rn, g.ev i = true ∧ g.val i = .parsed

/-- after the field loop, through the clearing of evaluated references -/
structure PostF (W : World) (g : G) (rn : List Nat) (resolved : Bool) (clear : List Nat)
    (exc : Option Outcome) : Prop extends Base W rn resolved clear where
  exc0  : exc = none
  sub   : ∀ i ∈ rn, i ∈ g.pending
  own   : ∀ i ∈ g.pending, i ∈ rn ∨ Undef W i
  fty   : ∀ i ∈ g.pending, if rn.contains i then g.fty i = .res .parsed else g.fty i = .ref

/-- `finally: for name in resolved_names: pop`: `rem` = names still to pop -/
structure PopF (W : World) (g : G) (rn : List Nat) (resolved : Bool) (clear : List Nat)
    (exc : Option Outcome) (rem : List Nat) : Prop extends Base W rn resolved clear where
  excSome : ∀ e, exc = some e → e = .nameError ∧ W.isFn = false ∧ undefinedRef W = true
  sub   : ∀ i ∈ rem, i ∈ rn
  own   : exc = none → ∀ i ∈ g.pending, i ∈ rem ∨ Undef W i
  fty   : ∀ i ∈ g.pending, if rem.contains i && exc.isNone then g.fty i = .res .parsed else g.fty i = .ref

@[reducible] def Th.loopF (h : Th) (W : World) (g : G) (td : List Nat) : Prop :=
  LoopF W g h.rn h.resolved h.clear h.exc td
@[reducible] def Th.fldF (h : Th) (W : World) (g : G) (dn : Nat → Bool) : Prop :=
  FldF W g h.rn h.resolved h.clear h.exc dn
@[reducible] def Th.postF (h : Th) (W : World) (g : G) : Prop := PostF W g h.rn h.resolved h.clear h.exc
@[reducible] def Th.popF (h : Th) (W : World) (g : G) (rem : List Nat) : Prop :=
  PopF W g h.rn h.resolved h.clear h.exc rem

def HInv (W : World) (g : G) (h : Th) : Prop :=
  match h.pc with
  | .lock => h.rn = [] ∧ h.clear = [] ∧ h.resolved = false ∧ h.exc = none
  | .list => h.rn = [] ∧ h.clear = [] ∧ h.resolved = false ∧ h.exc = none ∧ ∀ i ∈ g.pending, g.fty i = .ref
  | .next => h.loopF W g h.names
  | .get | .eval => h.loopF W g (h.cur :: h.names)
  | .isev => h.loopF W g (h.cur :: h.names) ∧ W.defd h.cur = true ∧ g.ev h.cur = true ∧ g.val h.cur = .raw
  | .rdval => h.loopF W g (h.cur :: h.names) ∧ W.defd h.cur = true ∧ g.ev h.cur = true ∧ g.val h.cur = .raw
  | .wrA | .wrB => h.loopF W g (h.cur :: h.names) ∧ W.defd h.cur = true ∧ g.ev h.cur = true ∧ h.tval = .raw
  | .fldTyQ | .fldTy => h.fldF W g (fun i => decide (i < h.fi))
  | .rftIsev => h.fldF W g (fun i => decide (i < h.fi)) ∧ g.fty h.fi = .ref
  | .rftRdval => h.fldF W g (fun i => decide (i < h.fi)) ∧ g.fty h.fi = .ref ∧ g.ev h.fi = true
  | .rrfA | .rrfB | .rrfC => h.fldF W g (fun i => decide (i < h.fi)) ∧ h.fi ∉ g.pending
  | .fldOtyQ => h.fldF W g (fun i => decide (i < h.fi + 1))
  | .addn | .clr1 | .clr2 => h.postF W g
  | .popd => h.popF W g (h.cur :: h.popIt) ∧ h.exc = none      -- names are popped only `if rewritten`
  | .unlock => h.popF W g []
  | _ => True

/-- what the call in progress has to return -/
def target (W : World) (h : Th) : Outcome := alone W (h.calls.headD [])

/-- invariant of a thread that is parsing (only stable facts about the shared state) -/
def PInv (W : World) (g : G) (h : Th) : Prop :=
  match h.pc with
  | .frfPos | .frfRet => Resolved W g
  | .pv => Resolved W g ∧ h.uses ≠ [] ∧ parseOutcome W h.uses = target W h
  | .tcIsev => Resolved W g ∧ parseOutcome W h.uses = target W h ∧
      ∃ u us, h.uses = u :: us ∧ W.ref u.fld = true ∧ W.defd u.fld = false
  | .nested | .nested2 | .nestedPv => Resolved W g ∧ parseOutcome W h.uses = target W h ∧
      ∃ u us, h.uses = u :: us ∧ (W.ref u.fld = true → W.defd u.fld = true)
  | .nestedErr | .pvErr => Resolved W g ∧ target W h = .perr
  | _ => True

/-- per-thread invariant -/
def PC.usesVals : PC → Bool
  | .pv | .tcIsev | .nested | .nested2 | .nestedPv => true
  | _ => false

def PC.anyVals : PC → Bool
  | .nestedErr | .pvErr => true
  | p => p.usesVals

/-- the conversions recorded so far are those of the keywords already parsed, each by its declared type -/
def VI (h : Th) : Prop :=
  (h.pc.usesVals = true → h.vals ++ valsOf h.uses = valsOf (h.calls.headD [])) ∧ (h.pc.anyVals = false → h.vals = [])

structure TInv (W : World) (prog : Nat → List Call) (g : G) (k : Nat) (h : Th) : Prop where
  vhist  : h.vouts ++ h.calls.map (aloneVals W) = (prog k).map (aloneVals W)
  valsI  : VI h
  alive  : h.pc.dead = false
  wrongF : h.wrongF = false
  hist   : h.outs ++ h.calls.map (alone W) = (prog k).map (alone W)
  callNe : h.pc ≠ .start → h.pc ≠ .fin → h.calls ≠ []
  finE   : h.pc = .fin → h.calls = []
  lockI  : h.pc.inCS = true ↔ g.lock = some k
  hinv   : HInv W g h
  pinv   : PInv W g h

/-- invariant of the shared state alone -/
structure GInv (W : World) (g : G) : Prop where
  nodup  : g.pending.Nodup
  isRef  : ∀ i ∈ g.pending, W.ref i = true
  undef  : ∀ i, W.ref i = true → W.defd i = false → i ∈ g.pending ∧ g.ev i = false ∧ g.fty i = .ref
  done   : ∀ i, W.ref i = true → W.defd i = true → i ∉ g.pending → g.fty i = .res .parsed
  plain  : ∀ i, W.ref i = false → g.fty i = .res .parsed
  noJunk : ∀ i, g.fty i ≠ .res .junk
  free   : g.lock = none → ∀ i ∈ g.pending, g.fty i = .ref

structure Inv (W : World) (prog : Nat → List Call) (s : Sys) : Prop where
  ginv : GInv W s.g
  tinv : ∀ k, TInv W prog s.g k (s.th k)

theorem undefinedRef_of {W : World} {i : Nat} (h1 : W.ref i = true) (h2 : W.defd i = false) :
    undefinedRef W = true := by
  simp only [World.ref, Bool.and_eq_true, decide_eq_true_eq] at h1
  simp only [undefinedRef, List.any_eq_true, List.mem_range]
  exact ⟨i, h1.1, by simp [h1.2, h2]⟩

theorem undefinedRef_ex {W : World} (h : undefinedRef W = true) :
    ∃ i, W.ref i = true ∧ W.defd i = false := by
  simp only [undefinedRef, List.any_eq_true, List.mem_range] at h
  obtain ⟨i, hi, hb⟩ := h
  simp only [Bool.and_eq_true, Bool.not_eq_true'] at hb
  exact ⟨i, by simp [World.ref, hi, hb.1], hb.2⟩

theorem alone_stuck {W : World} (h1 : W.isFn = false) (h2 : undefinedRef W = true) (c : Call) :
    alone W c = .nameError := by simp [alone, h1, h2]

theorem alone_resolved {W : World} {g : G} (G : GInv W g) (R : Resolved W g) (c : Call) :
    alone W c = parseOutcome W c := by
  unfold alone
  split
  · rename_i h
    simp only [Bool.and_eq_true, Bool.not_eq_true'] at h
    obtain ⟨i, hr, hd⟩ := undefinedRef_ex h.2
    have := (R i (G.undef i hr hd).1).2
    simp [h.1] at this
  · rfl

def Good (W : World) (g : G) (t t' : Th) : Prop :=
  HInv W g t' ∧ t'.pc.inCS = true ∧ t'.calls = t.calls ∧ t'.outs = t.outs ∧ t'.wrongF = t.wrongF ∧
    t'.vals = t.vals ∧ t'.vouts = t.vouts

theorem popAdvance_G {W : World} {g : G} {t : Th} (P : t.popF W g t.popIt) (he : t.popIt ≠ [] → t.exc = none) :
    Good W g t (popAdvance t) := by
  unfold popAdvance
  split
  · rename_i hp
    rw [hp] at P
    exact ⟨P, rfl, rfl, rfl, rfl, rfl, rfl⟩
  · rename_i n ns hp
    rw [hp] at P
    exact ⟨⟨P, he (by simp [hp])⟩, rfl, rfl, rfl, rfl, rfl, rfl⟩

/-- `finally: if rewritten: pop …` — nothing is popped when an exception is travelling -/
theorem enterFinally_G {W : World} {g : G} {t : Th} (P : t.popF W g (if t.exc.isSome then [] else t.rn)) :
    Good W g t (enterFinally W false t) := by
  unfold enterFinally
  simp only [Bool.false_eq_true, if_false]
  refine popAdvance_G (t := { t with popIt := if t.exc.isSome then [] else t.rn }) P ?_
  intro hne
  cases he : t.exc with
  | none => rfl
  | some e => simp [he] at hne

theorem PostF.toPop {W : World} {g : G} {rn : List Nat} {r : Bool} {c : List Nat} {e : Option Outcome}
    (P : PostF W g rn r c e) : PopF W g rn r c e rn where
  toBase := P.toBase
  excSome := by simp [P.exc0]
  sub := fun _ hi => hi
  own := fun _ => P.own
  fty := by
    intro i hi
    have := P.fty i hi
    simpa [P.exc0] using this

theorem clearAdvance_G {W : World} {g : G} {t : Th} (P : t.postF W g) :
    Good W g t (clearAdvance W false t) := by
  unfold clearAdvance
  split
  · exact enterFinally_G (by rw [show t.exc = none from P.exc0]; exact P.toPop)
  · exact ⟨P, rfl, rfl, rfl, rfl, rfl, rfl⟩

theorem enterClear_G {W : World} {g : G} {t : Th} (P : t.postF W g) :
    Good W g t (enterClear W false t) := by
  unfold enterClear
  split
  · exact clearAdvance_G (t := { t with clrIt := t.clear }) P
  · exact enterFinally_G (by rw [show t.exc = none from P.exc0]; exact P.toPop)

theorem fieldAdvance_G {W : World} {g : G} {t : Th} (G : GInv W g)
    (F : t.fldF W g (fun i => decide (i < t.fi))) : Good W g t (fieldAdvance W t) := by
  unfold fieldAdvance
  split
  · exact ⟨F, rfl, rfl, rfl, rfl, rfl, rfl⟩
  · rename_i hlt
    refine ⟨?_, rfl, rfl, rfl, rfl, rfl, rfl⟩
    show PostF W g t.rn t.resolved t.clear t.exc
    refine { toBase := F.toBase, exc0 := F.exc0, sub := F.sub, own := F.own, fty := ?_ }
    intro i hi
    have h1 := F.fty i hi
    have h2 := G.isRef i hi
    simp only [World.ref, Bool.and_eq_true, decide_eq_true_eq] at h2
    have : i < t.fi := by omega
    simpa [this] using h1

theorem afterLoop_G {W : World} {g : G} {t : Th} (G : GInv W g) (L : t.loopF W g []) :
    Good W g t (afterLoop W false t) := by
  unfold afterLoop
  split
  · have : ({ t with fi := 0 } : Th).fldF W g (fun i => decide (i < ({ t with fi := 0 } : Th).fi)) := by
      refine { toBase := L.toBase, exc0 := L.exc0, sub := ?_, own := ?_, fty := ?_, evVal := L.evVal }
      · intro i hi; exact L.sub i (by simpa using hi)
      · intro i hi; simpa using L.own i hi
      · intro i hi; simpa using L.fty i hi
    exact fieldAdvance_G (t := { t with fi := 0 }) G this
  · rename_i hr
    have hrn : t.rn = [] := L.res (by simpa using hr)
    refine enterClear_G ?_
    refine { toBase := L.toBase, exc0 := L.exc0, sub := ?_, own := ?_, fty := ?_ }
    · intro i hi; exact L.sub i (by simpa using hi)
    · intro i hi; simpa using L.own i hi
    · intro i hi; simpa [hrn] using L.fty i hi

theorem advance_G {W : World} {g : G} {t : Th} (G : GInv W g) (L : t.loopF W g t.names) :
    Good W g t (advance W false t) := by
  unfold advance
  split
  · rename_i hn
    rw [hn] at L
    exact afterLoop_G G L
  · rename_i n ns hn
    rw [hn] at L
    exact ⟨L, rfl, rfl, rfl, rfl, rfl, rfl⟩

structure StepOK (W : World) (g g' : G) (t t' : Th) : Prop where
  ginv : GInv W g'
  good : Good W g' t t'
  lock : g'.lock = g.lock
  pend : ∀ i ∈ g'.pending, i ∈ g.pending

theorem upd_same {α : Type} (f : Nat → α) (i : Nat) (v : α) : upd f i v i = v := by simp [upd]
theorem upd_other {α : Type} (f : Nat → α) (i j : Nat) (v : α) (h : j ≠ i) : upd f i v j = f j := by simp [upd, h]

theorem good_of {W : World} {g : G} {t t' : Th} (h : HInv W g t') (hcs : t'.pc.inCS = true)
    (h1 : t'.calls = t.calls) (h2 : t'.outs = t.outs) (h3 : t'.wrongF = t.wrongF)
    (h4 : t'.vals = t.vals := by rfl) (h5 : t'.vouts = t.vouts := by rfl) : Good W g t t' :=
  ⟨h, hcs, h1, h2, h3, h4, h5⟩

theorem step_list {W : World} {g : G} {k : Nat} {t : Th} (G : GInv W g) (H : HInv W g t) (hpc : t.pc = .list) :
    StepOK W g (stepTh W false k g t).1 t (stepTh W false k g t).2 := by
  simp only [stepTh, hpc]
  simp only [HInv, hpc] at H
  obtain ⟨h1, h2, h3, h4, h5⟩ := H
  refine ⟨G, ?_, rfl, fun _ h => h⟩
  have : Good W g { t with names := g.pending } (advance W false { t with names := g.pending }) := by
    apply advance_G G
    show LoopF W g t.rn t.resolved t.clear t.exc g.pending
    refine { rnDef := by simp [h1], res := fun _ => h1, clr := by simp [h1, h2], exc0 := h4, nodup := by simpa [h1] using G.nodup,
             sub := by simp [h1], own := fun i hi => Or.inl hi, fty := h5, evVal := by simp [h1] }
  exact this

theorem step_next {W : World} {g : G} {k : Nat} {t : Th} (G : GInv W g) (H : HInv W g t) (hpc : t.pc = .next) :
    StepOK W g (stepTh W false k g t).1 t (stepTh W false k g t).2 := by
  simp only [stepTh, hpc]
  simp only [HInv, hpc] at H
  exact ⟨G, advance_G G H, rfl, fun _ h => h⟩

theorem step_get {W : World} {g : G} {k : Nat} {t : Th} (G : GInv W g) (H : HInv W g t) (hpc : t.pc = .get) :
    StepOK W g (stepTh W false k g t).1 t (stepTh W false k g t).2 := by
  simp only [stepTh, hpc]
  simp only [HInv, hpc] at H
  have hc : t.cur ∈ g.pending := H.sub _ (by simp)
  simp only [List.contains_iff_mem, hc, if_true]
  exact ⟨G, good_of (t' := { t with pc := .eval }) H rfl rfl rfl rfl, rfl, fun _ h => h⟩

theorem LoopF.tail {W : World} {g : G} {rn : List Nat} {r : Bool} {c : List Nat} {e : Option Outcome}
    {n : Nat} {ns : List Nat} (L : LoopF W g rn r c e (n :: ns)) (hu : Undef W n) : LoopF W g rn r c e ns where
  toBase := L.toBase
  exc0 := L.exc0
  nodup := by have := L.nodup; simp only [List.cons_append, List.nodup_cons] at this; exact this.2
  sub := fun i hi => L.sub i (by simp only [List.cons_append, List.mem_cons]; exact Or.inr hi)
  own := by
    intro i hi
    rcases L.own i hi with h | h | h
    · rcases List.mem_cons.mp h with h | h
      · subst h; exact Or.inr (Or.inr hu)
      · exact Or.inl h
    · exact Or.inr (Or.inl h)
    · exact Or.inr (Or.inr h)
  fty := L.fty
  evVal := L.evVal

theorem step_eval {W : World} {g : G} {k : Nat} {t : Th} (G : GInv W g) (hl : g.lock = some k)
    (H : HInv W g t) (hpc : t.pc = .eval) :
    StepOK W g (stepTh W false k g t).1 t (stepTh W false k g t).2 := by
  simp only [stepTh, hpc]
  simp only [HInv, hpc] at H
  have hc : t.cur ∈ g.pending := H.sub _ (by simp)
  have hnr : t.cur ∉ t.rn := by
    have := H.nodup
    simp only [List.cons_append, List.nodup_cons, List.mem_append, not_or] at this
    exact this.1.2
  split
  · -- the name exists: evaluated
    rename_i hd
    refine ⟨?_, ?_, rfl, fun _ h => h⟩
    · refine { nodup := G.nodup, isRef := G.isRef, undef := ?_, done := G.done, plain := G.plain, noJunk := G.noJunk,
               free := by simp [hl] }
      intro i hr hdi
      have hne : i ≠ t.cur := by intro h; subst h; simp [hd] at hdi
      have := G.undef i hr hdi
      simpa [upd_other _ _ _ _ hne] using this
    · refine good_of (t' := { t with pc := .isev }) ?_ rfl rfl rfl rfl
      simp only [HInv]
      refine ⟨?_, hd, upd_same _ _ _, upd_same _ _ _⟩
      refine { toBase := H.toBase, exc0 := H.exc0, nodup := H.nodup, sub := H.sub, own := H.own, fty := H.fty, evVal := ?_ }
      intro i hi
      have hne : i ≠ t.cur := by intro h; subst h; exact hnr hi
      simpa [upd_other _ _ _ _ hne] using H.evVal i hi
  · rename_i hd
    have hd' : W.defd t.cur = false := by simpa using hd
    split
    · -- NameError, ignored
      rename_i hf
      refine ⟨G, ?_, rfl, fun _ h => h⟩
      refine good_of (t' := { t with pc := .next }) ?_ rfl rfl rfl rfl
      simp only [HInv]
      exact H.tail ⟨hd', hf⟩
    · -- NameError raised: through `finally`
      rename_i hf
      have hf' : W.isFn = false := by simpa using hf
      refine ⟨G, ?_, rfl, fun _ h => h⟩
      unfold raise
      simp only [Bool.false_eq_true, if_false]
      have := enterFinally_G (W := W) (g := g) (t := { t with exc := some .nameError }) ?_
      · exact this
      · show PopF W g t.rn t.resolved t.clear (some .nameError) []
        refine { toBase := H.toBase, excSome := ?_, sub := by simp, own := by simp, fty := ?_ }
        · intro e he
          cases he
          exact ⟨rfl, hf', undefinedRef_of (G.isRef _ hc) hd'⟩
        · intro i hi; simpa using H.fty i hi

theorem step_isev {W : World} {g : G} {k : Nat} {t : Th} (G : GInv W g) (H : HInv W g t) (hpc : t.pc = .isev) :
    StepOK W g (stepTh W false k g t).1 t (stepTh W false k g t).2 := by
  simp only [stepTh, hpc]
  simp only [HInv, hpc] at H
  obtain ⟨L, hd, he, hv⟩ := H
  simp only [he, if_true]
  refine ⟨G, good_of (t' := { t with pc := .rdval }) ?_ rfl rfl rfl rfl, rfl, fun _ h => h⟩
  simp only [HInv]
  exact ⟨L, hd, he, hv⟩

theorem step_rdval {W : World} {g : G} {k : Nat} {t : Th} (G : GInv W g) (H : HInv W g t) (hpc : t.pc = .rdval) :
    StepOK W g (stepTh W false k g t).1 t (stepTh W false k g t).2 := by
  simp only [stepTh, hpc]
  simp only [HInv, hpc] at H
  obtain ⟨L, hd, he, hv⟩ := H
  simp only [hv]
  refine ⟨G, good_of (t' := { t with tval := .raw, pc := .wrA }) ?_ rfl rfl rfl rfl, rfl, fun _ h => h⟩
  simp only [HInv]
  exact ⟨L, hd, he, trivial⟩

theorem step_wrA {W : World} {g : G} {k : Nat} {t : Th} (G : GInv W g) (H : HInv W g t) (hpc : t.pc = .wrA) :
    StepOK W g (stepTh W false k g t).1 t (stepTh W false k g t).2 := by
  simp only [stepTh, hpc]
  simp only [HInv, hpc] at H
  refine ⟨G, good_of (t' := { t with pc := .wrB }) ?_ rfl rfl rfl rfl, rfl, fun _ h => h⟩
  simp only [HInv]
  exact H


theorem step_wrB {W : World} {g : G} {k : Nat} {t : Th} (G : GInv W g) (hl : g.lock = some k)
    (H : HInv W g t) (hpc : t.pc = .wrB) :
    StepOK W g (stepTh W false k g t).1 t (stepTh W false k g t).2 := by
  simp only [stepTh, hpc]
  simp only [HInv, hpc] at H
  obtain ⟨L, hd, he, hv⟩ := H
  have hnd := L.nodup
  simp only [List.cons_append, List.nodup_cons, List.mem_append, not_or] at hnd
  refine ⟨?_, ?_, rfl, fun _ h => h⟩
  · exact { nodup := G.nodup, isRef := G.isRef, undef := G.undef, done := G.done, plain := G.plain,
            noJunk := G.noJunk, free := by simp [hl] }
  · unfold afterWrite
    simp only [Bool.false_eq_true, if_false]
    refine good_of ?_ rfl rfl rfl rfl
    simp only [HInv]
    refine { rnDef := ?_, res := by simp, clr := ?_, exc0 := L.exc0, nodup := ?_, sub := ?_, own := ?_, fty := L.fty, evVal := ?_ }
    · intro i hi
      rcases List.mem_append.mp hi with h | h
      · exact L.rnDef i h
      · simp at h; subst h; exact hd
    · have := L.clr
      split <;> rename_i hloc <;> simp [hloc] at this ⊢ <;> simp [this]
    · rw [← List.append_assoc, List.nodup_append]
      refine ⟨hnd.2, by simp, ?_⟩
      intro a ha b hb
      simp at hb; subst hb
      intro hab; subst hab
      rcases List.mem_append.mp ha with h | h
      · exact hnd.1.1 h
      · exact hnd.1.2 h
    · intro i hi
      apply L.sub
      simp only [List.mem_append, List.mem_singleton] at hi
      simp only [List.cons_append, List.mem_cons, List.mem_append]
      rcases hi with h | h | h
      · exact Or.inr (Or.inl h)
      · exact Or.inr (Or.inr h)
      · exact Or.inl h
    · intro i hi
      rcases L.own i hi with h | h | h
      · rcases List.mem_cons.mp h with h | h
        · exact Or.inr (Or.inl (by simp [h]))
        · exact Or.inl h
      · exact Or.inr (Or.inl (by simp [h]))
      · exact Or.inr (Or.inr h)
    · intro i hi
      rcases List.mem_append.mp hi with h | h
      · have hne : i ≠ t.cur := by intro e; subst e; exact hnd.1.2 h
        simpa [upd_other _ _ _ _ hne] using L.evVal i h
      · simp at h; subst h
        simp [upd_same, he, hv, parseAnn]

/-- in the field loop every listed name that exists is one this pass resolved -/
theorem FldF.mem_rn {W : World} {g : G} {rn : List Nat} {r : Bool} {c : List Nat} {e : Option Outcome}
    {dn : Nat → Bool} (F : FldF W g rn r c e dn) {i : Nat} (hp : i ∈ g.pending) (hd : W.defd i = true) : i ∈ rn := by
  rcases F.own i hp with h | h
  · exact h
  · simp [Undef, hd] at h

/-- the field loop never runs for a class with an undefined name -/
theorem FldF.notStuck {W : World} {g : G} {rn : List Nat} {r : Bool} {c : List Nat} {e : Option Outcome}
    {dn : Nat → Bool} (G : GInv W g) (F : FldF W g rn r c e dn) : ¬ (W.isFn = false ∧ undefinedRef W = true) := by
  rintro ⟨hf, hu⟩
  obtain ⟨u, hr, hd⟩ := undefinedRef_ex hu
  have hp := (G.undef u hr hd).1
  rcases F.own u hp with h | h
  · have := F.rnDef u h; simp [hd] at this
  · simp [Undef, hf] at h

theorem FldF.succ {W : World} {g : G} {rn : List Nat} {r : Bool} {c : List Nat} {e : Option Outcome} {n : Nat}
    (F : FldF W g rn r c e (fun i => decide (i < n))) (hn : n ∉ g.pending) :
    FldF W g rn r c e (fun i => decide (i < n + 1)) where
  toBase := F.toBase
  exc0 := F.exc0
  sub := F.sub
  own := F.own
  evVal := F.evVal
  fty := by
    intro i hi
    have hne : i ≠ n := by intro h; subst h; exact hn hi
    have : (i < n + 1) = (i < n) := by apply propext; omega
    simpa [this] using F.fty i hi

theorem step_fldTyQ {W : World} {g : G} {k : Nat} {t : Th} (G : GInv W g) (H : HInv W g t) (hpc : t.pc = .fldTyQ) :
    StepOK W g (stepTh W false k g t).1 t (stepTh W false k g t).2 := by
  simp only [stepTh, hpc]
  simp only [HInv, hpc] at H
  refine ⟨G, ?_, rfl, fun _ h => h⟩
  split
  · rename_i hn
    refine good_of (t' := { t with pc := .fldOtyQ }) ?_ rfl rfl rfl rfl
    simp only [HInv]
    apply H.succ
    intro hp
    have := H.fty _ hp
    split at this <;> simp [hn] at this
  · refine good_of (t' := { t with pc := .fldTy }) ?_ rfl rfl rfl rfl
    simp only [HInv]
    exact H

theorem step_fldTy {W : World} {g : G} {k : Nat} {t : Th} (G : GInv W g) (H : HInv W g t) (hpc : t.pc = .fldTy) :
    StepOK W g (stepTh W false k g t).1 t (stepTh W false k g t).2 := by
  simp only [stepTh, hpc]
  simp only [HInv, hpc] at H
  split
  · rename_i hr
    refine ⟨G, ?_, rfl, fun _ h => h⟩
    refine good_of (t' := { t with pc := .rftIsev }) ?_ rfl rfl rfl rfl
    simp only [HInv]
    exact ⟨H, hr⟩
  · rename_i v hr
    have hnp : t.fi ∉ g.pending := by
      intro hp
      have := H.fty _ hp
      simp [hr] at this
    split
    · rename_i hj
      exact absurd (by rw [hr, hj]) (G.noJunk t.fi)
    · split
      · refine ⟨G, ?_, rfl, fun _ h => h⟩
        refine good_of (t' := { t with pc := .rrfA }) ?_ rfl rfl rfl rfl
        simp only [HInv]
        exact ⟨H, hnp⟩
      · refine ⟨G, ?_, rfl, fun _ h => h⟩
        refine good_of (t' := { t with pc := .fldOtyQ }) ?_ rfl rfl rfl rfl
        simp only [HInv]
        exact H.succ hnp


theorem upd_id {α : Type} (f : Nat → α) (i : Nat) : upd f i (f i) = f := by
  funext j; simp only [upd]; split <;> simp_all

theorem step_rftIsev {W : World} {g : G} {k : Nat} {t : Th} (G : GInv W g) (H : HInv W g t) (hpc : t.pc = .rftIsev) :
    StepOK W g (stepTh W false k g t).1 t (stepTh W false k g t).2 := by
  simp only [stepTh, hpc]
  simp only [HInv, hpc] at H
  obtain ⟨F, hr⟩ := H
  split
  · rename_i he
    refine ⟨G, ?_, rfl, fun _ h => h⟩
    refine good_of (t' := { t with pc := .rftRdval }) ?_ rfl rfl rfl rfl
    simp only [HInv]
    exact ⟨F, hr, he⟩
  · rename_i he
    have hf : ∀ i, upd g.fty t.fi .ref i = g.fty i := by
      intro i; simp only [upd]; split
      · rename_i h; rw [h, hr]
      · rfl
    refine ⟨?_, ?_, rfl, fun _ h => h⟩
    · exact { nodup := G.nodup, isRef := G.isRef, undef := by simpa [hf] using G.undef,
              done := by simpa [hf] using G.done, plain := by simpa [hf] using G.plain,
              noJunk := by simpa [hf] using G.noJunk, free := by simpa [hf] using G.free }
    · refine good_of (t' := { t with pc := .fldOtyQ }) ?_ rfl rfl rfl rfl
      simp only [HInv]
      refine { toBase := F.toBase, exc0 := F.exc0, sub := F.sub, own := F.own, evVal := F.evVal, fty := ?_ }
      intro i hi
      simp only [hf]
      by_cases hne : i = t.fi
      · subst hne
        have hnr : t.fi ∉ t.rn := fun h => he (F.evVal _ h).1
        simpa [hnr] using hr
      · have : (i < t.fi + 1) = (i < t.fi) := by apply propext; omega
        simpa [this] using F.fty i hi

theorem step_rftRdval {W : World} {g : G} {k : Nat} {t : Th} (G : GInv W g) (hl : g.lock = some k)
    (H : HInv W g t) (hpc : t.pc = .rftRdval) :
    StepOK W g (stepTh W false k g t).1 t (stepTh W false k g t).2 := by
  simp only [stepTh, hpc]
  simp only [HInv, hpc] at H
  obtain ⟨F, hr, he⟩ := H
  have href : W.ref t.fi = true := by
    cases h : W.ref t.fi with
    | true => rfl
    | false => have := G.plain _ h; rw [hr] at this; cases this
  have hdef : W.defd t.fi = true := by
    cases h : W.defd t.fi with
    | true => rfl
    | false => have := (G.undef _ href h).2.1; rw [he] at this; cases this
  have hp : t.fi ∈ g.pending := by
    apply Classical.byContradiction
    intro hnp
    have h := G.done _ href hdef hnp
    rw [hr] at h; cases h
  have hrn : t.fi ∈ t.rn := F.mem_rn hp hdef
  have hv : g.val t.fi = .parsed := (F.evVal _ hrn).2
  rw [hv]
  refine ⟨?_, ?_, rfl, fun _ h => h⟩
  · refine { nodup := G.nodup, isRef := G.isRef, undef := ?_, done := ?_, plain := ?_, noJunk := ?_, free := by simp [hl] }
    · intro i hri hdi
      have hne : i ≠ t.fi := by intro h; subst h; simp [hdef] at hdi
      simpa [upd_other _ _ _ _ hne] using G.undef i hri hdi
    · intro i hri hdi hnp
      have hne : i ≠ t.fi := by intro h; subst h; exact hnp hp
      simpa [upd_other _ _ _ _ hne] using G.done i hri hdi hnp
    · intro i hri
      have hne : i ≠ t.fi := by intro h; subst h; simp [href] at hri
      simpa [upd_other _ _ _ _ hne] using G.plain i hri
    · intro i
      by_cases hne : i = t.fi
      · subst hne; simp [upd_same]
      · simpa [upd_other _ _ _ _ hne] using G.noJunk i
  · refine good_of (t' := { t with pc := .fldOtyQ }) ?_ rfl rfl rfl rfl
    simp only [HInv]
    refine { toBase := F.toBase, exc0 := F.exc0, sub := F.sub, own := F.own, evVal := F.evVal, fty := ?_ }
    intro i hi
    by_cases hne : i = t.fi
    · subst hne
      simp [hrn, upd_same]
    · have : (i < t.fi + 1) = (i < t.fi) := by apply propext; omega
      simpa [this, upd_other _ _ _ _ hne] using F.fty i hi

theorem step_rrfA {W : World} {g : G} {k : Nat} {t : Th} (G : GInv W g) (H : HInv W g t) (hpc : t.pc = .rrfA) :
    StepOK W g (stepTh W false k g t).1 t (stepTh W false k g t).2 := by
  simp only [stepTh, hpc]
  simp only [HInv, hpc] at H
  refine ⟨G, good_of (t' := { t with pc := .rrfB }) ?_ rfl rfl rfl rfl, rfl, fun _ h => h⟩
  simp only [HInv]; exact H

theorem step_rrfB {W : World} {g : G} {k : Nat} {t : Th} (G : GInv W g) (H : HInv W g t) (hpc : t.pc = .rrfB) :
    StepOK W g (stepTh W false k g t).1 t (stepTh W false k g t).2 := by
  simp only [stepTh, hpc]
  simp only [HInv, hpc] at H
  refine ⟨G, good_of (t' := { t with pc := .rrfC }) ?_ rfl rfl rfl rfl, rfl, fun _ h => h⟩
  simp only [HInv]; exact H

theorem step_rrfC {W : World} {g : G} {k : Nat} {t : Th} (G : GInv W g) (H : HInv W g t) (hpc : t.pc = .rrfC) :
    StepOK W g (stepTh W false k g t).1 t (stepTh W false k g t).2 := by
  simp only [stepTh, hpc]
  simp only [HInv, hpc] at H
  refine ⟨G, good_of (t' := { t with pc := .fldOtyQ }) ?_ rfl rfl rfl rfl, rfl, fun _ h => h⟩
  simp only [HInv]; exact H.1.succ H.2

theorem step_fldOtyQ {W : World} {g : G} {k : Nat} {t : Th} (G : GInv W g) (H : HInv W g t) (hpc : t.pc = .fldOtyQ) :
    StepOK W g (stepTh W false k g t).1 t (stepTh W false k g t).2 := by
  simp only [stepTh, hpc]
  simp only [HInv, hpc] at H
  exact ⟨G, fieldAdvance_G (t := { t with fi := t.fi + 1 }) G H, rfl, fun _ h => h⟩

theorem step_addn {W : World} {g : G} {k : Nat} {t : Th} (G : GInv W g) (H : HInv W g t) (hpc : t.pc = .addn) :
    StepOK W g (stepTh W false k g t).1 t (stepTh W false k g t).2 := by
  simp only [stepTh, hpc]
  simp only [HInv, hpc] at H
  exact ⟨G, enterClear_G H, rfl, fun _ h => h⟩

theorem step_clr1 {W : World} {g : G} {k : Nat} {t : Th} (G : GInv W g) (hl : g.lock = some k)
    (H : HInv W g t) (hpc : t.pc = .clr1) :
    StepOK W g (stepTh W false k g t).1 t (stepTh W false k g t).2 := by
  simp only [stepTh, hpc]
  simp only [HInv, hpc] at H
  refine ⟨?_, ?_, rfl, fun _ h => h⟩
  · refine { nodup := G.nodup, isRef := G.isRef, undef := ?_, done := G.done, plain := G.plain, noJunk := G.noJunk,
             free := by simp [hl] }
    intro i hri hdi
    have := G.undef i hri hdi
    refine ⟨this.1, ?_, this.2.2⟩
    show upd g.ev t.cur false i = false
    simp only [upd]; split <;> simp [this.2.1]
  · refine good_of (t' := { t with pc := .clr2 }) ?_ rfl rfl rfl rfl
    simp only [HInv]
    exact { toBase := H.toBase, exc0 := H.exc0, sub := H.sub, own := H.own, fty := H.fty }

theorem step_clr2 {W : World} {g : G} {k : Nat} {t : Th} (G : GInv W g) (hl : g.lock = some k)
    (H : HInv W g t) (hpc : t.pc = .clr2) :
    StepOK W g (stepTh W false k g t).1 t (stepTh W false k g t).2 := by
  simp only [stepTh, hpc]
  simp only [HInv, hpc] at H
  refine ⟨?_, ?_, rfl, fun _ h => h⟩
  · exact { nodup := G.nodup, isRef := G.isRef, undef := G.undef, done := G.done, plain := G.plain,
            noJunk := G.noJunk, free := by simp [hl] }
  · apply clearAdvance_G
    exact { toBase := H.toBase, exc0 := H.exc0, sub := H.sub, own := H.own, fty := H.fty }

theorem step_popd {W : World} {g : G} {k : Nat} {t : Th} (G : GInv W g) (hl : g.lock = some k)
    (H : HInv W g t) (hpc : t.pc = .popd) :
    StepOK W g (stepTh W false k g t).1 t (stepTh W false k g t).2 := by
  simp only [stepTh, hpc]
  simp only [HInv, hpc] at H
  obtain ⟨H, hexc⟩ := H
  have hcur : W.defd t.cur = true := H.rnDef _ (H.sub _ (by simp))
  have hmem : ∀ i, i ∈ g.pending.erase t.cur ↔ i ∈ g.pending ∧ i ≠ t.cur := by
    intro i
    rw [G.nodup.mem_erase_iff]; exact And.comm
  refine ⟨?_, ?_, rfl, fun i hi => ((hmem i).mp hi).1⟩
  · refine { nodup := G.nodup.erase _, isRef := fun i hi => G.isRef i ((hmem i).mp hi).1, undef := ?_, done := ?_,
             plain := G.plain, noJunk := G.noJunk, free := by simp [hl] }
    · intro i hri hdi
      have := G.undef i hri hdi
      refine ⟨(hmem i).mpr ⟨this.1, ?_⟩, this.2⟩
      intro h; subst h; simp [hcur] at hdi
    · intro i hri hdi hnp
      by_cases hp : i ∈ g.pending
      · have hic : i = t.cur := by
          apply Classical.byContradiction; intro hne; exact hnp ((hmem i).mpr ⟨hp, hne⟩)
        subst hic
        have := H.fty _ hp
        simpa [hexc] using this
      · exact G.done i hri hdi hp
  · refine popAdvance_G ?_ (fun _ => hexc)
    show PopF W _ t.rn t.resolved t.clear t.exc t.popIt
    refine { toBase := H.toBase, excSome := H.excSome, sub := fun i hi => H.sub i (by simp [hi]), own := ?_, fty := ?_ }
    · intro he i hi
      obtain ⟨hp, hne⟩ := (hmem i).mp hi
      rcases H.own he i hp with h | h
      · rcases List.mem_cons.mp h with h | h
        · exact absurd h hne
        · exact Or.inl h
      · exact Or.inr h
    · intro i hi
      obtain ⟨hp, hne⟩ := (hmem i).mp hi
      have := H.fty i hp
      simpa [hne] using this

theorem PC.inCS_not_dead {p : PC} (h : p.inCS = true) : p.dead = false := by
  cases p <;> simp_all [PC.inCS, PC.dead]

theorem PInv_of_inCS {W : World} {g : G} {t : Th} (h : t.pc.inCS = true) : PInv W g t := by
  unfold PInv
  split <;> simp_all [PC.inCS]

macro "vi_uses" : tactic => `(tactic| first | rfl | (symm; assumption))

theorem VI.of {t t' : Th} (h : VI t) (e1 : t'.vals = t.vals) (e2 : t'.uses = t.uses) (e3 : t'.calls = t.calls)
    (hp : t'.pc.usesVals = true → t.pc.usesVals = true) (hq : t'.pc.anyVals = false → t.pc.anyVals = false) : VI t' :=
  ⟨fun hu => by rw [e1, e2, e3]; exact h.1 (hp hu), fun ha => by rw [e1]; exact h.2 (hq ha)⟩

theorem inCS_no_vals {p : PC} (h : p.inCS = true) : p.usesVals = false ∧ p.anyVals = false := by
  cases p <;> simp_all [PC.inCS, PC.usesVals, PC.anyVals]

theorem valsOf_cons (u : Use) (us : List Use) : valsOf (u :: us) = (u.fld, Conv.byType) :: valsOf us := rfl

theorem tinv_of_good {W : World} {prog : Nat → List Call} {g g' : G} {k : Nat} {t t' : Th}
    (T : TInv W prog g k t) (hcs : t.pc.inCS = true) (hg : Good W g' t t') (hl : g'.lock = g.lock) :
    TInv W prog g' k t' := by
  obtain ⟨h1, h2, h3, h4, h5, h6, h7⟩ := hg
  have hne : t.calls ≠ [] := T.callNe (by intro h; simp [h, PC.inCS] at hcs) (by intro h; simp [h, PC.inCS] at hcs)
  have hv0 : t.vals = [] := T.valsI.2 (inCS_no_vals hcs).2
  refine { vhist := by rw [h3, h7]; exact T.vhist,
           valsI := ⟨fun hu => by simp [(inCS_no_vals h2).1] at hu, fun _ => by rw [h6]; exact hv0⟩,
           alive := PC.inCS_not_dead h2, wrongF := by rw [h5]; exact T.wrongF, hist := by rw [h3, h4]; exact T.hist,
           callNe := fun _ _ => by rw [h3]; exact hne, finE := ?_, lockI := ?_, hinv := h1, pinv := PInv_of_inCS h2 }
  · intro h; simp [h, PC.inCS] at h2
  · rw [hl]; simp only [h2, true_iff]; exact T.lockI.mp hcs

theorem tinv_endCall {W : World} {prog : Nat → List Call} {g : G} {k : Nat} {t : Th} (o : Outcome)
    (hist : t.outs ++ t.calls.map (alone W) = (prog k).map (alone W)) (hne : t.calls ≠ [])
    (ho : o = target W t) (hl : g.lock ≠ some k)
    (vh : t.vouts ++ t.calls.map (aloneVals W) = (prog k).map (aloneVals W))
    (hv : o = .ok → t.vals = valsOf (t.calls.headD [])) : TInv W prog g k (endCall t o) := by
  obtain ⟨c, cs, hc⟩ := List.exists_cons_of_ne_nil hne
  have htg : target W t = alone W c := by simp [target, hc]
  have hvo : (if o = Outcome.ok then t.vals else []) = aloneVals W c := by
    unfold aloneVals
    rw [← htg, ← ho]
    split
    · rename_i h; rw [hv h, hc]; rfl
    · rfl
  unfold endCall
  cases hcs : cs with
  | nil =>
    simp only [hc, hcs, List.tail_cons, List.isEmpty_nil, if_true]
    refine { vhist := ?_, valsI := ⟨by simp [PC.usesVals], fun _ => rfl⟩,
             alive := rfl, wrongF := rfl, hist := ?_, callNe := by simp, finE := by simp, lockI := ?_, hinv := trivial, pinv := trivial }
    · rw [← vh, hc, hcs, hvo]; simp
    · rw [← hist, hc, hcs, ho, htg]; simp
    · simp [PC.inCS, hl]
  | cons c' cs' =>
    simp only [hc, hcs, List.tail_cons, List.isEmpty_cons, Bool.false_eq_true, if_false]
    refine { vhist := ?_, valsI := ⟨by simp [PC.usesVals], fun _ => rfl⟩,
             alive := rfl, wrongF := rfl, hist := ?_, callNe := by simp, finE := by simp, lockI := ?_, hinv := trivial, pinv := trivial }
    · rw [← vh, hc, hcs, hvo]; simp
    · rw [← hist, hc, hcs, ho, htg]; simp
    · simp [PC.inCS, hl]

theorem tinv_parseNext {W : World} {prog : Nat → List Call} {g : G} {k : Nat} {t : Th}
    (R : Resolved W g) (hw : t.wrongF = false)
    (hist : t.outs ++ t.calls.map (alone W) = (prog k).map (alone W)) (hne : t.calls ≠ [])
    (hu : parseOutcome W t.uses = target W t) (hl : g.lock ≠ some k)
    (vh : t.vouts ++ t.calls.map (aloneVals W) = (prog k).map (aloneVals W))
    (hvals : t.vals ++ valsOf t.uses = valsOf (t.calls.headD [])) : TInv W prog g k (parseNext t) := by
  unfold parseNext
  split
  · rename_i h0
    rw [hw]
    refine tinv_endCall _ hist hne ?_ hl vh ?_
    · rw [← hu, h0]; rfl
    · intro _; rw [← hvals, h0]; simp [valsOf]
  · rename_i u us h0
    refine { vhist := vh, valsI := ⟨fun _ => hvals, by simp [PC.anyVals, PC.usesVals]⟩, alive := rfl, wrongF := hw, hist := hist, callNe := fun _ _ => hne, finE := by simp, lockI := ?_, hinv := trivial, pinv := ?_ }
    · simp [PC.inCS, hl]
    · simp only [PInv]
      exact ⟨R, by simp [h0], hu⟩

theorem tinv_startParse {W : World} {prog : Nat → List Call} {g : G} {k : Nat} {t : Th} (GI : GInv W g)
    (R : Resolved W g) (hw : t.wrongF = false)
    (hist : t.outs ++ t.calls.map (alone W) = (prog k).map (alone W)) (hne : t.calls ≠ [])
    (hl : g.lock ≠ some k)
    (vh : t.vouts ++ t.calls.map (aloneVals W) = (prog k).map (aloneVals W)) (hv0 : t.vals = []) :
    TInv W prog g k (startParse t) := by
  unfold startParse
  refine tinv_parseNext (t := { t with uses := t.calls.headD [] }) R hw hist hne ?_ hl vh (by simp [hv0])
  simp only [target]
  exact (alone_resolved GI R _).symm

theorem tinv_nextUse {W : World} {prog : Nat → List Call} {g : G} {k : Nat} {t : Th} {u : Use} {us : List Use}
    (R : Resolved W g) (hw : t.wrongF = false)
    (hist : t.outs ++ t.calls.map (alone W) = (prog k).map (alone W)) (hne : t.calls ≠ [])
    (h0 : t.uses = u :: us) (hf : fails W u = false)
    (hu : parseOutcome W t.uses = target W t) (hl : g.lock ≠ some k)
    (vh : t.vouts ++ t.calls.map (aloneVals W) = (prog k).map (aloneVals W))
    (hvals : t.vals ++ valsOf t.uses = valsOf (t.calls.headD [])) : TInv W prog g k (nextUse t) := by
  unfold nextUse
  refine tinv_parseNext
    (t := { t with uses := t.uses.tail, vals := t.vals ++ (t.uses.head?.map fun u => (u.fld, Conv.byType)).toList })
    R hw hist hne ?_ hl vh ?_
  · rw [h0] at hu
    simp only [parseOutcome, hf] at hu
    simpa [h0, target] using hu
  · rw [h0, valsOf_cons] at hvals
    simpa [h0] using hvals


/-- what one step of thread `k` guarantees -/
structure ThreadOK (W : World) (prog : Nat → List Call) (g g' : G) (k : Nat) (t' : Th) : Prop where
  ginv  : GInv W g'
  tinv  : TInv W prog g' k t'
  pend  : ∀ i ∈ g'.pending, i ∈ g.pending
  frame : g' = g ∨ ((g.lock = some k ∨ g.lock = none) ∧ (g'.lock = some k ∨ g'.lock = none))

theorem threadOK_of_stepOK {W : World} {prog : Nat → List Call} {g g' : G} {k : Nat} {t t' : Th}
    (T : TInv W prog g k t) (hcs : t.pc.inCS = true) (S : StepOK W g g' t t') : ThreadOK W prog g g' k t' := by
  have hl := T.lockI.mp hcs
  exact ⟨S.ginv, tinv_of_good T hcs S.good S.lock, S.pend, Or.inr ⟨Or.inl hl, Or.inl (by rw [S.lock]; exact hl)⟩⟩

theorem fails_of_undef {W : World} {u : Use} (h1 : W.ref u.fld = true) (h2 : W.defd u.fld = false) : fails W u = true := by
  simp [fails, h1, h2]

theorem resolved_not_stuck {W : World} {g : G} (GI : GInv W g) (R : Resolved W g) :
    ¬ (W.isFn = false ∧ undefinedRef W = true) := by
  rintro ⟨hf, hu⟩
  obtain ⟨i, hr, hd⟩ := undefinedRef_ex hu
  have := (R i (GI.undef i hr hd).1).2
  simp [hf] at this

/-- the type a parsing thread reads for a field whose name exists is the rewritten one -/
theorem resolved_fty {W : World} {g : G} (GI : GInv W g) (R : Resolved W g) {i : Nat}
    (hr : W.ref i = true) (hd : W.defd i = true) : g.fty i = .res .parsed := by
  have hnp : i ∉ g.pending := by
    intro hp; have := (R i hp).1; simp [hd] at this
  exact GI.done i hr hd hnp

theorem step_unlock {W : World} {prog : Nat → List Call} {g : G} {k : Nat} {t : Th} (GI : GInv W g)
    (T : TInv W prog g k t) (hpc : t.pc = .unlock) :
    ThreadOK W prog g (stepTh W false k g t).1 k (stepTh W false k g t).2 := by
  have hcs : t.pc.inCS = true := by simp [hpc, PC.inCS]
  have hl := T.lockI.mp hcs
  have hne : t.calls ≠ [] := T.callNe (by simp [hpc]) (by simp [hpc])
  have H := T.hinv
  simp only [HInv, hpc] at H
  simp only [stepTh, hpc]
  have GI' : GInv W { g with lock := none } := by
    refine { nodup := GI.nodup, isRef := GI.isRef, undef := GI.undef, done := GI.done, plain := GI.plain,
             noJunk := GI.noJunk, free := ?_ }
    intro _ i hi
    simpa using H.fty i hi
  refine ⟨GI', ?_, fun _ h => h, Or.inr ⟨Or.inl hl, Or.inr rfl⟩⟩
  have hl' : ({ g with lock := none } : Utv.C20.G).lock ≠ some k := by simp
  unfold leaveResolve
  cases he : t.exc with
  | some e =>
    simp only
    obtain ⟨h1, h2, h3⟩ := H.excSome e he
    refine tinv_endCall _ T.hist hne ?_ hl' T.vhist ?_
    · rw [h1, target, alone_stuck h2 h3]
    · intro h; rw [h1] at h; cases h
  | none =>
    simp only
    have R : Resolved W { g with lock := none } := by
      intro i hi
      rcases H.own he i hi with h | h
      · simp at h
      · exact h
    split
    · refine { vhist := T.vhist, valsI := T.valsI.of rfl (by vi_uses) rfl (by simp [hpc, PC.usesVals]) (by simp [hpc, PC.usesVals, PC.anyVals]),
                                        alive := rfl, wrongF := T.wrongF, hist := T.hist, callNe := fun _ _ => hne, finE := by simp,
               lockI := by simp [PC.inCS], hinv := trivial, pinv := ?_ }
      simp only [PInv]; exact R
    · exact tinv_startParse GI' R T.wrongF T.hist hne hl' T.vhist (T.valsI.2 (by simp [hpc, PC.anyVals, PC.usesVals]))

theorem step_chk {W : World} {prog : Nat → List Call} {g : G} {k : Nat} {t : Th} (GI : GInv W g)
    (T : TInv W prog g k t) (hpc : t.pc = .chkBase ∨ t.pc = .chk) :
    ThreadOK W prog g (stepChk false g t).1 k (stepChk false g t).2 := by
  have hcs : t.pc.inCS = false := by rcases hpc with h | h <;> simp [h, PC.inCS]
  have hl : g.lock ≠ some k := by
    intro hl; have := T.lockI.mpr hl; simp [hcs] at this
  have hne : t.calls ≠ [] := T.callNe (by rcases hpc with h | h <;> simp [h]) (by rcases hpc with h | h <;> simp [h])
  have same : ∀ t', TInv W prog g k t' → ThreadOK W prog g g k t' :=
    fun t' h => ⟨GI, h, fun _ h => h, Or.inl rfl⟩
  have hv0 : t.vals = [] := T.valsI.2 (by rcases hpc with h | h <;> simp [h, PC.anyVals, PC.usesVals])
  unfold stepChk
  split
  · rename_i he
    apply same
    have R : Resolved W g := by
      intro i hi
      have : g.pending = [] := by simpa using he
      simp [this] at hi
    exact tinv_startParse GI R T.wrongF T.hist hne hl T.vhist hv0
  · apply same
    simp only [Bool.false_eq_true, if_false]
    refine { vhist := T.vhist, valsI := ⟨by simp [PC.usesVals], fun _ => hv0⟩,
                                        alive := rfl, wrongF := T.wrongF, hist := T.hist, callNe := fun _ _ => hne, finE := by simp,
             lockI := by simp [PC.inCS, hl], hinv := ?_, pinv := trivial }
    simp [HInv]

theorem step_thread {W : World} {prog : Nat → List Call} {g : G} {k : Nat} {t : Th} (GI : GInv W g)
    (T : TInv W prog g k t) :
    ThreadOK W prog g (stepTh W false k g t).1 k (stepTh W false k g t).2 := by
  have hcsl : t.pc.inCS = true → g.lock = some k := T.lockI.mp
  have hncs : t.pc.inCS = false → g.lock ≠ some k := by
    intro h hl; have := T.lockI.mpr hl; simp [h] at this
  have H := T.hinv
  have P := T.pinv
  have same : ∀ t', TInv W prog g k t' → ThreadOK W prog g g k t' :=
    fun t' h => ⟨GI, h, fun _ h => h, Or.inl rfl⟩
  cases hpc : t.pc with
  | start =>
    simp only [stepTh, hpc]
    apply same
    have hl := hncs (by simp [hpc, PC.inCS])
    by_cases he : t.calls.isEmpty = true
    · simp only [he, if_true]
      have hc : t.calls = [] := by simpa using he
      exact { vhist := T.vhist, valsI := T.valsI.of rfl (by vi_uses) rfl (by simp [hpc, PC.usesVals]) (by simp [hpc, PC.usesVals, PC.anyVals]),
                                        alive := rfl, wrongF := T.wrongF, hist := T.hist, callNe := by simp, finE := fun _ => hc,
              lockI := by simp [PC.inCS, hl], hinv := trivial, pinv := trivial }
    · simp only [he]
      have hc : t.calls ≠ [] := by simpa using he
      exact { vhist := T.vhist, valsI := T.valsI.of rfl (by vi_uses) rfl (by simp [hpc, PC.usesVals]) (by simp [hpc, PC.usesVals, PC.anyVals]),
                                        alive := rfl, wrongF := T.wrongF, hist := T.hist, callNe := fun _ _ => hc, finE := by simp,
              lockI := by simp [PC.inCS, hl], hinv := trivial, pinv := trivial }
  | chk =>
    simp only [stepTh, hpc]
    exact step_chk GI T (Or.inr hpc)
  | chkBase =>
    simp only [stepTh, hpc]
    split
    · exact step_chk GI T (Or.inl hpc)
    · apply same
      have hl := hncs (by simp [hpc, PC.inCS])
      have hne : t.calls ≠ [] := T.callNe (by simp [hpc]) (by simp [hpc])
      exact { vhist := T.vhist, valsI := T.valsI.of rfl (by vi_uses) rfl (by simp [hpc, PC.usesVals]) (by simp [hpc, PC.usesVals, PC.anyVals]),
                                        alive := rfl, wrongF := T.wrongF, hist := T.hist, callNe := fun _ _ => hne, finE := by simp,
              lockI := by simp [PC.inCS, hl], hinv := trivial, pinv := trivial }
  | lock =>
    simp only [stepTh, hpc]
    have hne : t.calls ≠ [] := T.callNe (by simp [hpc]) (by simp [hpc])
    simp only [HInv, hpc] at H
    cases hlk : g.lock with
    | some o =>
      simp only
      apply same
      have : t = t := rfl
      exact T
    | none =>
      simp only
      refine ⟨?_, ?_, fun _ h => h, Or.inr ⟨Or.inr hlk, Or.inl rfl⟩⟩
      · exact { nodup := GI.nodup, isRef := GI.isRef, undef := GI.undef, done := GI.done, plain := GI.plain,
                noJunk := GI.noJunk, free := by simp }
      · refine { vhist := T.vhist, valsI := T.valsI.of rfl (by vi_uses) rfl (by simp [hpc, PC.usesVals]) (by simp [hpc, PC.usesVals, PC.anyVals]),
                                        alive := rfl, wrongF := T.wrongF, hist := T.hist, callNe := fun _ _ => hne, finE := by simp,
                 lockI := by simp [PC.inCS], hinv := ?_, pinv := trivial }
        simp only [HInv]
        exact ⟨H.1, H.2.1, H.2.2.1, H.2.2.2, GI.free hlk⟩
  | list => exact threadOK_of_stepOK T (by simp [hpc, PC.inCS]) (step_list GI H hpc)
  | next => exact threadOK_of_stepOK T (by simp [hpc, PC.inCS]) (step_next GI H hpc)
  | get => exact threadOK_of_stepOK T (by simp [hpc, PC.inCS]) (step_get GI H hpc)
  | eval => exact threadOK_of_stepOK T (by simp [hpc, PC.inCS]) (step_eval GI (hcsl (by simp [hpc, PC.inCS])) H hpc)
  | isev => exact threadOK_of_stepOK T (by simp [hpc, PC.inCS]) (step_isev GI H hpc)
  | rdval => exact threadOK_of_stepOK T (by simp [hpc, PC.inCS]) (step_rdval GI H hpc)
  | wrA => exact threadOK_of_stepOK T (by simp [hpc, PC.inCS]) (step_wrA GI H hpc)
  | wrB => exact threadOK_of_stepOK T (by simp [hpc, PC.inCS]) (step_wrB GI (hcsl (by simp [hpc, PC.inCS])) H hpc)
  | fldTyQ => exact threadOK_of_stepOK T (by simp [hpc, PC.inCS]) (step_fldTyQ GI H hpc)
  | fldTy => exact threadOK_of_stepOK T (by simp [hpc, PC.inCS]) (step_fldTy GI H hpc)
  | rftIsev => exact threadOK_of_stepOK T (by simp [hpc, PC.inCS]) (step_rftIsev GI H hpc)
  | rftRdval => exact threadOK_of_stepOK T (by simp [hpc, PC.inCS]) (step_rftRdval GI (hcsl (by simp [hpc, PC.inCS])) H hpc)
  | rrfA => exact threadOK_of_stepOK T (by simp [hpc, PC.inCS]) (step_rrfA GI H hpc)
  | rrfB => exact threadOK_of_stepOK T (by simp [hpc, PC.inCS]) (step_rrfB GI H hpc)
  | rrfC => exact threadOK_of_stepOK T (by simp [hpc, PC.inCS]) (step_rrfC GI H hpc)
  | fldOtyQ => exact threadOK_of_stepOK T (by simp [hpc, PC.inCS]) (step_fldOtyQ GI H hpc)
  | addn => exact threadOK_of_stepOK T (by simp [hpc, PC.inCS]) (step_addn GI H hpc)
  | clr1 => exact threadOK_of_stepOK T (by simp [hpc, PC.inCS]) (step_clr1 GI (hcsl (by simp [hpc, PC.inCS])) H hpc)
  | clr2 => exact threadOK_of_stepOK T (by simp [hpc, PC.inCS]) (step_clr2 GI (hcsl (by simp [hpc, PC.inCS])) H hpc)
  | popd => exact threadOK_of_stepOK T (by simp [hpc, PC.inCS]) (step_popd GI (hcsl (by simp [hpc, PC.inCS])) H hpc)
  | unlock => exact step_unlock GI T hpc
  | wrcA => have := T.alive; simp [hpc, PC.dead] at this
  | wrcArg => have := T.alive; simp [hpc, PC.dead] at this
  | wrcB => have := T.alive; simp [hpc, PC.dead] at this
  | pop => have := T.alive; simp [hpc, PC.dead] at this
  | stuck => have := T.alive; simp [hpc, PC.dead] at this
  | tcRdval => have := T.alive; simp [hpc, PC.dead] at this
  | fin =>
    simp only [stepTh, hpc]
    exact same _ T
  | frfPos =>
    simp only [stepTh, hpc]
    apply same
    have hl := hncs (by simp [hpc, PC.inCS])
    have hne : t.calls ≠ [] := T.callNe (by simp [hpc]) (by simp [hpc])
    simp only [PInv, hpc] at P
    refine { vhist := T.vhist, valsI := T.valsI.of rfl (by vi_uses) rfl (by simp [hpc, PC.usesVals]) (by simp [hpc, PC.usesVals, PC.anyVals]),
                                        alive := rfl, wrongF := T.wrongF, hist := T.hist, callNe := fun _ _ => hne, finE := by simp,
             lockI := by simp [PC.inCS, hl], hinv := trivial, pinv := ?_ }
    simp only [PInv]; exact P
  | frfRet =>
    simp only [stepTh, hpc]
    apply same
    have hl := hncs (by simp [hpc, PC.inCS])
    have hne : t.calls ≠ [] := T.callNe (by simp [hpc]) (by simp [hpc])
    simp only [PInv, hpc] at P
    exact tinv_startParse GI P T.wrongF T.hist hne hl T.vhist (T.valsI.2 (by simp [hpc, PC.anyVals, PC.usesVals]))
  | pvErr =>
    simp only [stepTh, hpc]
    apply same
    have hl := hncs (by simp [hpc, PC.inCS])
    have hne : t.calls ≠ [] := T.callNe (by simp [hpc]) (by simp [hpc])
    simp only [PInv, hpc] at P
    exact tinv_endCall _ T.hist hne P.2.symm hl T.vhist (by intro h; cases h)
  | nestedErr =>
    simp only [stepTh, hpc]
    apply same
    have hl := hncs (by simp [hpc, PC.inCS])
    have hne : t.calls ≠ [] := T.callNe (by simp [hpc]) (by simp [hpc])
    simp only [PInv, hpc] at P
    refine { vhist := T.vhist, valsI := T.valsI.of rfl (by vi_uses) rfl (by simp [hpc, PC.usesVals]) (by simp [hpc, PC.usesVals, PC.anyVals]),
                                        alive := rfl, wrongF := T.wrongF, hist := T.hist, callNe := fun _ _ => hne, finE := by simp,
             lockI := by simp [PC.inCS, hl], hinv := trivial, pinv := ?_ }
    simp only [PInv]; exact P
  | tcIsev =>
    have hl := hncs (by simp [hpc, PC.inCS])
    have hne : t.calls ≠ [] := T.callNe (by simp [hpc]) (by simp [hpc])
    simp only [PInv, hpc] at P
    obtain ⟨R, hu, u, us, h0, hr, hd⟩ := P
    simp only [stepTh, hpc, h0]
    apply same
    have hev := (GI.undef _ hr hd).2.1
    simp only [hev, Bool.false_eq_true, if_false]
    refine { vhist := T.vhist, valsI := T.valsI.of rfl (by vi_uses) rfl (by simp [hpc, PC.usesVals]) (by simp [hpc, PC.usesVals, PC.anyVals]),
                                        alive := rfl, wrongF := T.wrongF, hist := T.hist, callNe := fun _ _ => hne, finE := by simp,
             lockI := by simp [PC.inCS, hl], hinv := trivial, pinv := ?_ }
    simp only [PInv]
    refine ⟨R, ?_⟩
    show target W t = .perr
    rw [← hu, h0]
    simp [parseOutcome, fails_of_undef hr hd]
  | nested =>
    have hl := hncs (by simp [hpc, PC.inCS])
    have hne : t.calls ≠ [] := T.callNe (by simp [hpc]) (by simp [hpc])
    simp only [PInv, hpc] at P
    obtain ⟨R, hu, u, us, h0, hrd⟩ := P
    simp only [stepTh, hpc, h0]
    apply same
    refine { vhist := T.vhist, valsI := T.valsI.of rfl (by vi_uses) rfl (by simp [hpc, PC.usesVals]) (by simp [hpc, PC.usesVals, PC.anyVals]),
                                        alive := rfl, wrongF := T.wrongF, hist := T.hist, callNe := fun _ _ => hne, finE := by simp,
             lockI := by simp [PC.inCS, hl], hinv := trivial, pinv := ?_ }
    simp only [PInv]
    refine ⟨R, ?_, u, us, rfl, hrd⟩
    show parseOutcome W (u :: us) = target W t
    rw [← h0]; exact hu
  | nested2 =>
    have hl := hncs (by simp [hpc, PC.inCS])
    have hne : t.calls ≠ [] := T.callNe (by simp [hpc]) (by simp [hpc])
    simp only [PInv, hpc] at P
    obtain ⟨R, hu, u, us, h0, hrd⟩ := P
    simp only [stepTh, hpc, h0]
    apply same
    refine { vhist := T.vhist, valsI := T.valsI.of rfl (by vi_uses) rfl (by simp [hpc, PC.usesVals]) (by simp [hpc, PC.usesVals, PC.anyVals]),
                                        alive := rfl, wrongF := T.wrongF, hist := T.hist, callNe := fun _ _ => hne, finE := by simp,
             lockI := by simp [PC.inCS, hl], hinv := trivial, pinv := ?_ }
    simp only [PInv]
    refine ⟨R, ?_, u, us, rfl, hrd⟩
    show parseOutcome W (u :: us) = target W t
    rw [← h0]; exact hu
  | nestedPv =>
    have hl := hncs (by simp [hpc, PC.inCS])
    have hne : t.calls ≠ [] := T.callNe (by simp [hpc]) (by simp [hpc])
    simp only [PInv, hpc] at P
    obtain ⟨R, hu, u, us, h0, hrd⟩ := P
    simp only [stepTh, hpc, h0]
    apply same
    cases hb : u.bad with
    | true =>
      simp only [if_true]
      refine { vhist := T.vhist, valsI := T.valsI.of rfl (by vi_uses) rfl (by simp [hpc, PC.usesVals]) (by simp [hpc, PC.usesVals, PC.anyVals]),
                                        alive := rfl, wrongF := T.wrongF, hist := T.hist, callNe := fun _ _ => hne, finE := by simp,
               lockI := by simp [PC.inCS, hl], hinv := trivial, pinv := ?_ }
      simp only [PInv]
      refine ⟨R, ?_⟩
      show target W t = .perr
      rw [← hu, h0]
      simp [parseOutcome, fails, hb]
    | false =>
      simp only [Bool.false_eq_true, if_false]
      refine tinv_nextUse R T.wrongF T.hist hne h0 ?_ hu hl T.vhist (T.valsI.1 (by simp [hpc, PC.usesVals]))
      simp only [fails, hb, Bool.false_or, Bool.and_eq_false_iff, Bool.not_eq_false']
      cases hr : W.ref u.fld with
      | false => exact Or.inl rfl
      | true => exact Or.inr (hrd hr)
  | pv =>
    have hl := hncs (by simp [hpc, PC.inCS])
    have hne : t.calls ≠ [] := T.callNe (by simp [hpc]) (by simp [hpc])
    simp only [PInv, hpc] at P
    obtain ⟨R, hun, hu⟩ := P
    obtain ⟨u, us, h0⟩ := List.exists_cons_of_ne_nil hun
    simp only [stepTh, hpc, h0]
    have hu' : parseOutcome W (u :: us) = target W t := by rw [← h0]; exact hu
    cases hf : g.fty u.fld with
    | ref =>
      simp only
      apply same
      have hr : W.ref u.fld = true := by
        cases h : W.ref u.fld with
        | true => rfl
        | false => have := GI.plain _ h; rw [hf] at this; cases this
      have hd : W.defd u.fld = false := by
        cases h : W.defd u.fld with
        | false => rfl
        | true => have := resolved_fty GI R hr h; rw [hf] at this; cases this
      refine { vhist := T.vhist, valsI := T.valsI.of rfl (by vi_uses) rfl (by simp [hpc, PC.usesVals]) (by simp [hpc, PC.usesVals, PC.anyVals]),
                                        alive := rfl, wrongF := T.wrongF, hist := T.hist, callNe := fun _ _ => hne, finE := by simp,
               lockI := by simp [PC.inCS, hl], hinv := trivial, pinv := ?_ }
      simp only [PInv]
      exact ⟨R, hu', u, us, rfl, hr, hd⟩
    | res v =>
      simp only
      apply same
      unfold afterType
      cases hr : W.ref u.fld with
      | false =>
        simp only [Bool.not_false, if_true]
        cases hb : u.bad with
        | true =>
          simp only [if_true]
          refine { vhist := T.vhist, valsI := T.valsI.of rfl (by vi_uses) rfl (by simp [hpc, PC.usesVals]) (by simp [hpc, PC.usesVals, PC.anyVals]),
                                        alive := rfl, wrongF := T.wrongF, hist := T.hist, callNe := fun _ _ => hne, finE := by simp,
                   lockI := by simp [PC.inCS, hl], hinv := trivial, pinv := ?_ }
          simp only [PInv]
          refine ⟨R, ?_⟩
          show target W t = .perr
          rw [← hu']
          simp [parseOutcome, fails, hb]
        | false =>
          simp only [Bool.false_eq_true, if_false]
          exact tinv_nextUse R T.wrongF T.hist hne h0 (by simp [fails, hb, hr]) hu hl T.vhist (T.valsI.1 (by simp [hpc, PC.usesVals]))
      | true =>
        have hd : W.defd u.fld = true := by
          cases h : W.defd u.fld with
          | true => rfl
          | false => have := (GI.undef _ hr h).2.2; rw [hf] at this; cases this
        have hv : v = .parsed := by
          have := resolved_fty GI R hr hd; rw [hf] at this; cases this; rfl
        subst hv
        simp only [Bool.not_true, Bool.false_eq_true, if_false]
        refine { vhist := T.vhist, valsI := T.valsI.of rfl (by vi_uses) rfl (by simp [hpc, PC.usesVals]) (by simp [hpc, PC.usesVals, PC.anyVals]),
                                        alive := rfl, wrongF := T.wrongF, hist := T.hist, callNe := fun _ _ => hne, finE := by simp,
                 lockI := by simp [PC.inCS, hl], hinv := trivial, pinv := ?_ }
        simp only [PInv]
        exact ⟨R, hu, u, us, h0, fun _ => hd⟩

theorem Resolved.mono {W : World} {g g' : G} (R : Resolved W g) (h : ∀ i ∈ g'.pending, i ∈ g.pending) :
    Resolved W g' := fun i hi => R i (h i hi)

theorem tinv_frame {W : World} {prog : Nat → List Call} {g g' : G} {j : Nat} {h : Th}
    (T : TInv W prog g j h) (hlock : h.pc.inCS = true ↔ g'.lock = some j)
    (hsame : h.pc.inCS = true → g' = g) (hpend : ∀ i ∈ g'.pending, i ∈ g.pending) : TInv W prog g' j h := by
  refine { vhist := T.vhist, valsI := T.valsI, alive := T.alive, wrongF := T.wrongF, hist := T.hist,
           callNe := T.callNe, finE := T.finE, lockI := hlock, hinv := ?_, pinv := ?_ }
  · by_cases hcs : h.pc.inCS = true
    · rw [hsame hcs]; exact T.hinv
    · have H := T.hinv
      cases hpc : h.pc <;> simp only [HInv, hpc, PC.inCS] at hcs H ⊢ <;> first | exact H | exact absurd rfl hcs | trivial
  · have P := T.pinv
    cases hpc : h.pc <;> simp only [PInv, hpc] at P ⊢ <;> first
      | trivial
      | exact P
      | exact P.mono hpend
      | exact ⟨P.1.mono hpend, P.2⟩

theorem inv_step {W : World} {prog : Nat → List Call} {s : Sys} (k : Nat) (I : Inv W prog s) :
    Inv W prog (s.step W false k) := by
  have OK := step_thread I.ginv (I.tinv k)
  refine ⟨OK.ginv, ?_⟩
  intro j
  by_cases hj : j = k
  · subst hj
    simpa [Sys.step] using OK.tinv
  · have Tj := I.tinv j
    simp only [Sys.step, hj, if_false]
    rcases OK.frame with h | ⟨h1, h2⟩
    · exact tinv_frame Tj (by rw [h]; exact Tj.lockI) (fun _ => h) OK.pend
    · have hncs : (s.th j).pc.inCS = false := by
        cases hc : (s.th j).pc.inCS with
        | false => rfl
        | true =>
          have := Tj.lockI.mp hc
          rcases h1 with h1 | h1 <;> rw [h1] at this <;> simp at this
          exact absurd this.symm hj
      refine tinv_frame Tj ?_ (by simp [hncs]) OK.pend
      simp only [hncs, Bool.false_eq_true, false_iff]
      intro h
      rcases h2 with h2 | h2 <;> rw [h2] at h <;> simp at h
      exact hj h.symm

theorem inv_init (W : World) (prog : Nat → List Call) : Inv W prog (init W prog) := by
  refine ⟨?_, ?_⟩
  · refine { nodup := ?_, isRef := ?_, undef := ?_, done := ?_, plain := ?_, noJunk := ?_, free := ?_ }
    · exact List.nodup_range.sublist List.filter_sublist
    · intro i hi
      simp only [init, G.init, List.mem_filter, List.mem_range] at hi
      simp [World.ref, hi.1, hi.2]
    · intro i hr hd
      simp only [World.ref, Bool.and_eq_true, decide_eq_true_eq] at hr
      simp [init, G.init, World.ref, hr.1, hr.2]
    · intro i hr hd hnp
      simp only [World.ref, Bool.and_eq_true, decide_eq_true_eq] at hr
      simp [init, G.init, hr.1, hr.2] at hnp
    · intro i hr; simp [init, G.init, hr]
    · intro i; simp only [init, G.init]; split <;> simp
    · intro _ i hi
      simp only [init, G.init, List.mem_filter, List.mem_range] at hi
      simp [init, G.init, World.ref, hi.1, hi.2]
  · intro k
    exact { vhist := by simp [init], valsI := ⟨by simp [init, PC.usesVals], fun _ => rfl⟩,
            alive := rfl, wrongF := rfl, hist := by simp [init], callNe := by simp [init], finE := by simp [init],
            lockI := by simp [init, G.init, PC.inCS], hinv := trivial, pinv := trivial }

theorem inv_run {W : World} {prog : Nat → List Call} (sched : List Nat) :
    ∀ {s : Sys}, Inv W prog s → Inv W prog (run W false s sched) := by
  induction sched with
  | nil => intro s I; exact I
  | cons k ks ih => intro s I; exact ih (inv_step k I)

theorem inv_reachable (W : World) (prog : Nat → List Call) (sched : List Nat) :
    Inv W prog (run W false (init W prog) sched) := inv_run sched (inv_init W prog)


/-- names are only ever taken off the list -/
theorem run_pending_mono {W : World} {prog : Nat → List Call} (sched : List Nat) :
    ∀ {s : Sys}, Inv W prog s → ∀ i ∈ (run W false s sched).g.pending, i ∈ s.g.pending := by
  induction sched with
  | nil => intro s _ i hi; exact hi
  | cons k ks ih =>
    intro s I i hi
    have h1 := ih (inv_step k I) i hi
    exact (step_thread I.ginv (I.tinv k)).pend i (by simpa [Sys.step] using h1)

theorem run_append (W : World) (lg : Bool) (s : Sys) (a b : List Nat) :
    run W lg s (a ++ b) = run W lg (run W lg s a) b := by
  simp [run, List.foldl_append]

end Utv.C20
