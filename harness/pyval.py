"""Canonical encoding of Python values <-> JSON (the line protocol shared with lean/Utv/Util/PyJson.lean)."""
from __future__ import annotations

import json
import math
from decimal import Decimal

CLS = {type(None): "NoneType", bool: "bool", int: "int", float: "float", Decimal: "Decimal", str: "str",
       list: "list", tuple: "tuple", set: "set", frozenset: "frozenset"}
CLS_BY_NAME = {v: k for k, v in CLS.items()}


def enc_float(f: float):
    if math.isnan(f):
        return "nan"
    if math.isinf(f):
        return "inf" if f > 0 else "-inf"
    m, den = f.as_integer_ratio()
    e = -(den.bit_length() - 1)
    # canonical: odd mantissa (or zero)
    while m != 0 and m % 2 == 0:
        m //= 2
        e += 1
    if m == 0:
        e = 0
    return [str(m), str(e)]


def dec_float(j) -> float:
    if j == "nan":
        return float("nan")
    if j == "inf":
        return float("inf")
    if j == "-inf":
        return float("-inf")
    m, e = int(j[0]), int(j[1])
    return math.ldexp(m, e) if abs(m) < 2 ** 60 else float(m) * (2.0 ** e)


def enc_dec(d: Decimal):
    sign, digits, exp = d.as_tuple()
    if exp == "F":
        return "-inf" if sign else "inf"
    if exp == "n":
        return "nan"
    if exp == "N":
        return "snan"
    return [str(sign), str(int("".join(map(str, digits)) or "0")), str(exp)]


def dec_dec(j) -> Decimal:
    if isinstance(j, str):
        return Decimal({"inf": "Infinity", "-inf": "-Infinity", "nan": "NaN", "snan": "sNaN"}[j])
    s, c, e = int(j[0]), int(j[1]), int(j[2])
    return Decimal((s, tuple(int(ch) for ch in str(c)), e))


def encode(v):
    if v is None:
        return None
    t = type(v)
    if t is bool:
        return v
    if t is int:
        return {"i": str(v)}
    if t is float:
        return {"f": enc_float(v)}
    if t is Decimal:
        return {"d": enc_dec(v)}
    if t is str:
        return {"s": v}
    if t is list:
        return {"l": [encode(x) for x in v]}
    if t is tuple:
        return {"t": [encode(x) for x in v]}
    if t in (set, frozenset):
        items = sorted((encode(x) for x in v), key=lambda x: json.dumps(x, sort_keys=True))
        return {"S" if t is set else "F": items}
    if isinstance(v, type) and v in CLS:
        return {"c": CLS[v]}
    # subclasses of the builtins and everything else are opaque to the codec
    return {"o": 0, "repr": f"{type(v).__name__}"}


def decode(j):
    if j is None or isinstance(j, bool):
        return j
    if "i" in j:
        return int(j["i"])
    if "f" in j:
        return dec_float(j["f"])
    if "d" in j:
        return dec_dec(j["d"])
    if "s" in j:
        return j["s"]
    if "l" in j:
        return [decode(x) for x in j["l"]]
    if "t" in j:
        return tuple(decode(x) for x in j["t"])
    if "S" in j:
        return {decode(x) for x in j["S"]}
    if "F" in j:
        return frozenset(decode(x) for x in j["F"])
    if "c" in j:
        return CLS_BY_NAME[j["c"]]
    return object()


def canon(j):
    """order-insensitive form of an encoded value (sets sorted)"""
    if isinstance(j, dict):
        if "S" in j or "F" in j:
            k = "S" if "S" in j else "F"
            return {k: sorted((canon(x) for x in j[k]), key=lambda x: json.dumps(x, sort_keys=True))}
        return {k: canon(v) if k in ("l", "t") else v for k, v in j.items() if k != "repr"}
    if isinstance(j, list):
        return [canon(x) for x in j]
    return j


def walk(v):
    """all sub-values"""
    yield v
    if isinstance(v, (list, tuple, set, frozenset)):
        for x in v:
            yield from walk(x)
