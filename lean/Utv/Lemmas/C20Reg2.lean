import Utv.Model.C20Reg2
import Utv.Lemmas.C20Reg
/-!
C20 (registry, fixed code) — the inductive invariant of lookups *and registrations* racing in one shared
`TypeRegistry` (model `Utv/Model/C20Reg2.lean`) and its preservation by every atomic step of every thread.
-/
namespace Utv.C20.Reg2
open Utv.C16 (World Entry Det lookup sortPrio)
open Utv.C20.Reg (Op Res answer CacheOK find_of_take find_none_of_take take_succ_mem answer_of_find answer_of_none
  noRegister)

def isRes (W : World) (t : Th) : Prop := ∃ c rest, t.ops = .res c :: rest ∧ W.shortcut c = none
def isReg (t : Th) : Prop := ∃ e rest, t.ops = .reg e :: rest

/-- the list the iterator walks is a published version, not older than the generation read before -/
structure Cap (g : G) (t : Th) : Prop where
  ver : g.vers[t.sv]? = some t.snap
  ge  : t.myGen ≤ t.sv
  lo  : t.lo ≤ t.sv

def Found (W : World) (t : Th) : Prop :=
  ∃ e, t.snap.find? (fun e => e.det.matches W (curClass t)) = some e ∧ e.fn = t.fn

def PC.holds : PC → Bool
  | .gchk | .cset | .runlock | .clr | .copy | .pub | .wgen | .wunlock => true
  | _ => false

/-- facts of a thread by program counter -/
def PInv (W : World) (g : G) (t : Th) : Prop :=
  match t.pc with
  | .cget | .gen => isRes W t ∧ t.lo ≤ cur g
  | .iter => isRes W t ∧ t.lo ≤ cur g ∧ t.myGen ≤ g.gen ∧ (t.idx = 0 ∨ Cap g t) ∧
      (t.idx ≠ 0 → ∀ x ∈ t.snap.take t.idx, x.det.matches W (curClass t) = false)
  | .rlock => isRes W t ∧ Cap g t ∧ Found W t
  | .gchk | .runlock => isRes W t ∧ Cap g t ∧ Found W t ∧ g.gen + 1 = g.vers.length
  | .cset => isRes W t ∧ Cap g t ∧ Found W t ∧ g.gen + 1 = g.vers.length ∧ t.myGen = g.gen
  | .wlock => isReg t
  | .clr => isReg t ∧ g.gen + 1 = g.vers.length
  | .copy => isReg t ∧ g.cache = [] ∧ g.gen + 1 = g.vers.length
  | .pub => isReg t ∧ g.cache = [] ∧ g.gen + 1 = g.vers.length ∧ ∃ e, t.newl = sortPrio (e :: g.entries)
  | .wgen => isReg t ∧ g.cache = [] ∧ g.gen + 2 = g.vers.length
  | .wunlock => isReg t ∧ g.cache = [] ∧ g.gen + 1 = g.vers.length
  | .start => True
  | .fin => t.ops = []

/-- what a finished lookup's ghost witness says -/
def WitOK (W : World) (g : G) (r : Res) (w : Wit) : Prop :=
  r = .fn (answer W (g.vers.getD w.j []) w.cls) ∧ w.lo ≤ w.j ∧ w.j ≤ w.hi ∧ w.hi < g.vers.length

/-- results and ghost witnesses, pairwise -/
def ZipOK (W : World) (g : G) : List Res → List Wit → Prop
  | [], [] => True
  | r :: rs, w :: ws => WitOK W g r w ∧ ZipOK W g rs ws
  | _, _ => False

structure TInv (W : World) (prog : List Op) (g : G) (k : Nat) (t : Th) : Prop where
  lockI : t.pc.holds = true ↔ g.lock = some k
  pinv  : PInv W g t
  wit   : ZipOK W g t.outs t.wits
  hist  : t.wits.map (·.cls) ++ classes t.ops = classes prog

/-- each published list is the previous one with one more registration, sorted (`Utv.C16.register`) -/
def Chain (vers : List (List Entry)) : Prop :=
  ∀ i a b, vers[i]? = some a → vers[i + 1]? = some b → ∃ e, b = sortPrio (e :: a)

structure GInv (W : World) (g : G) : Prop where
  last  : g.vers.getLast? = some g.entries
  cache : CacheOK W g.entries g.cache
  genLe : g.gen + 1 ≤ g.vers.length
  free  : g.lock = none → g.gen + 1 = g.vers.length
  chain : Chain g.vers

structure Inv (W : World) (prog : Nat → List Op) (s : Sys) : Prop where
  ginv : GInv W s.g
  tinv : ∀ k, TInv W (prog k) s.g k (s.th k)

/-- the shared state only grows: versions are appended, the generation counts up -/
structure Ext (g g' : G) : Prop where
  vers : ∃ l, g'.vers = g.vers ++ l
  gen  : g.gen ≤ g'.gen

theorem Ext.refl (g : G) : Ext g g := ⟨⟨[], (List.append_nil _).symm⟩, Nat.le_refl _⟩

theorem Ext.getElem {g g' : G} (h : Ext g g') {i : Nat} {a : List Entry} (ha : g.vers[i]? = some a) :
    g'.vers[i]? = some a := by
  obtain ⟨l, hl⟩ := h.vers
  rw [hl]
  have : i < g.vers.length := by
    apply Classical.byContradiction; intro hn
    rw [List.getElem?_eq_none (by omega)] at ha; cases ha
  rw [List.getElem?_append_left this]; exact ha

theorem Ext.cur_le {g g' : G} (h : Ext g g') : cur g ≤ cur g' := by
  obtain ⟨l, hl⟩ := h.vers
  simp only [Reg2.cur, hl, List.length_append]; omega

theorem Ext.getD {g g' : G} (h : Ext g g') {j : Nat} (hj : j < g.vers.length) :
    g'.vers.getD j [] = g.vers.getD j [] := by
  obtain ⟨l, hl⟩ := h.vers
  simp only [List.getD_eq_getElem?_getD, hl, List.getElem?_append_left hj]

theorem Cap.ext {g g' : G} {t : Th} (c : Cap g t) (h : Ext g g') : Cap g' t :=
  ⟨h.getElem c.ver, c.ge, c.lo⟩

theorem WitOK.ext {W : World} {g g' : G} {r : Res} {w : Wit} (h : WitOK W g r w) (e : Ext g g') : WitOK W g' r w := by
  obtain ⟨h1, h2, h3, h4⟩ := h
  obtain ⟨l, hl⟩ := e.vers
  refine ⟨?_, h2, h3, by rw [hl, List.length_append]; omega⟩
  rw [e.getD (by omega)]; exact h1


theorem ZipOK.ext {W : World} {g g' : G} (e : Ext g g') :
    ∀ {rs : List Res} {ws : List Wit}, ZipOK W g rs ws → ZipOK W g' rs ws
  | [], [], _ => trivial
  | _ :: _, _ :: _, h => ⟨h.1.ext e, ZipOK.ext e h.2⟩
  | [], _ :: _, h => h.elim
  | _ :: _, [], h => h.elim

theorem ZipOK.snoc {W : World} {g : G} {r : Res} {w : Wit} (hw : WitOK W g r w) :
    ∀ {rs : List Res} {ws : List Wit}, ZipOK W g rs ws → ZipOK W g (rs ++ [r]) (ws ++ [w])
  | [], [], _ => ⟨hw, trivial⟩
  | _ :: _, _ :: _, h => ⟨h.1, ZipOK.snoc hw h.2⟩
  | [], _ :: _, h => h.elim
  | _ :: _, [], h => h.elim


theorem cur_lt {W : World} {g : G} (G : GInv W g) : cur g < g.vers.length := by
  have := G.genLe; simp only [cur]; omega

theorem answer_shortcut {W : World} {es : List Entry} {c f : Nat} (h : W.shortcut c = some f) :
    answer W es c = some f := by simp [answer, h]

theorem begin_inv {W : World} {co : Bool} {prog : List Op} {g : G} {k : Nat} (G : GInv W g) (hl : g.lock ≠ some k) :
    ∀ (ops : List Op) (outs : List Res) (wits : List Wit), ZipOK W g outs wits →
      wits.map (·.cls) ++ classes ops = classes prog → TInv W prog g k (begin W co (cur g) outs wits ops) := by
  intro ops
  induction ops with
  | nil =>
    intro outs wits hz hh
    exact { lockI := by simp [begin, PC.holds, hl], pinv := by simp [begin, PInv], wit := hz, hist := hh }
  | cons op rest ih =>
    intro outs wits hz hh
    cases op with
    | reg e =>
      exact { lockI := by simp [begin, PC.holds, hl], pinv := by simp [begin, PInv, isReg], wit := hz, hist := hh }
    | res c =>
      simp only [begin]
      cases hs : W.shortcut c with
      | some f =>
        simp only
        apply ih
        · exact ZipOK.snoc ⟨by rw [answer_shortcut hs], Nat.le_refl _, Nat.le_refl _, cur_lt G⟩ hz
        · rw [← hh]; simp [classes]
      | none =>
        simp only
        refine { lockI := ?_, pinv := ?_, wit := hz, hist := hh }
        · cases co <;> simp [PC.holds, hl]
        · cases co <;> simp [PInv, isRes, hs]

/-- a lookup is over with the answer of version `j` -/
theorem finishRes_inv {W : World} {co : Bool} {prog : List Op} {g : G} {k : Nat} {t : Th} (G : GInv W g)
    (hl : g.lock ≠ some k) (hz : ZipOK W g t.outs t.wits) (hh : t.wits.map (·.cls) ++ classes t.ops = classes prog)
    {c : Nat} {rest : List Op} (h0 : t.ops = .res c :: rest)
    (r : Option Nat) (j : Nat) (hr : r = answer W (g.vers.getD j []) c) (h1 : t.lo ≤ j) (h2 : j ≤ cur g) :
    TInv W prog g k (finishRes W co g t r j) := by
  unfold finishRes
  apply begin_inv G hl
  · exact ZipOK.snoc ⟨by rw [hr]; simp [curClass, h0], h1, h2, cur_lt G⟩ hz
  · have := hh
    rw [h0] at this
    simp only [h0, List.tail_cons, List.map_append, List.map_cons, List.map_nil, curClass]
    rw [← this]; simp [classes]

theorem getD_of_getElem? {l : List (List Entry)} {i : Nat} {a : List Entry} (h : l[i]? = some a) : l.getD i [] = a := by
  simp [List.getD_eq_getElem?_getD, h]

theorem getLast_getD {W : World} {g : G} (G : GInv W g) : g.vers.getD (cur g) [] = g.entries := by
  have h := G.last
  rw [List.getLast?_eq_getElem?] at h
  exact getD_of_getElem? h

theorem Cap.le_cur {g : G} {t : Th} (c : Cap g t) : t.sv ≤ cur g := by
  have : t.sv < g.vers.length := by
    apply Classical.byContradiction; intro hn
    have := c.ver
    rw [List.getElem?_eq_none (by omega)] at this; cases this
  simp only [cur]; omega

theorem tinv_frame {W : World} {prog : List Op} {g g' : G} {j : Nat} {t : Th} (T : TInv W prog g j t)
    (hlock : t.pc.holds = true ↔ g'.lock = some j) (hsame : t.pc.holds = true → g' = g) (e : Ext g g') :
    TInv W prog g' j t := by
  refine { lockI := hlock, pinv := ?_, wit := T.wit.ext e, hist := T.hist }
  by_cases hh : t.pc.holds = true
  · rw [hsame hh]; exact T.pinv
  · have P := T.pinv
    have hc := e.cur_le
    cases hpc : t.pc <;> simp only [PInv, hpc, PC.holds] at P hh ⊢ <;> first
      | trivial
      | exact P
      | exact absurd rfl hh
      | exact ⟨P.1, Nat.le_trans P.2 hc⟩
      | exact ⟨P.1, P.2.1.ext e, P.2.2⟩
      | skip
    -- iter
    obtain ⟨h1, h2, h3, h4, h5⟩ := P
    refine ⟨h1, Nat.le_trans h2 hc, Nat.le_trans h3 e.gen, ?_, h5⟩
    rcases h4 with h4 | h4
    · exact Or.inl h4
    · exact Or.inr (h4.ext e)


theorem ext_of_same {g g' : G} (hv : g'.vers = g.vers) (hg : g.gen ≤ g'.gen) : Ext g g' :=
  ⟨⟨[], by rw [hv]; exact (List.append_nil _).symm⟩, hg⟩

structure ThreadOK (W : World) (prog : List Op) (g g' : G) (k : Nat) (t' : Th) : Prop where
  ginv  : GInv W g'
  tinv  : TInv W prog g' k t'
  ext   : Ext g g'
  frame : g' = g ∨ ((g.lock = some k ∨ g.lock = none) ∧ (g'.lock = some k ∨ g'.lock = none))

theorem GInv.withLock {W : World} {g : G} (G : GInv W g) (l : Option Nat) (h : l = none → g.gen + 1 = g.vers.length) :
    GInv W { g with lock := l } :=
  { last := G.last, cache := G.cache, genLe := G.genLe, free := h, chain := G.chain }

theorem step_thread {W : World} {co : Bool} {prog : List Op} {g : G} {k : Nat} {t : Th} (G : GInv W g)
    (T : TInv W prog g k t) :
    ThreadOK W prog g (stepTh W co k g t).1 k (stepTh W co k g t).2 := by
  have P := T.pinv
  have hheld : t.pc.holds = true → g.lock = some k := T.lockI.mp
  have hfree : t.pc.holds = false → g.lock ≠ some k := by
    intro h hl; have := T.lockI.mpr hl; simp [h] at this
  have same : ∀ t', TInv W prog g k t' → ThreadOK W prog g g k t' :=
    fun t' h => ⟨G, h, Ext.refl g, Or.inl rfl⟩
  have hlast : g.vers[cur g]? = some g.entries := by
    have h := G.last; rw [List.getLast?_eq_getElem?] at h; exact h
  cases hpc : t.pc with
  | start =>
    simp only [stepTh, hpc]
    exact same _ (begin_inv G (hfree (by simp [hpc, PC.holds])) _ _ _ T.wit T.hist)
  | fin =>
    simp only [stepTh, hpc]; exact same _ T
  | cget =>
    have hl := hfree (by simp [hpc, PC.holds])
    simp only [PInv, hpc] at P
    obtain ⟨⟨c, rest, h0, hs⟩, hlo⟩ := P
    have hcc : curClass t = c := by simp [curClass, h0]
    simp only [stepTh, hpc]
    cases hk : lookup (curClass t) g.cache with
    | some f =>
      simp only
      apply same
      obtain ⟨e, hf, hfn⟩ := G.cache _ _ hk
      rw [hcc] at hf
      exact finishRes_inv (t := { t with lo := cur g }) G hl T.wit T.hist h0 _ _
        (by rw [getLast_getD G, answer_of_find hs hf, hfn]) (Nat.le_refl _) (Nat.le_refl _)
    | none =>
      simp only
      apply same
      exact { lockI := by simp [PC.holds, hl], pinv := by simp only [PInv]; exact ⟨⟨c, rest, h0, hs⟩, Nat.le_refl _⟩,
              wit := T.wit, hist := T.hist }
  | gen =>
    have hl := hfree (by simp [hpc, PC.holds])
    simp only [PInv, hpc] at P
    simp only [stepTh, hpc]
    apply same
    exact { lockI := by simp [PC.holds, hl],
            pinv := by
              simp only [PInv]
              exact ⟨P.1, by split; exact P.2; exact Nat.le_refl _, Nat.le_refl _, Or.inl trivial, fun h => absurd rfl h⟩,
            wit := T.wit, hist := T.hist }
  | iter =>
    have hl := hfree (by simp [hpc, PC.holds])
    simp only [PInv, hpc] at P
    obtain ⟨⟨c, rest, h0, hs⟩, hlo, hg, hcap, hseen⟩ := P
    have hcc : curClass t = c := by simp [curClass, h0]
    -- the list the iterator walks after this event, and its version index
    have key : ∃ lst sv, lst = (if t.idx = 0 then g.entries else t.snap) ∧ sv = (if t.idx = 0 then cur g else t.sv) ∧
        g.vers[sv]? = some lst ∧ t.myGen ≤ sv ∧ t.lo ≤ sv ∧ sv ≤ cur g ∧
        (∀ x ∈ lst.take t.idx, x.det.matches W c = false) := by
      by_cases h0' : t.idx = 0
      · refine ⟨g.entries, cur g, by simp [h0'], by simp [h0'], hlast, ?_, hlo, Nat.le_refl _, by simp [h0']⟩
        have := G.genLe; simp only [cur]; omega
      · rcases hcap with h | h
        · exact absurd h h0'
        · refine ⟨t.snap, t.sv, by simp [h0'], by simp [h0'], h.ver, h.ge, h.lo, h.le_cur, ?_⟩
          intro x hx; have := hseen h0' x hx; rwa [hcc] at this
    obtain ⟨lst, sv, hlst, hsv, hver, hge, hlo', hle, hseen'⟩ := key
    simp only [stepTh, hpc, ← hlst, ← hsv]
    cases hg' : lst[t.idx]? with
    | none =>
      simp only
      apply same
      have hnone := find_none_of_take _ lst t.idx hseen' hg'
      exact finishRes_inv (t := { t with snap := lst, sv := sv }) G hl T.wit T.hist h0 _ _
        (by rw [getD_of_getElem? hver, answer_of_none hs hnone, hcc]) hlo' hle
    | some e =>
      simp only
      rw [hcc]
      cases hm : e.det.matches W c with
      | true =>
        simp only [if_true]
        have hfind := find_of_take _ lst t.idx e hseen' hg' hm
        cases co with
        | true =>
          simp only [if_true]
          apply same
          refine { lockI := by simp [PC.holds, hl], pinv := ?_, wit := T.wit, hist := T.hist }
          simp only [PInv]
          exact ⟨⟨c, rest, h0, hs⟩, ⟨hver, hge, hlo'⟩, ⟨e, by simpa [curClass, h0] using hfind, rfl⟩⟩
        | false =>
          simp only [Bool.false_eq_true, if_false]
          apply same
          exact finishRes_inv (t := { t with snap := lst, sv := sv }) G hl T.wit T.hist h0 _ _
            (by rw [getD_of_getElem? hver, answer_of_find hs hfind]) hlo' hle
      | false =>
        simp only [Bool.false_eq_true, if_false]
        apply same
        refine { lockI := by simp [PC.holds, hl], pinv := ?_, wit := T.wit, hist := T.hist }
        simp only [PInv]
        refine ⟨⟨c, rest, h0, hs⟩, hlo, hg, Or.inr ⟨hver, hge, hlo'⟩, ?_⟩
        intro _ x hx
        rcases take_succ_mem lst t.idx e hg' x hx with h | h
        · simpa [curClass, h0] using hseen' x h
        · subst h; simpa [curClass, h0] using hm
  | rlock =>
    simp only [PInv, hpc] at P
    simp only [stepTh, hpc]
    cases hlk : g.lock with
    | some o => simp only; exact same _ T
    | none =>
      simp only
      have hgen := G.free hlk
      refine ⟨G.withLock _ (by simp), ?_, ⟨⟨[], (List.append_nil _).symm⟩, Nat.le_refl _⟩, Or.inr ⟨Or.inr hlk, Or.inl rfl⟩⟩
      refine { lockI := by simp [PC.holds], pinv := ?_, wit := T.wit.ext (ext_of_same (by rfl) (by exact Nat.le_refl _)), hist := T.hist }
      simp only [PInv]
      exact ⟨P.1, ⟨P.2.1.ver, P.2.1.ge, P.2.1.lo⟩, P.2.2, hgen⟩
  | gchk =>
    have hl := hheld (by simp [hpc, PC.holds])
    simp only [PInv, hpc] at P
    simp only [stepTh, hpc]
    apply same
    by_cases hq : t.myGen = g.gen
    · rw [if_pos hq]
      refine { lockI := by simp [PC.holds, hl], pinv := ?_, wit := T.wit, hist := T.hist }
      simp only [PInv]; exact ⟨P.1, ⟨P.2.1.ver, P.2.1.ge, P.2.1.lo⟩, P.2.2.1, P.2.2.2, hq⟩
    · rw [if_neg hq]
      refine { lockI := by simp [PC.holds, hl], pinv := ?_, wit := T.wit, hist := T.hist }
      simp only [PInv]; exact ⟨P.1, ⟨P.2.1.ver, P.2.1.ge, P.2.1.lo⟩, P.2.2.1, P.2.2.2⟩
  | cset =>
    have hl := hheld (by simp [hpc, PC.holds])
    simp only [PInv, hpc] at P
    obtain ⟨⟨c, rest, h0, hs⟩, hcap, ⟨e, hf, hfn⟩, hgen, hq⟩ := P
    have hcc : curClass t = c := by simp [curClass, h0]
    simp only [stepTh, hpc]
    have hsv : t.sv = cur g := by
      have h1 := hcap.ge; have h2 := hcap.le_cur; simp only [cur] at h2 ⊢; omega
    have hsnap : t.snap = g.entries := by
      have := hcap.ver; rw [hsv, hlast] at this; exact (Option.some.inj this).symm
    refine ⟨?_, ?_, ⟨⟨[], (List.append_nil _).symm⟩, Nat.le_refl _⟩, Or.inr ⟨Or.inl hl, Or.inl hl⟩⟩
    · refine { last := G.last, cache := ?_, genLe := G.genLe, free := by simp [hl], chain := G.chain }
      intro c' f' hlk
      simp only [lookup] at hlk
      split at hlk
      · rename_i heq
        have : curClass t = c' := by simpa using heq
        subst this; cases hlk
        exact ⟨e, by rw [← hsnap]; exact hf, hfn⟩
      · exact G.cache c' f' hlk
    · refine { lockI := by simp [PC.holds, hl], pinv := ?_, wit := T.wit.ext (ext_of_same (by rfl) (by exact Nat.le_refl _)), hist := T.hist }
      simp only [PInv]
      exact ⟨⟨c, rest, h0, hs⟩, ⟨hcap.ver, hcap.ge, hcap.lo⟩, ⟨e, hf, hfn⟩, hgen⟩
  | runlock =>
    have hl := hheld (by simp [hpc, PC.holds])
    simp only [PInv, hpc] at P
    obtain ⟨⟨c, rest, h0, hs⟩, hcap, ⟨e, hf, hfn⟩, hgen⟩ := P
    have hcc : curClass t = c := by simp [curClass, h0]
    simp only [stepTh, hpc]
    have G' : GInv W { g with lock := none } := G.withLock _ (fun _ => hgen)
    refine ⟨G', ?_, ⟨⟨[], (List.append_nil _).symm⟩, Nat.le_refl _⟩, Or.inr ⟨Or.inl hl, Or.inr rfl⟩⟩
    rw [hcc] at hf
    exact finishRes_inv (g := { g with lock := none }) G' (by simp) (T.wit.ext (ext_of_same (by rfl) (by exact Nat.le_refl _))) T.hist h0 _ _
      (by rw [getD_of_getElem? (l := g.vers) hcap.ver, answer_of_find hs hf, hfn]) hcap.lo hcap.le_cur
  | wlock =>
    simp only [PInv, hpc] at P
    simp only [stepTh, hpc]
    cases hlk : g.lock with
    | some o => simp only; exact same _ T
    | none =>
      simp only
      have hgen := G.free hlk
      refine ⟨G.withLock _ (by simp), ?_, ⟨⟨[], (List.append_nil _).symm⟩, Nat.le_refl _⟩, Or.inr ⟨Or.inr hlk, Or.inl rfl⟩⟩
      refine { lockI := by simp [PC.holds], pinv := ?_, wit := T.wit.ext (ext_of_same (by rfl) (by exact Nat.le_refl _)), hist := T.hist }
      simp only [PInv]; exact ⟨P, hgen⟩
  | clr =>
    have hl := hheld (by simp [hpc, PC.holds])
    simp only [PInv, hpc] at P
    simp only [stepTh, hpc]
    refine ⟨?_, ?_, ⟨⟨[], (List.append_nil _).symm⟩, Nat.le_refl _⟩, Or.inr ⟨Or.inl hl, Or.inl hl⟩⟩
    · exact { last := G.last, cache := fun _ _ h => by simp [lookup] at h, genLe := G.genLe, free := by simp [hl],
              chain := G.chain }
    · refine { lockI := by simp [PC.holds, hl], pinv := ?_, wit := T.wit.ext (ext_of_same (by rfl) (by exact Nat.le_refl _)), hist := T.hist }
      simp only [PInv]; exact ⟨P.1, trivial, P.2⟩
  | copy =>
    have hl := hheld (by simp [hpc, PC.holds])
    simp only [PInv, hpc] at P
    obtain ⟨⟨e, rest, h0⟩, hc, hgen⟩ := P
    have hce : curEntry t = some e := by simp [curEntry, h0]
    simp only [stepTh, hpc, hce]
    apply same
    refine { lockI := by simp [PC.holds, hl], pinv := ?_, wit := T.wit, hist := T.hist }
    simp only [PInv]; exact ⟨⟨e, rest, h0⟩, hc, hgen, e, rfl⟩
  | pub =>
    have hl := hheld (by simp [hpc, PC.holds])
    simp only [PInv, hpc] at P
    obtain ⟨hreg, hc, hgen, e, hnew⟩ := P
    simp only [stepTh, hpc]
    have hext : Ext g { g with entries := t.newl, vers := g.vers ++ [t.newl] } := ⟨⟨[t.newl], rfl⟩, Nat.le_refl _⟩
    refine ⟨?_, ?_, hext, Or.inr ⟨Or.inl hl, Or.inl hl⟩⟩
    · refine { last := by simp, cache := ?_, genLe := ?_, free := by simp [hl], chain := ?_ }
      · intro c' f' h; simp [hc, lookup] at h
      · have := G.genLe; simp only [List.length_append, List.length_singleton]; omega
      · intro i a b ha hb
        by_cases hi : i + 1 < g.vers.length
        · rw [List.getElem?_append_left (by omega)] at ha
          rw [List.getElem?_append_left hi] at hb
          exact G.chain i a b ha hb
        · have hil : i + 1 = g.vers.length := by
            apply Classical.byContradiction; intro hne
            rw [List.getElem?_eq_none (by simp only [List.length_append, List.length_singleton]; omega)] at hb
            cases hb
          have hic : i = cur g := by simp only [cur]; omega
          rw [List.getElem?_append_left (by omega), hic, hlast] at ha
          rw [List.getElem?_append_right (by omega), hil] at hb
          simp at hb
          cases ha; subst hb
          exact ⟨e, hnew⟩
    · refine { lockI := by simp [PC.holds, hl], pinv := ?_, wit := T.wit.ext hext, hist := T.hist }
      simp only [PInv]
      refine ⟨hreg, hc, ?_⟩
      simp only [List.length_append, List.length_singleton]; omega
  | wgen =>
    have hl := hheld (by simp [hpc, PC.holds])
    simp only [PInv, hpc] at P
    simp only [stepTh, hpc]
    have hext : Ext g { g with gen := g.gen + 1 } := ⟨⟨[], (List.append_nil _).symm⟩, Nat.le_succ _⟩
    refine ⟨?_, ?_, hext, Or.inr ⟨Or.inl hl, Or.inl hl⟩⟩
    · exact { last := G.last, cache := G.cache, genLe := by have := P.2.2; simp only; omega, free := by simp [hl],
              chain := G.chain }
    · refine { lockI := by simp [PC.holds, hl], pinv := ?_, wit := T.wit.ext hext, hist := T.hist }
      simp only [PInv]
      exact ⟨P.1, P.2.1, by have := P.2.2; omega⟩
  | wunlock =>
    have hl := hheld (by simp [hpc, PC.holds])
    simp only [PInv, hpc] at P
    obtain ⟨⟨e, rest, h0⟩, hc, hgen⟩ := P
    simp only [stepTh, hpc]
    have G' : GInv W { g with lock := none } := G.withLock _ (fun _ => hgen)
    refine ⟨G', ?_, ⟨⟨[], (List.append_nil _).symm⟩, Nat.le_refl _⟩, Or.inr ⟨Or.inl hl, Or.inr rfl⟩⟩
    unfold finishReg
    apply begin_inv (g := { g with lock := none }) G' (by simp) _ _ _ (T.wit.ext (ext_of_same (by rfl) (by exact Nat.le_refl _)))
    have := T.hist
    rw [h0] at this
    simpa [h0, classes] using this


theorem inv_step {W : World} {co : Bool} {prog : Nat → List Op} {s : Sys} (k : Nat) (I : Inv W prog s) :
    Inv W prog (s.step W co k) ∧ Ext s.g (s.step W co k).g := by
  have OK := step_thread (co := co) I.ginv (I.tinv k)
  refine ⟨⟨OK.ginv, ?_⟩, OK.ext⟩
  intro j
  by_cases hj : j = k
  · subst hj; simpa [Sys.step] using OK.tinv
  · have Tj := I.tinv j
    simp only [Sys.step, hj, if_false]
    rcases OK.frame with h | ⟨h1, h2⟩
    · exact tinv_frame Tj (by rw [h]; exact Tj.lockI) (fun _ => h) OK.ext
    · have hn : (s.th j).pc.holds = false := by
        cases hc : (s.th j).pc.holds with
        | false => rfl
        | true =>
          have := Tj.lockI.mp hc
          rcases h1 with h1 | h1 <;> rw [h1] at this <;> simp at this
          exact absurd this.symm hj
      refine tinv_frame Tj ?_ (by simp [hn]) OK.ext
      simp only [hn, Bool.false_eq_true, false_iff]
      intro h
      rcases h2 with h2 | h2 <;> rw [h2] at h <;> simp at h
      exact hj h.symm

theorem inv_init {W : World} {entries : List Entry} {cache : List (Nat × Nat)} (prog : Nat → List Op)
    (hc : CacheOK W entries cache) : Inv W prog (init entries cache prog) := by
  refine ⟨?_, ?_⟩
  · refine { last := by simp [init], cache := hc, genLe := by simp [init], free := by simp [init], chain := ?_ }
    intro i a b ha hb
    simp only [init] at hb
    rw [List.getElem?_eq_none (by simp)] at hb; cases hb
  · intro k
    exact { lockI := by simp [init, PC.holds], pinv := by simp [init, PInv], wit := by simp [init, ZipOK],
            hist := by simp [init] }

theorem inv_run {W : World} {co : Bool} {prog : Nat → List Op} (sched : List Nat) :
    ∀ {s : Sys}, Inv W prog s → Inv W prog (run W co s sched) ∧ Ext s.g (run W co s sched).g := by
  induction sched with
  | nil => intro s I; exact ⟨I, Ext.refl _⟩
  | cons k ks ih =>
    intro s I
    obtain ⟨I1, e1⟩ := inv_step (co := co) k I
    obtain ⟨I2, e2⟩ := ih I1
    refine ⟨I2, ?_⟩
    obtain ⟨l1, h1⟩ := e1.vers
    obtain ⟨l2, h2⟩ := e2.vers
    exact ⟨⟨l1 ++ l2, by simp only [run, List.foldl_cons] at h2 ⊢; rw [h2, h1, List.append_assoc]⟩,
           Nat.le_trans e1.gen e2.gen⟩

theorem ZipOK.length {W : World} {g : G} : ∀ {rs : List Res} {ws : List Wit}, ZipOK W g rs ws → rs.length = ws.length
  | [], [], _ => rfl
  | _ :: _, _ :: _, h => by simp [ZipOK.length h.2]
  | [], _ :: _, h => h.elim
  | _ :: _, [], h => h.elim

theorem ZipOK.get {W : World} {g : G} : ∀ {rs : List Res} {ws : List Wit}, ZipOK W g rs ws →
    ∀ (i : Nat) (r : Res) (w : Wit), rs[i]? = some r → ws[i]? = some w → WitOK W g r w
  | [], [], _ => by intro i r w h; simp at h
  | r0 :: rs, w0 :: ws, h => by
    intro i r w hr hw
    cases i with
    | zero => simp at hr hw; subst hr; subst hw; exact h.1
    | succ n => simp at hr hw; exact ZipOK.get h.2 n r w hr hw
  | [], _ :: _, h => h.elim
  | _ :: _, [], h => h.elim


/-! ### programs without registrations: the first published list stays the only one -/

def PC.isW : PC → Bool
  | .wlock | .clr | .copy | .pub | .wgen | .wunlock => true
  | _ => false

theorem noRegister_tail {ops : List Op} (h : noRegister ops = true) : noRegister ops.tail = true := by
  cases ops with
  | nil => rfl
  | cons o r => cases o <;> simp_all [noRegister]

theorem begin_noReg {W : World} {co : Bool} {nv : Nat} :
    ∀ (ops : List Op) (outs : List Res) (wits : List Wit), noRegister ops = true →
      (begin W co nv outs wits ops).pc.isW = false ∧ noRegister (begin W co nv outs wits ops).ops = true := by
  intro ops
  induction ops with
  | nil => intro _ _ _; simp [begin, PC.isW, noRegister]
  | cons o r ih =>
    intro outs wits h
    cases o with
    | reg e => simp [noRegister] at h
    | res c =>
      simp only [begin]
      cases W.shortcut c with
      | some f => exact ih _ _ (by simpa [noRegister] using h)
      | none => cases co <;> simp [PC.isW, h]

theorem step_noReg {W : World} {co : Bool} {k : Nat} {g : G} {t : Th} (h1 : noRegister t.ops = true)
    (h2 : t.pc.isW = false) :
    (stepTh W co k g t).1.vers = g.vers ∧ noRegister (stepTh W co k g t).2.ops = true ∧
      (stepTh W co k g t).2.pc.isW = false := by
  have ht := noRegister_tail h1
  have fr : ∀ (g' : G) (t' : Th) (r : Option Nat) (j : Nat), t'.ops = t.ops →
      (finishRes W co g' t' r j).pc.isW = false ∧ noRegister (finishRes W co g' t' r j).ops = true := by
    intro g' t' r j ho
    unfold finishRes
    have := begin_noReg (W := W) (co := co) (nv := cur g') t'.ops.tail (t'.outs ++ [.fn r])
      (t'.wits ++ [⟨curClass t', t'.lo, j, cur g'⟩]) (by rw [ho]; exact ht)
    exact this
  cases hpc : t.pc with
  | start =>
    simp only [stepTh, hpc]
    have := begin_noReg (W := W) (co := co) (nv := cur g) t.ops t.outs t.wits h1
    exact ⟨by first | rfl | trivial, this.2, this.1⟩
  | fin => simp only [stepTh, hpc]; exact ⟨by first | rfl | trivial, h1, by simp [hpc] at h2 ⊢; simp [PC.isW]⟩
  | cget =>
    simp only [stepTh, hpc]
    split
    · exact ⟨by first | rfl | trivial, (fr _ { t with lo := cur g } _ _ rfl).2, (fr _ { t with lo := cur g } _ _ rfl).1⟩
    · exact ⟨by first | rfl | trivial, h1, by simp [PC.isW]⟩
  | gen => simp only [stepTh, hpc]; exact ⟨by first | rfl | trivial, h1, by simp [PC.isW]⟩
  | iter =>
    simp only [stepTh, hpc]
    split
    · exact ⟨by first | rfl | trivial, (fr _ _ _ _ rfl).2, (fr _ _ _ _ rfl).1⟩
    · split
      · split
        · exact ⟨by first | rfl | trivial, h1, by simp [PC.isW]⟩
        · exact ⟨by first | rfl | trivial, (fr _ _ _ _ rfl).2, (fr _ _ _ _ rfl).1⟩
      · exact ⟨by first | rfl | trivial, h1, by simp [PC.isW]⟩
  | rlock =>
    simp only [stepTh, hpc]
    split
    · exact ⟨by first | rfl | trivial, h1, by simp [PC.isW]⟩
    · exact ⟨by first | rfl | trivial, h1, by simp [hpc, PC.isW]⟩
  | gchk => simp only [stepTh, hpc]; exact ⟨by first | rfl | trivial, h1, by split <;> simp [PC.isW]⟩
  | cset => simp only [stepTh, hpc]; exact ⟨by first | rfl | trivial, h1, by simp [PC.isW]⟩
  | runlock =>
    simp only [stepTh, hpc]
    exact ⟨by first | rfl | trivial, (fr _ _ _ _ rfl).2, (fr _ _ _ _ rfl).1⟩
  | wlock => simp [hpc, PC.isW] at h2
  | clr => simp [hpc, PC.isW] at h2
  | copy => simp [hpc, PC.isW] at h2
  | pub => simp [hpc, PC.isW] at h2
  | wgen => simp [hpc, PC.isW] at h2
  | wunlock => simp [hpc, PC.isW] at h2

theorem noReg_run {W : World} {co : Bool} (sched : List Nat) :
    ∀ {s : Sys}, (∀ k, noRegister (s.th k).ops = true ∧ (s.th k).pc.isW = false) →
      (run W co s sched).g.vers = s.g.vers := by
  induction sched with
  | nil => intro s _; rfl
  | cons k ks ih =>
    intro s h
    have hk := step_noReg (W := W) (co := co) (k := k) (g := s.g) (h k).1 (h k).2
    have : ∀ j, noRegister ((s.step W co k).th j).ops = true ∧ ((s.step W co k).th j).pc.isW = false := by
      intro j
      by_cases hj : j = k
      · subst hj; simpa [Sys.step] using hk.2
      · simpa [Sys.step, hj] using h j
    have := ih this
    simp only [run, List.foldl_cons] at this ⊢
    rw [this]; exact hk.1

theorem ZipOK.single {W : World} {g : G} {e0 : List Entry} (hv : g.vers = [e0]) :
    ∀ {rs : List Res} {ws : List Wit}, ZipOK W g rs ws → rs = ws.map (fun w => Res.fn (answer W e0 w.cls))
  | [], [], _ => rfl
  | _ :: _, w :: _, h => by
    obtain ⟨⟨h1, _, h3, h4⟩, h5⟩ := h
    have hj : w.j = 0 := by rw [hv] at h4; simp at h4; omega
    rw [hv, hj] at h1
    simp only [List.map_cons, h1, ZipOK.single hv h5]
    simp
  | [], _ :: _, h => h.elim
  | _ :: _, [], h => h.elim

end Utv.C20.Reg2
