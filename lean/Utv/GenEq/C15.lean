import Utv.GenEq.Support
import Utv.Gen.JsonTables
import Utv.Model.C15
/-!
C15 — T1 obligations: the tables of `utype/specs/json_schema/constant.py` the parser model (`Model/C15.lean`) holds
copies of are the ones regenerated from the source on every run (`Utv.Gen.JsonTables`).
-/
namespace Utv.GenEq.C15
open Utv.C15 Utv.Gen

/-- the `Prim` a class expression of `TYPE_MAP` (as written in the source) stands for: the classes the parser treats
structurally have their own constructor, every other class is a string format carrying its name -/
def clsPrim (c : String) : Prim :=
  if c = "type(None)" then .null
  else if c = "str" then .str
  else if c = "bool" then .bool
  else if c = "dict" then .dict
  else if c = "list" then .list
  else if c = "int" then .int
  else if c = "float" then .float
  else if c = "Decimal" then .decimal
  else .sfmt c

theorem C15_gen_tables :
    constraintsMap = JsonTables.CONSTRAINTS_MAP ∧
    typeGroups = JsonTables.TYPE_CONSTRAINTS_MAP.map (fun p => (p.1, p.2.map (·.2))) ∧
    defaultKeywords = JsonTables.DEFAULT_CONSTRAINTS_MAP.map (·.1) := by
  gen_obligation "C15_gen_tables: the regenerated code (Utv.Gen) is no longer equal to the hand model here" by
    refine ⟨?_, ?_, ?_⟩ <;> decide

/-- `TYPE_MAP`: the model's `typeMap` is the lookup in the regenerated table, for every name -/
theorem C15_gen_type_map (name : String) :
    typeMap name = (JsonTables.TYPE_MAP.lookup name).map clsPrim := by
  gen_obligation "C15_gen_type_map: the regenerated code (Utv.Gen) is no longer equal to the hand model here" by
    by_cases h0 : name = "null"
    · subst h0; decide
    by_cases h1 : name = "string"
    · subst h1; decide
    by_cases h2 : name = "boolean"
    · subst h2; decide
    by_cases h3 : name = "bool"
    · subst h3; decide
    by_cases h4 : name = "object"
    · subst h4; decide
    by_cases h5 : name = "array"
    · subst h5; decide
    by_cases h6 : name = "integer"
    · subst h6; decide
    by_cases h7 : name = "int"
    · subst h7; decide
    by_cases h8 : name = "bigint"
    · subst h8; decide
    by_cases h9 : name = "number"
    · subst h9; decide
    by_cases h10 : name = "float"
    · subst h10; decide
    by_cases h11 : name = "decimal"
    · subst h11; decide
    by_cases h12 : name = "binary"
    · subst h12; decide
    by_cases h13 : name = "ipv4"
    · subst h13; decide
    by_cases h14 : name = "ipv6"
    · subst h14; decide
    by_cases h15 : name = "date-time"
    · subst h15; decide
    by_cases h16 : name = "date"
    · subst h16; decide
    by_cases h17 : name = "time"
    · subst h17; decide
    by_cases h18 : name = "duration"
    · subst h18; decide
    by_cases h19 : name = "uuid"
    · subst h19; decide
    have b0 : (name == "null") = false := beq_eq_false_iff_ne.mpr h0
    have b1 : (name == "string") = false := beq_eq_false_iff_ne.mpr h1
    have b2 : (name == "boolean") = false := beq_eq_false_iff_ne.mpr h2
    have b3 : (name == "bool") = false := beq_eq_false_iff_ne.mpr h3
    have b4 : (name == "object") = false := beq_eq_false_iff_ne.mpr h4
    have b5 : (name == "array") = false := beq_eq_false_iff_ne.mpr h5
    have b6 : (name == "integer") = false := beq_eq_false_iff_ne.mpr h6
    have b7 : (name == "int") = false := beq_eq_false_iff_ne.mpr h7
    have b8 : (name == "bigint") = false := beq_eq_false_iff_ne.mpr h8
    have b9 : (name == "number") = false := beq_eq_false_iff_ne.mpr h9
    have b10 : (name == "float") = false := beq_eq_false_iff_ne.mpr h10
    have b11 : (name == "decimal") = false := beq_eq_false_iff_ne.mpr h11
    have b12 : (name == "binary") = false := beq_eq_false_iff_ne.mpr h12
    have b13 : (name == "ipv4") = false := beq_eq_false_iff_ne.mpr h13
    have b14 : (name == "ipv6") = false := beq_eq_false_iff_ne.mpr h14
    have b15 : (name == "date-time") = false := beq_eq_false_iff_ne.mpr h15
    have b16 : (name == "date") = false := beq_eq_false_iff_ne.mpr h16
    have b17 : (name == "time") = false := beq_eq_false_iff_ne.mpr h17
    have b18 : (name == "duration") = false := beq_eq_false_iff_ne.mpr h18
    have b19 : (name == "uuid") = false := beq_eq_false_iff_ne.mpr h19
    simp [typeMap, JsonTables.TYPE_MAP, List.lookup, b0, b1, b2, b3, b4, b5, b6, b7, b8, b9, b10, b11, b12, b13, b14, b15, b16, b17, b18, b19]

/-- `PRIMITIVE_MAP`: the primitive the model publishes for a `Prim` is what the regenerated table says for a class
expression that stands for it (first entry, as `get_primitive` scans), `'string'` when none does -/
theorem C15_gen_primitive_map :
    (JsonTables.PRIMITIVE_MAP.lookup "type(None)" = some (primitiveOf .null)) ∧
    (JsonTables.PRIMITIVE_MAP.lookup "bool" = some (primitiveOf .bool)) ∧
    (JsonTables.PRIMITIVE_MAP.lookup "MAP_TYPES" = some (primitiveOf .dict)) ∧
    (JsonTables.PRIMITIVE_MAP.lookup "SEQ_TYPES" = some (primitiveOf .list)) ∧
    (JsonTables.PRIMITIVE_MAP.lookup "SEQ_TYPES" = some (primitiveOf .tuple)) ∧
    (JsonTables.PRIMITIVE_MAP.lookup "int" = some (primitiveOf .int)) ∧
    (JsonTables.PRIMITIVE_MAP.lookup "(float, Decimal)" = some (primitiveOf .float)) ∧
    (JsonTables.PRIMITIVE_MAP.lookup "(float, Decimal)" = some (primitiveOf .decimal)) ∧
    JsonTables.DEFAULT_PRIMITIVE = primitiveOf .str ∧
    (∀ n, JsonTables.DEFAULT_PRIMITIVE = primitiveOf (.sfmt n)) ∧
    JsonTables.PRIMITIVE_MAP.length = 6 := by
  gen_obligation "C15_gen_primitive_map: the regenerated code (Utv.Gen) is no longer equal to the hand model here" by
    refine ⟨?_, ?_, ?_, ?_, ?_, ?_, ?_, ?_, ?_, ?_, ?_⟩ <;> first | decide | (intro n; rfl)

/-- `JsonSchemaParser.TYPE_KEYWORDS` (parser.py): which keywords reveal an untyped schema's type (`inferType`) -/
theorem C15_gen_type_keywords : typeKeywords = JsonTables.PARSER_TYPE_KEYWORDS := by
  gen_obligation "C15_gen_type_keywords: the regenerated code (Utv.Gen) is no longer equal to the hand model here" by
    decide

end Utv.GenEq.C15
