import Utv.GenEq.Support
import Utv.Gen.Tables
import Utv.Gen.CodecTables
import Utv.Gen.Encode
import Utv.Model.C14
/-!
C14 — T1 obligations: the tables of `utype/utils/transform.py` / `encode.py` the codec model (`Model/C14.lean`)
holds copies of are the ones regenerated from the source on every run.
-/
namespace Utv.GenEq.C14
open Utv.C14 Utv.Gen

theorem C14_gen_tables :
    DATE_FORMATS = CodecTables.DATE_FORMATS.map String.toList ∧
    DATETIME_FORMATS = CodecTables.DATETIME_FORMATS.map String.toList ∧
    NULL_VALUES = Tables.NULL_VALUES.map String.toList ∧
    FALSE_VALUES = Tables.FALSE_VALUES.map String.toList ∧
    TRUE_VALUES = Tables.TRUE_VALUES.map String.toList ∧
    (maxSafe : Int) = CodecTables.MAX_SAFE_NUMBER ∧ -(maxSafe : Int) = CodecTables.MIN_SAFE_NUMBER := by
  gen_obligation "C14_gen_tables: the regenerated code (Utv.Gen) is no longer equal to the hand model here" by
    refine ⟨?_, ?_, ?_, ?_, ?_, ?_, ?_⟩ <;> decide

/-- `js_unsafe` on an integer-valued Decimal `±c` (exponent 0; the bounds are inlined from encode.py as they are
now) is the model's `jsUnsafe c 0` -/
theorem C14_gen_js_unsafe (W : Utv.Obj.World Unit) (c : Nat) (neg : Bool) :
    Encode.js_unsafe W (.int (if neg then -(c : Int) else c)) = .ok (.bool (jsUnsafe c 0)) := by
  gen_obligation "C14_gen_js_unsafe: the regenerated code (Utv.Gen) is no longer equal to the hand model here" by
    cases neg <;>
      simp [Encode.js_unsafe, Utv.Obj.gt, Utv.Obj.lt, Utv.Obj.intOf?, jsUnsafe, maxSafe, bind, Except.bind, pure, Except.pure]
    · by_cases h1 : 9007199254740991 < c
      · have h2 : (9007199254740991 : Int) < (c : Int) := by omega
        simp [h1, h2]
      · have h2 : ¬ (9007199254740991 : Int) < (c : Int) := by omega
        have h3 : ¬ (c : Int) < -9007199254740991 := by omega
        simp [h1, h2, h3]
    · have h0 : ¬ (9007199254740991 : Int) < -(c : Int) := by omega
      by_cases h1 : 9007199254740991 < c
      · have h2 : (9007199254740991 : Int) < (c : Int) := by omega
        simp [h0, h1, h2]
      · have h2 : ¬ (9007199254740991 : Int) < (c : Int) := by omega
        simp [h0, h1, h2]

end Utv.GenEq.C14
