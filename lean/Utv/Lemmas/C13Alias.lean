import Utv.Model.C13
import Utv.Lemmas.C13Json
import Utv.Lemmas.C13Wf
import Utv.Lemmas.C13Val
/-! The generated type schema of a well-formed declaration never has an `x-aliases` member of its own, so the
`x-aliases` of a property are exactly the field's (sorted) aliases. -/
set_option linter.unusedSimpArgs false
namespace Utv.C13
open Utv.JsonSchema

theorem assoc_mem {k v : String} {m : List (String × String)} (h : assoc k m = some v) : (k, v) ∈ m := by
  induction m with
  | nil => simp [assoc] at h
  | cons e rest ih =>
    obtain ⟨k', v'⟩ := e
    simp only [assoc] at h
    by_cases hk : (k' == k) = true
    · simp only [hk, if_true, Option.some.injEq] at h
      have : k' = k := by simpa using hk
      subst this; subst h; exact List.mem_cons_self ..
    · simp only [hk] at h
      exact List.mem_cons_of_mem _ (ih h)

theorem constraintsMapFor_cases (prim : String) (T : List (List String × List (String × String))) :
    constraintsMapFor prim T = DEFAULT_CONSTRAINTS_MAP ∨ ∃ e ∈ T, constraintsMapFor prim T = e.2 := by
  induction T with
  | nil => left; rfl
  | cons e rest ih =>
    obtain ⟨types, mp⟩ := e
    simp only [constraintsMapFor]
    by_cases h : types.contains prim = true
    · right; exact ⟨(types, mp), List.mem_cons_self .., by simp only [h, if_true]⟩
    · simp only [h]
      rcases ih with ih | ⟨e, he, ih⟩
      · left; exact ih
      · right; exact ⟨e, List.mem_cons_of_mem _ he, ih⟩

/-- no keyword of the tables is called `x-aliases` -/
theorem table_values_ne : ∀ e ∈ TYPE_CONSTRAINTS_MAP, ∀ kv ∈ e.2, (kv.2 == "x-aliases") = false := by decide

theorem default_values_ne : ∀ kv ∈ DEFAULT_CONSTRAINTS_MAP, (kv.2 == "x-aliases") = false := by decide

theorem keywordOf_ne_aliases (prim n : String) (hn : (n == "x-aliases") = false) :
    (keywordOf prim n == "x-aliases") = false := by
  unfold keywordOf
  cases h : assoc n (constraintsMapFor prim TYPE_CONSTRAINTS_MAP) with
  | none => simpa using hn
  | some v =>
    have hm := assoc_mem h
    simp only [Option.getD_some]
    rcases constraintsMapFor_cases prim TYPE_CONSTRAINTS_MAP with hc | ⟨e, he, hc⟩
    · rw [hc] at hm; exact default_values_ne _ hm
    · rw [hc] at hm; exact table_values_ne e he _ hm

def constraintNames : List String :=
  ["gt", "ge", "lt", "le", "multiple_of", "max_digits", "decimal_places", "enum", "const", "min_length", "max_length",
   "length", "regex", "unique_items"]

theorem lookup_consSchema_aliases (prim : String) (allowed : List String) (cs : Cons) (h : consOk allowed cs = true)
    (ha : ∀ n, allowed.contains n = true → (n == "x-aliases") = false) :
    lookup "x-aliases" (consSchema prim cs) = none := by
  apply lookup_none_of_keys
  intro e he
  unfold consSchema at he
  rw [List.mem_map] at he
  obtain ⟨c, hc, rfl⟩ := he
  have hc' := mem_orderedCons hc
  unfold consOk at h
  rw [Bool.and_eq_true, List.all_eq_true] at h
  have := h.2 c hc'
  rw [Bool.and_eq_true] at this
  exact keywordOf_ne_aliases prim c.1 (ha c.1 this.1)

theorem allowed_ne_aliases (allowed : List String) (hsub : allowed.all constraintNames.contains = true) :
    ∀ n, allowed.contains n = true → (n == "x-aliases") = false := by
  intro n hn
  have := List.all_eq_true.mp hsub n (List.contains_iff_mem.mp hn)
  simp [constraintNames] at this
  rcases this with rfl | rfl | rfl | rfl | rfl | rfl | rfl | rfl | rfl | rfl | rfl | rfl | rfl | rfl <;> decide

theorem scalarCons_sub (p : Prim) : (scalarCons p).all constraintNames.contains = true := by
  cases p <;> decide

theorem lookup_optStr_ne (k k' : String) (o : Option String) (h : (k' == k) = false) : lookup k (optStr k' o) = none := by
  cases o <;> simp [optStr, lookup, h]

theorem lookup_ruleHead_aliases (origin : Option Prim) (m : RuleMeta) : lookup "x-aliases" (ruleHead origin m) = none := by
  unfold ruleHead
  rw [lookup_append, lookup_optStr_ne _ _ _ (by decide)]
  by_cases h : overridesPrimitive m = true
  · simp [h, lookup]
  · cases origin <;> simp [h, lookup]

/-- the top-level members of a generated type schema are never called `x-aliases` -/
theorem lookup_gen_aliases (cfg : Cfg) (t : Ty) (h : wfTy t = true) : lookup "x-aliases" (gen cfg t) = none := by
  cases t with
  | any => rw [gen.eq_def]; rfl
  | plain p =>
    rw [gen.eq_def]
    unfold plainSchema
    rw [lookup_append, lookup_optStr_ne _ _ _ (by decide)]
    simp [lookup]
  | scalar p m cs =>
    rw [wfTy.eq_def] at h
    simp only [Bool.and_eq_true] at h
    rw [gen.eq_def]
    simp only [lookup_append, lookup_ruleHead_aliases,
      lookup_consSchema_aliases _ _ cs h.1 (allowed_ne_aliases _ (scalarCons_sub p))]
  | derived p m cs0 _ cs =>
    rw [wfTy.eq_def] at h
    simp only [Bool.and_eq_true] at h
    rw [gen.eq_def]
    simp only [lookup_append, lookup_ruleHead_aliases,
      lookup_consSchema_aliases _ _ cs0 h.1.1.1 (allowed_ne_aliases _ (scalarCons_sub p)),
      lookup_consSchema_aliases _ _ cs h.1.1.2 (allowed_ne_aliases _ (scalarCons_sub p))]
  | seq p m cs item =>
    rw [wfTy.eq_def] at h
    simp only [Bool.and_eq_true] at h
    rw [gen.eq_def]
    simp only [lookup_append, lookup_ruleHead_aliases,
      lookup_consSchema_aliases _ _ cs h.1.1.2 (allowed_ne_aliases _ (by decide))]
    simp [lookup]
  | tup m cs items =>
    rw [wfTy.eq_def] at h
    simp only [Bool.and_eq_true] at h
    rw [gen.eq_def]
    simp only [lookup_append, lookup_ruleHead_aliases,
      lookup_consSchema_aliases _ _ cs h.1.1.1 (allowed_ne_aliases _ (by decide))]
    simp [lookup]
  | map m cs key val =>
    rw [wfTy.eq_def] at h
    simp only [Bool.and_eq_true] at h
    rw [gen.eq_def]
    simp only [lookup_append, lookup_ruleHead_aliases,
      lookup_consSchema_aliases _ _ cs h.1.1.1 (allowed_ne_aliases _ (by decide))]
    simp [lookup]
  | enum e =>
    rw [gen.eq_def]
    unfold enumSchema
    rw [lookup_append, lookup_optStr_ne _ _ _ (by decide)]
    simp [lookup]
  | logic op ts =>
    rw [gen.eq_def]
    cases op <;> simp [lookup, opName]
  | data c fields addTy =>
    rw [gen.eq_def]
    simp only [lookup_append]
    have h0 : ∀ x : Json, lookup "x-aliases" [("type", Json.str "object"), ("properties", x)] = none := by
      intro x; simp [lookup]
    have h1 : lookup "x-aliases" (reqSeg cfg (effOpts cfg c) (fields.map Fld.meta)) = none := by
      unfold reqSeg; split <;> simp [lookup]
    have h2 : lookup "x-aliases" (depSeg cfg (effOpts cfg c) (fields.map Fld.meta)) = none := by
      unfold depSeg; split <;> simp [lookup]
    have h3 : lookup "x-aliases" (addSeg (effOpts cfg c) (gen cfg addTy)) = none := by
      unfold addSeg; cases (effOpts cfg c).addition <;> simp [lookup]
    have h4 : lookup "x-aliases" (classAnnotations (effOpts cfg c)) = none := by
      unfold classAnnotations; cases (effOpts cfg c).mode <;> simp [lookup]
    rw [h0, h1, h2, h3, h4]

/-- the `x-aliases` member of a property -/
theorem lookup_fieldExtras_aliases (f : FieldMeta) :
    lookup "x-aliases" (fieldExtras f) =
      (if f.aliases.isEmpty then none else some (strArr (sortStrings f.aliases))) := by
  unfold fieldExtras
  simp only [lookup_append]
  have h1 : lookup "x-aliases" (optStr "title" f.title) = none := by cases f.title <;> simp [optStr, lookup]
  have h2 : lookup "x-aliases" (optStr "description" f.description) = none := by
    cases f.description <;> simp [optStr, lookup]
  have h3 : lookup "x-aliases" (deprecatedSeg f.deprecated) = none := by unfold deprecatedSeg; split <;> simp [lookup]
  have h4 : lookup "x-aliases" (modeSeg f.mode) = none := by unfold modeSeg; split <;> simp [lookup]
  have h5 : lookup "x-aliases" (exampleSeg f.exampleV) = none := by unfold exampleSeg; split <;> simp [lookup]
  rw [h1, h2, h3, h4, h5]
  unfold aliasSeg
  by_cases h : f.aliases.isEmpty = true
  · simp [h, lookup]
  · simp [h, lookup]

end Utv.C13
