import Utv.Lemmas.C15Base
/-! Facts about the parser model: what the recursive calls return, `mkRule` / `annotate`, constraints vs keywords. -/
set_option linter.unusedSimpArgs false
set_option linter.unusedVariables false
namespace Utv.C15
open Utv.JsonSchema

/-! ### the recursive calls -/

theorem parse_obj (N : Names) (kvs : Obj) : parse N (.obj kvs) = assemble N kvs (parseKws N kvs) := by
  rw [parse]

theorem parseList_eq (N : Names) : (ss : List Json) → parseList N ss = ss.map (parse N)
  | [] => by rw [parseList]; rfl
  | s :: rest => by rw [parseList, parseList_eq N rest]; rfl

theorem parseProps_eq (N : Names) : (ps : List (String × Json)) → parseProps N ps = ps.map fun p => (p.1, parse N p.2)
  | [] => by rw [parseProps]; rfl
  | (n, s) :: rest => by rw [parseProps, parseProps_eq N rest]; rfl

/-- what `parseKws` stores for one member -/
def subOf (N : Names) (k : String) (v : Json) : Sub :=
  if oneKeywords.contains k then .one (parse N v)
  else if manyKeywords.contains k then (match v with
    | .arr ss => .many (parseList N ss)
    | _ => .skip)
  else if k == "properties" then (match v with
    | .obj ps => .props (parseProps N ps)
    | _ => .skip)
  else .skip

theorem parseKws_nil (N : Names) : parseKws N [] = [] := by rw [parseKws]

theorem parseKws_cons (N : Names) (k : String) (v : Json) (rest : List (String × Json)) :
    parseKws N ((k, v) :: rest) = (k, subOf N k v) :: parseKws N rest := by
  conv => lhs; rw [parseKws.eq_def]
  rfl

theorem parseKws_lookup (N : Names) (k : String) : (kws : List (String × Json)) →
    (parseKws N kws).lookup k = (lookup k kws).map (subOf N k)
  | [] => by simp [parseKws_nil, lookup]
  | (k', v) :: rest => by
    rw [parseKws_cons]
    simp only [List.lookup, lookup]
    by_cases h : (k' == k) = true
    · have : k' = k := by simpa using h
      subst this
      simp
    · have h' : (k == k') = false := by
        cases hk : (k == k') with
        | false => rfl
        | true =>
          have : k = k' := by simpa using hk
          subst this; simp at h
      have h'' : (k' == k) = false := by simpa using h
      simp only [h', h'']
      exact parseKws_lookup N k rest

theorem subOne_items (N : Names) (kvs : Obj) (v : Json) (h : lookup "items" kvs = some v) :
    subOne (parseKws N kvs) "items" = parse N v := by
  simp [subOne, parseKws_lookup, h, subOf, oneKeywords]

theorem subOne_additional (N : Names) (kvs : Obj) (v : Json) (h : lookup "additionalProperties" kvs = some v) :
    subOne (parseKws N kvs) "additionalProperties" = parse N v := by
  simp [subOne, parseKws_lookup, h, subOf, oneKeywords]

theorem subMany_of (N : Names) (kvs : Obj) (k : String) (hk : manyKeywords.contains k = true) (ss : List Json)
    (h : lookup k kvs = some (.arr ss)) : subMany (parseKws N kvs) k = ss.map (parse N) := by
  have h1 : ¬ k ∈ oneKeywords := by
    simp [manyKeywords] at hk
    rcases hk with h | h | h | h <;> subst h <;> simp [oneKeywords]
  have h2 : k ∈ manyKeywords := by simpa using hk
  simp [subMany, parseKws_lookup, h, subOf, h1, h2, parseList_eq]

theorem subProps_of (N : Names) (kvs : Obj) (ps : List (String × Json)) (h : lookup "properties" kvs = some (.obj ps)) :
    subProps (parseKws N kvs) = ps.map fun p => (p.1, parse N p.2) := by
  simp [subProps, parseKws_lookup, h, subOf, oneKeywords, manyKeywords, parseProps_eq]

/-! ### `mkRule`, `annotate` -/

theorem mkRule_cases (t : Ty) (cons : Cons) (r : Ty) (h : mkRule t cons = some r) :
    (t = .any ∧ r = .anyRule) ∨ (cons = [] ∧ r = t) ∨ r = .rule t cons := by
  unfold mkRule at h
  split at h
  · exact Or.inl ⟨rfl, by simpa using h.symm⟩
  · by_cases hc : cons.isEmpty = true
    · simp [hc] at h
      exact Or.inr (Or.inl ⟨by simpa using hc, h.symm⟩)
    · simp only [hc, Bool.false_eq_true, if_false] at h
      refine Or.inr (Or.inr ?_)
      split at h
      · split at h
        · split at h
          · simpa using h.symm
          · simp at h
        · simp at h
      · split at h
        · simpa using h.symm
        · split at h
          · simpa using h.symm
          · simp at h

theorem conforms_bareOrigin (R : Rx) (t : Ty) (j : Json) (h : conforms R t j = true) : conforms R (bareOrigin t) j = true := by
  cases t <;> simp [bareOrigin, conforms, primOk] at h ⊢ <;> try exact h
  all_goals (cases j <;> simp_all)

/-- the constraints of an annotated type hold of what conforms to it, and so does the origin alone -/
theorem annotate_conforms (R : Rx) (t : Ty) (hasArgs : Bool) (cons : Cons) (T : Ty) (j : Json)
    (ht : t ≠ .any) (h : annotate t hasArgs cons = some T) (hc : conforms R T j = true) :
    conforms R (bareOrigin t) j = true ∧ (∀ c ∈ cons, sat R c j = true) ∧ (hasArgs = true → conforms R t j = true) := by
  unfold annotate at h
  simp only at h
  split at h
  · rename_i rules hrules
    cases h
    have hall := conforms_combine_all R rules j hc
    obtain ⟨r1, r2, hr1, hr2, hrr⟩ := allSome_append _ _ rules hrules
    subst hrr
    -- every single rule
    have hsingle : ∀ c ∈ (cons.filter fun c => c.1 == "const") ++ (cons.filter fun c => c.1 == "enum"),
        conforms R (bareOrigin t) j = true ∧ sat R c j = true := by
      intro c hcm
      have hm : some (Ty.rule (bareOrigin t) [c]) ∈ ((cons.filter fun c => c.1 == "const") ++ (cons.filter fun c => c.1 == "enum")).map
          (fun c => mkRule (bareOrigin t) [c]) ∨ True := Or.inr trivial
      have hmem : mkRule (bareOrigin t) [c] ∈ ((cons.filter fun c => c.1 == "const") ++ (cons.filter fun c => c.1 == "enum")).map
          (fun c => mkRule (bareOrigin t) [c]) := List.mem_map.mpr ⟨c, hcm, rfl⟩
      have heq := allSome_eq_some _ r2 hr2
      rw [heq] at hmem
      obtain ⟨r, hr, hrr⟩ := List.mem_map.mp hmem
      have hb : bareOrigin t ≠ .any := by
        cases t <;> simp [bareOrigin] at ht ⊢
      rcases mkRule_cases (bareOrigin t) [c] r hrr.symm with ⟨h1, _⟩ | ⟨h1, _⟩ | h1
      · exact absurd h1 hb
      · simp at h1
      · subst h1
        have := hall _ (List.mem_append_right _ hr)
        simp only [conforms, Bool.and_eq_true, List.all_eq_true] at this
        exact ⟨this.1, this.2 c (by simp)⟩
    have hfirst : ∀ r ∈ r1, conforms R r j = true := fun r hr => hall r (List.mem_append_left _ hr)
    -- the first rule, when it is there
    have hrest : (!(cons.filter fun c => !(c.1 == "const" || c.1 == "enum")).isEmpty || hasArgs ||
        ((cons.filter fun c => c.1 == "const") ++ (cons.filter fun c => c.1 == "enum")).isEmpty) = true →
        conforms R t j = true ∧ ∀ c ∈ cons.filter (fun c => !(c.1 == "const" || c.1 == "enum")), sat R c j = true := by
      intro hcond
      rw [if_pos hcond] at hr1
      cases hm : mkRule t (cons.filter fun c => !(c.1 == "const" || c.1 == "enum")) with
      | none => rw [hm] at hr1; simp [allSome] at hr1
      | some r =>
        rw [hm] at hr1
        simp [allSome] at hr1
        subst hr1
        have hcr := hfirst r (by simp)
        rcases mkRule_cases t _ r hm with ⟨h1, _⟩ | ⟨h1, h2⟩ | h1
        · exact absurd h1 ht
        · subst h2
          refine ⟨hcr, fun c hc' => ?_⟩
          rw [h1] at hc'; simp at hc'
        · subst h1
          simp only [conforms, Bool.and_eq_true, List.all_eq_true] at hcr
          exact ⟨hcr.1, fun c hc' => hcr.2 c hc'⟩
    refine ⟨?_, fun c hcm => ?_, fun hargs => ?_⟩
    · by_cases hcond : (!(cons.filter fun c => !(c.1 == "const" || c.1 == "enum")).isEmpty || hasArgs ||
          ((cons.filter fun c => c.1 == "const") ++ (cons.filter fun c => c.1 == "enum")).isEmpty) = true
      · exact conforms_bareOrigin R t j (hrest hcond).1
      · -- no first rule: there is a single one
        have : ((cons.filter fun c => c.1 == "const") ++ (cons.filter fun c => c.1 == "enum")).isEmpty = false := by
          have hcond' := (Bool.not_eq_true _).mp hcond
          rw [Bool.or_eq_false_iff, Bool.or_eq_false_iff] at hcond'
          exact hcond'.2
        match hl : (cons.filter fun c => c.1 == "const") ++ (cons.filter fun c => c.1 == "enum") with
        | [] => simp [hl] at this
        | c :: _ => exact (hsingle c (by rw [hl]; simp)).1
    · by_cases h1 : (c.1 == "const") = true
      · exact (hsingle c (List.mem_append_left _ (List.mem_filter.mpr ⟨hcm, h1⟩))).2
      · by_cases h2 : (c.1 == "enum") = true
        · exact (hsingle c (List.mem_append_right _ (List.mem_filter.mpr ⟨hcm, h2⟩))).2
        · have hmem : c ∈ cons.filter (fun c => !(c.1 == "const" || c.1 == "enum")) :=
            List.mem_filter.mpr ⟨hcm, by simp [h1, h2]⟩
          have hne : (cons.filter fun c => !(c.1 == "const" || c.1 == "enum")).isEmpty = false := by
            cases hl : cons.filter (fun c => !(c.1 == "const" || c.1 == "enum")) with
            | nil => rw [hl] at hmem; simp at hmem
            | cons _ _ => rfl
          exact (hrest (by rw [hne]; rfl)).2 c hmem
    · exact (hrest (by rw [hargs]; simp)).1
  · simp at h

end Utv.C15
