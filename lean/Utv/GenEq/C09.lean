import Utv.GenEq.Support
import Utv.Gen.Parse
import Utv.Model.C09
/-!
C09 — T1 obligations: `LogicalType.logical_parse` (utype/parser/rule.py), regenerated on every run as
`Utv.Gen.Parse.logical_parse`, is the hand model's `logicalNeg / logicalXor / logicalUnion / logicalAll`
(`Model/C09.lean`), and the context bookkeeping it uses is the model's `handleError / raiseError`.

Encoding.  The abstract values of the object layer are the model's values and its abstract errors (`V ⊕ Err`).  An `Err`
the code itself builds is the object it builds (`NegateViolatedError`, `OneOfViolatedError`, `CollectedParseError(errors=…)`);
every other `Err` is abstract.  The combinator class carries its `combinator` and `args` (argument `i` is the class
`OVal.cls i`); the context is the `RuntimeContext` with its two lists and the options `logical_parse` / `handle_error`
read.  Entering a sub-context and converting there are the world's: `context.enter(comb, options)` hands back a context
whose `transformer`, called on `(value, argument i)`, answers `Arg.out s` of argument `i` for the stage options `s`.
-/
namespace Utv.GenEq.C09
open Utv.Obj Utv.C09 Utv.Gen

variable {V : Type}

abbrev E (V : Type) := OVal (V ⊕ Err)

mutual
/-- an error as the Python object: the three the code builds itself, every other one abstract -/
def encE : Err → E V
  | .mk 0 es => .obj "CollectedParseError" [("errors", .seq .list (encEs es))]
  | .mk 1 [] => .obj "OneOfViolatedError" []
  | .mk 2 [] => .obj "NegateViolatedError" []
  | e => .val (.inr e)
def encEs : List Err → List (E V)
  | [] => []
  | e :: es => encE e :: encEs es
end

theorem encEs_eq_map (es : List Err) : encEs (V := V) es = es.map encE := by
  induction es with
  | nil => rfl
  | cons e es ih => simp [encEs, ih]

theorem encEs_append (a b : List Err) : encEs (V := V) (a ++ b) = encEs a ++ encEs b := by
  simp [encEs_eq_map]

theorem encE_collected (es : List Err) :
    encE (V := V) (Err.collected es) = .obj "CollectedParseError" [("errors", .seq .list (encEs es))] := rfl

def encOptNat : Option Nat → E V
  | none => .none
  | some n => .int n

/-- the `Options` of a context, as `logical_parse` and `handle_error` read them -/
def encO (o : Opts) : E V :=
  .obj "Options" [("no_data_loss", .bool o.noDataLoss), ("no_explicit_cast", .bool o.noExplicitCast),
    ("collect_errors", .bool o.collectErrors), ("max_errors", encOptNat o.maxErrors)]

/-- the combinator's own context -/
def encCtx (o : Opts) (c : Ctx) : E V :=
  .obj "RuntimeContext" [("errors", .seq .list (encEs c.errors)), ("tmp_errors", .seq .list (encEs c.tmp)),
    ("options", encO o)]

def encRaised : Option Err → Outcome (V ⊕ Err)
  | none => .ret .none
  | some e => .raise (encE e)

/-- `handle_error(e)` is the model's `handleError` -/
theorem C09_gen_handle_error (W : World (V ⊕ Err)) (o : Opts) (c : Ctx) (e : Err) :
    Options.handle_error W (encCtx o c) (encE e) (.bool false)
      = .ok (encCtx o (handleError o c e).1, encRaised (handleError o c e).2) := by
  obtain ⟨ndl, nec, collect, me, ov⟩ := o
  obtain ⟨errors, tmp⟩ := c
  cases collect <;> cases me <;>
    obj_simp [Options.handle_error, encCtx, encO, encOptNat, getattr, setattr, lookupAttr, setAttrL, append, OVal.isNone,
      handleError, Ctx.push, encRaised, encEs_append, encEs, toList, iter, extend, len, ge, le, intOf?]
  rename_i m
  have hlen : (encEs (V := V) errors).length = errors.length := by simp [encEs_eq_map]
  have hce : encE (V := V) (Err.collected (errors ++ e :: tmp)) =
      .obj "CollectedParseError" [("errors", .seq .list (encEs (errors ++ e :: tmp)))] := rfl
  by_cases hm : m ≤ errors.length + 1
  · have hm' : (m : Int) ≤ ((encEs (V := V) errors).length : Int) + 1 := by rw [hlen]; omega
    cases tmp <;> simp [hm, hm', hce, encEs_append, encEs]
  · have hm' : ¬ (m : Int) ≤ ((encEs (V := V) errors).length : Int) + 1 := by rw [hlen]; omega
    simp [hm, hm', encEs_append, encEs]

def encRes (v : V) (x : Option Err) : Outcome (V ⊕ Err) :=
  match x with
  | none => .ret (.val (.inl v))
  | some e => .raise (encE e)

/-- `raise_error()` is the model's `raiseError` (what `return value` then hands back is the caller's) -/
theorem C09_gen_raise_error (W : World (V ⊕ Err)) (o : Opts) (c : Ctx) (v : V) :
    Options.raise_error W (encCtx o c)
      = .ok (encCtx o c, match (raiseError c v).2 with
        | .ok _ => .ret .none
        | .error e => .raise (encE e)) := by
  obtain ⟨errors, tmp⟩ := c
  have hce : encE (V := V) (Err.collected (errors ++ tmp)) =
      .obj "CollectedParseError" [("errors", .seq .list (encEs (errors ++ tmp)))] := rfl
  cases errors <;> cases tmp <;>
    obj_simp [Options.raise_error, encCtx, getattr, lookupAttr, raiseError, encEs, toList, iter, extend, hce, encEs_append] <;>
    simp [encE_collected, encEs, encEs_append]

theorem collect_tmp_eq (W : World (V ⊕ Err)) (o : Opts) (c : Ctx) (e : Err) :
    Options.collect_tmp_error W (encCtx o c) (encE e) = .ok (encCtx o { c with tmp := c.tmp ++ [e] }, .ret .none) := by
  obj_simp [Options.collect_tmp_error, encCtx, getattr, setattr, lookupAttr, setAttrL, append, encEs_append, encEs]

theorem clear_tmp_eq (W : World (V ⊕ Err)) (o : Opts) (c : Ctx) :
    Options.clear_tmp_error W (encCtx o c) = .ok (encCtx o { c with tmp := [] }, .ret .none) := by
  obj_simp [Options.clear_tmp_error, encCtx, setattr, setAttrL, encEs]

/-! ### the combinator class, the entered contexts, the world -/

/-- a `LogicalType` with combinator `comb` over `n` arguments (argument `i` is the class `OVal.cls i`) -/
def encCls (comb : String) (n : Nat) : E V :=
  .obj "LogicalType" [("combinator", .str comb), ("args", .seq .tuple ((List.range n).map OVal.cls))]

/-- the converter of a context that runs under the options `s` -/
def trOf (s : Opts) : E V := .obj "transformer" [("options", encO s)]

/-- a context entered for one condition, running under `s`: `logical_parse` only asks it for its `transformer` -/
def entered (s : Opts) : E V := .obj "RuntimeContext" [("transformer", trOf s)]

def encOut : Except Err V → M (V ⊕ Err) (E V)
  | .ok r => .ok (.val (.inl r))
  | .error e => .error (.raised (encE e))

/-- entering a sub-context without options keeps the options; converting there is the argument's `Arg.out` -/
structure WorldOk (W : World (V ⊕ Err)) (as : List (Arg V)) (comb : String) (o : Opts) : Prop where
  enter0 : ∀ c : Ctx, W.ext "enter" [encCtx o c, .str comb, .none] = .ok (entered o)
  conv : ∀ (s : Opts) (i : Nat) (a : Arg V) (v : V), as[i]? = some a →
    W.call (trOf s) [.val (.inl v), .cls i] = encOut (a.out s v)

theorem ga_comb (comb : String) (n : Nat) : getattr (encCls (V := V) comb n) "combinator" = .ok (.str comb) := rfl
theorem ga_args (comb : String) (n : Nat) :
    getattr (encCls (V := V) comb n) "args" = .ok (.seq .tuple ((List.range n).map OVal.cls)) := rfl
theorem ga_tr (s : Opts) : getattr (entered (V := V) s) "transformer" = .ok (trOf s) := rfl

/-- what one iteration of the `~` loop does to the context, and whether the loop goes on -/
def negStep (o : Opts) (v : V) (a : Arg V) (c : Ctx) : ForInStep (E V) :=
  match a.out o v with
  | .error _ => .done (encCtx o c)
  | .ok _ =>
    match handleError o c .negate with
    | (c1, some _) => .done (encCtx o c1)
    | (c1, none) => .yield (encCtx o c1)

theorem forIn_neg (g : E V → E V → M (V ⊕ Err) (ForInStep (E V))) (o : Opts) (v : V) :
    ∀ (as : List (Arg V)) (k : Nat) (c : Ctx),
      (∀ (j : Nat) (a : Arg V) (c : Ctx), as[j]? = some a → g (.cls (k + j)) (encCtx o c) = .ok (negStep o v a c)) →
      forIn ((List.range' k as.length).map OVal.cls) (encCtx o c) g = .ok (encCtx o (negLoop o v as c)) := by
  intro as
  induction as with
  | nil => intro k c _; rfl
  | cons a rest ih =>
    intro k c hg
    have h0 := hg 0 a c rfl
    simp only [Nat.add_zero] at h0
    simp only [List.length_cons, List.range'_succ, List.map_cons, List.forIn_cons, h0, negStep, negLoop]
    cases hout : a.out o v with
    | error e => simp [bind, Except.bind, pure, Except.pure]
    | ok r =>
      cases hh : handleError o c .negate with
      | mk c1 x =>
        cases x with
        | some e' => simp [bind, Except.bind, pure, Except.pure]
        | none =>
          simp only [bind, Except.bind]
          exact ih (k + 1) c1 (fun j a' c' hj => by
            have := hg (j + 1) a' c' (by simpa using hj)
            rwa [show k + (j + 1) = k + 1 + j by omega] at this)

theorem C09_gen_not (W : World (V ⊕ Err)) (as : List (Arg V)) (o : Opts) (c : Ctx) (v : V)
    (hw : WorldOk W as "~" o) :
    Parse.logical_parse W (encCls "~" as.length) (.val (.inl v)) (encCtx o c)
      = .ok (encCtx o (logicalNeg as o c v).1, encRes v (match (logicalNeg as o c v).2 with | .ok _ => none | .error e => some e)) := by
  unfold Parse.logical_parse
  have e1 : Obj.eq (V := V ⊕ Err) (.str "~") (.str "&") = .ok false := rfl
  have e2 : Obj.eq (V := V ⊕ Err) (.str "~") (.str "|") = .ok false := rfl
  have e3 : Obj.eq (V := V ⊕ Err) (.str "~") (.str "^") = .ok false := rfl
  have e4 : Obj.eq (V := V ⊕ Err) (.str "~") (.str "~") = .ok true := rfl
  have ht : truthy (encCtx (V := V) o c) = .ok true := rfl
  simp only [ht, ga_comb, ga_args, e1, e2, e3, e4, iter, bind, Except.bind, pure, Except.pure, Bool.false_eq_true, if_false,
    if_true]
  rw [List.range_eq_range', forIn_neg _ o v as 0 c]
  · simp only [C09_gen_raise_error W o _ v, logicalNeg]
    cases (raiseError (negLoop o v as c) v).2 <;> rfl
  · intro j a c' hj
    have hc := hw.conv o j a v hj
    have hn : (OVal.obj "NegateViolatedError" [] : E V) = encE Err.negate := rfl
    simp only [Nat.zero_add, hw.enter0 c', ga_tr, hc, hn, C09_gen_handle_error, negStep, Option.isNone_none, if_true]
    cases hout : a.out o v with
    | error e =>
      simp [encOut, tryCatch, tryCatchThe, MonadExceptOf.tryCatch, Except.tryCatch]
      rfl
    | ok r =>
      cases hh : handleError o c' .negate with
      | mk c1 x =>
        cases x <;> simp [encOut, tryCatch, tryCatchThe, MonadExceptOf.tryCatch, Except.tryCatch, encRaised] <;> rfl

end Utv.GenEq.C09
