import Utv.Lemmas.C14Text
/-! C14 — `PrimLaws P0`: the concrete builtins satisfy every law the theorems assume (non-vacuity). -/
namespace Utv.C14.P0
open Utv.C14

theorem lit_cons (c : Char) (r : Str) : lit c (c :: r) = some r := by simp [lit]

theorem daysIn_le (y m : Nat) : daysIn y m ≤ 31 := by
  unfold daysIn; split <;> (try split) <;> omega

theorem pDate_iso (d : Date) (hv : d.valid = true) (r : Str) : pDate (isoDate d ++ r) = some (d, r) := by
  have hv' := hv
  have hdi := daysIn_le d.y d.m
  simp only [Date.valid, Bool.and_eq_true, decide_eq_true_eq] at hv'
  have hy : d.y < 10 ^ 4 := by omega
  have hm : d.m < 10 ^ 2 := by omega
  have hd : d.d < 10 ^ 2 := by omega
  simp only [pDate, isoDate, List.append_assoc, List.cons_append, digitsN_pad (by decide) hy,
    digitsN_pad (by decide) hm, digitsN_pad (by decide) hd, lit_cons, Option.bind_eq_bind, Option.bind_some, hv, ↓reduceIte]

theorem pHMS_iso (c : Clock) (hv : c.valid = true) (r : Str) :
    pHMS (pad 2 c.h ++ (':' :: (pad 2 c.mi ++ (':' :: (pad 2 c.s ++ r))))) = some ((c.h, c.mi, c.s), r) := by
  simp only [Clock.valid, Bool.and_eq_true, decide_eq_true_eq] at hv
  have h1 : c.h < 10 ^ 2 := by omega
  have h2 : c.mi < 10 ^ 2 := by omega
  have h3 : c.s < 10 ^ 2 := by omega
  have h4 : c.h < 24 ∧ c.mi < 60 ∧ c.s < 60 := ⟨hv.1.1.1, hv.1.1.2, hv.1.2⟩
  simp only [pHMS, List.append_assoc, List.cons_append, digitsN_pad (by decide) h1, digitsN_pad (by decide) h2,
    digitsN_pad (by decide) h3, lit_cons, Option.bind_eq_bind, Option.bind_some, h4, and_self, ↓reduceIte]


theorem digitsN_pad_nil {n w : Nat} (hw : 0 < w) (h : n < 10 ^ w) : digitsN w (pad w n) = some (n, []) := by
  have := digitsN_pad hw h []
  simpa using this

theorem pOffset_iso (o : Int) (h : o.natAbs < 86400000000) : pOffset (isoOffset o) = some o := by
  have hhh : o.natAbs / 3600000000 < 10 ^ 2 := by omega
  have hmm : o.natAbs % 3600000000 / 60000000 < 10 ^ 2 := by omega
  have hss : o.natAbs % 3600000000 % 60000000 / 1000000 < 10 ^ 2 := by omega
  have hus : o.natAbs % 3600000000 % 60000000 % 1000000 < 10 ^ 6 := by omega
  have hsign : ((if o < 0 then '-' else '+') = '+' ∨ (if o < 0 then '-' else '+') = '-') := by
    split <;> simp
  have hval : (if (if o < 0 then '-' else '+') = '-' then
      -((((o.natAbs / 3600000000 * 60 + o.natAbs % 3600000000 / 60000000) * 60
          + o.natAbs % 3600000000 % 60000000 / 1000000) * 1000000
          + o.natAbs % 3600000000 % 60000000 % 1000000 : Nat) : Int)
      else ((((o.natAbs / 3600000000 * 60 + o.natAbs % 3600000000 / 60000000) * 60
          + o.natAbs % 3600000000 % 60000000 / 1000000) * 1000000
          + o.natAbs % 3600000000 % 60000000 % 1000000 : Nat) : Int)) = o := by
    by_cases ho : o < 0
    · simp only [ho, ↓reduceIte]; omega
    · simp only [ho, ↓reduceIte]
      have : ('+' : Char) ≠ '-' := by decide
      simp only [this, ↓reduceIte]; omega
  unfold isoOffset
  simp only []
  by_cases hz : (o.natAbs % 3600000000 % 60000000 / 1000000 != 0 || o.natAbs % 3600000000 % 60000000 % 1000000 != 0) = true
  · simp only [hz, ↓reduceIte]
    by_cases hu : (o.natAbs % 3600000000 % 60000000 % 1000000 != 0) = true
    · simp only [hu, ↓reduceIte, pOffset, hsign, List.append_assoc, List.cons_append, digitsN_pad (by decide) hhh,
        digitsN_pad (by decide) hmm, digitsN_pad (by decide) hss, digitsN_pad_nil (by decide) hus, lit_cons,
        Option.bind_eq_bind, Option.bind_some, List.isEmpty_nil]
      have hb : o.natAbs % 3600000000 / 60000000 < 60 ∧ o.natAbs % 3600000000 % 60000000 / 1000000 < 60 := by omega
      have hlt : ((o.natAbs / 3600000000 * 60 + o.natAbs % 3600000000 / 60000000) * 60
          + o.natAbs % 3600000000 % 60000000 / 1000000) * 1000000
          + o.natAbs % 3600000000 % 60000000 % 1000000 < 86400000000 := by omega
      simp only [hb, and_self, ↓reduceIte, hlt, hval]
    · have hu0 : o.natAbs % 3600000000 % 60000000 % 1000000 = 0 := by simpa using hu
      simp only [hu, Bool.false_eq_true, ↓reduceIte, pOffset, hsign, List.append_assoc, List.cons_append, List.append_nil,
        digitsN_pad (by decide) hhh, digitsN_pad (by decide) hmm, digitsN_pad_nil (by decide) hss, lit_cons,
        Option.bind_eq_bind, Option.bind_some]
      have hb : o.natAbs % 3600000000 / 60000000 < 60 ∧ o.natAbs % 3600000000 % 60000000 / 1000000 < 60 := by omega
      have hlt : ((o.natAbs / 3600000000 * 60 + o.natAbs % 3600000000 / 60000000) * 60
          + o.natAbs % 3600000000 % 60000000 / 1000000) * 1000000 + 0 < 86400000000 := by omega
      rw [hu0] at hval
      simp only [hb, and_self, ↓reduceIte, hlt, hval]
  · have hz' : o.natAbs % 3600000000 % 60000000 / 1000000 = 0 ∧ o.natAbs % 3600000000 % 60000000 % 1000000 = 0 := by
      simpa using hz
    simp only [hz, Bool.false_eq_true, ↓reduceIte, pOffset, hsign, List.append_assoc, List.cons_append, List.append_nil,
      digitsN_pad (by decide) hhh, digitsN_pad_nil (by decide) hmm, lit_cons,
      Option.bind_eq_bind, Option.bind_some]
    have hb : o.natAbs % 3600000000 / 60000000 < 60 ∧ (0 : Nat) < 60 := by omega
    have hlt : ((o.natAbs / 3600000000 * 60 + o.natAbs % 3600000000 / 60000000) * 60 + 0) * 1000000 + 0 < 86400000000 := by omega
    rw [hz'.1, hz'.2] at hval
    simp only [hb, and_self, ↓reduceIte, hlt, hval]


/-- `isoformat()` of a datetime, re-associated for the parsers -/
theorem isoDateTime_eq (dt : DateTime) :
    isoDateTime dt = isoDate dt.date ++ ('T' :: (pad 2 dt.clock.h ++ (':' :: (pad 2 dt.clock.mi ++ (':' :: (pad 2 dt.clock.s ++
      ((if dt.clock.us != 0 then '.' :: pad 6 dt.clock.us else []) ++ isoTz dt.tz))))))) := by
  simp [isoDateTime, isoClock, List.append_assoc]

theorem isEmpty_isoOffset (o : Int) : (isoOffset o).isEmpty = false := by
  simp [isoOffset]

theorem isoOffset_ne_nil (o : Int) : isoOffset o ≠ [] := by
  simp [isoOffset]

theorem pIso_naive (dt : DateTime) (hv : dt.valid = true) (htz : dt.tz = none) :
    pIsoDateTime (dt.clock.us != 0) false (isoDateTime dt) = some dt := by
  simp only [DateTime.valid, Bool.and_eq_true] at hv
  have hus : dt.clock.us < 10 ^ 6 := by
    have := hv.1.2; simp only [Clock.valid, Bool.and_eq_true, decide_eq_true_eq] at this; omega
  rw [isoDateTime_eq, htz]
  obtain ⟨d, c, tz⟩ := dt
  obtain ⟨h, mi, s, us⟩ := c
  simp only at htz hus hv ⊢
  by_cases hu : (us != 0) = true
  · simp only [hu, ↓reduceIte, pIsoDateTime, pDate_iso d hv.1.1, lit_cons, pHMS_iso ⟨h, mi, s, us⟩ hv.1.2, isoTz,
      List.cons_append, List.append_nil, digitsN_pad_nil (by decide) hus, Option.bind_eq_bind, Option.bind_some,
      Bool.false_eq_true, List.isEmpty_nil, htz]
  · have : us = 0 := by simpa using hu
    subst this
    simp only [hu, Bool.false_eq_true, ↓reduceIte, pIsoDateTime, pDate_iso d hv.1.1, lit_cons,
      pHMS_iso ⟨h, mi, s, 0⟩ hv.1.2, isoTz, List.nil_append, Option.bind_eq_bind, Option.bind_some, List.isEmpty_nil, htz]

theorem pIso_aware (dt : DateTime) (hv : dt.valid = true) (o : Int) (htz : dt.tz = some o) :
    pIsoDateTime (dt.clock.us != 0) true (isoDateTime dt) = some dt := by
  simp only [DateTime.valid, Bool.and_eq_true] at hv
  have hus : dt.clock.us < 10 ^ 6 := by
    have := hv.1.2; simp only [Clock.valid, Bool.and_eq_true, decide_eq_true_eq] at this; omega
  have ho : o.natAbs < 86400000000 := by
    have := hv.2; rw [htz] at this; simpa [tzValid] using this
  rw [isoDateTime_eq, htz]
  obtain ⟨d, c, tz⟩ := dt
  obtain ⟨h, mi, s, us⟩ := c
  simp only at htz hus hv ⊢
  by_cases hu : (us != 0) = true
  · simp only [hu, ↓reduceIte, pIsoDateTime, pDate_iso d hv.1.1, lit_cons, pHMS_iso ⟨h, mi, s, us⟩ hv.1.2, isoTz,
      List.cons_append, digitsN_pad (by decide) hus, Option.bind_eq_bind, Option.bind_some, pOffset_iso o ho, htz]
  · have : us = 0 := by simpa using hu
    subst this
    simp only [hu, Bool.false_eq_true, ↓reduceIte, pIsoDateTime, pDate_iso d hv.1.1, lit_cons,
      pHMS_iso ⟨h, mi, s, 0⟩ hv.1.2, isoTz, List.nil_append, Option.bind_eq_bind, Option.bind_some, pOffset_iso o ho, htz]


theorem strptime_fmtD_nil (s : Str) (d : Date) (h : pDate s = some (d, [])) :
    strptime s fmtD = some ⟨d, midnight, none⟩ := by
  simp [strptime, h]
theorem strptime_fmtD_rest (s : Str) (d : Date) (c : Char) (r : Str) (h : pDate s = some (d, c :: r)) :
    strptime s fmtD = none := by
  simp [strptime, h]
theorem strptime_fmtT (s : Str) : strptime s fmtT = pIsoDateTime false false s := by
  have : fmtT ≠ fmtD := by decide
  simp [strptime, this]
theorem strptime_fmtTF (s : Str) : strptime s fmtTF = pIsoDateTime true false s := by
  have h1 : fmtTF ≠ fmtD := by decide
  have h2 : fmtTF ≠ fmtT := by decide
  simp [strptime, h1, h2]
theorem strptime_fmtTz (s : Str) : strptime s (fmtT ++ fmtZ) = pIsoDateTime false true s := by
  have h1 : fmtT ++ fmtZ ≠ fmtD := by decide
  have h2 : fmtT ++ fmtZ ≠ fmtT := by decide
  have h3 : fmtT ++ fmtZ ≠ fmtTF := by decide
  simp [strptime, h1, h2, h3]
theorem strptime_fmtTFz (s : Str) : strptime s (fmtTF ++ fmtZ) = pIsoDateTime true true s := by
  have h1 : fmtTF ++ fmtZ ≠ fmtD := by decide
  have h2 : fmtTF ++ fmtZ ≠ fmtT := by decide
  have h3 : fmtTF ++ fmtZ ≠ fmtTF := by decide
  have h4 : fmtTF ++ fmtZ ≠ fmtT ++ fmtZ := by decide
  simp [strptime, h1, h2, h3, h4]
theorem strptime_other (s f : Str) (h1 : f ≠ fmtD) (h2 : f ≠ fmtT) (h3 : f ≠ fmtTF) (h4 : f ≠ fmtT ++ fmtZ)
    (h5 : f ≠ fmtTF ++ fmtZ) : strptime s f = none := by
  simp [strptime, h1, h2, h3, h4, h5]

/-- every format of the two tables is one of the three ISO formats, or is unknown to `P0` with and without `%z` -/
theorem formats_cases (f : Str) (hf : f ∈ allFormats) :
    f = fmtD ∨ f = fmtT ∨ f = fmtTF ∨
      (f ≠ fmtD ∧ f ≠ fmtT ∧ f ≠ fmtTF ∧ f ≠ fmtT ++ fmtZ ∧ f ≠ fmtTF ++ fmtZ
        ∧ f ++ fmtZ ≠ fmtD ∧ f ++ fmtZ ≠ fmtT ∧ f ++ fmtZ ≠ fmtTF ∧ f ++ fmtZ ≠ fmtT ++ fmtZ ∧ f ++ fmtZ ≠ fmtTF ++ fmtZ) := by
  simp only [allFormats, DATETIME_FORMATS, DATE_FORMATS, List.cons_append, List.nil_append, List.mem_cons,
    List.not_mem_nil, or_false] at hf
  rcases hf with rfl | rfl | rfl | rfl | rfl | rfl | rfl | rfl | rfl | rfl | rfl | rfl | rfl | rfl | rfl | rfl | rfl | rfl | rfl | rfl <;> decide


theorem isoOffset_cons (o : Int) : ∃ r, isoOffset o = (if o < 0 then '-' else '+') :: r := by
  simp [isoOffset]

theorem lit_dot_sign (o : Int) (r : Str) : lit '.' ((if o < 0 then '-' else '+') :: r) = none := by
  split <;> simp [lit]

theorem pOffset_dot (r : Str) : pOffset ('.' :: r) = none := by
  simp [pOffset]

/-- the parse of `isoformat()` up to the seconds, for every continuation -/
theorem pIso_head (dt : DateTime) (hv : dt.valid = true) (frac z : Bool) :
    pIsoDateTime frac z (isoDateTime dt) =
      ((if frac then (lit '.' ((if dt.clock.us != 0 then '.' :: pad 6 dt.clock.us else []) ++ isoTz dt.tz)).bind (digitsN 6)
        else some (0, (if dt.clock.us != 0 then '.' :: pad 6 dt.clock.us else []) ++ isoTz dt.tz)).bind fun p =>
        if z then (pOffset p.2).bind fun o => some ⟨dt.date, ⟨dt.clock.h, dt.clock.mi, dt.clock.s, p.1⟩, some o⟩
        else if p.2.isEmpty then some ⟨dt.date, ⟨dt.clock.h, dt.clock.mi, dt.clock.s, p.1⟩, none⟩ else none) := by
  simp only [DateTime.valid, Bool.and_eq_true] at hv
  rw [isoDateTime_eq]
  obtain ⟨d, c, tz⟩ := dt
  obtain ⟨h, mi, s, us⟩ := c
  simp only at hv ⊢
  cases frac <;> cases z <;>
    simp [pIsoDateTime, pDate_iso d hv.1.1, lit_cons, pHMS_iso ⟨h, mi, s, us⟩ hv.1.2, Option.bind_eq_bind, Option.bind_some]

theorem valid_us (dt : DateTime) (hv : dt.valid = true) : dt.clock.us < 10 ^ 6 := by
  simp only [DateTime.valid, Clock.valid, Bool.and_eq_true, decide_eq_true_eq] at hv
  omega

theorem pIso_F1 (dt : DateTime) (hv : dt.valid = true) (hu : (dt.clock.us != 0) = true) :
    pIsoDateTime false false (isoDateTime dt) = none := by
  rw [pIso_head dt hv]; simp [hu]

theorem pIso_F2 (dt : DateTime) (hv : dt.valid = true) (hu : (dt.clock.us != 0) = false) (htz : dt.tz = none) :
    pIsoDateTime true false (isoDateTime dt) = none := by
  rw [pIso_head dt hv]; simp [hu, htz, isoTz, lit]

theorem pIso_F3 (dt : DateTime) (hv : dt.valid = true) (hu : (dt.clock.us != 0) = false) (o : Int) (htz : dt.tz = some o)
    (z : Bool) : pIsoDateTime true z (isoDateTime dt) = none := by
  obtain ⟨r, hr⟩ := isoOffset_cons o
  rw [pIso_head dt hv]; simp [hu, htz, isoTz, hr, lit_dot_sign]

theorem pIso_F4 (dt : DateTime) (hv : dt.valid = true) (hu : (dt.clock.us != 0) = false) (o : Int) (htz : dt.tz = some o) :
    pIsoDateTime false false (isoDateTime dt) = none := by
  rw [pIso_head dt hv]; simp [hu, htz, isoTz, isoOffset_ne_nil]

theorem pIso_F5 (dt : DateTime) (hv : dt.valid = true) (hu : (dt.clock.us != 0) = true) (o : Int) (htz : dt.tz = some o) :
    pIsoDateTime true false (isoDateTime dt) = none := by
  rw [pIso_head dt hv]
  simp [hu, htz, isoTz, lit_cons, digitsN_pad (by decide) (valid_us dt hv), isoOffset_ne_nil]

theorem pIso_F6 (dt : DateTime) (hv : dt.valid = true) (hu : (dt.clock.us != 0) = true) :
    pIsoDateTime false true (isoDateTime dt) = none := by
  rw [pIso_head dt hv]; simp [hu, pOffset_dot]

theorem strptime_D_datetime (dt : DateTime) (hv : dt.valid = true) : strptime (isoDateTime dt) fmtD = none := by
  have hv' := hv
  simp only [DateTime.valid, Bool.and_eq_true] at hv'
  rw [isoDateTime_eq]
  exact strptime_fmtD_rest _ dt.date 'T' _ (pDate_iso dt.date hv'.1.1 _)


theorem isoFmt_eq (c : Clock) : isoFmt c = if (c.us != 0) = true then fmtTF else fmtT := rfl

theorem law_date_fmt (d : Date) (hv : d.valid = true) :
    strptime (isoDate d) "%Y-%m-%d".toList = some ⟨d, midnight, none⟩ := by
  have := pDate_iso d hv []
  rw [List.append_nil] at this
  exact strptime_fmtD_nil _ d this

theorem law_naive_fmt (dt : DateTime) (hv : dt.valid = true) (htz : dt.tz = none) :
    strptime (isoDateTime dt) (isoFmt dt.clock) = some dt := by
  rw [isoFmt_eq]
  by_cases hu : (dt.clock.us != 0) = true
  · simp only [hu, ↓reduceIte, strptime_fmtTF]; have := pIso_naive dt hv htz; rwa [hu] at this
  · simp only [hu, Bool.false_eq_true, ↓reduceIte, strptime_fmtT]
    have := pIso_naive dt hv htz
    have hu' : (dt.clock.us != 0) = false := by simpa using hu
    rwa [hu'] at this

theorem law_naive_other (dt : DateTime) (hv : dt.valid = true) (htz : dt.tz = none) (f : Str) (hf : f ∈ allFormats)
    (hne : f ≠ isoFmt dt.clock) : strptime (isoDateTime dt) f = none := by
  rw [isoFmt_eq] at hne
  rcases formats_cases f hf with rfl | rfl | rfl | h
  · exact strptime_D_datetime dt hv
  · by_cases hu : (dt.clock.us != 0) = true
    · rw [strptime_fmtT]; exact pIso_F1 dt hv hu
    · simp [hu] at hne
  · by_cases hu : (dt.clock.us != 0) = true
    · simp [hu] at hne
    · rw [strptime_fmtTF]; exact pIso_F2 dt hv (by simpa using hu) htz
  · exact strptime_other _ f h.1 h.2.1 h.2.2.1 h.2.2.2.1 h.2.2.2.2.1

theorem law_aware_plain (dt : DateTime) (hv : dt.valid = true) (hs : dt.tz.isSome = true) (f : Str)
    (hf : f ∈ allFormats) : strptime (isoDateTime dt) f = none := by
  obtain ⟨o, htz⟩ := Option.isSome_iff_exists.mp hs
  rcases formats_cases f hf with rfl | rfl | rfl | h
  · exact strptime_D_datetime dt hv
  · rw [strptime_fmtT]
    by_cases hu : (dt.clock.us != 0) = true
    · exact pIso_F1 dt hv hu
    · exact pIso_F4 dt hv (by simpa using hu) o htz
  · rw [strptime_fmtTF]
    by_cases hu : (dt.clock.us != 0) = true
    · exact pIso_F5 dt hv hu o htz
    · exact pIso_F3 dt hv (by simpa using hu) o htz false
  · exact strptime_other _ f h.1 h.2.1 h.2.2.1 h.2.2.2.1 h.2.2.2.2.1

theorem law_aware_fmt (dt : DateTime) (hv : dt.valid = true) (hs : dt.tz.isSome = true) :
    strptime (isoDateTime dt) (isoFmt dt.clock ++ "%z".toList) = some dt := by
  obtain ⟨o, htz⟩ := Option.isSome_iff_exists.mp hs
  rw [isoFmt_eq]
  have := pIso_aware dt hv o htz
  by_cases hu : (dt.clock.us != 0) = true
  · simp only [hu, ↓reduceIte]; rw [hu] at this; exact (strptime_fmtTFz _).trans this
  · have hu' : (dt.clock.us != 0) = false := by simpa using hu
    simp only [hu', Bool.false_eq_true, ↓reduceIte]; rw [hu'] at this; exact (strptime_fmtTz _).trans this

theorem law_aware_other (dt : DateTime) (hv : dt.valid = true) (hs : dt.tz.isSome = true) (f : Str)
    (hf : f ∈ allFormats) (hne : f ≠ isoFmt dt.clock) : strptime (isoDateTime dt) (f ++ "%z".toList) = none := by
  obtain ⟨o, htz⟩ := Option.isSome_iff_exists.mp hs
  rw [isoFmt_eq] at hne
  rcases formats_cases f hf with rfl | rfl | rfl | h
  · exact strptime_other _ _ (by decide) (by decide) (by decide) (by decide) (by decide)
  · by_cases hu : (dt.clock.us != 0) = true
    · exact (strptime_fmtTz _).trans (pIso_F6 dt hv hu)
    · simp [hu] at hne
  · by_cases hu : (dt.clock.us != 0) = true
    · simp [hu] at hne
    · exact (strptime_fmtTFz _).trans (pIso_F3 dt hv (by simpa using hu) o htz true)
  · exact strptime_other _ _ h.2.2.2.2.2.1 h.2.2.2.2.2.2.1 h.2.2.2.2.2.2.2.1 h.2.2.2.2.2.2.2.2.1 h.2.2.2.2.2.2.2.2.2


theorem digitsN6_short (n : Nat) (hn : n < 10 ^ 3) : digitsN 6 (pad 3 n) = none := by
  have := pad_length (by decide : 0 < 3) hn
  simp [digitsN, this]

theorem digitsN6_sign (n : Nat) (hn : n < 10 ^ 3) (c : Char) (hc : c.isDigit = false) (r : Str) :
    digitsN 6 (pad 3 n ++ c :: r) = none := by
  have hl := pad_length (by decide : 0 < 3) hn
  have : ((pad 3 n ++ c :: r).take 6).all Char.isDigit = false := by
    rw [List.take_append, hl]
    simp [List.take_of_length_le, hl, hc]
  simp [digitsN, this]

theorem tzFix (o : Int) (h : tzWholeOrBig (some o) = true) : (if o.natAbs < 1000000 then (0 : Int) else o) = o := by
  simp only [tzWholeOrBig, Bool.or_eq_true, beq_iff_eq, decide_eq_true_eq] at h
  rcases h with h | h
  · subst h; simp
  · have : ¬ o.natAbs < 1000000 := by omega
    simp [this]

theorem sign_not_digit (o : Int) : (if o < 0 then '-' else '+').isDigit = false := by
  split <;> decide

theorem law_time_iso (t : TimeV) (hv : t.valid = true) (hz : tzWholeOrBig t.tz = true) (hms : t.clock.us % 1000 = 0) :
    timeFromIso (fromTime Cfg.fixed t) = some t := by
  obtain ⟨c, tz⟩ := t
  obtain ⟨h, mi, s, us⟩ := c
  simp only [TimeV.valid, Bool.and_eq_true] at hv
  have hcv := hv.1
  have husb : us < 1000000 := by
    have := hv.1; simp only [Clock.valid, Bool.and_eq_true, decide_eq_true_eq] at this; omega
  simp only at hms hz
  unfold fromTime
  by_cases hu : (us != 0) = true
  · have hmsb : us / 1000 < 10 ^ 3 := by omega
    have hback : us / 1000 * 1000 = us := by omega
    simp only [hu, ↓reduceIte, Cfg.fixed, isoClockMs, List.append_assoc, List.cons_append]
    cases tz with
    | none =>
      simp only [timeFromIso, pHMS_iso ⟨h, mi, s, us⟩ hcv, isoTz, List.append_nil, digitsN6_short _ hmsb,
        digitsN_pad_nil (by decide) hmsb, Option.bind_eq_bind, Option.bind_some, hback]
    | some o =>
      have ho : o.natAbs < 86400000000 := by simpa [tzValid] using hv.2
      obtain ⟨r, hr⟩ := isoOffset_cons o
      have h6 : digitsN 6 (pad 3 (us / 1000) ++ isoOffset o) = none := by
        rw [hr]; exact digitsN6_sign _ hmsb _ (sign_not_digit o) r
      have hp := pOffset_iso o ho
      simp only [timeFromIso, pHMS_iso ⟨h, mi, s, us⟩ hcv, isoTz, h6, digitsN_pad (by decide) hmsb,
        Option.bind_eq_bind, Option.bind_some, hback]
      generalize isoOffset o = w at hr hp
      subst hr
      by_cases hneg : o < 0 <;> simp only [hneg, ↓reduceIte] at hp ⊢ <;> simp [hp, tzFix o hz]
  · have hu0 : us = 0 := by simpa using hu
    subst hu0
    simp only [hu, Bool.false_eq_true, ↓reduceIte, isoTime, isoClock, List.append_assoc, List.cons_append, List.nil_append]
    cases tz with
    | none =>
      simp only [timeFromIso, pHMS_iso ⟨h, mi, s, 0⟩ hcv, isoTz, Option.bind_eq_bind, Option.bind_some]
    | some o =>
      have ho : o.natAbs < 86400000000 := by simpa [tzValid] using hv.2
      obtain ⟨r, hr⟩ := isoOffset_cons o
      have hp := pOffset_iso o ho
      simp only [timeFromIso, pHMS_iso ⟨h, mi, s, 0⟩ hcv, isoTz, Option.bind_eq_bind, Option.bind_some]
      generalize isoOffset o = w at hr hp
      subst hr
      by_cases hneg : o < 0 <;> simp only [hneg, ↓reduceIte] at hp ⊢ <;> simp [hp, tzFix o hz]


/-! ### durations -/

theorem tw_digits (ds : Str) (c : Char) (r : Str) (hds : ds.all Char.isDigit = true) (hc : c.isDigit = false) :
    (ds ++ c :: r).takeWhile Char.isDigit = ds ∧ (ds ++ c :: r).dropWhile Char.isDigit = c :: r := by
  induction ds with
  | nil => simp [List.takeWhile, List.dropWhile, hc]
  | cons d ds ih =>
    simp only [List.all_cons, Bool.and_eq_true] at hds
    simp [List.takeWhile, List.dropWhile, hds.1, ih hds.2]

theorem tw_digits_nil (ds : Str) (hds : ds.all Char.isDigit = true) :
    ds.takeWhile Char.isDigit = ds ∧ ds.dropWhile Char.isDigit = [] := by
  induction ds with
  | nil => simp
  | cons d ds ih =>
    simp only [List.all_cons, Bool.and_eq_true] at hds
    simp [List.takeWhile, List.dropWhile, hds.1, ih hds.2]

theorem all_digit_pad (w n : Nat) : (pad w n).all Char.isDigit = true := by
  simp only [List.all_eq_true]; intro c h; exact pad_isDigit h

theorem all_digit_natStr (n : Nat) : (natStr n).all Char.isDigit = true := by
  simp only [List.all_eq_true]; intro c h; exact natStr_isDigit h

/-- `(?:(?P<g>\d+(.\d+)?)U)?` on `digits U rest` where the greedy `(.\d+)U` alternative cannot match -/
theorem pNumUnit_plain (u : Char) (ds rest : Str) (hds : ds.all Char.isDigit = true) (hne : ds ≠ [])
    (hu : u.isDigit = false)
    (hrest : rest.takeWhile Char.isDigit = [] ∨ ∃ v tl, rest.dropWhile Char.isDigit = v :: tl ∧ v ≠ u) :
    pNumUnit u (ds ++ u :: rest) = (some ds, rest) := by
  obtain ⟨h1, h2⟩ := tw_digits ds u rest hds hu
  have hemp : ds.isEmpty = false := by cases ds <;> simp_all
  unfold pNumUnit
  simp only [h1, h2, hemp, Bool.false_eq_true, ↓reduceIte]
  rcases hrest with h | ⟨v, tl, hd, hv⟩
  · simp [h]
  · simp only [hd]
    by_cases hf : (rest.takeWhile Char.isDigit).isEmpty = true
    · simp [hf]
    · simp [hf, hv]

/-- … and on `digits . digits S` -/
theorem pNumUnit_frac (ds fs : Str) (hds : ds.all Char.isDigit = true) (hne : ds ≠ [])
    (hfs : fs.all Char.isDigit = true) (hfne : fs ≠ []) :
    pNumUnit 'S' (ds ++ '.' :: (fs ++ ['S'])) = (some (ds ++ '.' :: fs), []) := by
  obtain ⟨h1, h2⟩ := tw_digits ds '.' (fs ++ ['S']) hds (by decide)
  obtain ⟨h3, h4⟩ := tw_digits fs 'S' [] hfs (by decide)
  have hemp : ds.isEmpty = false := by cases ds <;> simp_all
  have hfemp : fs.isEmpty = false := by cases fs <;> simp_all
  unfold pNumUnit
  simp [h1, h2, h3, h4, hemp, hfemp]

theorem groupMicros_digits (unit : Nat) (ds : Str) (hds : ds.all Char.isDigit = true) (hne : ds ≠ []) :
    groupMicros unit (some ds) = some (Nat.ofDigitChars 10 ds 0 * unit) := by
  obtain ⟨h1, h2⟩ := tw_digits_nil ds hds
  have hemp : ds.isEmpty = false := by cases ds <;> simp_all
  simp [groupMicros, h1, h2, hemp]

theorem groupMicros_frac (ds fs : Str) (hds : ds.all Char.isDigit = true) (hne : ds ≠ [])
    (hfs : fs.all Char.isDigit = true) (hlen : fs.length = 6) :
    groupMicros 1000000 (some (ds ++ '.' :: fs)) = some (Nat.ofDigitChars 10 ds 0 * 1000000 + Nat.ofDigitChars 10 fs 0) := by
  obtain ⟨h1, h2⟩ := tw_digits ds '.' fs hds (by decide)
  have hemp : ds.isEmpty = false := by cases ds <;> simp_all
  have hfemp : fs.isEmpty = false := by cases fs <;> simp_all
  simp [groupMicros, h1, h2, hemp, hfs, hfemp, hlen]

theorem law_dur_float (us : Int) : floatParses (durationIso us) = false := by
  unfold durationIso
  simp only []
  by_cases h : us < 0 <;> simp [h, floatParses, List.takeWhile]

theorem law_dur_re0 (us : Int) : reDuration0 (durationIso us) = false := by
  have hP : 'P' ∈ durationIso us := by
    unfold durationIso; simp
  have : (durationIso us).all (fun c => c.isDigit || "- :.,days".toList.contains c) = false := by
    rw [List.all_eq_false]
    exact ⟨'P', hP, by decide⟩
  unfold reDuration0
  rw [this]; simp


/-- the unsigned part `P<days>DT<hh>H<mm>M<ss>[.ffffff]S` -/
def durBody (a : Nat) : Str :=
  'P' :: (natStr (a / 86400000000) ++ ('D' :: 'T' :: (pad 2 (a % 86400000000 / 1000000 / 60 / 60) ++ ('H' ::
    (pad 2 (a % 86400000000 / 1000000 / 60 % 60) ++ ('M' :: (pad 2 (a % 86400000000 / 1000000 % 60) ++
      ((if a % 86400000000 % 1000000 != 0 then '.' :: pad 6 (a % 86400000000 % 1000000) else []) ++ ['S']))))))))

theorem durationIso_eq (us : Int) : durationIso us = (if us < 0 then ['-'] else []) ++ durBody us.natAbs := by
  simp [durationIso, durBody, List.append_assoc]

theorem durBody_match (a : Nat) (sign : Str) :
    reDurBody sign (durBody a) =
    some ⟨sign, some (natStr (a / 86400000000)), some (pad 2 (a % 86400000000 / 1000000 / 60 / 60)),
      some (pad 2 (a % 86400000000 / 1000000 / 60 % 60)),
      some (pad 2 (a % 86400000000 / 1000000 % 60) ++
        (if a % 86400000000 % 1000000 != 0 then '.' :: pad 6 (a % 86400000000 % 1000000) else []))⟩ := by
  unfold durBody reDurBody
  simp only []
  have hD := pNumUnit_plain 'D' (natStr (a / 86400000000))
    ('T' :: (pad 2 (a % 86400000000 / 1000000 / 60 / 60) ++ ('H' ::
      (pad 2 (a % 86400000000 / 1000000 / 60 % 60) ++ ('M' :: (pad 2 (a % 86400000000 / 1000000 % 60) ++
        ((if a % 86400000000 % 1000000 != 0 then '.' :: pad 6 (a % 86400000000 % 1000000) else []) ++ ['S'])))))))
    (all_digit_natStr _) (natStr_ne_nil _) (by decide) (Or.inl (by simp [List.takeWhile]))
  rw [hD]
  simp only []
  have hH := pNumUnit_plain 'H' (pad 2 (a % 86400000000 / 1000000 / 60 / 60))
    (pad 2 (a % 86400000000 / 1000000 / 60 % 60) ++ ('M' :: (pad 2 (a % 86400000000 / 1000000 % 60) ++
        ((if a % 86400000000 % 1000000 != 0 then '.' :: pad 6 (a % 86400000000 % 1000000) else []) ++ ['S']))))
    (all_digit_pad _ _) (pad_ne_nil _ _) (by decide)
    (Or.inr ⟨'M', _, (tw_digits _ 'M' _ (all_digit_pad _ _) (by decide)).2, by decide⟩)
  rw [hH]
  simp only []
  by_cases hm : (a % 86400000000 % 1000000 != 0) = true
  · simp only [hm, ↓reduceIte, List.cons_append]
    have hM := pNumUnit_plain 'M' (pad 2 (a % 86400000000 / 1000000 / 60 % 60))
      (pad 2 (a % 86400000000 / 1000000 % 60) ++ '.' :: (pad 6 (a % 86400000000 % 1000000) ++ ['S']))
      (all_digit_pad _ _) (pad_ne_nil _ _) (by decide)
      (Or.inr ⟨'.', _, (tw_digits _ '.' _ (all_digit_pad _ _) (by decide)).2, by decide⟩)
    rw [hM]
    simp only []
    rw [pNumUnit_frac _ _ (all_digit_pad _ _) (pad_ne_nil _ _) (all_digit_pad _ _) (pad_ne_nil _ _)]
    simp
  · simp only [hm, Bool.false_eq_true, ↓reduceIte, List.nil_append, List.append_nil]
    have hM := pNumUnit_plain 'M' (pad 2 (a % 86400000000 / 1000000 / 60 % 60))
      (pad 2 (a % 86400000000 / 1000000 % 60) ++ ['S'])
      (all_digit_pad _ _) (pad_ne_nil _ _) (by decide)
      (Or.inr ⟨'S', _, (tw_digits _ 'S' _ (all_digit_pad _ _) (by decide)).2, by decide⟩)
    rw [hM]
    simp only []
    rw [pNumUnit_plain 'S' _ [] (all_digit_pad _ _) (pad_ne_nil _ _) (by decide) (Or.inl rfl)]
    simp



theorem tdOfGroups_eq (sign d h m s : Str) (D H M S : Nat)
    (hd : groupMicros 86400000000 (some d) = some D) (hh : groupMicros 3600000000 (some h) = some H)
    (hm : groupMicros 60000000 (some m) = some M) (hs : groupMicros 1000000 (some s) = some S)
    (hlt : D + H + M + S < maxDelta) :
    tdOfGroups ⟨sign, some d, some h, some m, some s⟩ = some ((D + H + M + S : Nat) : Int) := by
  simp only [tdOfGroups, hd, hh, hm, hs, Option.bind_eq_bind, Option.bind_some, hlt, ↓reduceIte]

theorem law_dur_iso (us : Int) (h : us.natAbs < maxDelta) :
    ∃ g, reDurationIso (durationIso us) = some g ∧ (g.sign == ['-']) = decide (us < 0)
      ∧ tdOfGroups g = some (us.natAbs : Int) := by
  have hre : reDurationIso (durationIso us) = reDurBody (if us < 0 then ['-'] else []) (durBody us.natAbs) := by
    rw [durationIso_eq]
    by_cases hn : us < 0
    · simp [hn, reDurationIso]
    · simp only [hn, ↓reduceIte, List.nil_append]
      unfold durBody
      simp [reDurationIso]
  refine ⟨_, hre.trans (durBody_match _ _), ?_, ?_⟩
  · by_cases hn : us < 0 <;> simp [hn]
  · generalize us.natAbs = a at h
    have hU : a % 86400000000 % 1000000 < 10 ^ 6 := by omega
    have hd := groupMicros_digits 86400000000 _ (all_digit_natStr (a / 86400000000)) (natStr_ne_nil _)
    have hh := groupMicros_digits 3600000000 _ (all_digit_pad 2 (a % 86400000000 / 1000000 / 60 / 60)) (pad_ne_nil _ _)
    have hm := groupMicros_digits 60000000 _ (all_digit_pad 2 (a % 86400000000 / 1000000 / 60 % 60)) (pad_ne_nil _ _)
    rw [ofDigits_natStr] at hd
    rw [ofDigits_pad] at hh hm
    by_cases hmz : (a % 86400000000 % 1000000 != 0) = true
    · have hs := groupMicros_frac _ _ (all_digit_pad 2 (a % 86400000000 / 1000000 % 60)) (pad_ne_nil _ _)
        (all_digit_pad 6 (a % 86400000000 % 1000000)) (pad_length (by decide) hU)
      rw [ofDigits_pad, ofDigits_pad] at hs
      have e : a / 86400000000 * 86400000000 + a % 86400000000 / 1000000 / 60 / 60 * 3600000000
          + a % 86400000000 / 1000000 / 60 % 60 * 60000000
          + (a % 86400000000 / 1000000 % 60 * 1000000 + a % 86400000000 % 1000000) = a := by omega
      have := tdOfGroups_eq (if us < 0 then ['-'] else []) _ _ _ _ _ _ _ _ hd hh hm hs (by rw [e]; exact h)
      rw [e] at this
      simp only [hmz, ↓reduceIte]
      exact this
    · have hs := groupMicros_digits 1000000 _ (all_digit_pad 2 (a % 86400000000 / 1000000 % 60)) (pad_ne_nil _ _)
      rw [ofDigits_pad] at hs
      have hz : a % 86400000000 % 1000000 = 0 := by simpa using hmz
      have e : a / 86400000000 * 86400000000 + a % 86400000000 / 1000000 / 60 / 60 * 3600000000
          + a % 86400000000 / 1000000 / 60 % 60 * 60000000
          + a % 86400000000 / 1000000 % 60 * 1000000 = a := by omega
      have := tdOfGroups_eq (if us < 0 then ['-'] else []) _ _ _ _ _ _ _ _ hd hh hm hs (by rw [e]; exact h)
      rw [e] at this
      simp only [hmz, Bool.false_eq_true, ↓reduceIte, List.append_nil]
      exact this


/-! ### numbers (token instance), UUID -/

theorem natStr_head (n : Nat) : ∃ d r, natStr n = d :: r ∧ d.isDigit = true := by
  cases h : natStr n with
  | nil => exact absurd h (natStr_ne_nil _)
  | cons d r => exact ⟨d, r, rfl, natStr_isDigit (by rw [h]; simp)⟩

theorem splitNeg_minus (r : Str) : splitNeg ('-' :: r) = (true, r) := rfl

theorem splitNeg_digit (d : Char) (r : Str) (hd : d.isDigit = true) : splitNeg (d :: r) = (false, d :: r) := by
  have : d ≠ '-' := by intro e; subst e; simp at hd
  unfold splitNeg
  split
  · rename_i heq; injection heq with h1 _; exact absurd h1 this
  · rfl

theorem pNat_natStr (n : Nat) : pNat (natStr n) = some n := by
  have h1 : (natStr n).isEmpty = false := by
    cases h : natStr n with
    | nil => exact absurd h (natStr_ne_nil _)
    | cons _ _ => rfl
  simp [pNat, h1, all_digit_natStr, ofDigits_natStr]

theorem pInt_intStr (i : Int) : pInt (intStr i) = some i := by
  by_cases hneg : i < 0
  · have e : intStr i = '-' :: natStr i.natAbs := by simp [intStr, hneg]
    rw [e]
    unfold pInt
    rw [splitNeg_minus]
    simp only [pNat_natStr, Option.map_some, ↓reduceIte]
    have : -(i.natAbs : Int) = i := by omega
    simpa using this
  · have e : intStr i = natStr i.toNat := by simp [intStr, hneg]
    rw [e]
    obtain ⟨d, r, hdr, hd⟩ := natStr_head i.toNat
    have := pNat_natStr i.toNat
    rw [hdr] at this ⊢
    unfold pInt
    rw [splitNeg_digit d r hd]
    simp only [this, Option.map_some, Bool.false_eq_true, ↓reduceIte]
    have : (i.toNat : Int) = i := by omega
    simpa using this

theorem law_dec_float (neg : Bool) (c : Nat) (e : Int) :
    (floatOfDec (.fin neg c e)).isFinite = true
    ∧ (floatOfDec (.fin neg c e)).isZero = (c == 0)
    ∧ (decOfFloat (floatOfDec (.fin neg c e))).canon = (Dec.fin neg c e).canon := by
  refine ⟨rfl, ?_, rfl⟩
  cases c <;> simp [floatOfDec, F.isZero]

theorem digits_ne_lit (n : Nat) (r : Str) (c : Char) (l : Str) (hc : c.isDigit = false) : natStr n ++ r ≠ c :: l := by
  obtain ⟨d, r', hdr, hd⟩ := natStr_head n
  rw [hdr]
  intro h
  injection h with h1 _
  subst h1
  simp [hd] at hc

theorem law_dec_str (d : Dec) : decOfStr (decStr d) = some d := by
  cases d with
  | nan => decide
  | inf neg => cases neg <;> decide
  | fin neg c e =>
    obtain ⟨d0, r0, hdr, hd0⟩ := natStr_head c
    have hbody : ∀ neg', splitNeg (decStr (.fin neg c e)) = (neg', natStr c ++ 'E' :: intStr e) → 
        decOfStr (decStr (.fin neg c e)) = some (.fin neg' c e) := by
      intro neg' hs
      have h1 : natStr c ++ 'E' :: intStr e ≠ "Infinity".toList := digits_ne_lit c _ 'I' _ (by decide)
      have h2 : decStr (.fin neg c e) ≠ "NaN".toList := by
        cases neg
        · simpa [decStr] using digits_ne_lit c _ 'N' _ (by decide)
        · simp [decStr]
      obtain ⟨t1, t2⟩ := tw_digits (natStr c) 'E' (intStr e) (all_digit_natStr c) (by decide)
      have hemp : (natStr c).isEmpty = false := by rw [hdr]; rfl
      unfold decOfStr
      simp only [hs, h1, h2, ↓reduceIte, t1, t2, hemp, Bool.false_eq_true, pInt_intStr, Option.map_some, ofDigits_natStr]
    cases neg
    · apply hbody false
      simp only [decStr, Bool.false_eq_true, ↓reduceIte, List.nil_append, List.append_assoc]
      rw [hdr]; exact splitNeg_digit d0 _ hd0
    · apply hbody true
      simp only [decStr, ↓reduceIte, List.cons_append, List.nil_append, List.append_assoc]
      rfl


theorem digit_not_space {c : Char} (h : c.isDigit = true) : isSpace c = false :=
  isoChar_not_space (isoChar_of_digit h)

theorem natStr_no_space (n : Nat) : (natStr n).all (fun c => !isSpace c) = true := by
  simp only [List.all_eq_true]; intro c hc; simp [digit_not_space (natStr_isDigit hc)]

theorem intStr_no_space (i : Int) : (intStr i).all (fun c => !isSpace c) = true := by
  unfold intStr; split
  · simp only [List.all_cons, natStr_no_space, Bool.and_true]; decide
  · exact natStr_no_space _

theorem law_dec_str_clean (d : Dec) : strip (decStr d) = decStr d ∧ decStr d ≠ [] := by
  have hns : (decStr d).all (fun c => !isSpace c) = true := by
    cases d with
    | nan => decide
    | inf neg => cases neg <;> decide
    | fin neg c e =>
      have hE : (!isSpace 'E') = true := by decide
      have hM : (!isSpace '-') = true := by decide
      cases neg <;> simp only [decStr, List.all_append, List.all_cons, List.all_nil, natStr_no_space, intStr_no_space,
        hE, hM, Bool.and_self, Bool.false_eq_true, ↓reduceIte]
  refine ⟨strip_of_no_space (fun c hc => by simpa using List.all_eq_true.mp hns c hc), ?_⟩
  cases d with
  | nan => decide
  | inf neg => cases neg <;> decide
  | fin neg c e => cases neg <;> simp [decStr, natStr_ne_nil]

theorem law_dec_int (i : Int) : decOfStr (intStr i) = some (.fin (decide (i < 0)) i.natAbs 0) := by
  by_cases hneg : i < 0
  · have e : intStr i = '-' :: natStr i.natAbs := by simp [intStr, hneg]
    obtain ⟨t1, t2⟩ := tw_digits_nil (natStr i.natAbs) (all_digit_natStr _)
    obtain ⟨d0, r0, hdr, hd0⟩ := natStr_head i.natAbs
    have h1 : natStr i.natAbs ≠ "Infinity".toList := by
      have := digits_ne_lit i.natAbs [] 'I' "nfinity".toList (by decide)
      simpa using this
    have h2 : '-' :: natStr i.natAbs ≠ "NaN".toList := by
      intro h; injection h with h _; exact absurd h (by decide)
    have hemp : (natStr i.natAbs).isEmpty = false := by rw [hdr]; rfl
    rw [e]
    unfold decOfStr
    simp only [splitNeg_minus, h1, h2, ↓reduceIte, t1, t2, hemp, Bool.false_eq_true, ofDigits_natStr, hneg, decide_true]
  · have e : intStr i = natStr i.toNat := by simp [intStr, hneg]
    obtain ⟨t1, t2⟩ := tw_digits_nil (natStr i.toNat) (all_digit_natStr _)
    obtain ⟨d0, r0, hdr, hd0⟩ := natStr_head i.toNat
    have h1 : natStr i.toNat ≠ "Infinity".toList := by
      have := digits_ne_lit i.toNat [] 'I' "nfinity".toList (by decide)
      simpa using this
    have h2 : natStr i.toNat ≠ "NaN".toList := by
      have := digits_ne_lit i.toNat [] 'N' "aN".toList (by decide)
      simpa using this
    have hemp : (natStr i.toNat).isEmpty = false := by rw [hdr]; rfl
    have hs : splitNeg (natStr i.toNat) = (false, natStr i.toNat) := by rw [hdr]; exact splitNeg_digit d0 r0 hd0
    have hn : i.natAbs = i.toNat := by omega
    rw [e, hn]
    unfold decOfStr
    simp only [hs, h1, h2, ↓reduceIte, t1, t2, hemp, Bool.false_eq_true, ofDigits_natStr, hneg, decide_false]

theorem law_uuid_rt (n : Nat) : uuidOfStr (uuidStr n) = some n := pNat_natStr n


theorem law_utf8_rt (b : List UInt8) (hv : validUtf8 b = true) : utf8Encode (utf8Decode b) = b := by
  have h : (ByteArray.mk b.toArray).IsValidUTF8 := ByteArray.validateUTF8_eq_true_iff.mp hv
  unfold utf8Decode utf8Encode
  simp only [h, ↓reduceDIte, String.ofList_toList, String.toUTF8_eq_toByteArray, String.fromUTF8]


/-! ### the prefix code for JSON trees -/

theorem unserStr_ser (s r : Str) : unserStr (serStr s ++ r) = some (s, r) := by
  induction s with
  | nil => simp [serStr, unserStr]
  | cons c cs ih =>
    have : serStr (c :: cs) ++ r = 'c' :: c :: (serStr cs ++ r) := by simp [serStr]
    rw [this]
    simp only [unserStr, ih, Option.map_some]

mutual
def need : Js → Nat
  | .arr xs => 1 + needList xs
  | .obj kvs => 1 + needKVs kvs
  | _ => 1
def needList : List Js → Nat
  | [] => 1
  | x :: xs => 1 + max (need x) (needList xs)
def needKVs : List (Str × Js) → Nat
  | [] => 1
  | (_, x) :: r => 1 + max (need x) (needKVs r)
end

mutual
theorem unser_ser : (j : Js) → (fuel : Nat) → (rest : Str) → need j ≤ fuel →
    unser fuel (ser j ++ rest) = some (j, rest)
  | .null, fuel + 1, rest, _ => by simp [ser, unser]
  | .bool b, fuel + 1, rest, _ => by cases b <;> simp [ser, unser]
  | .int i, fuel + 1, rest, _ => by
    simp [ser, unser, unserStr_ser, pInt_intStr]
  | .float (.fin neg m e), fuel + 1, rest, _ => by
    cases neg <;> simp [ser, unser, List.append_assoc, unserStr_ser, pNat_natStr, pInt_intStr]
  | .float (.inf neg), fuel + 1, rest, _ => by cases neg <;> simp [ser, unser]
  | .float .nan, fuel + 1, rest, _ => by simp [ser, unser]
  | .str s, fuel + 1, rest, _ => by simp [ser, unser, unserStr_ser]
  | .arr xs, fuel + 1, rest, h => by
    have := unserList_ser xs fuel rest (by simp [need] at h; omega)
    simp [ser, unser, this]
  | .obj kvs, fuel + 1, rest, h => by
    have := unserKVs_ser kvs fuel rest (by simp [need] at h; omega)
    simp [ser, unser, this]
  | j, 0, _, h => by cases j <;> simp [need] at h
theorem unserList_ser : (xs : List Js) → (fuel : Nat) → (rest : Str) → needList xs ≤ fuel →
    unserList fuel (serList xs ++ rest) = some (xs, rest)
  | [], fuel + 1, rest, _ => by simp [serList, unserList]
  | x :: xs, fuel + 1, rest, h => by
    simp only [needList] at h
    have h1 := unser_ser x fuel (serList xs ++ rest) (by omega)
    have h2 := unserList_ser xs fuel rest (by omega)
    simp [serList, unserList, List.append_assoc, h1, h2]
  | xs, 0, _, h => by cases xs <;> simp [needList] at h
theorem unserKVs_ser : (kvs : List (Str × Js)) → (fuel : Nat) → (rest : Str) → needKVs kvs ≤ fuel →
    unserKVs fuel (serKVs kvs ++ rest) = some (kvs, rest)
  | [], fuel + 1, rest, _ => by simp [serKVs, unserKVs]
  | (k, x) :: kvs, fuel + 1, rest, h => by
    simp only [needKVs] at h
    have h1 := unser_ser x fuel (serKVs kvs ++ rest) (by omega)
    have h2 := unserKVs_ser kvs fuel rest (by omega)
    simp [serKVs, unserKVs, List.append_assoc, unserStr_ser, h1, h2]
  | kvs, 0, _, h => by
    cases kvs with
    | nil => simp [needKVs] at h
    | cons kv r => obtain ⟨k, x⟩ := kv; simp [needKVs] at h
end

mutual
theorem need_le : (j : Js) → need j ≤ (ser j).length
  | .null => by simp [need, ser]
  | .bool _ => by simp [need, ser]
  | .int _ => by simp [need, ser]
  | .float (.fin _ _ _) => by simp [need, ser]
  | .float (.inf _) => by simp [need, ser]
  | .float .nan => by simp [need, ser]
  | .str _ => by simp [need, ser]
  | .arr xs => by have := needList_le xs; simp [need, ser]; omega
  | .obj kvs => by have := needKVs_le kvs; simp [need, ser]; omega
theorem needList_le : (xs : List Js) → needList xs ≤ (serList xs).length
  | [] => by simp [needList, serList]
  | x :: xs => by
    have := need_le x; have := needList_le xs
    simp [needList, serList]; omega
theorem needKVs_le : (kvs : List (Str × Js)) → needKVs kvs ≤ (serKVs kvs).length
  | [] => by simp [needKVs, serKVs]
  | (k, x) :: kvs => by
    have := need_le x; have := needKVs_le kvs
    simp [needKVs, serKVs]; omega
end

theorem law_json_rt (j : Js) : jsonLoads (jsonDumps j) = some j := by
  have h := unser_ser j ((ser j).length + 1) [] (by have := need_le j; omega)
  rw [List.append_nil] at h
  simp [jsonLoads, jsonDumps, h]

end Utv.C14.P0

namespace Utv.C14

/-- **Non-vacuity**: the concrete builtins `P0` satisfy every law the theorems assume. -/
theorem primLaws_P0 : PrimLaws P0 where
  date_fmt := P0.law_date_fmt
  naive_fmt := P0.law_naive_fmt
  naive_other := P0.law_naive_other
  aware_plain := P0.law_aware_plain
  aware_fmt := P0.law_aware_fmt
  aware_other := P0.law_aware_other
  time_iso := P0.law_time_iso
  dur_float := P0.law_dur_float
  dur_re0 := P0.law_dur_re0
  dur_iso := P0.law_dur_iso
  dec_float := fun neg c e _ _ _ => P0.law_dec_float neg c e
  dec_str := fun d _ => P0.law_dec_str d
  dec_str_clean := P0.law_dec_str_clean
  dec_int := P0.law_dec_int
  uuid_rt := fun n _ => P0.law_uuid_rt n
  utf8_rt := P0.law_utf8_rt
  json_rt := fun j _ => P0.law_json_rt j

end Utv.C14
