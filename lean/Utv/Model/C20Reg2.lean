import Utv.Model.C20Reg
/-
C20 (registry, after fixes/C20-register-race.patch) — small-step interleaving model of `TypeRegistry.resolve`
and of the `decorator` of `TypeRegistry.register` (utype/utils/base.py) as they are now:

  register:  reg:lock    with self._lock:
             reg:clr         self._cache.clear()
             reg:copy        registry = [(detector, f, priority)] + self._registry      (then sorted: local)
             reg:pub         self._registry = registry                                   (a new list object)
             reg:gen         self._generation += 1
             reg:unlock  (leaving the block)
  resolve:   res:cget    cached = self._cache.get(t)
             res:gen     generation = self._generation
             res:iter    for detector, trans, priority in self._registry:     (the first event captures the list
                                                                               object: it is never changed in place)
             res:lock    with self._lock:
             res:gchk        if generation == self._generation:
             res:cset            self._cache[t] = trans
             res:unlock  (leaving the block)

One atomic step = one of these lines.  The pre-fix code (`ins / sort / clr` in place, unconditional fill) stays
modelled in `Utv/Model/C20Reg.lean`.  Ghost state (not in the code): `vers`, every list that was ever published,
and per finished lookup a witness (class, first / chosen / last version index).
-/
namespace Utv.C20.Reg2
open Utv.C16 (World Entry Det lookup sortPrio)
open Utv.C20.Reg (Op Res answer)

inductive PC
  | start
  | cget | gen | iter | rlock | gchk | cset | runlock          -- resolve
  | wlock | clr | copy | pub | wgen | wunlock                  -- register
  | fin
  deriving DecidableEq, Repr

def PC.label : PC → String
  | .start => "start" | .cget => "res:cget" | .gen => "res:gen" | .iter => "res:iter" | .rlock => "res:lock"
  | .gchk => "res:gchk" | .cset => "res:cset" | .runlock => "res:unlock"
  | .wlock => "reg:lock" | .clr => "reg:clr" | .copy => "reg:copy" | .pub => "reg:pub" | .wgen => "reg:gen"
  | .wunlock => "reg:unlock" | .fin => "<fin>"

/-- ghost: which published list answers a finished lookup -/
structure Wit where
  cls : Nat      -- the class looked up
  lo  : Nat      -- index of the newest published list at the lookup's first shared-state line
  j   : Nat      -- index of the list its answer was computed from
  hi  : Nat      -- index of the newest published list when it returned
  deriving Repr

structure G where
  entries : List Entry               -- self._registry (the list object in effect)
  cache   : List (Nat × Nat)         -- self._cache, most recent first
  lock    : Option Nat               -- owner of self._lock
  gen     : Nat                      -- self._generation
  vers    : List (List Entry)        -- ghost: every published list, oldest first; the last one is `entries`

structure Th where
  pc    : PC := .start
  ops   : List Op := []
  idx   : Nat := 0                   -- position of the list iterator
  snap  : List Entry := []           -- the list object the iterator walks
  sv    : Nat := 0                   -- ghost: its index in `vers`
  myGen : Nat := 0                   -- `generation`
  fn    : Nat := 0                   -- `trans`
  newl  : List Entry := []           -- `registry` (register)
  lo    : Nat := 0                   -- ghost: newest version index at the first shared-state line of the lookup
  outs  : List Res := []
  wits  : List Wit := []             -- ghost, one per element of `outs`

def cur (g : G) : Nat := g.vers.length - 1

/-- go to the first shared-state line of the next operation -/
def begin (W : World) (co : Bool) (nv : Nat) (outs : List Res) (wits : List Wit) : List Op → Th
  | [] => { pc := .fin, ops := [], outs := outs, wits := wits }
  | .res t :: rest =>
    match W.shortcut t with
    | some f => begin W co nv (outs ++ [.fn (some f)]) (wits ++ [⟨t, nv, nv, nv⟩]) rest
    | none => { pc := if co then .cget else .gen, ops := .res t :: rest, lo := nv, outs := outs, wits := wits }
  | .reg e :: rest => { pc := .wlock, ops := .reg e :: rest, lo := nv, outs := outs, wits := wits }

def curClass (t : Th) : Nat := match t.ops with | .res c :: _ => c | _ => 0
def curEntry (t : Th) : Option Entry := match t.ops with | .reg e :: _ => some e | _ => none

/-- a lookup is over: result `r`, computed from version `j` -/
def finishRes (W : World) (co : Bool) (g : G) (t : Th) (r : Option Nat) (j : Nat) : Th :=
  begin W co (cur g) (t.outs ++ [.fn r]) (t.wits ++ [⟨curClass t, t.lo, j, cur g⟩]) t.ops.tail

def finishReg (W : World) (co : Bool) (g : G) (t : Th) : Th :=
  begin W co (cur g) t.outs t.wits t.ops.tail

def stepTh (W : World) (co : Bool) (k : Nat) (g : G) (t : Th) : G × Th :=
  match t.pc with
  | .start => (g, begin W co (cur g) t.outs t.wits t.ops)
  | .cget =>
    -- the first shared-state line of a lookup on a caching registry: the ghost `lo` is taken here
    match lookup (curClass t) g.cache with
    | some f => (g, finishRes W co g { t with lo := cur g } (some f) (cur g))
    | none => (g, { t with pc := .gen, lo := cur g })
  | .gen =>
    -- (… and here when the registry does not cache)
    (g, { t with pc := .iter, myGen := g.gen, idx := 0, lo := if co then t.lo else cur g })
  | .iter =>
    -- the first event evaluates `self._registry`; the list object is never changed afterwards
    let lst := if t.idx = 0 then g.entries else t.snap
    let sv := if t.idx = 0 then cur g else t.sv
    match lst[t.idx]? with
    | none => (g, finishRes W co g { t with snap := lst, sv := sv } (W.fallback (curClass t)) sv)
    | some e =>
      if e.det.matches W (curClass t) then
        (if co then (g, { t with pc := .rlock, fn := e.fn, snap := lst, sv := sv, idx := t.idx + 1 })
         else (g, finishRes W co g { t with snap := lst, sv := sv } (some e.fn) sv))
      else (g, { t with snap := lst, sv := sv, idx := t.idx + 1 })
  | .rlock =>
    match g.lock with
    | none => ({ g with lock := some k }, { t with pc := .gchk })
    | some _ => (g, t)                                   -- not enabled
  | .gchk => (g, { t with pc := if t.myGen = g.gen then .cset else .runlock })
  | .cset => ({ g with cache := (curClass t, t.fn) :: g.cache }, { t with pc := .runlock })
  | .runlock => ({ g with lock := none }, finishRes W co { g with lock := none } t (some t.fn) t.sv)
  | .wlock =>
    match g.lock with
    | none => ({ g with lock := some k }, { t with pc := .clr })
    | some _ => (g, t)
  | .clr => ({ g with cache := [] }, { t with pc := .copy })
  | .copy =>
    match curEntry t with
    | some e => (g, { t with pc := .pub, newl := sortPrio (e :: g.entries) })
    | none => (g, t)
  | .pub => ({ g with entries := t.newl, vers := g.vers ++ [t.newl] }, { t with pc := .wgen })
  | .wgen => ({ g with gen := g.gen + 1 }, { t with pc := .wunlock })
  | .wunlock => ({ g with lock := none }, finishReg W co { g with lock := none } t)
  | .fin => (g, t)

structure Sys where
  g  : G
  th : Nat → Th

def Sys.step (W : World) (co : Bool) (s : Sys) (k : Nat) : Sys :=
  let r := stepTh W co k s.g (s.th k)
  { g := r.1, th := fun j => if j = k then r.2 else s.th j }

def run (W : World) (co : Bool) (s : Sys) (sched : List Nat) : Sys := sched.foldl (Sys.step W co) s

/-- start from a registry whose registrations so far were made one after the other -/
def init (entries : List Entry) (cache : List (Nat × Nat)) (prog : Nat → List Op) : Sys where
  g := { entries := entries, cache := cache, lock := none, gen := 0, vers := [entries] }
  th := fun k => { ops := prog k }

/-- classes of the lookups in a list of operations -/
def classes : List Op → List Nat
  | [] => []
  | .res t :: rest => t :: classes rest
  | .reg _ :: rest => classes rest

end Utv.C20.Reg2
