/-
C12 — conversion preferences only restrict, and keep their promises.

Statement (given): whatever converts under no_explicit_cast and/or no_data_loss also converts, to an equal
value of the same type, without them.  Under no_data_loss no information is dropped (int only from integral
numbers with the value preserved, only unambiguous booleans, no collapse of multi-element collections, strict
decoding, no datetime / timed string → date, tuple excess and unknown keys rejected).  Under no_explicit_cast a
value converts only within its primitive group, apart from the documented exceptions.

Model: `Utv.Conv` (lean/Utv/Model/Conv.lean), the converters of utype/utils/transform.py branch for branch, and
`Utv.C12M` (Model/C12.lean) for the three parse-level places that read the flags.  All theorems are `∀ P : Prims`
(the CPython builtins), `∀ E : Env` (the enum classes), over all values — no bound on sizes or nesting.
-/
import Utv.Lemmas.C12Group
import Utv.Model.C12

namespace Utv.C12
open Utv.Conv Utv.Conv.Outcome
open Utv.Py (FloatV DecV NumV Q)

/-! ## (1) the preferences only restrict -/

/-- Inputs on which the *unchanged code* violates the subset law (findings.d/C12.json, status known):
`dict-json-control-char` (no_data_loss, dict targets) and `timedelta-numeric-string` (no_explicit_cast,
timedelta targets).  Decidable. -/
def KnownDefect (P : Prims) (E : Env) (f : Flags) (t : Target) (v : V) : Bool :=
  (f.ndl && (resolve t == some .dict || resolve t == some .mapping) && KnownDefect.jsonControlChar P E v) ||
  (f.nec && resolve t == some .timedelta && KnownDefect.timedeltaNumericString P E v)

/-- Outside the proved fragment (tied by the correspondence run only): no_explicit_cast on a mixed-in enum
target whose input is not exactly of the member type.  Decidable. -/
def OutsideProof (E : Env) (f : Flags) (t : Target) (v : V) : Bool :=
  f.nec && (match t with
    | .enum k => enumCastNeeded E k v
    | _ => false)

/-- exact version for one converter: from the two one-flag lemmas to every flag combination -/
theorem mono_of {X : Flags → Outcome V}
    (hA : ∀ n, Sub (X ⟨n, true⟩) (X ⟨n, false⟩))
    (hB : Sub (X ⟨true, false⟩) (X ⟨false, false⟩)) (f : Flags) : Sub (X f) (X ⟨false, false⟩) := by
  intro r h
  obtain ⟨n, d⟩ := f
  cases n <;> cases d
  · exact h
  · exact hA false r h
  · exact hB r h
  · exact hB r (hA true r h)

theorem sub_same {x y : Outcome V} (h : Sub x y) (r : V) (hx : x = .ok r) : ∃ r', y = .ok r' ∧ sameValue r' r :=
  ⟨r, h r hx, sameValue.rfl' r⟩

/-- **C12_mono_conv**: for every registered converter: what it returns under a flag combination it
returns — as an equal value of the same class — without flags. -/
theorem C12_mono_conv (P : Prims) (L : PrimLaws P) (E : Env) (f : Flags) (t : Target) (v : V) (cv : Conv) (r : V)
    (hcv : resolve t = some cv)
    (hk : KnownDefect P E f t v = false) (ho : OutsideProof E f t v = false)
    (hm : ∀ w, runConv P E ⟨false, false⟩ t v cv ≠ .unmodelled w)
    (h : runConv P E f t v cv = .ok r) :
    ∃ r', runConv P E ⟨false, false⟩ t v cv = .ok r' ∧ sameValue r' r := by
  cases cv
  case null =>
    exact sub_same (mono_of (X := fun f => toNull f v) (fun n => by rw [toNull_ndl]; exact Sub.refl _) (toNull_nec v) f) r h
  case str =>
    exact sub_same (mono_of (X := fun f => toStr P E f (subOf t) v) (fun n => toStr_ndl P L E n _ v) (toStr_nec P E _ v) f) r h
  case bytes =>
    simp only [runConv] at h ⊢
    split at h
    · split at h
      · rename_i k hk'
        exact sub_same (mono_of (X := fun f => toBytes P E f k _ v) (fun n => toBytes_ndl P E n k _ v) (toBytes_nec P E k _ v) f) r h
      · simp at h
    · simp at h
  case array =>
    simp only [runConv] at h ⊢
    split at h
    · split at h
      · rename_i k hk'
        exact sub_same (mono_of (X := fun f => toArray P f k _ v) (fun n => toArray_ndl P L n k _ v) (toArray_nec P k _ v) f) r h
      · simp at h
    · simp at h
  case dict =>
    simp only [runConv] at h ⊢
    obtain ⟨n, d⟩ := f
    have hj : d = true → KnownDefect.jsonControlChar P E v = false := by
      intro hd; subst hd
      simpa [KnownDefect, hcv] using hk
    cases n <;> cases d
    · exact ⟨r, h, sameValue.rfl' r⟩
    · exact ⟨r, toDict_ndl P L E false _ v (hj rfl) r h, sameValue.rfl' r⟩
    · exact ⟨r, toDict_nec P E _ v r h, sameValue.rfl' r⟩
    · exact ⟨r, toDict_nec P E _ v r (toDict_ndl P L E true _ v (hj rfl) r h), sameValue.rfl' r⟩
  case float =>
    exact sub_same (mono_of (X := fun f => toFloat P E f (subOf t) v) (fun n => toFloat_ndl P L E n _ v) (toFloat_nec P E _ v) f) r h
  case int =>
    exact sub_same (mono_of (X := fun f => toInteger P E f (subOf t) v) (fun n => toInteger_ndl P L E n _ v) (toInteger_nec P E _ v) f) r h
  case decimal =>
    simp only [runConv] at h ⊢
    obtain ⟨n, d⟩ := f
    cases n <;> cases d
    · exact ⟨r, h, sameValue.rfl' r⟩
    · exact toDecimal_ndl_len P L E _ v r h
    · exact toDecimal_nec P E _ v r h
    · exact toDecimal_nec P E _ v r (toDecimal_ndl_nec P L E _ v r h)
  case complex =>
    exact sub_same (mono_of (X := fun f => toComplex P E f (subOf t) v) (fun n => toComplex_ndl P L E n _ v) (toComplex_nec P E _ v) f) r h
  case bool =>
    exact sub_same (mono_of (X := fun f => Conv.toBool P f v) (fun n => toBool_ndl P n v) (toBool_nec P v) f) r h
  case date =>
    exact sub_same (mono_of (X := fun f => toDate P E f v) (fun n => toDate_ndl P L E n v) (toDate_nec P E v) f) r h
  case datetime =>
    exact sub_same (mono_of (X := fun f => toDatetime P E f (subOf t) false v) (fun n => toDatetime_ndl P L E n _ false v) (toDatetime_nec P E _ false v) f) r h
  case timedelta =>
    simp only [runConv] at h ⊢
    obtain ⟨n, d⟩ := f
    have hj : n = true → KnownDefect.timedeltaNumericString P E v = false := by
      intro hn; subst hn
      simpa [KnownDefect, hcv] using hk
    cases n <;> cases d
    · exact ⟨r, h, sameValue.rfl' r⟩
    · exact ⟨r, toTimedelta_ndl P L E false _ v r h, sameValue.rfl' r⟩
    · exact ⟨r, toTimedelta_nec P E _ v (hj rfl) r h, sameValue.rfl' r⟩
    · exact ⟨r, toTimedelta_nec P E _ v (hj rfl) r (toTimedelta_ndl P L E true _ v r h), sameValue.rfl' r⟩
  case time =>
    exact sub_same (mono_of (X := fun f => toTime P E f (subOf t) v) (fun n => toTime_ndl P L E n _ v) (toTime_nec P E _ v) f) r h
  case uuid =>
    exact sub_same (mono_of (X := fun f => toUuid P f (subOf t) v) (fun n => toUuid_ndl P n _ v) (toUuid_nec P _ v) f) r h
  case enum =>
    simp only [runConv] at h ⊢ hm
    split at h
    · rename_i k
      obtain ⟨n, d⟩ := f
      have hx : n = true → enumCastNeeded E k v = false := by
        intro hn; subst hn
        simpa [OutsideProof] using ho
      cases n <;> cases d
      · exact ⟨r, h, sameValue.rfl' r⟩
      · exact ⟨r, toEnum_ndl P L E false k v r h, sameValue.rfl' r⟩
      · exact ⟨r, toEnum_nec P E k v (hx rfl) hm r h, sameValue.rfl' r⟩
      · exact ⟨r, toEnum_nec P E k v (hx rfl) hm r (toEnum_ndl P L E true k v r h), sameValue.rfl' r⟩
    · simp at h
  case iter =>
    simp only [runConv] at h ⊢
    split at h
    · rename_i a
      exact sub_same (mono_of (X := fun f => toIter P f a v) (fun n => toIter_ndl P L n a v) (toIter_nec P a v) f) r h
    · simp at h
  case mapping =>
    simp only [runConv] at h ⊢
    obtain ⟨n, d⟩ := f
    have hj : d = true → KnownDefect.jsonControlChar P E v = false := by
      intro hd; subst hd
      simpa [KnownDefect, hcv] using hk
    cases n <;> cases d
    · exact ⟨r, h, sameValue.rfl' r⟩
    · exact ⟨r, toMapping_ndl P L E false v (hj rfl) r h, sameValue.rfl' r⟩
    · exact ⟨r, toMapping_nec P E v r h, sameValue.rfl' r⟩
    · exact ⟨r, toMapping_nec P E v r (toMapping_ndl P L E true v (hj rfl) r h), sameValue.rfl' r⟩

/-- **C12_mono** (headline, partial only in the listed known defects): `TypeTransformer.__call__` under any
combination of the two preferences returns what it returns — as an equal value of the same class — without
them.  Full statement = this one without `hk` (false of the unchanged code: witnesses below) and `ho`. -/
theorem C12_mono_partial (P : Prims) (L : PrimLaws P) (E : Env) (u : Unresolved) (f : Flags) (t : Target) (v r : V)
    (hk : KnownDefect P E f t v = false) (ho : OutsideProof E f t v = false)
    (hm : ∀ w, transformU P E ⟨false, false⟩ u t v ≠ .unmodelled w)
    (h : transformU P E f u t v = .ok r) :
    ∃ r', transformU P E ⟨false, false⟩ u t v = .ok r' ∧ sameValue r' r := by
  unfold transformU at h ⊢ hm
  split at h
  · rename_i h1; simp only [h1, if_true]; exact ⟨r, h, sameValue.rfl' r⟩
  · rename_i h1; simp only [h1] at hm ⊢
    split at h
    · simp at h
    · rename_i h2; simp only [h2] at hm ⊢
      split at h
      · exact ⟨r, h, sameValue.rfl' r⟩
      · rename_i cv hcv
        exact C12_mono_conv P L E f t v cv r hcv hk ho (by simpa [hcv] using hm) h


/-! ## (3) no_explicit_cast: a value converts only within its primitive group -/

/-- close a goal `GroupLaw cv v r ∨ (deviation cv v).isSome` for a concrete converter and value constructor -/
local macro "grp" : tactic =>
  `(tactic| simp [GroupLaw, inGroup, targetGroup, valueInGroup, docException, deviation, isDateLike, isZeroOneValue])

/-- **C12_group_conv**: what a converter (other than `to_enum`: `C12_group_enum`) accepts under no_explicit_cast
either obeys the property's table (`GroupLaw`: passed through unchanged / in the target's primitive group /
documented exception) or is one of the five listed deviations of the code (`deviation`, findings.d). -/
theorem C12_group_conv (P : Prims) (L : PrimLaws P) (E : Env) (d : Bool) (t : Target) (v : V) (cv : Conv) (r : V)
    (hcv : cv ≠ .enum)
    (h : runConv P E ⟨true, d⟩ t v cv = .ok r) : GroupLaw cv v r ∨ (deviation cv v).isSome = true := by
  have num_case : ∀ cv', (cv' = .int ∨ cv' = .float ∨ cv' = .decimal ∨ cv' = .complex) → isNumber v = true →
      GroupLaw cv' v r ∨ (deviation cv' v).isSome = true := by
    intro cv' hc hn
    rcases isNumber_cases v hn with ⟨b, rfl⟩ | hg
    · rcases hc with rfl | rfl | rfl | rfl <;> grp
    · rcases hc with rfl | rfl | rfl | rfl <;> simp [GroupLaw, inGroup, targetGroup, hg]
  have ts_case : ∀ cv', (cv' = .date ∨ cv' = .datetime ∨ cv' = .timedelta) → isNumber v = true →
      GroupLaw cv' v r ∨ (deviation cv' v).isSome = true := by
    intro cv' hc hn
    rcases isNumber_cases v hn with ⟨b, rfl⟩ | hg
    · rcases hc with rfl | rfl | rfl <;> grp
    · rcases hc with rfl | rfl | rfl <;> simp [GroupLaw, docException, hg]
  cases cv
  case enum => exact absurd rfl hcv
  case null =>
    have h' := nec_reduce (X := fun f => toNull f v) (by rw [toNull_ndl]; exact Sub.refl _) d r h
    cases v <;> simp [toNull] at h' <;> grp
  case str =>
    have h' := nec_reduce (X := fun f => toStr P E f (subOf t) v) (toStr_ndl P L E true _ v) d r h
    cases v <;> simp [toStr, attemptFrom, fromByteLike, isInst, V.cls?, Base.sub] at h' <;> try grp
    case seq k c' xs => cases k <;> simp [SeqK.base] at h'
  case bytes =>
    cases t with
    | cls b c =>
      simp only [runConv] at h
      cases hk' : b.bytesK? with
      | none => simp [hk'] at h
      | some k =>
        simp only [hk'] at h
        have h' := nec_reduce (X := fun f => toBytes P E f k c v) (toBytes_ndl P E true k c v) d r h
        cases v <;> simp [toBytes, attemptFrom] at h' <;> grp
    | _ => simp [runConv] at h
  case array =>
    cases t with
    | cls b c =>
      simp only [runConv] at h
      cases hk' : b.seqK? with
      | none => simp [hk'] at h
      | some k =>
        simp only [hk'] at h
        have h' := nec_reduce (X := fun f => toArray P f k c v) (toArray_ndl P L true k c v) d r h
        unfold toArray at h'
        split at h'
        · left; left; simpa using h'.symm
        · split at h'
          · rename_i hm; cases v <;> simp [multi] at hm; grp
          · simp at h'
    | _ => simp [runConv] at h
  case dict =>
    have h' : toDict P E ⟨true, false⟩ (subOf t) v = .ok r := by
      cases d
      · exact h
      · simp only [runConv] at h
        unfold toDict at h ⊢
        split at h
        · rename_i h1; simp only [h1, if_true]; exact h
        · rename_i h1; simp only [h1]
          split at h
          · exact h
          · simp at h
    unfold toDict at h'
    split at h'
    · left; left; simpa using h'.symm
    · split at h'
      · grp
      · simp at h'
  case mapping =>
    have h' : toMapping P E ⟨true, false⟩ v = .ok r := by
      cases d
      · exact h
      · simp only [runConv] at h
        unfold toMapping toDict at h ⊢
        split at h
        · rename_i h1; simp only [h1, if_true]; exact h
        · rename_i h1; simp only [h1]
          split at h
          · rename_i h2; simp only [h2, if_true]; exact h
          · rename_i h2; simp only [h2]
            split at h
            · exact h
            · simp at h
    unfold toMapping at h'
    split at h'
    · left; left; simpa using h'.symm
    · unfold toDict at h'
      split at h'
      · left; left; simpa using h'.symm
      · split at h'
        · grp
        · simp at h'
  case float =>
    have h' := nec_reduce (X := fun f => toFloat P E f (subOf t) v) (toFloat_ndl P L E true _ v) d r h
    refine num_case .float (by simp) ?_
    unfold toFloat at h'
    split at h'
    · simp [isNumber, isInst, V.cls?, Base.sub]
    · simp only [if_true] at h'
      split at h'
      · rename_i hi
        simp at hi
        rcases hi with hi | hi <;> simp [isNumber, hi]
      · simp at h'
  case int =>
    have h' := nec_reduce (X := fun f => toInteger P E f (subOf t) v) (toInteger_ndl P L E true _ v) d r h
    refine num_case .int (by simp) ?_
    unfold toInteger at h'
    split at h'
    · simp [isNumber, isInst, V.cls?, Base.sub]
    · simp [isNumber, isInst, V.cls?, Base.sub]
    · simp only [if_true] at h'
      split at h'
      · rename_i hi
        simp at hi
        rcases hi with hi | hi <;> simp [isNumber, hi]
      · simp at h'
  case decimal =>
    have h' := nec_reduce (X := fun f => toDecimal P E f (subOf t) v) (toDecimal_ndl_nec P L E _ v) d r h
    unfold toDecimal at h'
    split at h'
    · grp
    · simp only [if_true] at h'
      obtain ⟨d1, hd1, _⟩ := Outcome.bind_eq_ok.mp h'
      obtain ⟨d2, hd2, hd3⟩ := Outcome.bind_eq_ok.mp hd1
      split at hd3
      · rename_i hi
        have hg := fromByteLike_group P _ v d2 hd2 (scalar_group d2 hi)
        simp at hg
        rcases hg with hg | hg
        · exact num_case .decimal (by simp) hg
        · left; right; right; simp [docException, isString_group v hg]
      · simp at hd3
  case complex =>
    have h' := nec_reduce (X := fun f => toComplex P E f (subOf t) v) (toComplex_ndl P L E true _ v) d r h
    unfold toComplex at h'
    split at h'
    · left; left; simpa using h'.symm
    · simp only [if_true] at h'
      obtain ⟨d2, hd2, hd3⟩ := Outcome.bind_eq_ok.mp h'
      split at hd3
      · rename_i hi
        have hg := fromByteLike_group P _ v d2 hd2 (scalar_group d2 (by
          simp at hi ⊢; rcases hi with ((hi | hi) | hi) | hi <;> simp [hi]))
        simp at hg
        rcases hg with hg | hg
        · exact num_case .complex (by simp) hg
        · right
          have := isString_group v hg
          cases v <;> simp [valueInGroup] at this <;> grp
      · simp at hd3
  case bool =>
    have h' := nec_reduce (X := fun f => Conv.toBool P f v) (toBool_ndl P true v) d r h
    unfold Conv.toBool at h'
    have fin : ∀ n : Int, (n = 0 ∨ n = 1) → eqSmall v n = .ok true →
        GroupLaw .bool v r ∨ (deviation .bool v).isSome = true := by
      intro n hn he
      rcases eqSmall_spec v n he with ⟨b, rfl, _⟩ | ⟨c, rfl⟩ | hz
      · grp
      · rcases hn with rfl | rfl <;> grp
      · right
        have : isZeroOneValue v = true := by rcases hn with rfl | rfl <;> simp [isZeroOneValue, hz]
        cases v <;> simp [deviation, this]
    split at h'
    · grp
    · obtain ⟨b1, hb1, h2⟩ := Outcome.bind_eq_ok.mp h'
      split at h2
      · rename_i hb; subst hb; exact fin 1 (Or.inr rfl) hb1
      · obtain ⟨b0, hb0, h3⟩ := Outcome.bind_eq_ok.mp h2
        split at h3
        · rename_i hb; subst hb; exact fin 0 (Or.inl rfl) hb0
        · simp at h3
  case datetime =>
    have h' := nec_reduce (X := fun f => toDatetime P E f (subOf t) false v) (toDatetime_ndl P L E true _ false v) d r h
    rcases toDatetime_nec_group P E _ false v r h' with h1 | h1 | h1 | h1
    · left; left; exact h1
    · right; cases v <;> simp [isDateLike] at h1 <;> grp
    · exact ts_case .datetime (by simp) h1
    · left; right; right; simp [docException, isString_group v h1]
  case date =>
    have h' := nec_reduce (X := fun f => toDate P E f v) (toDate_ndl P L E true v) d r h
    cases v with
    | datetime c' dd tt => grp
    | date c' dd => left; left; simpa [toDate] using h'.symm
    | _ =>
      simp only [toDate] at h'
      obtain ⟨dt, hdt, _⟩ := Outcome.bind_eq_ok.mp h'
      rcases toDatetime_nec_kind P E _ true _ dt hdt with h1 | h1 | h1
      · simp [isDateLike] at h1
      · exact ts_case .date (by simp) h1
      · left; right; right; simp [docException, isString_group _ h1]
  case timedelta =>
    have h' := nec_reduce (X := fun f => toTimedelta P E f (subOf t) v) (toTimedelta_ndl P L E true _ v) d r h
    unfold toTimedelta at h'
    split at h'
    · left; left; simpa using h'.symm
    · simp only [attemptFrom, if_true, Outcome.ok_bind] at h'
      obtain ⟨d2, hd2, h3⟩ := Outcome.bind_eq_ok.mp h'
      cases hf : toFloat P E ⟨true, false⟩ 0 d2 with
      | ok x =>
        have hn : isNumber d2 = true := by
          unfold toFloat at hf
          split at hf
          · simp [isNumber, isInst, V.cls?, Base.sub]
          · simp only [if_true] at hf
            split at hf
            · rename_i hi; simp at hi; rcases hi with hi | hi <;> simp [isNumber, hi]
            · simp at hf
        have := fromByteLike_group P _ v d2 hd2 (by simp [hn])
        simp at this
        rcases this with h1 | h1
        · exact ts_case .timedelta (by simp) h1
        · left; right; right; simp [docException, isString_group v h1]
      | perr e =>
        simp only [hf] at h3
        split at h3
        · rename_i c' s
          left; right; right
          simp [docException, isString_group v (fromByteLike_str_string P _ v c' s hd2)]
        · simp at h3
      | escape e => simp [hf] at h3
      | diverge => simp [hf] at h3
      | unmodelled w => simp [hf] at h3
  case time =>
    have h' := nec_reduce (X := fun f => toTime P E f (subOf t) v) (toTime_ndl P L E true _ v) d r h
    unfold toTime at h'
    split at h'
    · left; left; simpa using h'.symm
    · simp only [attemptFrom, if_true, Outcome.ok_bind, Bool.false_eq_true, if_false] at h'
      cases v <;> simp [fromByteLike] at h' <;> grp
  case uuid =>
    have h' := nec_reduce (X := fun f => toUuid P f (subOf t) v) (toUuid_ndl P true _ v) d r h
    unfold toUuid at h'
    split at h'
    · left; left; simpa using h'.symm
    · split at h'
      · grp
      · grp
      · simp at h'
  case iter =>
    cases t with
    | abc a =>
      simp only [runConv] at h
      have h' := nec_reduce (X := fun f => toIter P f a v) (toIter_ndl P L true a v) d r h
      unfold toIter at h'
      split at h'
      · left; left; simpa using h'.symm
      · unfold toArray at h'
        split at h'
        · left; left; simpa using h'.symm
        · split at h'
          · rename_i hm; cases v <;> simp [multi] at hm; grp
          · simp at h'
    | _ => simp [runConv] at h

/-- **C12_group_partial**: the property's clause itself, partial in the listed deviations: under no_explicit_cast a
value that converts was passed through unchanged, lies in the target's primitive group, or is a documented
exception (Decimal from the string group; date/time types from their string and timestamp forms). -/
theorem C12_group_partial (P : Prims) (L : PrimLaws P) (E : Env) (d : Bool) (t : Target) (v : V) (cv : Conv) (r : V)
    (hcv : cv ≠ .enum) (hd : deviation cv v = none)
    (h : runConv P E ⟨true, d⟩ t v cv = .ok r) : GroupLaw cv v r := by
  rcases C12_group_conv P L E d t v cv r hcv h with h1 | h1
  · exact h1
  · simp [hd] at h1

/-- **C12_group_transformU**: the same at `TypeTransformer.__call__`: the exact-type shortcut and
`handle_unresolved` pass the value through (or raise), except `unresolved_types='init'`, which calls the class. -/
theorem C12_group_transformU (P : Prims) (L : PrimLaws P) (E : Env) (u : Unresolved) (d : Bool) (t : Target) (v r : V)
    (h : transformU P E ⟨true, d⟩ u t v = .ok r) :
    r = v ∨ (resolve t = none ∧ u = .init) ∨
    ∃ cv, resolve t = some cv ∧ (cv = .enum ∨ GroupLaw cv v r ∨ (deviation cv v).isSome = true) := by
  unfold transformU at h
  split at h
  · left; simpa using h.symm
  · split at h
    · simp at h
    · split at h
      · rename_i hr
        unfold handleUnresolved at h
        split at h
        · left; simpa using h.symm
        · cases u
          · simp at h
          · right; left; exact ⟨hr, rfl⟩
          · left; simpa using h.symm
      · rename_i cv hcv
        right; right
        refine ⟨cv, hcv, ?_⟩
        by_cases he : cv = .enum
        · left; exact he
        · right; exact C12_group_conv P L E d t v cv r he h

/-- **C12_group_enum**: under no_explicit_cast an Enum target is reached by value only: the result is the
input itself (already a member) or the first member whose value `==` the input. -/
theorem C12_group_enum (P : Prims) (E : Env) (d : Bool) (k : Nat) (v r : V)
    (h : toEnum P E ⟨true, d⟩ k v = .ok r) :
    r = v ∨ ∃ decl i, E.enum? k = some decl ∧ r = .enum k i ∧
      ∃ hi : i < decl.members.length, pyeq decl.members[i].2 v = true := by
  have hcall : enumCall E k v = .ok r → ∃ decl i, E.enum? k = some decl ∧ r = .enum k i ∧
      ∃ hi : i < decl.members.length, pyeq decl.members[i].2 v = true := by
    intro hc
    unfold enumCall at hc
    cases hd : E.enum? k with
    | none => simp [hd] at hc
    | some decl =>
      simp only [hd] at hc
      split at hc
      · simp at hc
      · cases hi : decl.members.findIdx? (fun m => pyeq m.2 v) with
        | none => simp [hi] at hc
        | some i =>
          simp only [hi] at hc
          obtain ⟨hlt, hp, _⟩ := List.findIdx?_eq_some_iff_getElem.mp hi
          exact ⟨decl, i, rfl, by simpa using hc.symm, hlt, hp⟩
  unfold toEnum at h
  split at h
  · split at h
    · left; simpa using h.symm
    · simp only [if_true] at h; right; exact hcall h
  · simp only [if_true] at h; right; exact hcall h

/-! ## (2) the promises of no_data_loss -/

theorem signed_natAbs (m : Int) (k : Nat) :
    (if decide (m < 0) = true then -(((m.natAbs * k : Nat) : Int)) else ((m.natAbs * k : Nat) : Int)) = m * k := by
  by_cases h : m < 0
  · simp only [h, decide_true, if_true]
    have : (m.natAbs : Int) = -m := by omega
    rw [Int.natCast_mul, this]; simp [Int.neg_mul]
  · simp only [h, decide_false]
    have : (m.natAbs : Int) = m := by omega
    simp [Int.natCast_mul, this]

theorem intFinish_exact (P : Prims) (n : Bool) (c : Nat) (v r : V)
    (hv : (match v with | .float _ _ => true | .dec _ _ => true | _ => false) = true)
    (h : intFinish P ⟨n, true⟩ c v = .ok r) : ∃ i, r = .int c i ∧ exactInt? v = some i := by
  cases v <;> simp at hv
  case float c' f =>
    cases f with
    | fin m e =>
      by_cases he : e ≥ 0
      · simp [intFinish, decimalOf, decOfFloatExact, he, decFinExp0, intOfDec] at h
        refine ⟨_, h.symm, ?_⟩
        simp only [exactInt?, exactIntF, he, if_true]
        have := signed_natAbs m (2 ^ e.toNat)
        simp only [Int.natCast_pow, Int.natCast_mul] at this ⊢
        simpa using this.symm
      · have he0 : e ≠ 0 := by omega
        simp [intFinish, decimalOf, decOfFloatExact, he, decFinExp0, he0] at h
    | inf s => simp [intFinish, decimalOf, decOfFloatExact, decFinExp0] at h
    | nan => simp [intFinish, decimalOf, decOfFloatExact, decFinExp0] at h
  case dec c' d =>
    cases d with
    | fin s co e =>
      by_cases he : e = 0
      · subst he
        simp [intFinish, decimalOf, decFinExp0, intOfDec] at h
        refine ⟨_, h.symm, ?_⟩
        simp [exactInt?, exactIntD]
      · simp [intFinish, decimalOf, decFinExp0, he] at h
    | inf s => simp [intFinish, decimalOf, decFinExp0] at h
    | nan s => simp [intFinish, decimalOf, decFinExp0] at h

/-- **C12_ndl_int**: under no_data_loss a float or Decimal becomes an int only if it is integral, and the int
is that value. -/
theorem C12_ndl_int (P : Prims) (E : Env) (n : Bool) (c : Nat) (v r : V)
    (hv : (match v with | .float _ _ => true | .dec _ _ => true | _ => false) = true)
    (h : toInteger P E ⟨n, true⟩ c v = .ok r) : ∃ i, r = .int c i ∧ exactInt? v = some i := by
  have hnot : isInstT v (.cls .int c) = false := by
    cases v <;> simp at hv <;> cases c <;> simp [isInstT, isInst, V.cls?, Base.sub]
  cases n
  · -- lenient + no_data_loss: `_attempt_from_number` maps a zero to the int 0, everything else stays
    have hafn : attemptFromNumber P E ⟨false, true⟩ v = .ok (if truthy v then v else .int 0 0) := by
      cases v <;> simp at hv <;> simp [attemptFromNumber, attemptFrom, fromByteLike] <;> split <;> simp_all
    have h' : intAfter P ⟨false, true⟩ c (if truthy v then v else .int 0 0) = .ok r := by
      cases v <;> simp at hv <;> simpa [toInteger, hafn] using h
    by_cases ht : truthy v = true
    · simp only [ht, if_true] at h'
      have : intFinish P ⟨false, true⟩ c v = .ok r := by
        cases v <;> simp at hv <;> simpa [intAfter, hnot] using h'
      exact intFinish_exact P false c v r hv this
    · simp only [ht] at h'
      have hr : r = .int c 0 := by
        cases c with
        | zero => simp [intAfter, intOfInst, isInstT, isInst, V.cls?, Base.sub] at h'; exact h'.symm
        | succ k => simp [intAfter, isInstT, V.cls?, intFinish, decimalOf, decFinExp0, intOfDec] at h'; exact h'.symm
      refine ⟨0, hr, ?_⟩
      cases v <;> simp at hv
      case float c' f =>
        cases f <;> simp [truthy, fZero] at ht
        subst ht
        simp only [exactInt?, exactIntF]
        split <;> simp
      case dec c' d =>
        cases d <;> simp [truthy] at ht
        subst ht
        simp only [exactInt?, exactIntD]
        split <;> simp
  · have : intFinish P ⟨true, true⟩ c v = .ok r := by
      cases v <;> simp at hv <;> simpa [toInteger, isInst, V.cls?, Base.sub] using h
    exact intFinish_exact P true c v r hv this

/-- the text `to_bool` looks at: bytes are decoded strictly, anything else goes through `str()` -/
def boolText (P : Prims) (v : V) : Outcome String :=
  match v with
  | .bytes .bytes _ bs => decodeB P true bs
  | _ => pyStr P v

/-- **C12_ndl_bool**: under no_data_loss only unambiguous booleans become bool: a bool (returned as is); the
int 0 / 1 or a float / Decimal / complex whose exact value (`numValueIs`, from `m·2^e` / `±c·10^e`) is 0 / 1,
giving False / True accordingly; or a text (`boolText`: a str, strictly decoded bytes, or the `str()` of the
value) whose lower-case form is in the generated FALSE_VALUES / TRUE_VALUES tables. -/
theorem C12_ndl_bool (P : Prims) (n : Bool) (v r : V) (h : Conv.toBool P ⟨n, true⟩ v = .ok r) :
    ((∃ b, v = .bool b) ∧ r = v) ∨
    (∃ i : Int, (i = 0 ∨ i = 1) ∧ r = .bool (i == 1) ∧ ((∃ c, v = .int c i) ∨ numValueIs v i = true)) ∨
    ∃ s, boolText P v = .ok s ∧
      ((r = .bool false ∧ Utv.Gen.Tables.FALSE_VALUES.contains (pyLower s) = true) ∨
       (r = .bool true ∧ Utv.Gen.Tables.TRUE_VALUES.contains (pyLower s) = true)) := by
  unfold Conv.toBool at h
  split at h
  · left; exact ⟨⟨_, rfl⟩, by simpa using h.symm⟩
  · rename_i hnb
    obtain ⟨b1, hb1, h2⟩ := Outcome.bind_eq_ok.mp h
    have num : ∀ i : Int, (i = 0 ∨ i = 1) → eqSmall v i = .ok true → r = .bool (i == 1) →
        (∃ i : Int, (i = 0 ∨ i = 1) ∧ r = .bool (i == 1) ∧ ((∃ c, v = .int c i) ∨ numValueIs v i = true)) := by
      intro i hi he hr
      rcases eqSmall_spec v i he with ⟨b, hv, _⟩ | hc | hz
      · exact absurd hv (hnb b)
      · exact ⟨i, hi, hr, Or.inl hc⟩
      · exact ⟨i, hi, hr, Or.inr hz⟩
    split at h2
    · rename_i hb; subst hb; right; left
      exact num 1 (Or.inr rfl) hb1 (by simpa using h2.symm)
    · obtain ⟨b0, hb0, h3⟩ := Outcome.bind_eq_ok.mp h2
      split at h3
      · rename_i hb; subst hb; right; left
        exact num 0 (Or.inl rfl) hb0 (by simpa using h3.symm)
      · split at h3
        · simp at h3
        · obtain ⟨d, hd, h4⟩ := Outcome.bind_eq_ok.mp h3
          obtain ⟨s, hs, h5⟩ := Outcome.bind_eq_ok.mp h4
          right; right
          refine ⟨s, ?_, ?_⟩
          · unfold boolText
            split at hd
            · obtain ⟨s', hs', hd'⟩ := Outcome.bind_eq_ok.mp hd
              simp at hd'; subst hd'
              simp [pyStr] at hs; subst hs
              exact hs'
            · simp at hd; subst hd; rename_i hne
              split
              · exact absurd rfl (hne _ _)
              · exact hs
          · dsimp only at h5
            split at h5
            · left; rename_i hf; exact ⟨by simpa using h5.symm, hf⟩
            · split at h5
              · right; rename_i ht; exact ⟨by simpa using h5.symm, ht⟩
              · simp at h5

/-- converters whose target is a scalar and that look through collections with `_attempt_from` -/
def scalarConv : Conv → Bool
  | .null | .str | .bytes | .int | .float | .decimal | .datetime | .date | .timedelta | .time | .uuid => true
  | _ => false

theorem attemptFrom_ndl_multi (E : Env) (k : SeqK) (c : Nat) (xs : List V)
    (hm : multi (.seq k c xs) = true) (hl : xs.length > 1) :
    attemptFrom E ⟨false, true⟩ (.seq k c xs) = .perr .typeError := by
  cases xs with
  | nil => simp at hl
  | cons x rest =>
    cases rest with
    | nil => simp at hl
    | cons y ys => simp [attemptFrom, hm]

/-- **C12_ndl_no_collapse**: under no_data_loss a list / tuple / set / frozenset with more than one element is
never converted by a scalar converter (it never collapses to its first element). -/
theorem C12_ndl_no_collapse (P : Prims) (E : Env) (n : Bool) (t : Target) (k : SeqK) (c : Nat) (xs : List V)
    (cv : Conv) (r : V) (hs : scalarConv cv = true)
    (hm : multi (.seq k c xs) = true) (hl : xs.length > 1) :
    runConv P E ⟨n, true⟩ t (.seq k c xs) cv ≠ .ok r := by
  have ha := attemptFrom_ndl_multi E k c xs hm hl
  have hi : ∀ b, b ≠ Base.list → b ≠ .tuple → b ≠ .set → b ≠ .frozenset → b ≠ .deque →
      isInst (V.seq k c xs) b = false := by
    intro b h1 h2 h3 h4 h5
    cases k <;> cases b <;> simp_all [isInst, V.cls?, Base.sub, SeqK.base]
  have hT : ∀ b c', b ≠ Base.list → b ≠ .tuple → b ≠ .set → b ≠ .frozenset → b ≠ .deque →
      isInstT (V.seq k c xs) (.cls b c') = false := by
    intro b c' h1 h2 h3 h4 h5
    cases c' with
    | zero => exact hi b h1 h2 h3 h4 h5
    | succ m => cases k <;> cases b <;> simp_all [isInstT, V.cls?, SeqK.base]
  intro h
  cases cv <;> simp [scalarConv] at hs
  case null => simp [runConv, toNull] at h
  case str =>
    cases n
    · simp [runConv, toStr, ha] at h
    · simp [runConv, toStr, attemptFrom, fromByteLike, hi] at h
  case bytes =>
    simp only [runConv] at h
    split at h
    · split at h
      · cases n
        · simp [toBytes, ha] at h
        · simp [toBytes, attemptFrom] at h
      · simp at h
    · simp at h
  case int =>
    cases n
    · simp [runConv, toInteger, attemptFromNumber, ha] at h
    · simp [runConv, toInteger, hi] at h
  case float =>
    cases n
    · simp [runConv, toFloat, attemptFromNumber, ha] at h
    · simp [runConv, toFloat, hi] at h
  case decimal =>
    cases n
    · simp [runConv, toDecimal, attemptFromNumber, ha] at h
    · simp [runConv, toDecimal, hi, fromByteLike] at h
  case datetime =>
    cases n
    · simp [runConv, toDatetime, hT, ha] at h
    · simp [runConv, toDatetime, hT, hi, attemptFrom, fromByteLike] at h
  case date =>
    cases n
    · simp [runConv, toDate, toDatetime, hT, ha] at h
    · simp [runConv, toDate, toDatetime, hT, hi, attemptFrom, fromByteLike] at h
  case timedelta =>
    cases n
    · simp [runConv, toTimedelta, hT, ha] at h
    · simp [runConv, toTimedelta, hT, hi, attemptFrom, fromByteLike, toFloat] at h
  case time =>
    cases n
    · simp [runConv, toTime, hT, ha] at h
    · simp [runConv, toTime, hT, attemptFrom, fromByteLike] at h
  case uuid =>
    simp [runConv, toUuid, hT] at h

/-- helper (unfolds `fromByteLike`; the converter-level statement is `C12_ndl_strict_decode_conv`): under
no_data_loss `_from_byte_like` yields exactly what the *strict* decoder
accepts (a byte string that is not valid UTF-8 is never turned into text). -/
theorem fromByteLike_ndl_strict (P : Prims) (n : Bool) (k : BytesK) (c : Nat) (bs : List UInt8) (d : V)
    (h : fromByteLike P ⟨n, true⟩ (.bytes k c bs) = .ok d) : ∃ s, d = .str 0 s ∧ decodeB P true bs = .ok s := by
  simp only [fromByteLike] at h
  obtain ⟨s, hs, hd⟩ := Outcome.bind_eq_ok.mp h
  exact ⟨s, by simpa using hd.symm, hs⟩

/-- **C12_ndl_date_datetime**: under no_data_loss a datetime never becomes a date. -/
theorem C12_ndl_date_datetime (P : Prims) (E : Env) (n : Bool) (c : Nat) (d : DateV) (t : TimeV) :
    toDate P E ⟨n, true⟩ (.datetime c d t) = .perr .valueError := by
  simp [toDate]

/-- **C12_ndl_date_midnight**: under no_data_loss whatever else becomes a date (a date string, a timestamp) is
read by `to_datetime` as a datetime whose time of day is exactly midnight — a timed string never becomes a date. -/
theorem C12_ndl_date_midnight (P : Prims) (E : Env) (n : Bool) (v r : V)
    (hv : ∀ c d, v ≠ .date c d) (h : toDate P E ⟨n, true⟩ v = .ok r) :
    ∃ c d t, toDatetime P E ⟨n, true⟩ 0 true v = .ok (.datetime c d t) ∧ midnight t = true ∧ r = .date 0 d := by
  unfold toDate at h
  split at h
  · simp at h
  · rename_i c d; exact absurd rfl (hv c d)
  · obtain ⟨dt, hdt, h2⟩ := Outcome.bind_eq_ok.mp h
    split at h2
    · rename_i c d t
      dsimp only at h2
      split at h2
      · simp at h2
      · rename_i hmid
        refine ⟨c, d, t, hdt, ?_, by simpa using h2.symm⟩
        simpa using hmid
    · simp at h2

/-! ### parse level: tuple excess, unknown keys, list input of a data class -/

open Utv.C12M in
/-- **C12_ndl_addition**: `Options(no_data_loss=True)` never leaves `addition` unset / None, and then a key the
class does not take is rejected — an unknown name as well as the name of an excluded (private / ClassVar)
attribute — unless the caller explicitly asked to keep additions (`addition=True`; excluded names are
then dropped, as without the preference). -/
theorem C12_ndl_addition (a : Addition) (excluded : Bool) :
    normAddition true a ≠ .unset ∧ normAddition true a ≠ .none ∧
    (a ≠ .yes → unknownKey excluded (normAddition true a) = .rejected) := by
  cases a <;> cases excluded <;> decide

open Utv.C12M in
/-- **C12_ndl_tuple_excess**: under no_data_loss every item beyond the declared prefix is reported
(`TupleExceedError`), whatever `addition` says. -/
theorem C12_ndl_tuple_excess (a : Addition) (nargs nvals : Nat) (h : nvals > nargs) :
    tupleExcess a true nargs nvals = List.range' nargs (nvals - nargs) ∧ tupleExcess a true nargs nvals ≠ [] := by
  have : nvals - nargs ≠ 0 := by omega
  simp [tupleExcess, h, this]

open Utv.C12M in
/-- **C12_ndl_dataclass_list**: under no_data_loss a list / tuple of several items is not collapsed to its
first item on the way into a data class; and the preference only restricts this step. -/
theorem C12_ndl_dataclass_list (n : Bool) (k : SeqK) (c : Nat) (x y : V) (rest : List V)
    (hk : k = .list ∨ k = .tuple) :
    dataclassUnwrap ⟨false, true⟩ (.seq k c (x :: y :: rest)) = .perr .typeError ∧
    ∀ v r, dataclassUnwrap ⟨n, true⟩ v = .ok r → dataclassUnwrap ⟨n, false⟩ v = .ok r := by
  constructor
  · rcases hk with rfl | rfl <;> simp [dataclassUnwrap]
  · intro v r h
    cases n
    · cases v with
      | seq k' c' xs =>
        simp only [dataclassUnwrap] at h ⊢
        by_cases hc : ((k' == SeqK.list || k' == SeqK.tuple) && !false) = true
        · simp only [hc, if_true] at h ⊢
          cases xs with
          | nil => exact h
          | cons a as =>
            cases as with
            | nil => simpa using h
            | cons b bs => simp at h
        · simp only [hc] at h ⊢; exact h
      | _ => simpa [dataclassUnwrap] using h
    · cases v <;> simpa [dataclassUnwrap] using h

/-! ## witnesses of the known defects, non-vacuity -/

/-- builtins that know nothing (every call is outside the table) -/
def P0 : Prims :=
  { decode := fun _ _ => .ok "", strOf := fun _ => .unmodelled "-", floatOfStr := fun _ => .perr .valueError,
    floatOfInt := fun _ => .unmodelled "-", floatOfDec := fun _ => .unmodelled "-", decOfStr := fun _ => .unmodelled "-",
    decOfFloatRepr := fun _ => .unmodelled "-", complexOf := fun _ => .unmodelled "-", complexOf2 := fun _ _ => .unmodelled "-",
    timestampOf := fun _ => .unmodelled "-", totalSeconds := fun _ => .unmodelled "-", div1000 := fun _ => .unmodelled "-",
    utcFromTs := fun _ => .unmodelled "-", strptime := fun _ _ => .perr .valueError, timeFromIso := fun _ => .perr .valueError,
    uuidOfStr := fun _ => .perr .valueError, jsonLoads := fun _ _ => .perr .jsonDecode, literalEval := fun _ => .perr .valueError,
    parseQs := fun _ => .unmodelled "-", durationMatch := fun _ _ => .ok none, timedeltaKw := fun _ _ => .unmodelled "-",
    timedeltaSec := fun _ => .unmodelled "-", initObj := fun _ _ => .perr .typeError }

/-- the laws are satisfiable -/
theorem P0_laws : PrimLaws P0 := ⟨fun _ _ h => h, fun _ => Or.inl rfl⟩

def E0 : Env := ⟨[]⟩

/-- `'5.1234567'` → timedelta: `float()` and `timedelta(seconds=…)` round to 5.123457 s, the duration regex
cuts the fraction to 5.123456 s (what CPython answers; replayed on the real code as corpus witness) -/
def Ptd : Prims :=
  { P0 with
    floatOfStr := fun _ => .ok (.fin 5768499565531513 (-50))
    timedeltaSec := fun _ => .ok (.delta 0 5123457)
    durationMatch := fun i s => if i == 0 && s == "5.1234567" then
        .ok (some [("days", none), ("hours", none), ("minutes", none), ("seconds", some "5"), ("microseconds", some "123456")])
      else .ok none
    timedeltaKw := fun _ _ => .ok (.delta 0 5123456) }

theorem C12_timedelta_numeric_string_witness :
    ∃ (P : Prims) (E : Env) (v r r' : V), toTimedelta P E ⟨true, false⟩ 0 v = .ok r ∧
      toTimedelta P E ⟨false, false⟩ 0 v = .ok r' ∧ r ≠ r' ∧ KnownDefect.timedeltaNumericString P E v = true :=
  ⟨Ptd, E0, .str 0 "5.1234567", .delta 0 5123456, .delta 0 5123457, by rfl, by rfl, by simp, by rfl⟩

theorem Ptd_laws : PrimLaws Ptd := ⟨fun _ _ h => h, fun _ => Or.inl rfl⟩

/-- the full statement (C12_mono_partial without `hk`) is false of the unchanged code -/
theorem C12_mono_full_fails :
    ¬ ∀ (P : Prims) (_ : PrimLaws P) (E : Env) (u : Unresolved) (f : Flags) (t : Target) (v r : V),
        transformU P E f u t v = .ok r → ∃ r', transformU P E ⟨false, false⟩ u t v = .ok r' ∧ sameValue r' r := by
  intro H
  obtain ⟨r', h1, h2⟩ := H Ptd Ptd_laws E0 .throw ⟨true, false⟩ (.cls .timedelta 0) (.str 0 "5.1234567")
    (.delta 0 5123456) (by rfl)
  have h3 : transformU Ptd E0 ⟨false, false⟩ .throw (.cls .timedelta 0) (.str 0 "5.1234567") = .ok (.delta 0 5123457) := by rfl
  rw [h3] at h1
  simp at h1
  subst h1
  rcases h2 with h2 | ⟨_, x, y, hx, _, _⟩
  · simp at h2
  · simp [num?] at hx

/-- JSON text with a raw TAB inside a string: `strict=True` rejects it, `strict=False` reads `"\/"` as `/`,
`ast.literal_eval` reads it as backslash + `/` -/
def Pjs : Prims :=
  { P0 with
    jsonLoads := fun strict _ => if strict then .perr .jsonDecode else .ok (.dict 0 [(.str 0 "a", .str 0 "/\t")])
    literalEval := fun _ => .ok (.dict 0 [(.str 0 "a", .str 0 "\\/\t")]) }

theorem Pjs_laws : PrimLaws Pjs := ⟨fun _ _ h => h, fun _ => Or.inr ⟨rfl, _, rfl⟩⟩

theorem C12_json_control_char_witness :
    ∃ (P : Prims) (_ : PrimLaws P) (E : Env) (v r r' : V), toDict P E ⟨false, true⟩ 0 v = .ok r ∧
      toDict P E ⟨false, false⟩ 0 v = .ok r' ∧ r ≠ r' ∧ KnownDefect.jsonControlChar P E v = true :=
  ⟨Pjs, Pjs_laws, E0, .str 0 "{\"a\": \"\\/\t\"}", .dict 0 [(.str 0 "a", .str 0 "\\/\t")], .dict 0 [(.str 0 "a", .str 0 "/\t")],
    by rfl, by rfl, by simp, by rfl⟩

def Pcx : Prims := { P0 with complexOf := fun _ => .ok (.complex (.fin 1 0) (.fin 3 0)) }

/-- under no_explicit_cast a str converts to complex although it is not in the number group -/
theorem C12_complex_from_str_witness :
    ∃ (P : Prims) (E : Env) (v r : V), transformU P E ⟨true, false⟩ .throw (.cls .complex 0) v = .ok r ∧
      inGroup .complex v = false ∧ docException .complex v = false ∧ r ≠ v ∧
      deviation .complex v = some .complexFromStr ∧ KnownDefect.complexFromStr .complex v = true :=
  ⟨Pcx, E0, .str 0 "1+3j", .complex (.fin 1 0) (.fin 3 0), by rfl, by rfl, by rfl, by simp, by rfl, by rfl⟩

/-- builtins for the deviation witnesses: `float(1) = 1.0`, `UUID(text)`, `utcfromtimestamp` -/
def Pdev : Prims :=
  { P0 with floatOfInt := fun _ => .ok (.fin 1 0), uuidOfStr := fun _ => .ok 5 }

/-- **C12_group_deviation_witnesses**: each deviation of the code from the property's table happens (none of the
results is the input, none of the inputs is in the target's group or a documented exception):
True → 1.0, 1.0 → True, datetime → date, text → UUID under no_explicit_cast. -/
theorem C12_group_deviation_witnesses :
    (runConv Pdev E0 ⟨true, false⟩ (.cls .float 0) (.bool true) .float = .ok (.float 0 (.fin 1 0)) ∧
      inGroup .float (.bool true) = false ∧ docException .float (.bool true) = false ∧
      deviation .float (.bool true) = some .boolAsNumber) ∧
    (runConv Pdev E0 ⟨true, false⟩ (.cls .bool 0) (.float 0 (.fin 1 0)) .bool = .ok (.bool true) ∧
      inGroup .bool (.float 0 (.fin 1 0)) = false ∧ docException .bool (.float 0 (.fin 1 0)) = false ∧
      deviation .bool (.float 0 (.fin 1 0)) = some .zeroOneLike) ∧
    (runConv Pdev E0 ⟨true, false⟩ (.cls .date 0) (.datetime 0 ⟨2020, 1, 2⟩ ⟨3, 4, 5, 0, none⟩) .date = .ok (.date 0 ⟨2020, 1, 2⟩) ∧
      inGroup .date (.datetime 0 ⟨2020, 1, 2⟩ ⟨3, 4, 5, 0, none⟩) = false ∧
      docException .date (.datetime 0 ⟨2020, 1, 2⟩ ⟨3, 4, 5, 0, none⟩) = false ∧
      deviation .date (.datetime 0 ⟨2020, 1, 2⟩ ⟨3, 4, 5, 0, none⟩) = some .temporalCross) ∧
    (runConv Pdev E0 ⟨true, false⟩ (.cls .uuid 0) (.str 0 "x") .uuid = .ok (.uuid 0 5) ∧
      inGroup .uuid (.str 0 "x") = false ∧ docException .uuid (.str 0 "x") = false ∧
      deviation .uuid (.str 0 "x") = some .uuidFromString) :=
  ⟨⟨by rfl, by rfl, by rfl, by rfl⟩, ⟨by rfl, by rfl, by rfl, by rfl⟩, ⟨by rfl, by rfl, by rfl, by rfl⟩,
    ⟨by rfl, by rfl, by rfl, by rfl⟩⟩

/-! non-vacuity: the hypotheses of the partial theorems are satisfiable together with a successful conversion -/

example : ∃ (P : Prims) (_ : PrimLaws P) (E : Env) (f : Flags) (t : Target) (v r : V),
    KnownDefect P E f t v = false ∧ OutsideProof E f t v = false ∧
    (∀ w, transformU P E ⟨false, false⟩ .throw t v ≠ .unmodelled w) ∧ transformU P E f .throw t v = .ok r :=
  ⟨P0, P0_laws, E0, ⟨true, true⟩, .cls .int 0, .float 0 (.fin 3 0), .int 0 3, by rfl, by rfl,
    fun w h => by simp [show transformU P0 E0 ⟨false, false⟩ .throw (.cls .int 0) (.float 0 (.fin 3 0)) = .ok (.int 0 3) from rfl] at h,
    by rfl⟩

example : ∃ (P : Prims) (E : Env) (v r : V), KnownDefect.timedeltaNumericString P E v = false ∧
    toTimedelta P E ⟨true, false⟩ 0 v = .ok r :=
  ⟨{ Ptd with floatOfStr := fun _ => .perr .valueError, durationMatch := fun _ _ => .ok (some []) }, E0, .str 0 "P1D", .delta 0 5123456, by rfl, by rfl⟩

/-- all hypotheses of `C12_group_partial` together with a successful conversion (1.0 → complex, in the number group) -/
example : ∃ (P : Prims) (_ : PrimLaws P) (E : Env) (d : Bool) (t : Target) (v : V) (cv : Conv) (r : V),
    cv ≠ .enum ∧ deviation cv v = none ∧ runConv P E ⟨true, d⟩ t v cv = .ok r ∧ GroupLaw cv v r :=
  ⟨P0, P0_laws, E0, true, .cls .complex 0, .float 0 (.fin 1 0), .complex, .complex (.fin 1 0) (.fin 0 0),
    by decide, by rfl, by rfl, Or.inr (Or.inl (by rfl))⟩

/-- … and with a documented exception (text → Decimal) -/
example : ∃ (P : Prims) (E : Env) (v r : V),
    deviation .decimal v = none ∧ runConv P E ⟨true, true⟩ (.cls .decimal 0) v .decimal = .ok r ∧
    inGroup .decimal v = false ∧ docException .decimal v = true :=
  ⟨{ P0 with decOfStr := fun _ => .ok (.fin false 15 (-1)) }, E0, .str 0 "1.5", .dec 0 (.fin false 15 (-1)),
    by rfl, by rfl, by rfl, by rfl⟩

/-- fixed finding `int-from-sequence-keeps-bool`: a bool taken out of a one-item sequence becomes the int 1 / 0, exactly as
a bare bool does (before the fix `_attempt_from_number` unwrapped `[True]` and `isinstance(data, t)` handed the bool back) -/
theorem C12_int_from_sequence_bool_fixed :
    (∀ d, toInteger P0 E0 ⟨false, d⟩ 0 (.seq .list 0 [.bool true]) = .ok (.int 0 1)) ∧
    toInteger P0 E0 ⟨false, false⟩ 0 (.bool true) = .ok (.int 0 1) := by
  refine ⟨fun d => ?_, by rfl⟩
  cases d <;> rfl

/-- the enum of the fixed finding `enum-name-shadows-value`: `class E(Enum): A = 'B'; B = 'C'` -/
def Eab : Env := ⟨[{ memberType := none, members := [("A", .str 0 "B"), ("B", .str 0 "C")] }]⟩

/-- after the fix `'B'` is member `A` (the one whose *value* is `'B'`) under every flag combination, and the
member *name* still works where no value matches (`'A'` → member `A`, lenient only) -/
theorem C12_enum_value_first :
    (∀ n d, toEnum P0 Eab ⟨n, d⟩ 0 (.str 0 "B") = .ok (.enum 0 0)) ∧
    toEnum P0 Eab ⟨false, false⟩ 0 (.str 0 "A") = .ok (.enum 0 0) ∧
    toEnum P0 Eab ⟨false, true⟩ 0 (.str 0 "A") = .perr .valueError := by
  refine ⟨fun n d => ?_, by rfl, by rfl⟩
  cases n <;> cases d <;> rfl

/-- after the fix `[{'a': 1, 'b': 2}]` becomes `{'a': 1, 'b': 2}` with and without no_data_loss -/
theorem C12_dict_pairs_fixed :
    ∀ d, toDict P0 E0 ⟨false, d⟩ 0 (.seq .list 0 [.dict 0 [(.str 0 "a", .int 0 1), (.str 0 "b", .int 0 2)]]) =
      .ok (.dict 0 [(.str 0 "a", .int 0 1), (.str 0 "b", .int 0 2)]) := by
  intro d; cases d <;> rfl

/-- known defect `dataclass-list-under-nec`: the running transformer's no_explicit_cast switches the
unwrapping of a list / tuple input off, but the data class's own (lenient) options then read the whole list
as key/value pairs — `[('a', 1)]` becomes the data class under no_explicit_cast and fails without flags -/
def KnownDefect.dataclassListNec (fr : Flags) (v : V) : Bool :=
  fr.nec && (match v with
    | .seq k _ _ => k == .list || k == .tuple
    | _ => false)

open Utv.C12M in
theorem C12_dataclass_list_nec_witness :
    ∃ (v r : V), dataclassInput P0 E0 ⟨true, false⟩ ⟨false, false⟩ v = .ok r ∧
      (∀ r', dataclassInput P0 E0 ⟨false, false⟩ ⟨false, false⟩ v ≠ .ok r') ∧
      KnownDefect.dataclassListNec ⟨true, false⟩ v = true :=
  ⟨.seq .list 0 [.seq .tuple 0 [.str 0 "a", .int 0 1]], .dict 0 [(.str 0 "a", .int 0 1)], by rfl,
    fun r' h => by
      have : dataclassInput P0 E0 ⟨false, false⟩ ⟨false, false⟩ (.seq .list 0 [.seq .tuple 0 [.str 0 "a", .int 0 1]])
          = .perr .jsonDecode := by rfl
      rw [this] at h; simp at h,
    by rfl⟩

/-! ### Union targets: the stages built from the flags (rule.py:386-435) -/

open Utv.C12M in
/-- the stage skeleton with no_data_loss (alone or with no_explicit_cast) returns its lenient result, for
every pass function -/
theorem unionStages_ndl (exact : Bool) (pass : Flags → Outcome (Option V)) (n : Bool) (v r : V)
    (h : unionStages exact pass ⟨n, true⟩ v = .ok r) : unionStages exact pass ⟨false, false⟩ v = .ok r := by
  unfold unionStages at h ⊢
  split at h
  · rename_i h1; simp only [h1, if_true]; exact h
  · rename_i h1; simp only [h1]
    cases n
    · simp only [Bool.not_true, Bool.not_false, Bool.or_true, Bool.true_or, Bool.false_and, Bool.and_false,
        if_true, Bool.false_eq_true, if_false, Bool.true_and, Outcome.ok_bind] at h ⊢
      obtain ⟨s2, hs2, h2⟩ := Outcome.bind_eq_ok.mp h
      simp only [hs2, Outcome.ok_bind]
      cases s2 with
      | some x => exact h2
      | none =>
        simp only [] at h2 ⊢
        obtain ⟨s4, hs4, h4⟩ := Outcome.bind_eq_ok.mp h2
        simp only [hs4, Outcome.ok_bind]
        cases s4 with
        | some x => exact h4
        | none => simp at h4
    · simp only [Bool.not_true, Bool.or_self, Bool.false_eq_true, if_false, Bool.and_self, Outcome.ok_bind] at h
      simp only [Bool.not_false, Bool.or_self, if_true]
      obtain ⟨s4, hs4, h4⟩ := Outcome.bind_eq_ok.mp h
      simp only [hs4, Outcome.ok_bind]
      cases s4 with
      | some x => exact h4
      | none => simp at h4

open Utv.C12M in
/-- with no_explicit_cast alone the skeleton returns its lenient result as soon as the strict pass finds a member -/
theorem unionStages_nec (exact : Bool) (pass : Flags → Outcome (Option V)) (v r : V)
    (hs : ∃ x, pass ⟨true, true⟩ = .ok (some x))
    (h : unionStages exact pass ⟨true, false⟩ v = .ok r) : unionStages exact pass ⟨false, false⟩ v = .ok r := by
  obtain ⟨x, hx⟩ := hs
  unfold unionStages at h ⊢
  split at h
  · rename_i h1; simp only [h1, if_true]; exact h
  · rename_i h1; simp only [h1]
    simp only [Bool.not_false, Bool.true_or, Bool.or_true, if_true, hx, Outcome.ok_bind] at h ⊢
    exact h

open Utv.C12M in
/-- **C12_union_ndl**: a Union of plain members parsed with no_data_loss (alone or together with
no_explicit_cast) returns exactly what it returns without preferences — for *every* member converter. -/
theorem C12_union_ndl (conv : Flags → Target → V → Outcome V) (n : Bool) (ts : List Target) (v r : V)
    (h : unionParse conv ⟨n, true⟩ ts v = .ok r) : unionParse conv ⟨false, false⟩ ts v = .ok r :=
  unionStages_ndl _ _ n v r h

open Utv.C12M in
/-- known defect `union-member-choice-under-nec`: with no_explicit_cast alone, when no member accepts the value
strictly, the last stage runs under no_explicit_cast and may pick another member than the lenient run's
no-loss / lenient stages (3.5 as Union[int, str]: 3 under no_explicit_cast, '3.5' without) -/
def KnownDefect.unionNecChoice (conv : Flags → Target → V → Outcome V) (f : Flags) (ts : List Target) (v : V) : Bool :=
  f.nec && !f.ndl && (match firstOk (fun t => conv ⟨true, true⟩ t v) ts with
    | .ok (some _) => false
    | _ => true)

open Utv.C12M in
/-- **C12_union_mono_partial**: a Union under any combination of the preferences returns what it returns
without them, outside `unionNecChoice`.  (Full statement = without `hk`; false of the code: witness below.) -/
theorem C12_union_mono_partial (conv : Flags → Target → V → Outcome V) (f : Flags) (ts : List Target) (v r : V)
    (hk : KnownDefect.unionNecChoice conv f ts v = false)
    (h : unionParse conv f ts v = .ok r) : unionParse conv ⟨false, false⟩ ts v = .ok r := by
  obtain ⟨n, d⟩ := f
  cases d
  · cases n
    · exact h
    · simp only [KnownDefect.unionNecChoice, Bool.not_false, Bool.true_and] at hk
      refine unionStages_nec _ _ v r ?_ h
      cases hs : firstOk (fun t => conv ⟨true, true⟩ t v) ts with
      | ok o =>
        cases o with
        | some x => exact ⟨x, rfl⟩
        | none => simp [hs] at hk
      | perr e => simp [hs] at hk
      | escape e => simp [hs] at hk
      | diverge => simp [hs] at hk
      | unmodelled w => simp [hs] at hk
  · exact unionStages_ndl _ _ n v r h

open Utv.C12M in
/-- **C12_union_member_isolation_restates_model** (a property of the hand model `runMember`, tied by the Union
cases of the correspondence run): each member of a pass runs in its own sub-context, so a pass is "the first
member that converts in a clean context" — whether a member is a Rule (which would trip over an error left in
a shared context) does not matter. -/
theorem C12_union_member_isolation_restates_model (ms : List (Bool × Outcome V)) :
    passFresh ms = passFresh (ms.map fun m => (false, m.2)) := by
  induction ms with
  | nil => rfl
  | cons m rest ih =>
    obtain ⟨isRule, clean⟩ := m
    cases isRule
    · simp only [List.map_cons, passFresh, runMember]
      cases clean <;> simp [ih]
    · simp only [List.map_cons, passFresh, runMember]
      cases clean <;> simp [ih]

open Utv.C12M in
/-- the model tells the two apart: with one context shared by a pass (the hoisted `with`), a failing Rule
poisons the next Rule and the pass finds nothing -/
theorem C12_union_shared_context_witness :
    ∃ ms : List (Bool × Outcome V), passFresh ms = .ok (some .none) ∧ passShared false ms = .ok none :=
  ⟨[(true, .perr .typeError), (true, .ok .none)], by rfl, by rfl⟩

open Utv.C12M in
/-- **C12_union_ty_mono_partial**: the same for Unions whose members are parametrised generics / constrained
Rules (`List[int] | List[float]`, `Dict[…]`, `Tuple[…]`, Rule | Rule): under no_data_loss (± no_explicit_cast)
always, under no_explicit_cast alone when some member accepts the value strictly. -/
theorem C12_union_ty_mono_partial (P : Prims) (E : Env) (f : Flags) (ts : List Ty) (v r : V)
    (hk : f = ⟨true, false⟩ → ∃ x, passFresh (ts.map fun t => (t.isRule, parseTy P E ⟨true, true⟩ t v)) = .ok (some x))
    (h : unionParseTy P E f ts v = .ok r) : unionParseTy P E ⟨false, false⟩ ts v = .ok r := by
  obtain ⟨n, d⟩ := f
  cases d
  · cases n
    · exact h
    · exact unionStages_nec _ _ v r (hk rfl) h
  · exact unionStages_ndl _ _ n v r h

/-- `str(3.5)` for the witness below -/
def Pstr : Prims := { P0 with strOf := fun _ => .ok "3.5" }

open Utv.C12M in
theorem C12_union_nec_choice_witness :
    ∃ (P : Prims) (E : Env) (ts : List Target) (v r r' : V),
      unionParse (transform P E) ⟨true, false⟩ ts v = .ok r ∧ unionParse (transform P E) ⟨false, false⟩ ts v = .ok r' ∧
      r ≠ r' ∧ KnownDefect.unionNecChoice (transform P E) ⟨true, false⟩ ts v = true :=
  ⟨Pstr, E0, [.cls .int 0, .cls .str 0], .float 0 (.fin 7 (-1)), .int 0 3, .str 0 "3.5", by rfl, by rfl, by simp, by rfl⟩

open Utv.C12M in
/-- **C12_ndl_dataclass_instances**: under no_data_loss a list / tuple of several items never reaches a data
class — whatever the items are (dicts, instances of the class, anything) and wherever they stand; and the
preference only restricts this step (same instance returned / same value handed to `init_dataclass`). -/
theorem C12_ndl_dataclass_instances (isExact isInst : V → Bool) (allowSub n : Bool) :
    (∀ k c x y rest, (k = SeqK.list ∨ k = SeqK.tuple) →
      dataclassStep isExact isInst allowSub ⟨false, true⟩ (.seq k c (x :: y :: rest)) = .perr .typeError) ∧
    (∀ v r, dataclassStep isExact isInst allowSub ⟨n, true⟩ v = .ok r →
      dataclassStep isExact isInst allowSub ⟨n, false⟩ v = .ok r) := by
  constructor
  · intro k c x y rest hk
    rcases hk with rfl | rfl <;> simp [dataclassStep]
  · intro v r h
    cases n
    · cases v with
      | seq k c xs =>
        simp only [dataclassStep] at h ⊢
        by_cases hc : ((k == SeqK.list || k == SeqK.tuple) && !false) = true
        · simp only [hc, if_true] at h ⊢
          cases xs with
          | nil => exact h
          | cons a as =>
            cases as with
            | nil => simpa using h
            | cons b bs => simp at h
        · simp only [hc] at h ⊢; exact h
      | _ => simpa [dataclassStep] using h
    · cases v <;> simpa [dataclassStep] using h

/-! ### further promise theorems: bool / complex / enum targets, converter-level strict decoding, unwrapped numbers,
the data-class input under the running transformer's preferences -/

/-- law of CPython's `str()` the bool clause needs (audited every run): the text of a list / tuple / set is never
one of the boolean words -/
def StrOfSeqLaw (P : Prims) : Prop :=
  ∀ k c xs s, P.strOf (.seq k c xs) = .ok s →
    Utv.Gen.Tables.FALSE_VALUES.contains (pyLower s) = false ∧ Utv.Gen.Tables.TRUE_VALUES.contains (pyLower s) = false

/-- **C12_ndl_no_collapse_bool**: under no_data_loss no list / tuple / set / deque becomes a bool -/
theorem C12_ndl_no_collapse_bool (P : Prims) (hl : StrOfSeqLaw P) (n : Bool) (k : SeqK) (c : Nat) (xs : List V) (r : V) :
    Conv.toBool P ⟨n, true⟩ (.seq k c xs) ≠ .ok r := by
  intro h
  cases n
  · simp [Conv.toBool, eqSmall, num?, pyStr] at h
    obtain ⟨s, hs, h2⟩ := Outcome.bind_eq_ok.mp h
    obtain ⟨hf, ht⟩ := hl k c xs s hs
    simp at hf ht
    simp [hf, ht] at h2
  · simp [Conv.toBool, eqSmall, num?] at h

/-- **C12_ndl_no_collapse_complex**: the only multi-element collection `to_complex` takes under no_data_loss is the
documented pair form `(re, im)` — `complex(*data)`, both items used, nothing dropped -/
theorem C12_ndl_no_collapse_complex (P : Prims) (E : Env) (n : Bool) (c' : Nat) (k : SeqK) (c : Nat) (xs : List V) (r : V)
    (hm : multi (.seq k c xs) = true) (hl : xs.length > 1)
    (h : toComplex P E ⟨n, true⟩ c' (.seq k c xs) = .ok r) : n = false ∧ k = .tuple ∧ xs.length = 2 := by
  have ha := attemptFrom_ndl_multi E k c xs hm hl
  have hT : isInstT (V.seq k c xs) (.cls .complex c') = false := by
    cases c' <;> cases k <;> simp [isInstT, isInst, V.cls?, Base.sub, SeqK.base]
  cases n
  · simp only [toComplex, hT, Bool.false_eq_true, if_false] at h
    split at h
    · rename_i c'' a b heq
      cases heq
      exact ⟨rfl, rfl, rfl⟩
    · simp [attemptFromNumber, ha] at h
  · have hi : ∀ b, b = Base.int ∨ b = .float ∨ b = .decimal ∨ b = .str → isInst (V.seq k c xs) b = false := by
      intro b hb; rcases hb with rfl | rfl | rfl | rfl <;> cases k <;> simp [isInst, V.cls?, Base.sub, SeqK.base]
    simp [toComplex, hT, fromByteLike, hi] at h

theorem enumCall_ok (E : Env) (k : Nat) (v r : V) (hc : enumCall E k v = .ok r) :
    ∃ decl i, E.enum? k = some decl ∧ r = .enum k i ∧
      ∃ hi : i < decl.members.length, pyeq decl.members[i].2 v = true := by
  unfold enumCall at hc
  cases hd : E.enum? k with
  | none => simp [hd] at hc
  | some decl =>
    simp only [hd] at hc
    split at hc
    · simp at hc
    · cases hi : decl.members.findIdx? (fun m => pyeq m.2 v) with
      | none => simp [hi] at hc
      | some i =>
        simp only [hi] at hc
        obtain ⟨hlt, hp, _⟩ := List.findIdx?_eq_some_iff_getElem.mp hi
        exact ⟨decl, i, rfl, by simpa using hc.symm, hlt, hp⟩

/-- **C12_ndl_no_collapse_enum**: under no_data_loss a multi-element collection reaches an Enum member only by
value — the member's value `==` the whole collection; it is never reduced to its first item -/
theorem C12_ndl_no_collapse_enum (P : Prims) (E : Env) (n : Bool) (k' : Nat) (k : SeqK) (c : Nat) (xs : List V) (r : V)
    (hm : multi (.seq k c xs) = true) (hl : xs.length > 1)
    (h : toEnum P E ⟨n, true⟩ k' (.seq k c xs) = .ok r) :
    ∃ decl i, E.enum? k' = some decl ∧ r = .enum k' i ∧
      ∃ hi : i < decl.members.length, pyeq decl.members[i].2 (.seq k c xs) = true := by
  cases n
  · simp only [toEnum, Bool.false_eq_true, if_false] at h
    cases hd : E.enum? k' with
    | none => simp [hd] at h
    | some decl =>
      simp only [hd] at h
      have hb : ∀ r', enumBody P E ⟨false, true⟩ k' decl (.seq k c xs) = .ok r' → enumCall E k' (.seq k c xs) = .ok r' := by
        intro r' hb
        unfold enumBody at hb
        split at hb
        · rename_i b hmt
          obtain ⟨value, hv, hc⟩ := Outcome.bind_eq_ok.mp hb
          unfold convBase at hv
          split at hv
          · simp at hv; subst hv; exact hc
          · exfalso
            have ha := attemptFrom_ndl_multi E k c xs hm hl
            split at hv
            · simp [toInteger, attemptFromNumber, ha] at hv
            · simp [toFloat, attemptFromNumber, ha] at hv
            · simp [toStr, ha] at hv
            · simp at hv
        · exact hb
      cases hbo : enumBody P E ⟨false, true⟩ k' decl (.seq k c xs) with
      | ok r' =>
        simp only [hbo] at h
        simp at h; subst h
        obtain ⟨decl', i, hd', hr, hi⟩ := enumCall_ok E k' _ _ (hb r' hbo)
        rw [hd] at hd'; cases hd'
        exact ⟨decl, i, rfl, hr, hi⟩
      | perr e => simp [hbo, enumNameFallback] at h
      | escape e => simp [hbo, enumNameFallback] at h
      | diverge => simp [hbo] at h
      | unmodelled w => simp [hbo] at h
  · simp only [toEnum, if_true] at h
    exact enumCall_ok E k' _ _ h

open Utv.C12M in
/-- **C12_dataclass_input_mono_partial** (partial in `dataclass-list-under-nec`): what reaches `cls.__init__` of a data
class under the running transformer's preferences `fr` reaches it without them, unchanged — outside
`KnownDefect.dataclassListNec` (a list / tuple input under no_explicit_cast); `fc`: the data class's own options. -/
theorem C12_dataclass_input_mono_partial (P : Prims) (E : Env) (fr fc : Flags) (v r : V)
    (hk : KnownDefect.dataclassListNec fr v = false)
    (h : dataclassInput P E fr fc v = .ok r) : dataclassInput P E ⟨false, false⟩ fc v = .ok r := by
  have hu : ∀ d, dataclassUnwrap fr v = .ok d → dataclassUnwrap ⟨false, false⟩ v = .ok d := by
    intro d hd
    obtain ⟨n, dl⟩ := fr
    cases n
    · cases dl
      · exact hd
      · exact (C12_ndl_dataclass_list false .list 0 .none .none [] (Or.inl rfl)).2 v d hd
    · cases v with
      | seq k c xs =>
        simp [KnownDefect.dataclassListNec] at hk
        simp [dataclassUnwrap, hk] at hd ⊢
        exact hd
      | _ => simpa [dataclassUnwrap] using hd
  unfold dataclassInput at h ⊢
  obtain ⟨d, hd, h2⟩ := Outcome.bind_eq_ok.mp h
  simp only [hu d hd, Outcome.ok_bind]
  exact h2

/-- **C12_ndl_int_unwrapped**: the same for whatever `_attempt_from_number` digs out (a one-element collection, an
enum member's value, a timestamp of a datetime / timedelta): if that is a float or Decimal `d`, the int obtained
under no_data_loss is the exact value of `d` -/
theorem C12_ndl_int_unwrapped (P : Prims) (E : Env) (c : Nat) (v d r : V)
    (hv : (match v with | .bool _ => false | .int _ _ => false | _ => true) = true)
    (hfd : (match d with | .float _ _ => true | .dec _ _ => true | _ => false) = true)
    (hd : attemptFromNumber P E ⟨false, true⟩ v = .ok d)
    (h : toInteger P E ⟨false, true⟩ c v = .ok r) : ∃ i, r = .int c i ∧ exactInt? d = some i := by
  have h' : intAfter P ⟨false, true⟩ c d = .ok r := by
    cases v <;> simp at hv <;> simpa [toInteger, hd] using h
  have hnot : isInstT d (.cls .int c) = false := by
    cases d <;> simp at hfd <;> cases c <;> simp [isInstT, isInst, V.cls?, Base.sub]
  have : intFinish P ⟨false, true⟩ c d = .ok r := by
    cases d <;> simp at hfd <;> simpa [intAfter, hnot] using h'
  exact intFinish_exact P false c d r hfd this

/-- converters that decode a bytes-like input -/
def decodingConv : Conv → Bool
  | .str | .int | .float | .decimal | .complex | .datetime | .date | .timedelta | .time | .array | .dict => true
  | _ => false

/-- **C12_ndl_strict_decode_conv**: at converter level: under no_data_loss a bytes / bytearray / memoryview value
is converted by a decoding converter only if the *strict* decoder accepts it -/
theorem C12_ndl_strict_decode_conv (P : Prims) (E : Env) (n : Bool) (t : Target) (k : BytesK) (c : Nat)
    (bs : List UInt8) (cv : Conv) (r : V) (hcv : decodingConv cv = true)
    (h : runConv P E ⟨n, true⟩ t (.bytes k c bs) cv = .ok r) : ∃ s, decodeB P true bs = .ok s := by
  have key : ∀ {α} (f : String → Outcome α) (x : α), (decodeB P true bs >>= f) = .ok x → ∃ s, decodeB P true bs = .ok s := by
    intro α f x hx
    obtain ⟨s, hs, _⟩ := Outcome.bind_eq_ok.mp hx
    exact ⟨s, hs⟩
  have hi : ∀ b, isInst (V.bytes k c bs) b = (k.base.sub b) := by intro b; simp [isInst, V.cls?]
  have hT : ∀ b c', b ≠ Base.bytes → b ≠ .bytearray → b ≠ .memoryview → isInstT (V.bytes k c bs) (.cls b c') = false := by
    intro b c' h1 h2 h3
    cases c' <;> cases k <;> cases b <;> simp_all [isInstT, isInst, V.cls?, Base.sub, BytesK.base]
  have fb : ∀ f' : Flags, f'.ndl = true → ∀ {α} (g : V → Outcome α) (x : α),
      (fromByteLike P f' (V.bytes k c bs) >>= g) = .ok x → ∃ s, decodeB P true bs = .ok s := by
    intro f' hf α g x hx
    obtain ⟨d, hd, _⟩ := Outcome.bind_eq_ok.mp hx
    simp only [fromByteLike, hf] at hd
    exact key _ _ hd
  cases cv <;> simp [decodingConv] at hcv
  case str =>
    cases n
    · simp only [runConv, toStr, attemptFrom, Bool.false_eq_true, if_false, multi, Outcome.ok_bind] at h
      exact fb _ rfl _ _ h
    · simp only [runConv, toStr, attemptFrom, if_true, Outcome.ok_bind] at h
      exact fb _ rfl _ _ h
  all_goals
    have fb2 : ∀ f' : Flags, f'.ndl = true → ∀ {α β} (g : V → Outcome α) (g' : α → Outcome β) (x : β),
        ((fromByteLike P f' (V.bytes k c bs) >>= g) >>= g') = .ok x → ∃ s, decodeB P true bs = .ok s := by
      intro f' hf α β g g' x hx
      obtain ⟨y, hy, _⟩ := Outcome.bind_eq_ok.mp hx
      exact fb f' hf g y hy
  case int =>
    cases n
    · simp only [runConv, toInteger, attemptFromNumber, attemptFrom, Bool.false_eq_true, if_false, Outcome.ok_bind] at h
      exact fb2 _ rfl _ _ _ h
    · simp [runConv, toInteger, hi, Base.sub] at h
      cases k <;> simp [BytesK.base] at h
  case float =>
    cases n
    · simp only [runConv, toFloat, attemptFromNumber, attemptFrom, Bool.false_eq_true, if_false, Outcome.ok_bind] at h
      exact fb2 _ rfl _ _ _ h
    · simp [runConv, toFloat, hi, Base.sub] at h
      cases k <;> simp [BytesK.base] at h
  case decimal =>
    cases n
    · simp only [runConv, toDecimal, attemptFromNumber, attemptFrom, Bool.false_eq_true, if_false, Outcome.ok_bind] at h
      obtain ⟨y, hy, _⟩ := Outcome.bind_eq_ok.mp h
      exact fb _ rfl _ _ hy
    · simp only [runConv, toDecimal, if_true] at h
      obtain ⟨y, hy, _⟩ := Outcome.bind_eq_ok.mp h
      exact fb _ rfl _ _ hy
  case complex =>
    simp only [runConv, toComplex, hT .complex _ (by decide) (by decide) (by decide), Bool.false_eq_true, if_false] at h
    cases n
    · simp only [attemptFromNumber, attemptFrom, Bool.false_eq_true, if_false, Outcome.ok_bind] at h
      exact fb2 _ rfl _ _ _ h
    · simp only [if_true] at h
      exact fb _ rfl _ _ h
  case datetime =>
    simp only [runConv, toDatetime, hT .datetime _ (by decide) (by decide) (by decide), Bool.false_eq_true, if_false] at h
    have hnum : (isInst (V.bytes k c bs) Base.int || isInst (V.bytes k c bs) Base.float || isInst (V.bytes k c bs) Base.decimal) = false := by
      cases k <;> simp [isInst, V.cls?, Base.sub, BytesK.base]
    cases n
    · simp only [attemptFrom, Bool.false_eq_true, if_false, Outcome.ok_bind, hnum] at h
      exact fb _ rfl _ _ h
    · simp only [attemptFrom, if_true, Outcome.ok_bind, hnum, Bool.false_eq_true, if_false] at h
      exact fb _ rfl _ _ h
  case date =>
    simp only [runConv, toDate] at h
    obtain ⟨dt, hdt, _⟩ := Outcome.bind_eq_ok.mp h
    simp only [toDatetime, hT .datetime _ (by decide) (by decide) (by decide), Bool.false_eq_true, if_false] at hdt
    have hnum : (isInst (V.bytes k c bs) Base.int || isInst (V.bytes k c bs) Base.float || isInst (V.bytes k c bs) Base.decimal) = false := by
      cases k <;> simp [isInst, V.cls?, Base.sub, BytesK.base]
    cases n
    · simp only [attemptFrom, Bool.false_eq_true, if_false, Outcome.ok_bind, hnum] at hdt
      exact fb _ rfl _ _ hdt
    · simp only [attemptFrom, if_true, Outcome.ok_bind, hnum, Bool.false_eq_true, if_false] at hdt
      exact fb _ rfl _ _ hdt
  case timedelta =>
    simp only [runConv, toTimedelta, hT .timedelta _ (by decide) (by decide) (by decide), Bool.false_eq_true, if_false] at h
    cases n
    · simp only [attemptFrom, Bool.false_eq_true, if_false, Outcome.ok_bind] at h
      exact fb _ rfl _ _ h
    · simp only [attemptFrom, if_true, Outcome.ok_bind] at h
      exact fb _ rfl _ _ h
  case time =>
    simp only [runConv, toTime, hT .time _ (by decide) (by decide) (by decide), Bool.false_eq_true, if_false] at h
    cases n
    · simp only [attemptFrom, Bool.false_eq_true, if_false, Outcome.ok_bind, if_true] at h
      exact fb _ rfl _ _ h
    · simp only [attemptFrom, if_true, Outcome.ok_bind] at h
      exact fb _ rfl _ _ h
  case array =>
    simp only [runConv] at h
    split at h
    · split at h
      · rename_i b c'' kk hkk
        have hb : ∀ c', isInstT (V.bytes k c bs) (.cls kk.base c') = false := by
          intro c'; cases c' <;> cases k <;> cases kk <;> simp [isInstT, isInst, V.cls?, Base.sub, BytesK.base, SeqK.base]
        simp only [toArray, hb, Bool.false_eq_true, if_false, multi] at h
        cases n
        · simp only [Bool.false_eq_true, if_false] at h
          exact fb _ rfl _ _ h
        · simp at h
      · simp at h
    · simp at h
  case dict =>
    simp only [runConv, toDict, hT .dict _ (by decide) (by decide) (by decide), Bool.false_eq_true, if_false] at h
    cases n
    · simp only [Bool.false_eq_true, if_false, if_true, multi, dictRest, attemptFrom, Outcome.ok_bind] at h
      exact fb _ rfl _ _ h
    · simp at h

/-! non-vacuity for the Union theorems with no_explicit_cast alone, and for `ho` / `hm` on an enum target -/

open Utv.C12M in
example : ∃ (P : Prims) (E : Env) (ts : List Target) (v r : V),
    KnownDefect.unionNecChoice (transform P E) ⟨true, false⟩ ts v = false ∧
    unionParse (transform P E) ⟨true, false⟩ ts v = .ok r :=
  ⟨Pdev, E0, [.cls .float 0, .cls .str 0], .int 0 1, .float 0 (.fin 1 0), by rfl, by rfl⟩

open Utv.C12M in
example : ∃ (P : Prims) (E : Env) (ts : List Ty) (v r : V),
    (∃ x, passFresh (ts.map fun t => (t.isRule, parseTy P E ⟨true, true⟩ t v)) = .ok (some x)) ∧
    unionParseTy P E ⟨true, false⟩ ts v = .ok r :=
  ⟨Pdev, E0, [.seqOf .list (.plain (.cls .float 0)), .plain (.cls .str 0)], .seq .list 0 [.int 0 1],
    .seq .list 0 [.float 0 (.fin 1 0)], ⟨_, by rfl⟩, by rfl⟩

example : KnownDefect P0 Eab ⟨true, true⟩ (.enum 0) (.str 0 "B") = false ∧
    OutsideProof Eab ⟨true, true⟩ (.enum 0) (.str 0 "B") = false ∧
    (∀ w, transformU P0 Eab ⟨false, false⟩ .throw (.enum 0) (.str 0 "B") ≠ .unmodelled w) ∧
    transformU P0 Eab ⟨true, true⟩ .throw (.enum 0) (.str 0 "B") = .ok (.enum 0 0) :=
  ⟨by rfl, by rfl, fun w h => by
      simp [show transformU P0 Eab ⟨false, false⟩ .throw (.enum 0) (.str 0 "B") = .ok (.enum 0 0) from rfl] at h, by rfl⟩

/-- `StrOfSeqLaw` is satisfiable -/
example : StrOfSeqLaw P0 := fun _ _ _ _ h => by simp [P0] at h

/-! ### preferences that arrive by inheritance / from an outer class (base.py:41-67, options.py:249-258) -/

open Utv.C12M in
/-- **C12_inherited_preferences_restates_model** (`declaredFlags` / `contextFlags` are hand models of `getattr` along
the MRO and of `Options.make_context`, tied to the code by the `inherit` cases of the correspondence run only;
the theorem unfolds them): a class that declares no options of its own (at any depth) is parsed under
the preferences of its nearest base — so every promise above applies to it unchanged; and an overriding outer
class imposes its preferences on a nested class that does not override itself. -/
theorem C12_inherited_preferences_restates_model (pre : List (Option Flags)) (f : Flags) (rest : List (Option Flags))
    (hp : ∀ x ∈ pre, x = none) :
    declaredFlags (pre ++ some f :: rest) = f ∧
    (∀ own fo, contextFlags (own, false) (some (fo, true)) = fo) := by
  constructor
  · induction pre with
    | nil => rfl
    | cons a as ih =>
      have ha : a = none := hp a (List.mem_cons_self ..)
      subst ha
      exact ih (fun x hx => hp x (List.mem_cons_of_mem _ hx))
  · intro own fo; rfl

end Utv.C12
