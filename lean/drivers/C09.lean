import Utv.Model.C09
import Utv.Util.J
open Lean Utv.J Utv.C09

/-! C09 driver: build a logical type from an operator expression with the model of `combine`/`combine_by`/
operators, then run the model of `logical_parse` on it over leaf tables measured on the real leaves. -/

def missId : Nat := 999   -- below Err.nonParseBase, so that `&` does not re-wrap it

instance : Inhabited Err := ⟨.mk 0 []⟩
instance : Inhabited Expr := ⟨.atom .ruleBase⟩
instance : Inhabited Ty := ⟨.ruleBase⟩

partial def errOfJson (j : Json) : Err :=
  .mk (nat! (fld j "e")) ((arr! (fld j "sub")).map errOfJson)

partial def errToJson : Err → Json
  | .mk c sub => Json.mkObj [("e", Json.num c), ("sub", Json.arr (sub.map errToJson).toArray)]

partial def hasMiss : Err → Bool
  | .mk c sub => c == missId || sub.any hasMiss

def combOfStr : String → Comb
  | "&" => .all | "|" => .any | "^" => .one | _ => .neg

def combToStr : Comb → String
  | .all => "&" | .any => "|" | .one => "^" | .neg => "~"

def simpleAtom (kinds : List String) (i : Nat) : Ty :=
  match kinds.getD i "" with
  | "cls" => .cls i
  | "rule" => .rule i
  | "dc" => .dc i
  | "alias" => .alias i
  | "lit" => .lit i
  | "any" => .anyT
  | "none" => .noneV
  | "rulebase" => .ruleBase
  | "str" => .str i
  | "self" => .selfT i
  | _ => .cls i

/-- leaf descriptor kinds; `tunion:1,2` = typing.Union of the leaves 1 and 2 -/
def atomOf (kinds : List String) (i : Nat) : Ty :=
  let k := kinds.getD i ""
  if k.startsWith "tunion:" then
    .tunion ((((k.drop 7).toString.splitOn ",").filterMap (fun s => s.toNat?)).map (simpleAtom kinds))
  else simpleAtom kinds i

mutual
/-- JSON expression → model expression; a classmethod call (`any_of` …) is evaluated on the spot with
`combine` and embedded as an atom.  State: next free serial.  `none` = does not reach utype. -/
partial def exprOfJson (kinds : List String) (built : List Ty) (j : Json) (uid : Nat) : Option (Expr × Nat) :=
  match obj? j "atom" with
  | some i => some (.atom (atomOf kinds (nat! i)), uid)
  | none =>
  match obj? j "ref" with
  | some k => some (.atom (built.getD (nat! k) .ruleBase), uid)
  | none =>
  match obj? j "bin" with
  | some op =>
    match exprOfJson kinds built (fld j "l") uid with
    | none => none
    | some (l, u1) =>
      match exprOfJson kinds built (fld j "r") u1 with
      | none => none
      | some (r, u2) => some (.bin (combOfStr (str! op)) l r, u2)
  | none =>
  match obj? j "inv" with
  | some e =>
    match exprOfJson kinds built e uid with
    | none => none
    | some (x, u1) => some (.inv x, u1)
  | none =>
    let step (st : Option (List Ty × Nat)) (a : Json) : Option (List Ty × Nat) :=
      match st with
      | none => none
      | some (ts, u) =>
        match evalJson kinds built a u with
        | none => none
        | some (t, u') => some (ts ++ [t], u')
    match (arr! (fld j "args")).foldl step (some ([], uid)) with
    | none => none
    | some (ts, u1) => some (.atom (combine (combOfStr (str! (fld j "call"))) u1 ts), u1 + stride)
partial def evalJson (kinds : List String) (built : List Ty) (j : Json) (uid : Nat) : Option (Ty × Nat) :=
  match exprOfJson kinds built j uid with
  | none => none
  | some (e, u1) => build e u1
end

partial def structToJson : Ty → Json
  | .cls i | .rule i | .dc i | .fwd i | .selfT i => Json.mkObj [("leaf", Json.num i)]
  | .ruleBase => Json.mkObj [("rulebase", Json.bool true)]
  | .anyT => Json.mkObj [("any", Json.bool true)]
  | .noneV => Json.mkObj [("none", Json.bool true)]
  | .alias k => Json.mkObj [("alias", Json.num k)]
  | .lit k => Json.mkObj [("lit", Json.num k)]
  | .str k => Json.mkObj [("str", Json.num k)]
  | .tunion ms => Json.mkObj [("tunion", Json.arr (ms.map structToJson).toArray)]
  | .annot k u => Json.mkObj [("annot", Json.num k), ("id", Json.num u)]
  | .wrap t _ => structToJson t          -- the anonymous `Rule[AnyOf…]` wrapper is transparent in the structure
  | .comb c as u => Json.mkObj [("comb", Json.str (combToStr c)), ("args", Json.arr (as.map structToJson).toArray),
                                ("id", Json.num u)]

def optsOfJson (j : Json) : Opts :=
  { noDataLoss := bool! (fld j "ndl"), noExplicitCast := bool! (fld j "nec"), collectErrors := bool! (fld j "collect"),
    maxErrors := optNat (fld j "max"), override := bool! (fld j "override") }

def handle (j : Json) : Json :=
  let kinds := (arr! (fld j "kinds")).map str!
  -- build the definitions in order; a definition that never reaches utype makes the whole case `null`
  let step (st : Option (List Ty × Nat)) (d : Json) : Option (List Ty × Nat) :=
    match st with
    | none => none
    | some (built, uid) =>
      match evalJson kinds built d uid with
      | none => none
      | some (t, u) => some (built ++ [t], u)
  match (arr! (fld j "defs")).foldl step (some ([], 1)) with
  | none => Json.mkObj [("struct", Json.null)]
  | some (built, _) =>
    match built.getLast? with
    | none => Json.mkObj [("struct", Json.null)]
    | some t =>
      let table := (arr! (fld j "table")).map fun r => match arr! r with
        | [l, a, b, v, out] => ((nat! l, bool! a, bool! b, nat! v), out)
        | _ => ((0, false, false, 0), Json.null)
      let exact := (arr! (fld j "exact")).map fun r => match arr! r with
        | [l, v] => (nat! l, nat! v) | _ => (0, 0)
      let checks := (arr! (fld j "checks")).map nat!
      let L : Leaves Nat :=
        { exact := fun l v => exact.contains (l, v)
          checks := fun l => checks.contains l
          run := fun l o v =>
            match table.lookup (l, o.noDataLoss, o.noExplicitCast, v) with
            | some out =>
              (match obj? out "ok" with
               | some r => .ok (nat! r)
               | none => .error ((arr! (fld out "rec")).map errOfJson, errOfJson (fld out "err")))
            | none => .error ([], .mk missId [.mk l [], .mk v []]) }
      let o := optsOfJson (fld j "opts")
      -- the error state of the context the root is called with (clean unless the case says otherwise)
      let c0 : Ctx := { errors := (arr! (fld (fld j "ctx") "errors")).map errOfJson,
                        tmp := (arr! (fld (fld j "ctx") "tmp")).map errOfJson }
      let res := ((evalTy L (parseArg 0 t)).run o c0 (nat! (fld j "v"))).2
      let out := match res with
        | .ok r => Json.mkObj [("ok", Json.num r)]
        | .error e => if hasMiss e then Json.mkObj [("miss", errToJson e)] else Json.mkObj [("err", errToJson e)]
      Json.mkObj [("struct", structToJson t), ("structs", Json.arr (built.map structToJson).toArray), ("out", out)]

def main : IO Unit := serve handle
