"""C02 — validation is exact on well-typed values and agrees with isinstance.  (C03 reuses this module.)

Tie: T1 (the Lean validators are regenerated from rule.py and the C02 theorems are re-checked against them) plus
T2: every generated validator and the whole validator phase are run against the real `Constraints` methods and real
constrained types on generated (constraint set, value) pairs.  Oracle: `sat` below — each constraint in its
documented sense, written independently of the code.
"""
from __future__ import annotations

import itertools
import json
import math
import random
import re
from decimal import Decimal, InvalidOperation

from .common import Check
from .pyval import CLS_BY_NAME, canon, walk
from .pyval import decode as _pv_decode, encode as _pv_encode

STRICT = ["gt", "ge", "lt", "le", "const", "enum", "regex", "decimal_places", "multiple_of", "max_digits", "length",
          "max_length", "min_length", "unique_items"]
LAXABLE = ["ge", "le", "const", "enum", "decimal_places", "multiple_of", "max_digits", "length", "max_length", "unique_items"]
TOLERANT = [{int, float}, {int, Decimal}, {float, Decimal}]


from collections import deque as _deque


def enc2(v):
    """pyval.encode plus dicts ({"m": [[k, v], ...]} in insertion order) and dict views"""
    if isinstance(v, dict) and type(v) is dict:
        return {"m": [[enc2(k), enc2(x)] for k, x in v.items()]}
    if type(v) is list:
        return {"l": [enc2(x) for x in v]}
    if type(v) is tuple:
        return {"t": [enc2(x) for x in v]}
    if type(v) in (set, frozenset):
        items = sorted((enc2(x) for x in v), key=lambda x: json.dumps(x, sort_keys=True))
        return {"S" if type(v) is set else "F": items}
    if type(v) is type({}.values()):
        return {"V": [enc2(x) for x in v]}
    if type(v) is type({}.keys()):
        return {"K": [enc2(x) for x in v]}
    if type(v) is bytes:
        return {"y": v.hex()}
    if type(v) is _deque:
        return {"q": [enc2(x) for x in v]}
    return _pv_encode(v)


def dec2(j):
    if isinstance(j, dict):
        if "m" in j:
            return {dec2(k): dec2(x) for k, x in j["m"]}
        if "l" in j:
            return [dec2(x) for x in j["l"]]
        if "t" in j:
            return tuple(dec2(x) for x in j["t"])
        if "S" in j:
            return {dec2(x) for x in j["S"]}
        if "F" in j:
            return frozenset(dec2(x) for x in j["F"])
        if "V" in j:
            return {i: dec2(x) for i, x in enumerate(j["V"])}.values()
        if "K" in j:
            return {dec2(x): None for x in j["K"]}.keys()
        if "y" in j:
            return bytes.fromhex(j["y"])
        if "q" in j:
            return _deque(dec2(x) for x in j["q"])
    return _pv_decode(j)



encode, decode = enc2, dec2      # (a superset of the pyval codec: dicts, dict views, bytes, deques)
ORIGINS = dict(CLS_BY_NAME, dict=dict, deque=_deque)


# ------------------------------------------------------------------------------------------------
# adapter (runs in worker processes against the real utype)
# ------------------------------------------------------------------------------------------------

def _outcome(fn):
    from utype.utils.exceptions import ParseError
    try:
        r = fn()
    except ParseError as e:
        return {"perr": type(e).__name__}
    except RecursionError:
        return {"escape": "RecursionError"}
    except Exception as e:
        return {"escape": type(e).__name__}
    return {"ok": encode(r), "type": type(r).__name__}


def impl(case):
    from utype.parser.rule import Constraints, Lax, Rule
    op = case["op"]
    if op == "decl":
        return impl_decl(case)
    if op == "ptype":
        return impl_ptype(case)
    if op == "multi":
        return impl_multi(case)
    if op == "validator":
        f = getattr(Constraints, case["name"])
        v, b = decode(case["value"]), decode(case["bound"])
        try:
            r = f(v, b)
        except RecursionError:
            return {"err": "RecursionError"}
        except Exception as e:
            return {"err": type(e).__name__}
        return {"ok": encode(r)}
    if op == "rule":
        origin = ORIGINS[case["origin"]]
        attrs = {}
        for name, b in case["constraints"]:
            val = decode(b)
            attrs[name] = Lax(val) if name in case.get("lax", []) else val
        try:
            T = type("T", (origin, Rule), attrs)
        except Exception as e:
            return {"decl": type(e).__name__}
        v = decode(case["value"])
        out = {"decl": "ok", "validators": [f.__name__ for _, _, f in T.__validators__]}
        out["parse"] = _outcome(lambda: T(v))
        try:
            out["isinstance"] = bool(isinstance(v, T))
        except Exception as e:
            out["isinstance"] = "raised " + type(e).__name__
        if "ok" in out["parse"]:
            r = decode(out["parse"]["ok"])
            out["reparse"] = _outcome(lambda: T(r))
            if "ok" in out["reparse"]:
                try:
                    out["reparse_equal"] = bool(decode(out["reparse"]["ok"]) == r)
                except Exception:
                    out["reparse_equal"] = False
        return out
    raise ValueError(op)


# ------------------------------------------------------------------------------------------------
# CPython builtins the model takes as parameters (`Prims`), computed here for the values of a case
# ------------------------------------------------------------------------------------------------

def prims_for(case) -> dict:
    vals = []
    for k in ("value", "bound", "a", "b"):
        if k in case:
            vals += list(walk(decode(case[k])))
    for _, b in case.get("constraints", []):
        vals += list(walk(decode(b)))
    decl_pats = []
    if case.get("op") == "decl":
        bodies = [c["attrs"] for c in case["classes"]] + [(case.get("wrap") or {}).get("cs", [])]
        for body in bodies:
            for k, a in body:
                if isinstance(a, dict) and k not in ("contains", "__args__", "post_validate", "pre_validate", "__ellipsis_args__", "__applied__"):
                    vals += list(walk(decode(a["v"])))
                    if k == "regex":
                        decl_pats.append(decode(a["v"]))
        for t in case["types"]:
            for k, b in t["cs"]:
                vals += list(walk(decode(b)))
                if k == "regex":
                    decl_pats.append(decode(b))
    fr, ds, fd, rd, rex = [], [], [], [], []
    ints = [x for x in vals if type(x) is int and abs(x) < 40]
    # close the float entries under the roundings a lax constraint can apply (two levels: lax_decimal_places then
    # lax_max_digits), so that validators running on a rounded float find its repr / Decimal in the table
    ks = set(ints) | set(range(0, 24))
    floats = [x for x in vals if type(x) is float]
    seen_f = set(map(repr, floats))
    frontier = list(floats)
    for _ in range(2):
        nxt = []
        for x in frontier:
            for k in ks:
                try:
                    y = round(x, k)
                except Exception:
                    continue
                if type(y) is float and repr(y) not in seen_f:
                    seen_f.add(repr(y))
                    nxt.append(y)
        vals += nxt
        frontier = nxt
    for x in vals:
        if type(x) is float:
            fr.append([encode(x)["f"], repr(x)])
            try:
                fd.append([encode(x)["f"], encode(Decimal(str(x)))["d"]])
            except InvalidOperation:
                fd.append([encode(x)["f"], None])
            for k in set(ints) | set(range(0, 24)):   # every places value lax_max_digits/decimal_places can ask for
                try:
                    rd.append([encode(x)["f"], str(k), encode(round(x, k))["f"]])
                except Exception:
                    pass
        if type(x) is Decimal:
            ds.append([encode(x)["d"], str(x)])
    pats = []
    if case.get("op") == "validator" and case.get("name") == "regex":
        pats.append(decode(case["bound"]))
    for n, b in case.get("constraints", []):
        if n == "regex":
            pats.append(decode(b))
    for p in pats:
        if isinstance(p, str) and "value" in case:
            try:
                s = str(decode(case["value"]))
                rex.append([p, s, re.fullmatch(p, s) is not None])
            except Exception:
                pass
    for p in decl_pats:
        if isinstance(p, str):
            for x in walk(decode(case["value"])):
                if isinstance(x, (str, int, float, Decimal)) and not isinstance(x, bool):
                    try:
                        rex.append([p, str(x), re.fullmatch(p, str(x)) is not None])
                    except Exception:
                        pass
    return {"floatRepr": fr, "decStr": ds, "floatToDec": fd, "floatRound": rd, "re": rex}


# ------------------------------------------------------------------------------------------------
# the documented sense of every constraint (oracle for the real code)
# ------------------------------------------------------------------------------------------------

class Undefined(Exception):
    """the documented sense does not pin this case down (oracle silent)"""


def digit_counts(v):
    d = v if isinstance(v, Decimal) else Decimal(str(v))
    if not d.is_finite():
        raise Undefined
    sign, digits, exp = d.as_tuple()
    if exp > 0 and not any(digits):
        raise Undefined          # 0E+k: rendering ambiguous
    s = format(abs(d), "f")
    ip, _, fp = s.partition(".")
    ipc = 0 if (fp and set(ip) <= {"0"}) else len(ip)
    return ipc + len(fp), len(fp)


def sat(name, v, b) -> bool:
    """does constraint `name` with bound `b` hold for `v` in its documented sense?  May raise Undefined."""
    try:
        if name == "gt":
            return bool(v > b)
        if name == "ge":
            return bool(v >= b)
        if name == "lt":
            return bool(v < b)
        if name == "le":
            return bool(v <= b)
    except (TypeError, InvalidOperation):
        raise Undefined
    if name in ("length", "max_length", "min_length"):
        n = len(v) if hasattr(v, "__len__") else len(str(v))
        return {"length": n == b, "max_length": n <= b, "min_length": n >= b}[name]
    if name == "regex":
        return re.fullmatch(b, str(v)) is not None
    if name == "const":
        try:
            if not (v == b):
                return False
        except InvalidOperation:
            raise Undefined
        if type(v) is type(b):
            return True
        if {type(v), type(b)} in TOLERANT:
            raise Undefined      # tolerated pairs: either verdict is within "type-exact with tolerance"
        return False
    if name == "enum":
        return v in b
    if name == "multiple_of":
        if isinstance(v, float) or isinstance(b, float):
            if float(v).is_integer() and float(b).is_integer() and b != 0 and abs(v) < 2 ** 50:
                return int(v) % int(b) == 0
            raise Undefined
        if b == 0:
            raise Undefined
        try:
            return v % b == 0
        except InvalidOperation:
            raise Undefined
    if name == "max_digits":
        return digit_counts(v)[0] <= b
    if name == "decimal_places":
        return digit_counts(v)[1] <= b
    if name == "unique_items":
        if not b:
            return True
        items = list(v)
        return all(not (items[i] == items[j]) for i in range(len(items)) for j in range(i))
    raise Undefined


def accept_cs(cs, v) -> bool:
    """strict constraint set `cs` = [(name, bound)] on a value of the source type, each in its documented sense"""
    names = [n for n, _ in cs]
    if "const" in names:
        cs = [c for c in cs if c[0] == "const"]      # documented: const stands alone
    elif "enum" in names:
        cs = [c for c in cs if c[0] == "enum"]
    run = v
    ok = True
    order = {n: i for i, n in enumerate(STRICT)}
    for n, b in sorted(cs, key=lambda c: order[c[0]]):
        if b is None and n != "const":
            continue
        if not sat(n, run, b):
            ok = False
            break
        if n == "decimal_places" and isinstance(run, Decimal):
            # documented (rule.md): a Decimal is first completed to `decimal_places` digits, then max_digits is checked
            try:
                run = run.quantize(Decimal(1).scaleb(-b))
            except InvalidOperation:
                pass          # (more than 28 digits: the value is still valid in the documented sense)
    return ok


def expected_accept(case) -> bool:
    """strict constraint set on a value of the source type"""
    return accept_cs([(n, decode(b)) for n, b in case["constraints"]], decode(case["value"]))


# ------------------------------------------------------------------------------------------------
# op "decl": declared types built every way the library offers — class statements with several Rule bases / several
# levels / overrides / cancelled constraints, Rule.annotate, Base[...], Field(...) on Schema and DataClass — with the
# contains family, element types (__args__) and post_validate hooks.  A declaration is data (class bodies as lists of
# [key, attr]); the adapter builds the real classes, the oracle builds *plain Python* shadow classes with the same
# bases (no utype involved) and reads the visible constraints off them with getattr, i.e. through Python's own MRO.
# ------------------------------------------------------------------------------------------------

CONT_KEYS = ["contains", "min_contains", "max_contains"]
META_KEYS = ["__args__", "__ellipsis_args__", "post_validate", "pre_validate"]
HOOK_KEYS = ("post_validate", "pre_validate")
HOOK_NAMES = ["even", "nonempty", "short"]


def hook_ok(name, v) -> bool:
    """what the declared post_validate hook accepts (the hook bodies below, restated)"""
    if name == "even":
        return v % 2 == 0
    if name == "nonempty":
        return len(v) > 0
    if name == "short":
        return len(v) <= 2
    raise Undefined


def _hook(name):
    from utype.utils import exceptions as exc

    def hook(cls, value, context=None):
        if not hook_ok(name, value):
            raise exc.ConstraintError(constraint="hook", constraint_value=name)
        return value
    return classmethod(hook)


def _build_tdesc(t):
    from utype.parser.rule import Rule
    origin = CLS_BY_NAME[t["origin"]]
    cs = {k: decode(b) for k, b in t["cs"]}
    return Rule.annotate(origin, constraints=cs) if cs else origin


class _Marker:
    def __init__(self, kind, payload):
        self.kind, self.payload = kind, payload


def _attr_value(key, a, types, shadow):
    if a == "cancel":
        if shadow:
            return _Marker("cancel", None)
        from utype.utils.datastructures import unprovided
        return unprovided
    if key == "contains":
        if a["v"] is None:
            return None
        return _Marker("type", a["v"]["o"]) if shadow else types[a["v"]["o"]]
    if key == "__args__":
        idx = [x["o"] for x in a["v"]["t"]]
        return _Marker("args", idx) if shadow else tuple(types[i] for i in idx)
    if key in HOOK_KEYS:
        return _Marker("hook", a["v"]["s"]) if shadow else _hook(a["v"]["s"])
    if key == "__applied__":
        return True
    v = decode(a["v"])
    if a.get("lax"):
        if shadow:
            return _Marker("lax", v)
        from utype.parser.rule import Lax
        return Lax(v)
    return v


class ShadowRule:
    """what class `Rule` itself binds (rule.py:1122-1123, 1178-1180)"""
    contains = None
    min_contains = None
    max_contains = None
    __args__ = None
    __ellipsis_args__ = False
    __applied__ = False


def _generic(g, ts):
    import typing
    if g == "List":
        return typing.List[ts[0]]
    if g == "Set":
        return typing.Set[ts[0]]
    if g == "TupleE":
        return typing.Tuple[ts[0], ...]
    if g == "Tuple":
        return typing.Tuple[tuple(ts)]
    raise ValueError(g)


def build_decl(case, shadow=False):
    """-> (T, extra): the declared type; for Field declarations extra = the data class"""
    origin = ORIGINS[case["origin"]]
    types = None if shadow else [_build_tdesc(t) for t in case["types"]]
    if shadow:
        RuleBase = ShadowRule
    else:
        from utype.parser.rule import Rule as RuleBase
    env = {"Rule": RuleBase, "origin": origin}
    T = None
    for c in case["classes"]:
        bases = tuple(env[b] for b in c["bases"])
        attrs = {k: _attr_value(k, a, types, shadow) for k, a in c["attrs"]}
        T = type(c["name"], bases, attrs)
        env[c["name"]] = T
    w = case.get("wrap")
    if not w:
        return T, None
    base = T if T is not None else RuleBase
    cs = {k: _attr_value(k, a, types, shadow) for k, a in w.get("cs", [])}
    kind = w["kind"]
    if kind == "annotate":
        if shadow:
            attrs = dict(cs)
            if w.get("args"):
                attrs["__args__"] = _Marker("args", list(w["args"]))
            if w.get("ellipsis"):
                attrs["__ellipsis_args__"] = True
            return type("W", (base,), attrs), None
        args = [types[i] for i in w.get("args", [])]
        if w.get("ellipsis"):
            args.append(...)
        return base.annotate(origin if w.get("origin") else None, *args, constraints=cs), None
    if kind == "apply":
        if shadow:
            return type("W", (ShadowRule,), dict(cs, __applied__=True)), None
        import utype
        return utype.apply(**cs)(origin), None
    if kind == "getitem":
        item = w["item"]
        if shadow:
            if item == "origin":
                return type("W", (base,), {}), None
            idx = item if isinstance(item, list) else [item]
            attrs = {"__args__": _Marker("args", idx)}
            if w.get("ellipsis"):
                attrs["__ellipsis_args__"] = True
            return type("W", (base,), attrs), None
        if (item == "origin") != (not base.__origin__):
            # Base[x] means "origin x" only for a base without origin (one may have been inferred from its constraints)
            raise LookupError("getitem form does not apply")
        if item == "origin":
            return base[origin], None
        idx = item if isinstance(item, list) else [item]
        key = tuple(types[i] for i in idx) + ((...,) if w.get("ellipsis") else ())
        return base[key if len(key) > 1 else key[0]], None
    if kind in ("field", "dfield"):
        ann = w["ann"]
        if shadow:
            if ann == "base" and not cs:
                return T, None        # parse_annotation hands an unconstrained annotation back as it is (rule.py:1531-1533)
            attrs = dict(cs)
            if isinstance(ann, dict):
                attrs["__args__"] = _Marker("args", list(ann["args"]))
                if ann["g"] == "TupleE":
                    attrs["__ellipsis_args__"] = True
            return type("W", (ShadowRule,), attrs), (T if ann == "base" else None)
        import utype
        if ann == "origin":
            a = origin
        elif ann == "base":
            a = T
        else:
            a = _generic(ann["g"], [types[i] for i in ann["args"]])
        holder = utype.Schema if kind == "field" else utype.DataClass
        if w.get("fwd"):
            # the whole annotation is the NAME of something defined further down in the module: resolved lazily, the
            # Field(...) constraints are kept with the pending reference (base.py _resolve_forward_refs)
            global _FWD_COUNT
            _FWD_COUNT += 1
            name = f"_FwdTarget{_FWD_COUNT}"
            S = type("S", (holder,), {"__annotations__": {"x": name}, "x": utype.Field(**cs), "__module__": __name__})
            globals()[name] = a
            S.__parser__.resolve_forward_refs(ignore_errors=False)    # (an illegal declaration shows up here instead of at class creation)
            ft = S.__parser__.fields["x"].type
            ft = getattr(ft, "__forward_value__", None) or ft
            return ft, S
        S = type("S", (holder,), {"__annotations__": {"x": a}, "x": utype.Field(**cs), "__module__": __name__})
        return S.__parser__.fields["x"].type, S
    raise ValueError(kind)


_MISSING = object()
_FWD_COUNT = 0


def visible(case):
    """the declaration as Python's attribute lookup sees it, computed on plain shadow classes:
    -> dict(cs=[(key, bound)], lax=bool, contains=(tdesc|None, min, max), args=[tdesc]|None, ellipsis, hook, nested=[(key,bound)]|None)"""
    W, nested_base = build_decl(case, shadow=True)
    out = {"cs": [], "lax": False, "hook": None, "args": None, "ellipsis": False, "contains": None, "nested": None}
    for key in STRICT:
        a = getattr(W, key, _MISSING)
        if a is _MISSING or (isinstance(a, _Marker) and a.kind == "cancel"):
            continue
        if isinstance(a, _Marker) and a.kind == "lax":
            out["lax"] = True
            a = a.payload
        out["cs"].append((key, a))
    c = getattr(W, "contains", None)
    if isinstance(c, _Marker) and c.kind == "type":
        mn, mx = getattr(W, "min_contains", None), getattr(W, "max_contains", None)
        out["contains"] = (case["types"][c.payload], mn if not isinstance(mn, _Marker) else None,
                           mx if not isinstance(mx, _Marker) else None)
    a = getattr(W, "__args__", None)
    if isinstance(a, _Marker) and a.kind == "args":
        out["args"] = [case["types"][i] for i in a.payload]
        out["ellipsis"] = bool(getattr(W, "__ellipsis_args__", False))
    hooks = [h.payload for h in (getattr(W, k_, None) for k_ in HOOK_KEYS) if isinstance(h, _Marker) and h.kind == "hook"]
    if hooks:
        out["hook"] = hooks
    out["applied"] = bool(getattr(W, "__applied__", False))
    if nested_base is not None:
        inner = dict(case, wrap=None)
        out["nested"] = visible(inner)
    return out


def mro_bodies(case):
    """the MRO of the declared class as a list of class bodies (what the Lean model is given)"""
    W, nested_base = build_decl(case, shadow=True)
    by_name = {c["name"]: c["attrs"] for c in case["classes"]}
    w = case.get("wrap") or {}
    out = []
    for k in W.__mro__:
        if k.__name__ == "W":
            body = [list(x) for x in w.get("cs", [])]
            if w.get("kind") == "annotate":
                if w.get("args"):
                    body.append(["__args__", {"v": {"t": [{"o": i} for i in w["args"]]}, "lax": False}])
                if w.get("ellipsis"):
                    body.append(["__ellipsis_args__", {"v": True, "lax": False}])
            elif w.get("kind") == "apply":
                body.append(["__applied__", {"v": True, "lax": False}])
            elif w.get("kind") == "getitem" and w["item"] != "origin":
                idx = w["item"] if isinstance(w["item"], list) else [w["item"]]
                body.append(["__args__", {"v": {"t": [{"o": i} for i in idx]}, "lax": False}])
                if w.get("ellipsis"):
                    body.append(["__ellipsis_args__", {"v": True, "lax": False}])
            elif w.get("kind") in ("field", "dfield") and isinstance(w["ann"], dict):
                body.append(["__args__", {"v": {"t": [{"o": i} for i in w["ann"]["args"]]}, "lax": False}])
                if w["ann"]["g"] == "TupleE":
                    body.append(["__ellipsis_args__", {"v": True, "lax": False}])
            out.append(body)
        elif k.__name__ in by_name and k is not ShadowRule:
            out.append([list(x) for x in by_name[k.__name__]])
    return out


def item_accepts(t, x) -> bool:
    """does the element type (descriptor) accept the item — in the documented sense, for items of its own exact type"""
    origin = CLS_BY_NAME[t["origin"]]
    if type(x) is origin:
        return accept_cs([(k, decode(b)) for k, b in t["cs"]], x)
    if origin in (int, float, Decimal) and isinstance(x, str) and any(ch.isalpha() for ch in x):
        try:
            Decimal(x.strip())
        except Exception:
            return False          # a string with letters that is not a number does not convert to a number
    raise Undefined               # conversions between types are C12's business


def decl_expected(case) -> bool:
    vis = visible(case)
    v = dec2(case["value"])

    def pad(x, cs):
        d = dict(cs).get("decimal_places")
        return x.quantize(Decimal(1).scaleb(-d)) if isinstance(x, Decimal) and d is not None and x.is_finite() else x

    def one(vv, v):
        """-> (verdict, the value as the documented order leaves it: Decimals completed to decimal_places, rule.md)"""
        if vv["lax"]:
            raise Undefined
        ok = True
        items = None
        if vv["args"] is not None:
            # documented order: the element type converts the items first, then the container's own constraints
            ts = vv["args"]
            if isinstance(v, dict):
                if len(ts) != 2:
                    raise Undefined
                per = [(ts[0], k_) for k_ in v] + [(ts[1], x) for x in v.values()]
            elif isinstance(v, tuple) and not vv["ellipsis"]:
                if len(v) != len(ts):
                    raise Undefined
                per = list(zip(ts, v))
            else:
                per = [(ts[0], x) for x in v]
            ok = all([item_accepts(t, x) for t, x in per])
            items = [pad(x, [(k, decode(b)) for k, b in t["cs"]]) for t, x in per]
            if isinstance(v, dict):
                items = None          # (no padding bookkeeping for mappings: their element types here do not re-quantise)
        ok = accept_cs(vv["cs"], v) and ok
        if vv["contains"] is not None:
            t, mn, mx = vv["contains"]
            n = sum([1 for x in (items if items is not None else list(v)) if item_accepts(t, x)])
            ok = ok and n >= 1 and (mn is None or n >= mn) and (mx is None or n <= mx)
        if vv["hook"] is not None:
            ok = all([hook_ok(h_, v) for h_ in vv["hook"]]) and ok
        out = v
        if items is not None and ok:
            try:
                out = type(v)(items)
            except Exception:
                out = v
        return ok, pad(out, vv["cs"])
    if vis.get("applied"):
        return True                           # @utype.apply: an instance of the origin is final (decorator.py:193, documented)
    if vis["nested"] is not None:
        ok1, v1 = one(vis["nested"], v)       # the constrained base type converts first …
        if not ok1:
            return False
        return one(vis, v1)[0]                # … then the constraints given to Field(...) apply to its output
    return one(vis, v)[0]


def impl_decl(case):
    import warnings
    warnings.simplefilter("ignore")
    from utype.utils.exceptions import ParseError
    try:
        T, S = build_decl(case)
    except Exception as e:
        return {"decl": type(e).__name__}
    v = dec2(case["value"])
    out = {"decl": "ok"}
    try:
        out["validators"] = [[f.__name__, encode(list(b) if k == "enum" and isinstance(b, (tuple, set, frozenset)) else b)]
                             for k, b, f in getattr(T, "__validators__", [])]   # (an unconstrained field type is the plain class)
    except Exception as e:
        out["validators"] = "raised " + type(e).__name__
    out["parse"] = _outcome(lambda: T(v))
    if "ok" in out["parse"]:
        try:
            r = T(v)
            out["result_type_same"] = type(r) is type(v)
            out["result_equal"] = bool(r == v) or bool(r != r and v != v)
        except Exception:
            pass
    try:
        out["isinstance"] = bool(isinstance(v, T))
    except ParseError:
        out["isinstance"] = "raised ParseError"
    except Exception as e:
        out["isinstance"] = "raised " + type(e).__name__
    if S is not None:
        def via():
            inst = S(x=v)
            return inst["x"] if isinstance(inst, dict) else inst.x
        out["via_field"] = _outcome(via)
    out["ctx"] = decl_contexts(T, v)
    return out


def decl_contexts(T, v):
    """the declared type as a member of a union / Optional / List, directly and as a data-class field annotation: for each
    form, was `v` accepted *as a value of T* (parse succeeded and handed `v` back)?"""
    import typing
    import utype
    from utype.parser.rule import LogicalType, Rule
    if not isinstance(T, LogicalType):
        return {}
    # a second member that does not take a value of T's origin type: a string constant nothing here equals
    U = Rule.annotate(str, constraints={"const": "\x00never\x00"})

    def same(r):
        try:
            if isinstance(v, (list, tuple, set, frozenset, dict)) and type(r) is not type(v):
                return False
            return bool(r == v) or bool(r != r and v != v)
        except Exception:
            return False

    def run(build, wrap=lambda x: x, unwrap=lambda r: r):
        try:
            X = build()
        except Exception as e:
            return {"decl": type(e).__name__}
        from utype.utils.exceptions import ParseError
        try:
            r = unwrap(X(wrap(v)))
        except ParseError:
            return {"accepted": False}
        except RecursionError:
            return {"escape": "RecursionError"}
        except Exception as e:
            return {"escape": type(e).__name__}
        return {"accepted": same(r), "returned_other": not same(r)}

    def field(ann):
        S = type("C", (utype.Schema,), {"__annotations__": {"x": ann}, "__module__": __name__})
        return S
    ctx = {
        "T|None": run(lambda: T | None),
        "None|T": run(lambda: LogicalType.any_of(None, T)),
        "Optional[T]": run(lambda: Rule.parse_annotation(typing.Optional[T])),
        "Union[T,U]": run(lambda: Rule.parse_annotation(typing.Union[T, U])),
        "Union[U,T]": run(lambda: Rule.parse_annotation(typing.Union[U, T])),
        "List[T]": run(lambda: Rule.parse_annotation(typing.List[T]), wrap=lambda x: [x], unwrap=lambda r: r[0] if isinstance(r, list) and len(r) == 1 else r),
        "field:Optional[T]": run(lambda: field(typing.Optional[T]), wrap=lambda x: {"x": x}, unwrap=lambda r: r["x"]),
        "field:Union[T,U]": run(lambda: field(typing.Union[T, U]), wrap=lambda x: {"x": x}, unwrap=lambda r: r["x"]),
        "field:List[T]": run(lambda: field(typing.List[T]), wrap=lambda x: {"x": [x]}, unwrap=lambda r: r["x"][0] if len(r["x"]) == 1 else r["x"]),
    }
    # the slots of a @utype.parse function: parameter, return value, and the Yield / Send types of (async) generators —
    # a value of T's origin type that goes through the slot reaches the other side unchanged exactly when T accepts it
    import asyncio

    def slot(kind, eager=False):
        class X:
            def __init__(self, _):
                pass

            def __new__(cls, x):
                received = []
                if kind == "param":
                    def f(x):
                        return x
                    f.__annotations__ = {"x": T}
                    return utype.parse(f, eager=eager)(x)
                if kind == "return":
                    def f(x):
                        return x
                    f.__annotations__ = {"return": T}
                    return utype.parse(f, eager=eager)(x)
                if kind == "yield":
                    def f(x):
                        yield x
                    f.__annotations__ = {"return": typing.Generator[T, None, None]}
                    return next(utype.parse(f, eager=eager)(x))
                if kind == "send":
                    def f():
                        while True:
                            got = yield 1
                            received.append(got)
                    f.__annotations__ = {"return": typing.Generator[int, T, None]}
                    g = utype.parse(f, eager=eager)()
                    next(g)
                    g.send(x)
                    return received[0]
                if kind == "asend":
                    async def f():
                        while True:
                            got = yield 1
                            received.append(got)
                    f.__annotations__ = {"return": typing.AsyncGenerator[int, T]}

                    async def drive():
                        g = utype.parse(f, eager=eager)()
                        await g.__anext__()
                        await g.asend(x)
                        await g.aclose()
                    asyncio.run(drive())
                    return received[0]
                raise ValueError(kind)
        return X
    for kind in ("param", "return", "yield", "send", "asend"):
        ctx["slot:" + kind] = run(lambda k=kind: slot(k))
    ctx["slot:send(eager)"] = run(lambda: slot("send", True))
    return ctx


# ------------------------------------------------------------------------------------------------
# op "ptype": the predefined types exported by utype/types.py (one of the property's anchor files).  Their declarations are
# read from the SOURCE TEXT with `ast` (never from the live classes) and compared with the frozen table below (static
# obligation: a changed base / origin / constraint / hook of a predefined type breaks it); their documented meaning is the
# independent oracle `ptype_sat`, evaluated at and around every boundary incl. fractional floats and bool/int twins.
# ------------------------------------------------------------------------------------------------

def read_types_source(path):
    """class name -> {bases, attrs (source text of the assigned expressions), hooks {name: digest of the body}};
    '=Name' -> source text of a module-level combined type"""
    import ast
    import hashlib
    tree = ast.parse(open(path).read())
    out = {}

    def visit(body, prefix=""):
        for n in body:
            if isinstance(n, ast.ClassDef):
                d = {"bases": [ast.unparse(b) for b in n.bases], "attrs": {}, "hooks": {}}
                for st in n.body:
                    if isinstance(st, ast.Assign) and len(st.targets) == 1 and isinstance(st.targets[0], ast.Name):
                        d["attrs"][st.targets[0].id] = ast.unparse(st.value)
                    elif isinstance(st, ast.FunctionDef):
                        d["hooks"][st.name] = hashlib.sha1(ast.dump(st).encode()).hexdigest()[:12]
                out[prefix + n.name] = d
            elif isinstance(n, ast.FunctionDef):
                visit(n.body, prefix + n.name + ".")
            elif isinstance(n, ast.If):
                visit(n.body, prefix)
                visit(n.orelse, prefix)
            elif isinstance(n, ast.Assign) and len(n.targets) == 1 and isinstance(n.targets[0], ast.Name) and prefix == "":
                out["=" + n.targets[0].id] = ast.unparse(n.value)
    visit(tree.body)
    return out


FROZEN_TYPES = {'=AbnormalFloat': 'NanFloat ^ InfinityFloat',
 '=Divisor': 'Float & ~Zero',
 '=NormalFloat': 'Float & ~AbnormalFloat',
 'Array': {'attrs': {'__origin__': 'list', 'primitive': "'array'"},
           'bases': ['Rule'],
           'hooks': {'check_type': 'bb72ad583941'}},
 'Bool': {'attrs': {'__origin__': 'bool'}, 'bases': ['Rule'], 'hooks': {}},
 'Date': {'attrs': {'format': "'date'", 'primitive': "'string'"}, 'bases': ['date', 'Rule'], 'hooks': {}},
 'Datetime': {'attrs': {'format': "'datetime'", 'primitive': "'string'"}, 'bases': ['datetime', 'Rule'], 'hooks': {}},
 'Day': {'attrs': {'ge': '1', 'le': '31'}, 'bases': ['Int'], 'hooks': {}},
 'EmailStr': {'attrs': {'format': "'email'",
                        'regex': "'([A-Za-z0-9]+[.-_])*[A-Za-z0-9]+@[A-Za-z0-9-]+(\\\\.[A-Z|a-z]{2,})+'"},
              'bases': ['Str'],
              'hooks': {}},
 'Float': {'attrs': {}, 'bases': ['float', 'Number'], 'hooks': {}},
 'Hour': {'attrs': {'ge': '0', 'le': '23'}, 'bases': ['Int'], 'hooks': {}},
 'InfinityFloat': {'attrs': {'enum': "[float('inf'), float('-inf')]"}, 'bases': ['Float'], 'hooks': {}},
 'Int': {'attrs': {}, 'bases': ['int', 'Number'], 'hooks': {}},
 'Minute': {'attrs': {'ge': '0', 'le': '59'}, 'bases': ['Int'], 'hooks': {}},
 'Month': {'attrs': {'ge': '1', 'le': '12'}, 'bases': ['Int'], 'hooks': {}},
 'NanFloat': {'attrs': {}, 'bases': ['Float'], 'hooks': {'post_validate': 'ec4706d6f157'}},
 'NaturalInt': {'attrs': {'ge': '0'}, 'bases': ['Int'], 'hooks': {}},
 'NegativeFloat': {'attrs': {'lt': '0'}, 'bases': ['Float'], 'hooks': {}},
 'NegativeInt': {'attrs': {'lt': '0'}, 'bases': ['Int'], 'hooks': {}},
 'Null': {'attrs': {'__origin__': 'type(None)', 'primitive': "'null'"}, 'bases': ['Rule'], 'hooks': {}},
 'Number': {'attrs': {'primitive': "'number'"}, 'bases': ['Rule'], 'hooks': {'check_type': '12f77da5dd67'}},
 'Object': {'attrs': {'__origin__': 'dict', 'primitive': "'object'"},
            'bases': ['Rule'],
            'hooks': {'__class_getitem__': '26c8b3a4629d', 'check_type': 'a378af2f7348'}},
 'PositiveFloat': {'attrs': {'gt': '0'}, 'bases': ['Float'], 'hooks': {}},
 'PositiveInt': {'attrs': {'gt': '0'}, 'bases': ['Int'], 'hooks': {}},
 'Quarter': {'attrs': {'ge': '1', 'le': '4'}, 'bases': ['Int'], 'hooks': {}},
 'Second': {'attrs': {'ge': '0', 'le': '59'}, 'bases': ['Int'], 'hooks': {}},
 'SlugStr': {'attrs': {'format': "'slug'", 'regex': "'[a-z0-9]+(?:-[a-z0-9]+)*'"}, 'bases': ['Str'], 'hooks': {}},
 'Str': {'attrs': {}, 'bases': ['str', 'Rule'], 'hooks': {}},
 'Timedelta': {'attrs': {'format': "'duration'", 'primitive': "'string'"},
               'bases': ['timedelta', 'Rule'],
               'hooks': {}},
 'Timestamp': {'attrs': {'format': "'timestamp'", 'ge': '0'},
               'bases': ['Float'],
               'hooks': {'pre_validate': 'e8ed952988e5'}},
 'Week': {'attrs': {'ge': '1', 'le': '53'}, 'bases': ['Int'], 'hooks': {}},
 'WeekDay': {'attrs': {'ge': '1', 'le': '7'}, 'bases': ['Int'], 'hooks': {}},
 'Year': {'attrs': {'ge': '1', 'le': '9999'}, 'bases': ['Int'], 'hooks': {}},
 'Zero': {'attrs': {'const': '0'}, 'bases': ['Rule'], 'hooks': {}},
 'enum_array.EnumArray': {'attrs': {'__args__': '(EnumItem,)',
                                    '__ellipsis_args__': 'issubclass(array_type, tuple)',
                                    '__origin__': 'array_type',
                                    'unique_items': 'unique'},
                          'bases': ['Array'],
                          'hooks': {}},
 'enum_array.EnumItem': {'attrs': {'__origin__': 'item_type', 'enum': 'item_enum'}, 'bases': ['Rule'], 'hooks': {}},
 'round_number.RoundNumber': {'attrs': {'decimal_places': 'Lax(precision)'},
                              'bases': ['num_type', 'Rule'],
                              'hooks': {}}}


def types_static_obligation(repo) -> list:
    try:
        live = read_types_source(str(repo / "utype" / "types.py"))
    except Exception as e:
        return [f"utype/types.py cannot be read: {type(e).__name__}"]
    out = []
    for k in sorted(set(live) | set(FROZEN_TYPES)):
        if live.get(k) != FROZEN_TYPES.get(k):
            out.append(f"utype/types.py: declaration of {k.lstrip('=')} is {live.get(k)} (frozen table: {FROZEN_TYPES.get(k)})")
    return out


SLUG_RE = r"[a-z0-9]+(?:-[a-z0-9]+)*"
EMAIL_RE = r"([A-Za-z0-9]+[.-_])*[A-Za-z0-9]+@[A-Za-z0-9-]+(\.[A-Z|a-z]{2,})+"
INT_RANGES = {"Year": (1, 9999), "Month": (1, 12), "Day": (1, 31), "Week": (1, 53), "WeekDay": (1, 7), "Quarter": (1, 4),
              "Hour": (0, 23), "Minute": (0, 59), "Second": (0, 59)}
PTYPES = ["Int", "Float", "Str", "Bool", "Array", "PositiveInt", "NaturalInt", "NegativeInt", "PositiveFloat", "NegativeFloat",
          "NanFloat", "InfinityFloat", "AbnormalFloat", "NormalFloat", "Zero", "Divisor", "Timestamp", "SlugStr", "EmailStr",
          "enum_array", "enum_array_unique"] + sorted(INT_RANGES)
PTYPE_SOURCE = {"Int": int, "PositiveInt": int, "NaturalInt": int, "NegativeInt": int, "Float": float, "PositiveFloat": float,
                "NegativeFloat": float, "NanFloat": float, "InfinityFloat": float, "AbnormalFloat": float, "NormalFloat": float,
                "Divisor": float, "Timestamp": float, "Str": str, "SlugStr": str, "EmailStr": str, "Bool": bool, "Array": list,
                "enum_array": list, "enum_array_unique": list, "Zero": None}
PTYPE_SOURCE.update({k: int for k in INT_RANGES})
ENUM_ARRAY_ITEMS = ["a", "b", "c"]


def ptype_sat(name, v):
    """the documented meaning of a predefined type on a value of its source type (Zero: on any number) -> accepted?"""
    src = PTYPE_SOURCE[name]
    if name == "Zero":
        # `const = 0` without a source type: the value itself must equal 0 and be of the same type up to the int/float and
        # int/Decimal tolerance — no conversion comes first, so no fraction and no bool is a Zero
        if isinstance(v, bool):
            return False
        if isinstance(v, (int, float, Decimal)):
            try:
                return bool(v == 0)
            except Exception:
                raise Undefined
        raise Undefined
    if src is None or type(v) is not src:
        raise Undefined
    if name in ("Int", "Float", "Str", "Bool", "Array"):
        return True
    if name == "PositiveInt":
        return v > 0
    if name == "NaturalInt":
        return v >= 0
    if name == "NegativeInt":
        return v < 0
    if name in INT_RANGES:
        lo, hi = INT_RANGES[name]
        return lo <= v <= hi
    if name == "PositiveFloat":
        return v > 0
    if name == "NegativeFloat":
        return v < 0
    if name == "Timestamp":
        return v >= 0
    if name == "NanFloat":
        return v != v
    if name == "InfinityFloat":
        return v in (float("inf"), float("-inf"))
    if name == "AbnormalFloat":
        return v != v or v in (float("inf"), float("-inf"))
    if name == "NormalFloat":
        return v == v and v not in (float("inf"), float("-inf"))
    if name == "Divisor":
        return not (v == 0)          # a float that is not zero (a NaN is not zero either)
    if name == "SlugStr":
        return re.fullmatch(SLUG_RE, v) is not None
    if name == "EmailStr":
        return re.fullmatch(EMAIL_RE, v) is not None
    if name in ("enum_array", "enum_array_unique"):
        if not all(type(x) is str for x in v):
            raise Undefined
        ok = all(x in ENUM_ARRAY_ITEMS for x in v)
        if name == "enum_array_unique":
            ok = ok and len(set(v)) == len(v)
        return ok
    raise Undefined


def ptype_has_source(name):
    """isinstance is about values of the source type: Zero has none, and neither has anything built on it"""
    return name not in ("Zero", "Divisor")


FLOAT_POINTS = [0.0, -0.0, 0.5, -0.25, 1e-9, -1e-9, 1.0, -1.0, 0.999, 2.5, 1e300, float("nan"), float("inf"), float("-inf"),
                5e-324, -5e-324, 100.0, 1.0000000000000002]
SLUGS = ["abc", "a-b", "a--b", "-a", "a-", "A-b", "a1-2b", "", "a_b", "a-b-c", "0", "a b"]
EMAILS = ["a@b.co", "a.b@c-d.org", "a@b", "@b.co", "a@b.c", "a-b@cd.io", "a@b.co.uk", "ab", "a@@b.co", "A1@x.YZ", "a@b.c0m"]


def gen_ptype_case(rng):
    name = rng.choice(PTYPES + ["Zero", "Divisor", "NormalFloat", "Zero", "Divisor"])
    src = PTYPE_SOURCE[name]
    if name in ("Zero", "Divisor"):
        v = rng.choice(FLOAT_POINTS + [0, 1, -1, 2, True, False, Decimal("0"), Decimal("0.0"), Decimal("0.5"), Decimal("1"), "0", 10 ** 20])
        if name == "Divisor" and rng.random() < 0.6:
            v = rng.choice(FLOAT_POINTS + [rng.randint(-40, 40) / rng.choice([1, 2, 4, 8, 16, 64, 1024])])
    elif src is int:
        lo, hi = INT_RANGES.get(name, (0, 0))
        v = rng.choice([lo - 1, lo, lo + 1, hi - 1, hi, hi + 1, 0, 1, -1, 10 ** 12, -(10 ** 12), rng.randint(-5, 70)])
        if rng.random() < 0.12:
            v = rng.choice([True, False, float(v), float(v) + 0.5, Decimal(v), str(v)])      # twins / neighbours of another type
    elif src is float:
        v = rng.choice(FLOAT_POINTS + [rng.randint(-40, 40) / rng.choice([1, 2, 4, 8, 16])])
        if rng.random() < 0.12:
            v = rng.choice([0, 1, -1, True, False, Decimal("0.5"), "0.5", "nan"])
    elif src is str:
        v = rng.choice(SLUGS + EMAILS) if name != "Str" else rng.choice(SLUGS + [1, 1.5])
    elif src is bool:
        v = rng.choice([True, False, 1, 0, "true", "false"])
    else:
        pool = ENUM_ARRAY_ITEMS + ["d", "A", 1]
        v = [rng.choice(pool) for _ in range(rng.randint(0, 4))]
    return {"op": "ptype", "name": name, "value": enc2(v)}


def impl_ptype(case):
    import warnings
    warnings.simplefilter("ignore")
    from utype import types
    name = case["name"]
    if name == "enum_array":
        T = types.enum_array(list(ENUM_ARRAY_ITEMS), item_type=str)
    elif name == "enum_array_unique":
        T = types.enum_array(list(ENUM_ARRAY_ITEMS), item_type=str, unique=True)
    else:
        T = getattr(types, name)
    v = dec2(case["value"])
    out = {"parse": _outcome(lambda: T(v))}
    if "ok" in out["parse"]:
        r = T(v)
        out["result_equal"] = bool(r == v) or bool(r != r and v != v)
        out["result_type"] = type(r).__name__
    try:
        out["isinstance"] = bool(isinstance(v, T))
    except Exception as e:
        out["isinstance"] = "raised " + type(e).__name__
    return out


# ------------------------------------------------------------------------------------------------
# op "multi": several declarations with EQUAL-but-not-identical attributes (1 / True / 1.0, 0 / False / 0.0, …) made one
# after the other in ONE process — through Field(...), Rule.annotate, utype.apply and class bodies.  Every declared type must
# answer as the same declaration does when it is made ALONE in a fresh process, and as the oracle says.  A fresh interpreter
# is started per case; it forks one child for the sequence and one child per declaration alone.
# ------------------------------------------------------------------------------------------------

TWIN_FAMILIES = [[1, True, 1.0, Decimal("1")], [0, False, 0.0, Decimal("0")], [2, 2.0, Decimal("2")], ["a", "A"], [3, 3.0, True]]
MULTI_CHILD = r"""
import json, os, sys, warnings
warnings.simplefilter("ignore")
sys.path.insert(0, os.environ["VERIF_DIR"]); sys.path.insert(0, os.environ["UTYPE_REPO"])
import utype
from utype.utils.exceptions import ParseError
from harness.c02 import dec2, enc2, ORIGINS

def declare(d, i):
    origin = ORIGINS[d["origin"]] if d.get("origin") else None
    cs = {k: dec2(b) for k, b in d["cs"]}
    via = d["via"]
    if via == "field":
        attrs = {"__module__": "__main__", "x": utype.Field(**cs)}
        if origin is not None:
            attrs["__annotations__"] = {"x": origin}
        S = type(f"S{i}", (utype.Schema,), attrs)
        T = S.__parser__.fields["x"].type
        return T, (lambda v: S(x=v)["x"])
    if via == "annotate":
        T = utype.Rule.annotate(origin, constraints=cs)
        return T, T
    if via == "apply":
        T = utype.apply(**cs)(origin)
        return T, T
    T = type(f"T{i}", ((origin, utype.Rule) if origin is not None else (utype.Rule,)), dict(cs))
    return T, T

def probe(T, parse, probes):
    out = []
    for e in probes:
        v = dec2(e)
        try:
            r = parse(v)
            o = {"ok": enc2(r), "type": type(r).__name__}
        except ParseError:
            o = {"perr": 1}
        except Exception as ex:
            o = {"escape": type(ex).__name__}
        try:
            o["isinstance"] = bool(isinstance(v, T)) if isinstance(T, type) else None
        except Exception as ex:
            o["isinstance"] = "raised " + type(ex).__name__
        out.append(o)
    return out

def in_child(fn):
    r, w = os.pipe()
    pid = os.fork()
    if pid == 0:
        os.close(r)
        try:
            res = fn()
        except BaseException as ex:
            res = {"child_exc": type(ex).__name__}
        os.write(w, json.dumps(res).encode()); os._exit(0)
    os.close(w)
    buf = b""
    while True:
        chunk = os.read(r, 1 << 16)
        if not chunk: break
        buf += chunk
    os.waitpid(pid, 0)
    return json.loads(buf.decode() or "null")

case = json.loads(sys.stdin.read())
def sequence():
    built = []
    for i, d in enumerate(case["decls"]):
        try:
            built.append(declare(d, i))
        except Exception as ex:
            built.append(type(ex).__name__)
    # all declarations exist before the first value is parsed
    return [b if isinstance(b, str) else probe(b[0], b[1], case["probes"]) for b in built]
def alone(i):
    def run():
        try:
            T, parse = declare(case["decls"][i], i)
        except Exception as ex:
            return type(ex).__name__
        return probe(T, parse, case["probes"])
    return run
print(json.dumps({"sequence": in_child(sequence), "alone": [in_child(alone(i)) for i in range(len(case["decls"]))]}))
"""


def gen_multi_case(rng):
    fam = rng.choice(TWIN_FAMILIES)
    numeric = not isinstance(fam[0], str)
    key = rng.choice(["const", "const", "const", "enum", "ge", "le", "multiple_of"]) if numeric else rng.choice(["const", "enum"])
    decls = []
    origins = [None, None, "int", "float"] if numeric else [None, "str"]
    base_origin = rng.choice(origins)
    for b in rng.sample(fam, min(len(fam), rng.choice([2, 2, 3, 4]))):
        via = rng.choice(["field", "field", "annotate", "annotate", "apply", "class"])
        origin = base_origin if rng.random() < 0.8 else rng.choice(origins)
        if key in ("ge", "le", "multiple_of") and origin is None:
            origin = "int"
        if via == "apply" and origin is None:
            origin = "int" if numeric else "str"
        bound = [b, fam[0] + 5 if numeric else "zz"] if key == "enum" else b
        decls.append({"via": via, "origin": origin, "cs": [[key, enc2(bound)]]})
    if rng.random() < 0.5:
        # the same declaration twice, through two different routes (one of them utype.apply)
        d0 = decls[0]
        if d0["origin"]:
            decls.insert(rng.randrange(len(decls) + 1), dict(d0, via="apply" if d0["via"] != "apply" else "field"))
    probes = list(fam) + ([fam[0] - 1, fam[0] + 1, fam[0] + 5, float(fam[0]) + 0.5] if numeric else ["zz", "b", ""])
    return {"op": "multi", "decls": decls, "probes": [enc2(x) for x in probes]}


def impl_multi(case):
    import os
    import subprocess
    import sys
    from .common import VERIF
    env = dict(os.environ, VERIF_DIR=str(VERIF))
    p = subprocess.run([sys.executable, "-c", MULTI_CHILD], input=json.dumps(case), capture_output=True, text=True, env=env, timeout=60)
    if p.returncode != 0 or not p.stdout.strip():
        return {"error": (p.stderr or "")[-300:]}
    return json.loads(p.stdout.strip().splitlines()[-1])


def multi_expected(d, v):
    """the documented verdict of one declaration on a probe value (only where the property speaks: a value of the source type,
    or any value for an origin-less const / enum)"""
    if d["via"] == "apply":
        raise Undefined            # a hidden (@utype.apply) type takes instances of its origin as they are, by design
    origin = ORIGINS[d["origin"]] if d.get("origin") else None
    if origin is not None and type(v) is not origin:
        raise Undefined
    return accept_cs([(k, dec2(b)) for k, b in d["cs"]], v)


# ------------------------------------------------------------------------------------------------
# generators
# ------------------------------------------------------------------------------------------------

INT_BOUNDS = [-3, -1, 0, 1, 2, 3, 5, 10, 100]
DEC_STRS = ["0", "0.0", "1", "1.5", "1.50", "2.5", "99.99", "9.995", "0.001", "-12.340", "1E+2", "100", "100.0", "0.5",
            "-0.5", "123.456", "0.0123", "12.3", "999.9", "99.95", "0.95", "1E-7", "-7", "3", "10", "2", "0.25", "7.125"]
STRS = ["", "a", "ab", "abc", "abcd", "abcde", "123", "12a", "a-b", "A", "é", "  ", "0012"]
PATTERNS = ["[a-z]+", r"\d{3}", ".*", "ab", "a.c", r"[0-9a-f]*", "a|ab", r"\w+-\w+"]


def rnd_float(rng):
    k = rng.random()
    if k < 0.05:
        return float("nan")
    if k < 0.1:
        return rng.choice([float("inf"), float("-inf")])
    if k < 0.15:
        return -0.0
    return rng.randint(-80, 80) / rng.choice([1, 2, 4, 8, 16])


def around(rng, b):
    """values at and next to a bound"""
    out = [b]
    if type(b) is int:
        out += [b - 1, b + 1, b + rng.randint(2, 9), b - rng.randint(2, 9)]
    elif type(b) is float and math.isfinite(b):
        out += [math.nextafter(b, math.inf), math.nextafter(b, -math.inf), b + 1, b - 1, float("nan")]
    elif type(b) is Decimal and b.is_finite():
        q = Decimal(1).scaleb(b.as_tuple()[2] - 1)
        out += [b + q, b - q, b + 1, b - 1]
    return out


def rnd_num(rng, origin):
    if origin == "int":
        return rng.choice([rng.randint(-12, 120), rng.choice(INT_BOUNDS), 10 ** 20, -(10 ** 19), 999, 1000, 99, 100])
    if origin == "float":
        return rnd_float(rng)
    return Decimal(rng.choice(DEC_STRS)) if rng.random() < 0.7 else Decimal(rng.randint(-99999, 99999)).scaleb(rng.randint(-4, 2))


def rnd_seq(rng, kind):
    n = rng.randint(0, 5)
    pool = [1, 2, 3, 1.0, True, 0, False, "a", "1", 2.5, Decimal("1.0"), None, (1, 2), (1, 2.0)]
    items = [rng.choice(pool) for _ in range(n)]
    if kind in ("set", "frozenset"):
        items = [x for x in items if not isinstance(x, (list,))]
        return set(items) if kind == "set" else frozenset(items)
    if rng.random() < 0.3:
        # unhashable items, among them equal ones that print differently ([1] == [1.0] == [True], {1} == {1.0})
        fam = rng.choice([[[1], [1.0], [True], [1, 2], [1.0, 2], []], [[0], [False], [0.0], [[0]], [[0.0]]],
                          [[1], [1.0], {1}, {1.0}, {True}], [[Decimal("1.0")], [1], [Decimal("1")], [[1, 2]], [[1.0, 2.0]]],
                          [[1], [1, 2], [1.0], []]])
        items = [rng.choice(fam) for _ in range(max(n, rng.choice([0, 2, 3])))]
    return items if kind == "list" else _deque(items) if kind == "deque" else tuple(items)


def gen_rule_case(rng, lax_mode=False):
    origin = rng.choice(["int", "int", "float", "Decimal", "Decimal", "str", "list", "tuple", "set", "deque", "frozenset"])
    cs = {}
    if origin in ("int", "float", "Decimal"):
        mk = {"int": lambda: rng.choice(INT_BOUNDS), "float": lambda: rng.randint(-20, 40) / rng.choice([1, 2, 4]),
              "Decimal": lambda: Decimal(rng.choice(DEC_STRS))}[origin]
        k = rng.random()
        if k < 0.12:
            cs["const"] = rnd_num(rng, origin) if rng.random() < 0.7 else rnd_num(rng, rng.choice(["int", "float", "Decimal"]))
        elif k < 0.22:
            cs["enum"] = [rnd_num(rng, origin) for _ in range(rng.randint(1, 4))]
        else:
            lo = mk()
            if rng.random() < 0.6:
                cs[rng.choice(["gt", "ge"])] = lo
            if rng.random() < 0.5:
                hi = lo + rng.choice([1, 2, 3, 10]) if origin != "Decimal" else lo + Decimal(rng.choice(["0.1", "1", "2.5", "10"]))
                cs[rng.choice(["lt", "le"])] = hi
            if rng.random() < 0.3:
                cs["multiple_of"] = rng.choice([1, 2, 3, 5, 10]) if origin != "Decimal" else rng.choice([2, 5, Decimal("0.5"), Decimal("2.5")])
            if rng.random() < 0.3 and origin != "int":
                cs["decimal_places"] = rng.choice([0, 1, 2, 3])
            if rng.random() < 0.35:
                cs["max_digits"] = rng.choice([1, 2, 3, 4, 5, 6])
    elif origin == "str":
        k = rng.random()
        if k < 0.15:
            cs["const"] = rng.choice(STRS)
        elif k < 0.3:
            cs["enum"] = rng.sample(STRS, rng.randint(1, 4))
        else:
            if rng.random() < 0.4:
                cs["regex"] = rng.choice(PATTERNS)
            k2 = rng.random()
            if k2 < 0.3:
                cs["length"] = rng.randint(0, 4)
            else:
                if rng.random() < 0.6:
                    cs["max_length"] = rng.randint(1, 5)
                if rng.random() < 0.5:
                    cs["min_length"] = rng.randint(0, 3)
    else:
        if rng.random() < 0.6:
            cs["unique_items"] = rng.random() < 0.9
        k2 = rng.random()
        if k2 < 0.25:
            cs["length"] = rng.randint(0, 4)
        else:
            if rng.random() < 0.5:
                cs["max_length"] = rng.randint(1, 4)
            if rng.random() < 0.4:
                cs["min_length"] = rng.randint(0, 3)
    if not cs:
        cs["ge" if origin in ("int", "float", "Decimal") else "min_length"] = 1 if origin not in ("float",) else 1.0
        if origin == "Decimal":
            cs = {"ge": Decimal(1)}
    lax = []
    if lax_mode:
        cand = [n for n in cs if n in LAXABLE]
        if cand:
            lax = rng.sample(cand, 1 if rng.random() < 0.75 else min(2, len(cand)))
    # value: of the source type, close to the bounds
    bound_vals = [b for b in cs.values() if not isinstance(b, (list, bool, str)) and b is not None]
    if origin in ("int", "float", "Decimal"):
        cands = []
        T = CLS_BY_NAME[origin]
        for b in bound_vals:
            for x in around(rng, b):
                try:
                    cands.append(T(x) if not isinstance(x, T) else x)
                except Exception:
                    pass
        if "max_digits" in cs:
            m = cs["max_digits"]
            for x in (10 ** m - 1, 10 ** m, 10 ** (m - 1)):
                try:
                    cands.append(T(x))
                    cands.append(T(x) / T(10) if origin != "int" else T(x))
                except Exception:
                    pass
        cands += [rnd_num(rng, origin) for _ in range(3)]
        if "enum" in cs:
            cands += cs["enum"]
        v = rng.choice([c for c in cands if type(c) is T] or [rnd_num(rng, origin)])
    elif origin == "str":
        v = rng.choice(STRS + ["x" * rng.randint(0, 6), "abc-def", "00a"])
    else:
        v = rnd_seq(rng, origin)
    return {"op": "rule", "origin": origin, "constraints": [[n, encode(b)] for n, b in cs.items()], "lax": lax,
            "value": encode(v)}


# ---- declared types -----------------------------------------------------------------------------

ELEM_TYPES = [
    {"origin": "int", "cs": [["gt", 0]]},
    {"origin": "int", "cs": [["ge", 2], ["le", 5]]},
    {"origin": "int", "cs": [["multiple_of", 2]]},
    {"origin": "int", "cs": []},
    {"origin": "str", "cs": [["regex", "[a-z]+"]]},
    {"origin": "str", "cs": [["max_length", 2]]},
    {"origin": "str", "cs": []},
    {"origin": "Decimal", "cs": [["max_digits", 3]]},
    {"origin": "Decimal", "cs": [["ge", Decimal("0.5")], ["decimal_places", 2]]},
]
ELEM_POOL = {
    "int": [-3, -1, 0, 1, 2, 3, 4, 5, 6, 7, 10, 12],
    "str": ["", "a", "ab", "abc", "A", "Ab", "x1", "zz", "0"],
    "Decimal": [Decimal(x) for x in ["0", "0.5", "0.49", "1.25", "12.5", "99.9", "100", "1000", "0.125", "-1", "7.77", "0.50"]],
}
FOREIGN_ITEMS = ["a", "3", None, 2.5, True, "x-y"]


def _enc_tdesc(t):
    return {"origin": t["origin"], "cs": [[k, encode(b)] for k, b in t["cs"]]}


def _a(v, lax=False):
    return {"v": encode(v), "lax": lax}


def gen_items(rng, t, want, others, foreign=0.1):
    """a list with exactly `want` items the element type accepts and `others` exact-typed items it rejects (if it can reject)"""
    pool = ELEM_POOL[t["origin"]]
    cs = [(k, b) for k, b in t["cs"]]
    good = [x for x in pool if accept_cs(cs, x)]
    bad = [x for x in pool if not accept_cs(cs, x)]
    items = [rng.choice(good) for _ in range(want)] if good else []
    if bad:
        items += [rng.choice(bad) for _ in range(others)]
    if rng.random() < foreign:
        items.append(rng.choice(FOREIGN_ITEMS))
    rng.shuffle(items)
    return items


def gen_decl_case(rng):
    base = gen_rule_case(rng, False)
    origin = base["origin"]
    seqlike = origin in ("list", "tuple", "set")
    attrs = [[n, {"v": b, "lax": False}] for n, b in base["constraints"]]
    value = decode(base["value"])
    types, feats = [], []
    trio, meta = [], []
    k = rng.random()
    if seqlike:
        # the container's own ordinary constraints: keep them rarely restrictive so that the other checks decide
        if rng.random() < 0.45:
            attrs = []
        want_contains = rng.random() < 0.7
        want_args = rng.random() < 0.35
        et = rng.choice(ELEM_TYPES)
        if want_args:
            at = et if rng.random() < 0.6 else rng.choice([t for t in ELEM_TYPES if t["origin"] == et["origin"]])
            types.append(_enc_tdesc(at))
            ai = len(types) - 1
            if origin == "tuple" and rng.random() < 0.4:
                at2 = rng.choice(ELEM_TYPES)
                types.append(_enc_tdesc(at2))
                meta.append(["__args__", {"v": {"t": [{"o": ai}, {"o": ai + 1}]}, "lax": False}])
                feats.append("args2")
            else:
                meta.append(["__args__", {"v": {"t": [{"o": ai}]}, "lax": False}])
                if origin == "tuple":
                    meta.append(["__ellipsis_args__", {"v": True, "lax": False}])
                feats.append("args")
        if want_contains:
            ct = et if rng.random() < 0.7 else rng.choice([t for t in ELEM_TYPES if t["origin"] == et["origin"]])
            types.append(_enc_tdesc(ct))
            ci = len(types) - 1
            mn = rng.choice([None, None, 0, 1, 2, 3])
            mx = rng.choice([None, None, 1, 2, 3, 4, 0])
            if mn is not None and mx is not None and mx < mn and rng.random() < 0.9:
                mn, mx = mx, mn
            trio.append(["contains", {"v": {"o": ci}, "lax": False}])
            if mn is not None:
                trio.append(["min_contains", _a(mn)])
            if mx is not None:
                trio.append(["max_contains", _a(mx)])
            feats.append("contains")
            cands = {0, 1} | {x for b in (mn, mx) if b is not None for x in (b - 1, b, b + 1)}
            want = rng.choice(sorted(x for x in cands if x >= 0))
            items = gen_items(rng, ct, want, rng.randint(0, 3))
        else:
            items = gen_items(rng, et, rng.randint(0, 4), rng.randint(0, 1) if want_args and rng.random() < 0.5 else 0)
        if "args2" in feats:
            a1, a2 = ELEM_TYPES_BY(types[ai]), ELEM_TYPES_BY(types[ai + 1])
            items = gen_items(rng, a1, 1, 0, 0)[:1] + gen_items(rng, a2, 1, 0, 0)[:1]
            if rng.random() < 0.3:
                items = gen_items(rng, a1, 0, 1, 0)[:1] + gen_items(rng, a2, 1, 0, 0)[:1]
        if want_contains or want_args:
            try:
                value = {"list": list, "tuple": tuple, "set": set}[origin](items)
            except TypeError:
                value = list(items) if origin == "list" else tuple(items)
        if rng.random() < 0.2:
            meta.append([rng.choice(["post_validate", "post_validate", "pre_validate"]), {"v": {"s": rng.choice(["nonempty", "short"])}, "lax": False}])
            feats.append("hook")
    else:
        if origin == "int" and rng.random() < 0.25:
            meta.append([rng.choice(["post_validate", "post_validate", "pre_validate"]), {"v": {"s": "even"}, "lax": False}])
            feats.append("hook")
        elif origin == "str" and rng.random() < 0.25:
            meta.append([rng.choice(["post_validate", "post_validate", "pre_validate"]), {"v": {"s": rng.choice(["nonempty", "short"])}, "lax": False}])
            feats.append("hook")
        if "hook" in feats and rng.random() < 0.5:
            attrs = []          # a type whose only check is the hook
    everything = attrs + [["__trio__", trio]] * (1 if trio else 0) + [[m[0], m[1]] for m in meta]

    def flat(chunk):
        out = []
        for k_, a_ in chunk:
            if k_ == "__trio__":
                out += [list(x) for x in a_]
            else:
                out.append([k_, a_])
        return out

    def split(n):
        parts = [[] for _ in range(n)]
        for item in everything:
            parts[rng.randrange(n)].append(item)
        return [flat(p_) for p_ in parts]

    with_origin = origin not in ("int", "str") or rng.random() < 0.3
    if rng.random() < 0.08:
        with_origin = not with_origin
    mix_bases = ["origin", "Rule"] if with_origin else ["Rule"]
    shape = rng.choice(["flat", "multibase", "multibase", "multilevel", "diamond", "override", "cancel", "rename",
                        "annotate", "annotate", "getitem", "field", "dfield", "fieldbase", "apply"])
    classes, wrap = [], None
    if shape == "flat":
        classes = [{"name": "T", "bases": ["origin", "Rule"], "attrs": flat(everything)}]
    elif shape == "multibase":
        n = rng.choice([2, 2, 3])
        parts = split(n + 1)
        body = parts[-1] if rng.random() < 0.3 else []
        if not body:
            parts[rng.randrange(n)] += parts[-1]
        for i in range(n):
            classes.append({"name": f"M{i}", "bases": list(mix_bases), "attrs": parts[i]})
        tb = [f"M{i}" for i in range(n)]
        classes.append({"name": "T", "bases": tb if with_origin else ["origin"] + tb, "attrs": body})
    elif shape == "multilevel":
        parts = split(3)
        if rng.random() < 0.6:
            parts[rng.randrange(2)] += parts[2]
            parts[2] = []
        classes = [{"name": "A", "bases": ["origin", "Rule"], "attrs": parts[0]},
                   {"name": "B", "bases": ["A"], "attrs": parts[1]},
                   {"name": "T", "bases": ["B"], "attrs": parts[2]}]
    elif shape == "diamond":
        parts = split(3)
        classes = [{"name": "A", "bases": list(mix_bases), "attrs": parts[0]},
                   {"name": "B", "bases": ["A"], "attrs": parts[1]},
                   {"name": "C", "bases": ["A"], "attrs": parts[2]},
                   {"name": "T", "bases": ["B", "C"] if with_origin else ["origin", "B", "C"], "attrs": []}]
    elif shape in ("override", "cancel"):
        base_attrs = flat(everything)
        body = []
        keys = [a_ for a_ in base_attrs if a_[0] in ("gt", "ge", "lt", "le", "max_length", "min_length", "max_digits", "multiple_of",
                                                       "max_contains", "min_contains", "length")]
        if keys:
            k_, a_ = rng.choice(keys)
            if shape == "cancel":
                body = [[k_, "cancel"]]
            else:
                b0 = decode(a_["v"])
                try:
                    b1 = b0 + rng.choice([1, 2, -1, 3]) if not isinstance(b0, Decimal) else b0 + Decimal(rng.choice(["0.1", "1", "-0.5"]))
                except Exception:
                    b1 = b0
                body = [[k_, {"v": encode(b1), "lax": False}]]
                if isinstance(b1, (int, float, Decimal)) and not isinstance(value, (list, tuple, set, str)) and rng.random() < 0.7:
                    try:
                        value = type(value)(rng.choice([b0, b1, (b0 + b1) / 2 if not isinstance(b0, int) else (b0 + b1) // 2, b1 + 1, b1 - 1]))
                    except Exception:
                        pass
        classes = [{"name": "A", "bases": ["origin", "Rule"], "attrs": base_attrs},
                   {"name": "T", "bases": ["A"], "attrs": body}]
    elif shape == "rename":
        classes = [{"name": "A", "bases": ["origin", "Rule"], "attrs": flat(everything)},
                   {"name": "T", "bases": ["A"], "attrs": []}]
    elif shape == "annotate":
        ordinary = [x for x in flat(everything) if x[0] not in ("__args__", "__ellipsis_args__", "post_validate", "pre_validate")]
        rest_meta = [x for x in flat(everything) if x[0] in HOOK_KEYS]
        argidx = [o["o"] for x in flat(everything) if x[0] == "__args__" for o in x[1]["v"]["t"]]
        ell = any(x[0] == "__ellipsis_args__" for x in flat(everything))
        cut = rng.randint(0, len(ordinary))
        in_base = ordinary[:cut] + rest_meta
        has_base = bool(in_base) or rng.random() < 0.3
        base_has_origin = has_base and rng.random() < 0.5
        if has_base:
            classes = [{"name": "A", "bases": ["origin", "Rule"] if base_has_origin else ["Rule"], "attrs": in_base}]
        wrap = {"kind": "annotate", "origin": (not base_has_origin) or rng.random() < 0.5, "args": argidx, "ellipsis": ell,
                "cs": ordinary[cut:]}
    elif shape == "apply":
        # a hidden type: @utype.apply(**constraints)(origin) — by design an instance of the origin is taken as it is
        ordinary = [x for x in flat(everything) if x[0] not in ("__args__", "__ellipsis_args__", "post_validate", "pre_validate")]
        wrap = {"kind": "apply", "cs": ordinary}
    elif shape == "getitem":
        argidx = [o["o"] for x in flat(everything) if x[0] == "__args__" for o in x[1]["v"]["t"]]
        rest = [x for x in flat(everything) if x[0] not in ("__args__", "__ellipsis_args__")]
        if argidx and origin != "tuple":
            classes = [{"name": "A", "bases": ["origin", "Rule"], "attrs": rest}]
            wrap = {"kind": "getitem", "item": argidx[0]}
        else:
            rest = [x for x in rest]
            classes = [{"name": "A", "bases": ["Rule"], "attrs": rest}]
            wrap = {"kind": "getitem", "item": "origin"}
    else:   # field / dfield / fieldbase
        allx = flat(everything)
        argidx = [o["o"] for x in allx if x[0] == "__args__" for o in x[1]["v"]["t"]]
        ell = any(x[0] == "__ellipsis_args__" for x in allx)
        ordinary = [x for x in allx if x[0] not in ("__args__", "__ellipsis_args__", "post_validate", "pre_validate")]
        hooks = [x for x in allx if x[0] in HOOK_KEYS]
        kind = "dfield" if shape == "dfield" else "field"
        if shape == "fieldbase" or hooks:
            cut = rng.randint(0, len(ordinary))
            inner = ordinary[:cut] + hooks + [x for x in allx if x[0] in ("__args__", "__ellipsis_args__")]
            classes = [{"name": "A", "bases": ["origin", "Rule"], "attrs": inner}]
            wrap = {"kind": kind, "ann": "base", "cs": ordinary[cut:]}
        elif argidx:
            g = {"list": "List", "set": "Set", "tuple": "TupleE" if ell else "Tuple"}[origin]
            wrap = {"kind": kind, "ann": {"g": g, "args": argidx}, "cs": ordinary}
        else:
            wrap = {"kind": kind, "ann": "origin", "cs": ordinary}
        if rng.random() < 0.4:
            wrap["fwd"] = True          # annotation given by name, the name defined after the class
            feats.append("fwd")
    if wrap is None and seqlike and any(x[0] == "__args__" for c in classes for x in c["attrs"]) and rng.random() < 0.6:
        # the same declaration with the element type given by PARAMETRISING the final (sub)class: T[item] / T[a, b] / T[item, ...]
        argidx = [o["o"] for c in classes for x in c["attrs"] if x[0] == "__args__" for o in x[1]["v"]["t"]]
        ell = any(x[0] == "__ellipsis_args__" for c in classes for x in c["attrs"])
        for c in classes:
            c["attrs"] = [x for x in c["attrs"] if x[0] not in ("__args__", "__ellipsis_args__")]
        wrap = {"kind": "getitem", "item": argidx, "ellipsis": ell}
        shape += "+param"
        feats.append("param")
    return {"op": "decl", "origin": origin, "types": types, "classes": classes, "wrap": wrap, "shape": shape,
            "feats": sorted(set(feats)), "value": encode(value)}


def gen_dict_decl_case(rng):
    """a dict-like constrained type (length family on the mapping, optional hook), declared over 1-3 levels, parametrised
    by Sub[key_type, value_type] (or with __args__ in a class body); values are dicts of exactly-typed keys and values"""
    kt = rng.choice([t for t in ELEM_TYPES if t["origin"] == "str"])
    vt = rng.choice([t for t in ELEM_TYPES if t["origin"] in ("int", "str")])
    types = [_enc_tdesc(kt), _enc_tdesc(vt)]
    cs = []
    k = rng.random()
    if k < 0.3:
        cs.append(["length", _a(rng.randint(0, 3))])
    else:
        if rng.random() < 0.7:
            cs.append(["max_length", _a(rng.randint(1, 3))])
        if rng.random() < 0.5:
            cs.append(["min_length", _a(rng.randint(1, 2))])
    if rng.random() < 0.25:
        cs.append(["post_validate", {"v": {"s": rng.choice(["nonempty", "short"])}, "lax": False}])
    n = rng.choice([0, 1, 2, 2, 3, 4])
    keys = gen_items(rng, kt, n, 1 if rng.random() < 0.2 else 0, 0)
    vals = gen_items(rng, vt, len(keys), 0, 0) if rng.random() < 0.75 else gen_items(rng, vt, max(len(keys) - 1, 0), 1, 0)
    value = dict(zip(keys, vals + [rng.choice(ELEM_POOL[vt["origin"]])] * len(keys)))
    levels = rng.choice([1, 2, 2, 3])
    parts = [[] for _ in range(levels)]
    for c in cs:
        parts[rng.randrange(levels)].append(c)
    if levels >= 2 and cs and rng.random() < 0.4 and cs[0][0] in ("max_length", "min_length", "length"):
        # the subclass overrides the base's bound
        b0 = decode(cs[0][1]["v"])
        parts[0] = [x for x in parts[0] if x[0] != cs[0][0]] + [[cs[0][0], _a(b0 + rng.choice([1, 2]))]]
        parts[-1] = [x for x in parts[-1] if x[0] != cs[0][0]] + [cs[0]]
        for mid in parts[1:-1]:
            mid[:] = [x for x in mid if x[0] != cs[0][0]]
    names = ["A", "B", "T"][:levels]
    classes = [{"name": names[0], "bases": ["origin", "Rule"], "attrs": parts[0]}]
    for i in range(1, levels):
        classes.append({"name": names[i], "bases": [names[i - 1]], "attrs": parts[i]})
    args_attr = ["__args__", {"v": {"t": [{"o": 0}, {"o": 1}]}, "lax": False}]
    how = rng.choice(["param", "param", "param", "body", "annotate"])
    wrap = None
    if how == "param":
        wrap = {"kind": "getitem", "item": [0, 1]}
    elif how == "body":
        classes[rng.randrange(levels)]["attrs"].append(args_attr)
    else:
        wrap = {"kind": "annotate", "origin": rng.random() < 0.5, "args": [0, 1], "ellipsis": False, "cs": []}
    return {"op": "decl", "origin": "dict", "types": types, "classes": classes, "wrap": wrap, "shape": "dict+" + how,
            "feats": sorted({"args2", "param"} if how == "param" else {"args2"}), "value": enc2(value)}


def ELEM_TYPES_BY(enc_t):
    for t in ELEM_TYPES:
        if _enc_tdesc(t) == enc_t:
            return t
    raise KeyError(enc_t)


LAX_NUM = ["ge", "le", "multiple_of", "decimal_places", "max_digits"]


def gen_lax_pair_case(rng):
    """two (sometimes three) Lax constraints on a number, every pair of the five numeric ones, with bounds and values chosen
    so that both transformations fire and can disturb each other (bound not a multiple of `multiple_of`, value beyond
    the bound, more digits than `max_digits`, …); sometimes a strict third constraint"""
    origin = rng.choice(["int", "int", "Decimal", "Decimal", "float"])
    names = rng.sample(LAX_NUM if origin != "int" else ["ge", "le", "multiple_of", "max_digits"], rng.choice([2, 2, 2, 3]))
    if "ge" in names and "le" in names and rng.random() < 0.5:
        names.remove(rng.choice(["ge", "le"]))
        names.append(rng.choice([n for n in (LAX_NUM if origin != "int" else ["multiple_of", "max_digits"]) if n not in names]))
    T = CLS_BY_NAME[origin]
    cs = {}
    m = rng.choice([2, 3, 4, 5, 7])
    lo = rng.choice([-7, -1, 0, 1, 2, 5])
    hi = lo + rng.choice([3, 5, 8, 9, 10, 11, 100])
    for n in names:
        if n == "multiple_of":
            cs[n] = m if origin != "Decimal" or rng.random() < 0.6 else Decimal(rng.choice(["0.5", "2.5", "0.3"]))
        elif n == "ge":
            cs[n] = T(lo) if origin != "Decimal" or rng.random() < 0.6 else Decimal(lo) + Decimal(rng.choice(["0.25", "0.5", "0.125"]))
        elif n == "le":
            cs[n] = T(hi) if origin != "Decimal" or rng.random() < 0.6 else Decimal(hi) + Decimal(rng.choice(["0.25", "0.5", "0.995"]))
        elif n == "decimal_places":
            cs[n] = rng.choice([0, 1, 2])
        elif n == "max_digits":
            cs[n] = rng.choice([1, 2, 3, 4])
    lax = list(names)
    if rng.random() < 0.3:
        extra = rng.choice([n for n in ["gt", "lt", "ge", "le", "multiple_of", "max_digits"] if n not in cs and not (n in ("gt", "ge") and ("gt" in cs or "ge" in cs))
                            and not (n in ("lt", "le") and ("lt" in cs or "le" in cs))] or ["max_digits"])
        if extra not in cs:
            cs[extra] = {"gt": T(lo - 1), "ge": T(lo), "lt": T(hi + 1), "le": T(hi), "multiple_of": m, "max_digits": 3}[extra]
            if rng.random() < 0.3 and extra in LAXABLE:
                lax.append(extra)
    cands = [hi + 1, hi + 2, hi + m, lo - 1, lo - m, hi, lo, hi - 1, 10 ** 3 + 1, 99, 100, 12, 10, 9, 7]
    v = rng.choice(cands)
    if origin == "int":
        val = int(v)
    elif origin == "float":
        val = float(v) + rng.choice([0, 0.5, 0.25, 0.125, 0.75])
    else:
        val = Decimal(v) + Decimal(rng.choice(["0", "0.5", "0.99", "0.995", "0.125", "0.05"]))
    return {"op": "rule", "origin": origin, "constraints": [[n, encode(b)] for n, b in cs.items()], "lax": lax, "value": encode(val)}


def gen_validator_case(rng, names):
    name = rng.choice(names)
    base = name[4:] if name.startswith("lax_") else name
    if base in ("gt", "ge", "lt", "le"):
        kind = rng.choice(["int", "float", "Decimal", "mixed", "str"])
        if kind == "str":
            b = rng.choice(STRS)
            v = rng.choice(STRS)
        else:
            b = rnd_num(rng, kind if kind != "mixed" else rng.choice(["int", "float", "Decimal"]))
            pool = around(rng, b) + [rnd_num(rng, rng.choice(["int", "float", "Decimal"])) for _ in range(2)] + [True, False]
            v = rng.choice(pool)
            if kind == "mixed":
                v = rng.choice([v, rnd_num(rng, rng.choice(["int", "float", "Decimal"]))])
    elif base in ("length", "max_length", "min_length"):
        b = rng.randint(0, 5)
        v = rng.choice([rng.choice(STRS), rnd_seq(rng, rng.choice(["list", "tuple", "set", "deque", "frozenset"])), rng.randint(-5, 12345), 1.5])
    elif base == "regex":
        b = rng.choice(PATTERNS)
        v = rng.choice(STRS + [123, 12, 1.5, "abc-def"])
    elif base == "const":
        b = rng.choice([1, 1.0, True, 0, False, Decimal("1.0"), "a", None, 2.5, Decimal("2.5"), [1], (1,)])
        v = rng.choice([1, 1.0, True, 0, False, Decimal("1.0"), Decimal("1"), "a", None, 2.5, Decimal("2.5"), [1], (1,), [1.0]])
    elif base == "enum":
        b = rng.choice([[1, 2, 3], ["a", "b"], [1.5, 2], (1, "a"), [Decimal("1.0"), 2], {1, 2}, [None, 0]])
        v = rng.choice([1, 1.0, True, "a", "c", 2, 4, None, 0, False, Decimal("1"), 1.5])
    elif base == "multiple_of":
        b = rng.choice([1, 2, 3, 5, -2, 0, Decimal("0.5"), Decimal("2.5"), 10])
        v = rng.choice([rng.randint(-30, 30), Decimal(rng.choice(DEC_STRS)), rng.randint(-30, 30), True, 10 ** 20 + 1])
    elif base in ("max_digits", "decimal_places") and rng.random() < 0.06:
        # coefficients near the context precision (28 digits): completing to `b` places may not fit
        b = rng.randint(0, 4)
        v = Decimal(rng.choice([10 ** 27, 10 ** 26 + 7, 10 ** 25, 10 ** 28 - 1, 123456789 * 10 ** 18])).scaleb(-rng.choice([0, 0, 1, 2]))
    elif base in ("max_digits", "decimal_places"):
        b = rng.randint(0, 6)
        v = rng.choice([Decimal(rng.choice(DEC_STRS)), rng.randint(-1200, 12000), Decimal(rng.randint(-99999, 99999)).scaleb(rng.randint(-5, 3)),
                        Decimal("Infinity"), Decimal("NaN"), rng.randint(-80, 80) / rng.choice([1, 2, 4, 8])])
    else:  # unique_items
        b = rng.random() < 0.9
        v = rnd_seq(rng, rng.choice(["list", "tuple", "set", "list", "deque", "deque", "frozenset"]))
    return {"op": "validator", "name": name, "value": encode(v), "bound": encode(b)}


def gen_cmp_case(rng):
    pool = lambda: rng.choice([rnd_num(rng, rng.choice(["int", "float", "Decimal"])), True, False, rng.choice(STRS), None,
                               Decimal("Infinity"), Decimal("-Infinity"), [1, 2], (1,), rng.randint(-3, 3)])
    return {"op": "cmp", "a": encode(pool()), "b": encode(pool())}


def cmp_reference(case):
    """CPython's own answers for the operator audit"""
    a, b = decode(case["a"]), decode(case["b"])

    def run(f):
        try:
            return {"ok": bool(f())}
        except TypeError:
            return {"err": "TypeError"}
        except InvalidOperation:
            return {"err": "InvalidOperation"}
    return {"lt": run(lambda: a < b), "le": run(lambda: a <= b), "eq": bool(a == b), "truthy": bool(a)}


# ------------------------------------------------------------------------------------------------

def canon_validators(vs):
    if not isinstance(vs, list):
        return vs
    out = []
    for n, b in vs:
        if n in ("enum", "lax_enum") and isinstance(b, dict) and any(k in b for k in ("t", "S", "F")):
            b = {"l": list(b.get("t") or b.get("S") or b.get("F") or [])}
        out.append([n, canon(b)])
    return out


class C02(Check):
    prop = "C02"
    props_modules = ["Utv.Props.C02"]
    driver = "C02"
    impl = "harness.c02:impl"
    uses_extract = True
    lax_mode = False
    validator_names = STRICT
    rule = ("(a) direct calls of every Constraints validator on (value, bound) pairs at and around the bounds (ints, dyadic floats incl. "
            "nan/inf/-0.0/±1ulp, Decimals incl. trailing zeros/exponents/carries, strs, list/tuple/set with ==-duplicates like 1/1.0/True); "
            "(b) declared constrained types (1-4 legal constraints, the library's own declaration checks decide legality) applied to values "
            "of the source type, with isinstance and a re-parse; (c) an audit of the modelled Python operators against CPython; "
            "(d) declared types built every way (2-3 Rule bases, 3 levels, diamond, override, cancel, rename, Rule.annotate, Base[...], "
            "Field(...) on Schema/DataClass) with the constraint set partitioned over the classes, contains/min_contains/max_contains with "
            "counts at 0, 1, bound-1, bound, bound+1, element types, post_validate hooks, types whose only check is contains or a hook: "
            "real __validators__ vs constraints visible through the MRO, isinstance vs parse verdict vs independent oracle. "
            "non-trivial = value within 1 step of a bound, or length within 1 of a limit, or a rejected value, or >= 2 constraints, "
            "or any declared-type case whose declaration the library accepted; distinct by (declaration, value)")
    assumptions = ["Py.* operator semantics (lean/Utv/Py/Basic.lean) and Prims (repr/str of floats and Decimals, re.fullmatch, float round) "
                   "are CPython's: audited on every run by the 'cmp' stream and by running every generated validator against the real one",
                   "float arithmetic (%, //, round on floats) is outside the Lean model: covered by the correspondence/oracle only"]
    budget = {"quick": 6000, "thorough": 150000}
    search_budget = {"quick": 8000, "thorough": 80000}

    decl_share = 0.3
    ptype_share = 0.08
    multi_share = 0.008

    def cases(self, tier, rng, n):
        out = []
        for _ in range(n):
            k0 = rng.random()
            if k0 < self.ptype_share:
                out.append(gen_ptype_case(rng))
                continue
            if k0 < self.ptype_share + (self.multi_share if tier != "thorough" else self.multi_share / 4):
                out.append(gen_multi_case(rng))
                continue
            if rng.random() < self.decl_share:
                out.append(gen_dict_decl_case(rng) if rng.random() < 0.08 else gen_decl_case(rng))
                continue
            k = rng.random()
            if self.lax_mode and k < 0.12:
                out.append(gen_lax_pair_case(rng))
            elif k < 0.45:
                out.append(gen_rule_case(rng, self.lax_mode))
            elif k < 0.9:
                out.append(gen_validator_case(rng, self.validator_names))
            else:
                out.append(gen_cmp_case(rng))
        return out

    def evaluate(self, cases):
        # the 'cmp' stream is answered by CPython itself (no utype involved)
        from .common import run_driver, run_impl
        idx = [i for i, c in enumerate(cases) if c["op"] != "cmp"]
        impl_sub = run_impl(self.impl, [cases[i] for i in idx], self.case_timeout)
        impl_outs = [None] * len(cases)
        for i, o in zip(idx, impl_sub):
            impl_outs[i] = o
        for i, c in enumerate(cases):
            if c["op"] == "cmp":
                impl_outs[i] = cmp_reference(c)
        model_outs = run_driver(self.driver, [self.model_line(c) for c in cases])
        return impl_outs, model_outs

    def model_line(self, case):
        line = dict(case)
        line["prims"] = prims_for(case)
        if case["op"] == "rule":
            lax = set(case.get("lax", []))
            line["constraints"] = [[("lax_" + n) if n in lax else n, b] for n, b in case["constraints"]]
        if case["op"] == "multi":
            return {"op": "skip"}
        if case["op"] in ("validator", "rule") and '"q":' in json.dumps(case.get("value")):
            return {"op": "skip"}         # a deque is outside PyVal: judged by the oracle and the re-parse only
        if case["op"] == "ptype":
            # the simple predefined types are strict constraint sets on a source type: the model runs the FROZEN declaration
            name, v = case["name"], dec2(case["value"])
            d = FROZEN_TYPES.get(name)
            if d is None or d["hooks"] or PTYPE_SOURCE.get(name) not in (int, float, str) or type(v) is not PTYPE_SOURCE[name]:
                return {"op": "skip"}
            cs = []
            for k, src in d["attrs"].items():
                if k in STRICT:
                    try:
                        cs.append([k, encode(eval(src, {"float": float, "__builtins__": {}}))])
                    except Exception:
                        return {"op": "skip"}
            rule_case = {"op": "rule", "origin": PTYPE_SOURCE[name].__name__, "constraints": cs, "lax": [], "value": encode(v)}
            return dict(rule_case, prims=prims_for(rule_case))
        if case["op"] == "decl":
            try:
                mro = mro_bodies(case)
            except Exception:
                return {"op": "skip"}
            line = {"op": "decl", "origin": case["origin"], "mro": mro, "types": case["types"], "value": case["value"],
                    "prims": line["prims"]}
            if case["origin"] == "dict" or '"q":' in json.dumps(case["value"]):
                line["value"] = None
                line["nomodel"] = True          # PyVal has no mappings: the model answers for the compiled validators only
        return line

    # -- correspondence -------------------------------------------------------------------------
    def compare(self, case, io, mo):
        if not isinstance(mo, dict) or "driver-error" in mo:
            return f"driver: {mo}"
        if "unmodelled" in mo and "validators" not in mo:
            return None
        op = case["op"]
        if op == "cmp":
            for k in ("lt", "le"):
                if "unmodelled" in mo[k]:
                    continue
                if mo[k] != io[k]:
                    return f"operator {k}: CPython {io[k]} model {mo[k]}"
            if mo["eq"] != io["eq"] or mo["truthy"] != io["truthy"]:
                return f"operator eq/truthy: CPython {io['eq']},{io['truthy']} model {mo['eq']},{mo['truthy']}"
            return None
        if op == "validator":
            if "ok" in io and "ok" in mo:
                return None if canon(io["ok"]) == canon(mo["ok"]) else f"validator result differs: impl {io['ok']} model {mo['ok']}"
            if "err" in io and "err" in mo:
                return None if io["err"] == mo["err"] else f"exception differs: impl {io['err']} model {mo['err']}"
            return f"verdict differs: impl {io} model {mo}"
        if op == "multi":
            return None
        if op == "ptype":
            p = io["parse"]
            if "escape" in p:
                return None
            if ("ok" in p) != ("ok" in mo):
                return f"predefined type {case['name']}: impl {p} / model of the frozen declaration {mo}"
            return None
        if op == "decl":
            if io.get("decl") != "ok" or "validators" not in mo:
                return None
            w = case.get("wrap") or {}
            # the class's compiled validators are the constraints visible through the MRO (names, modes, bounds, order)
            if canon_validators(io["validators"]) != canon_validators(mo["validators"]):
                return f"__validators__ differ: real class {io['validators']} / visible through the MRO {mo['validators']}"
            if w.get("ann") == "base" and w.get("cs"):
                return None       # a rule as the origin of a rule: the inner parse is another declaration (oracle only)
            if "parse" not in mo:
                return None
            p = io["parse"]
            if ("ok" in p) != ("ok" in mo["parse"]):
                return f"verdict differs: impl {p} model {mo['parse']}"
            if "ok" in p and canon(p["ok"]) != canon(mo["parse"]["ok"]):
                return f"parse result differs: impl {p['ok']} model {mo['parse']['ok']}"
            if io.get("isinstance") != mo.get("isinstance"):
                return f"isinstance differs: impl {io.get('isinstance')} model {mo.get('isinstance')}"
            for name, c in sorted((io.get("ctx") or {}).items()):
                if "accepted" in c and c["accepted"] != ("ok" in mo["parse"]):
                    return f"as {name}: impl accepted={c['accepted']} model (a constrained member is always parsed) {mo['parse']}"
            return None
        if op == "rule":
            if io.get("decl") != "ok":
                return None
            p = io["parse"]
            if "ok" in p and "ok" in mo:
                return None if canon(p["ok"]) == canon(mo["ok"]) else f"parse result differs: impl {p['ok']} model {mo['ok']}"
            if "perr" in p and "err" in mo:
                return None
            return f"verdict differs: impl {p} model {mo}"
        return None

    # -- the property on the real code ------------------------------------------------------------
    def spec(self, case, io, mo):
        op = case["op"]
        if op == "cmp":
            return None
        if op == "validator":
            name = case["name"]
            if name.startswith("lax_"):
                return None
            v, b = decode(case["value"]), decode(case["bound"])
            if name in ("max_digits", "decimal_places", "multiple_of") and not isinstance(v, (int, float, Decimal)):
                return None
            if name == "unique_items" and not isinstance(v, (list, tuple, set, frozenset, _deque)):
                return None
            if name == "enum" and not isinstance(b, (list, tuple, set)):
                return None
            try:
                want = sat(name, v, b)
            except Undefined:
                return None
            except Exception:
                return None
            got = "ok" in io
            if want != got:
                return f"{name}({v!r}, {b!r}): documented sense says {'accept' if want else 'reject'}, validator {'accepted' if got else 'raised ' + str(io.get('err'))}"
            if got:
                r = decode(io["ok"])
                try:
                    same = (r == v) or (r != r and v != v)
                except Exception:
                    same = False
                if not same:
                    return f"{name}({v!r}, {b!r}) returned {r!r}, not equal to its input"
            return None
        if op == "ptype":
            name, v = case["name"], dec2(case["value"])
            p = io["parse"]
            if "escape" in p:
                return None
            got = "ok" in p
            try:
                want = ptype_sat(name, v)
            except Undefined:
                want = None
            except Exception:
                want = None
            if want is not None and want != got:
                return (f"types.{name}({v!r}): by its documented meaning the value is {'valid' if want else 'not valid'} but parse "
                        f"{'succeeded with ' + repr(dec2(p['ok'])) if got else 'failed with ' + str(p.get('perr'))}")
            if want and got and not io.get("result_equal"):
                return f"types.{name}({v!r}) accepted but returned {dec2(p['ok'])!r}, not equal to its input"
            src = PTYPE_SOURCE.get(name)
            if ptype_has_source(name) and src is not None and type(v) is src and io.get("isinstance") != got:
                return f"isinstance({v!r}, types.{name}) = {io.get('isinstance')} but parse {'succeeds' if got else 'fails'}"
            return None
        if op == "multi":
            if "sequence" not in io:
                return None
            probes = [dec2(e) for e in case["probes"]]

            def text(i):
                d = case["decls"][i]
                return f"{d['via']}({d.get('origin')}, {', '.join(k + '=' + repr(dec2(b)) for k, b in d['cs'])})"
            seq_text = "; ".join(text(i) for i in range(len(case["decls"])))
            for i, (sq, al) in enumerate(zip(io["sequence"], io["alone"])):
                if isinstance(sq, str) or isinstance(al, str) or sq is None or al is None:
                    if sq != al:
                        return f"declaration #{i} {text(i)} alone: {al if isinstance(al, str) else 'declared'}; in the sequence [{seq_text}]: {sq if isinstance(sq, str) else 'declared'}"
                    continue
                for v, a, b in zip(probes, sq, al):
                    if "escape" in a or "escape" in b:
                        continue
                    same_ = ("ok" in a) == ("ok" in b) and a.get("isinstance") == b.get("isinstance") and \
                        ("ok" not in a or (a["type"] == b["type"] and json.dumps(a["ok"], sort_keys=True) == json.dumps(b["ok"], sort_keys=True)))
                    if not same_:
                        return (f"declaration #{i} {text(i)} on {v!r}: alone in a fresh process -> {b}, after the other declarations "
                                f"of [{seq_text}] -> {a}")
                    try:
                        want = multi_expected(case["decls"][i], v)
                    except Undefined:
                        continue
                    except Exception:
                        continue
                    if want != ("ok" in a):
                        return f"declaration #{i} {text(i)} on {v!r}: the declared constraint {'holds' if want else 'does not hold'} but parse gave {a}"
            return None
        if op == "decl":
            if io.get("decl") != "ok":
                return None
            v = dec2(case["value"])
            p = io["parse"]
            if "escape" in p:
                return None   # C04's business
            got = "ok" in p
            what = self._decl_text(case)
            if type(v) is not ORIGINS[case["origin"]]:
                return None
            if io.get("isinstance") != got:
                return f"isinstance({v!r}, T) = {io.get('isinstance')} but parse {'succeeds' if got else 'fails'}; T: {what}"
            try:
                want = decl_expected(case)
            except Undefined:
                return None
            except Exception:
                return None
            if want != got:
                return (f"{what} on {v!r}: the declared constraints {'hold' if want else 'do not hold'} but parse "
                        f"{'succeeded' if got else 'failed with ' + str(p.get('perr'))} (isinstance = {io.get('isinstance')})")
            if got and not io.get("result_equal"):
                return f"{what} on {v!r}: accepted but result {decode(p['ok'])!r} != input"
            # the declared type as a member of a union / Optional / List and as a field annotation of those forms: a value
            # of exactly the origin type is accepted there as a value of T exactly when T itself accepts it
            for name, c in sorted((io.get("ctx") or {}).items()):
                if "accepted" not in c:
                    continue
                if c["accepted"] != got:
                    return (f"{what} on {v!r}: T itself {'accepts' if got else 'rejects'} the value (isinstance = {io.get('isinstance')}) but as "
                            f"{name} it is {'accepted' if c['accepted'] else 'not accepted'}")
            vf = io.get("via_field")
            if vf is not None and "escape" not in vf:
                if ("ok" in vf) != got:
                    return f"{what} on {v!r}: the data class field {'accepts' if 'ok' in vf else 'rejects'} what its type {'accepts' if got else 'rejects'}"
                if got and canon(vf["ok"]) != canon(p["ok"]):
                    return f"{what} on {v!r}: field result {vf['ok']} differs from type result {p['ok']}"
            return None
        if op == "rule":
            if io.get("decl") != "ok" or case.get("lax"):
                return None
            v = decode(case["value"])
            p = io["parse"]
            if "escape" in p:
                return None   # C04's business
            try:
                want = expected_accept(case)
            except Undefined:
                return None
            except Exception:
                return None
            got = "ok" in p
            if want != got:
                return f"constraints {self._cs(case)} on {v!r}: every constraint {'holds' if want else 'does not hold'} but parse {'succeeded' if got else 'failed with ' + str(p.get('perr'))}"
            if got:
                r = decode(p["ok"])
                try:
                    same = (r == v) or (r != r and v != v)
                except Exception:
                    same = False
                if not same:
                    return f"constraints {self._cs(case)} on {v!r}: accepted but result {r!r} != input"
            if io.get("isinstance") != got:
                return f"isinstance({v!r}, T) = {io.get('isinstance')} but parse {'succeeds' if got else 'fails'} for constraints {self._cs(case)}"
            return None
        return None

    def classify(self, case, io, why):
        # known finding decimal-places-precision: completing a Decimal to `d` places needs more than 28 digits
        try:
            if case["op"] == "validator" and case["name"] == "decimal_places" and io.get("err") == "InvalidOperation":
                v, d = decode(case["value"]), decode(case["bound"])
            elif case["op"] == "rule" and not case.get("lax") and "perr" in io.get("parse", {}):
                cs = self._cs(case)
                v, d = decode(case["value"]), cs.get("decimal_places")
            else:
                return None
            if isinstance(v, Decimal) and v.is_finite() and isinstance(d, int) and not isinstance(d, bool):
                sign, digits, exp = v.as_tuple()
                if -exp <= d and len(digits) + (exp + d) > 28 and any(digits):
                    return "decimal-places-precision"
        except Exception:
            return None
        return None

    @staticmethod
    def _cs(case):
        return {n: decode(b) for n, b in case["constraints"]}

    @staticmethod
    def _decl_text(case):
        def body(attrs):
            out = []
            for k, a in attrs:
                if a == "cancel":
                    out.append(f"{k}=unprovided")
                elif k == "contains":
                    out.append(f"contains=<{case['types'][a['v']['o']]}>")
                elif k == "__args__":
                    out.append("__args__=" + str([case["types"][x["o"]] for x in a["v"]["t"]]))
                elif k in HOOK_KEYS:
                    out.append(f"{k}=<{a['v']['s']}>")
                else:
                    out.append(f"{k}={decode(a['v'])!r}")
            return ", ".join(out) or "pass"
        parts = [f"class {c['name']}({', '.join(case['origin'] if b == 'origin' else b for b in c['bases'])}): {body(c['attrs'])}"
                 for c in case["classes"]]
        w = case.get("wrap")
        if w:
            parts.append(f"{w['kind']}({ {k: v for k, v in w.items() if k not in ('kind', 'cs')} }, constraints: {body(w.get('cs', []))})")
        return "; ".join(parts)

    def key(self, case, io):
        if case["op"] == "cmp":
            return None
        if case["op"] in ("ptype", "multi"):
            return json.dumps(case, sort_keys=True)
        try:
            if case["op"] == "validator":
                v, b = decode(case["value"]), decode(case["bound"])
                near = False
                if isinstance(b, (int, float, Decimal)) and isinstance(v, (int, float, Decimal)) and not isinstance(b, bool):
                    try:
                        near = abs(v - b) <= 1
                    except Exception:
                        near = False
                if isinstance(b, int) and hasattr(v, "__len__"):
                    near = abs(len(v) - b) <= 1
                if near or "err" in io:
                    return json.dumps([case["name"], case["value"], case["bound"]], sort_keys=True)
                return None
            if io.get("decl") != "ok":
                return None
            if case["op"] == "decl":
                return json.dumps([case["classes"], case["wrap"], case["types"], case["value"]], sort_keys=True)
            if len(case["constraints"]) >= 2 or "perr" in io.get("parse", {}):
                return json.dumps([case["constraints"], case.get("lax"), case["value"]], sort_keys=True)
        except Exception:
            return None
        return None

    def distribution(self, case, io):
        if case["op"] == "validator":
            return f"validator/{case['name']}/{'ok' if 'ok' in io else io.get('err')}"
        if case["op"] == "ptype":
            return f"ptype/{case['name']}/{'ok' if 'ok' in io['parse'] else 'perr'}"
        if case["op"] == "multi":
            return f"multi/{'+'.join(sorted(set(d['via'] for d in case['decls'])))}"
        if case["op"] == "decl":
            if io.get("decl") != "ok":
                return f"decl/{case['shape']}/decl-{io.get('decl')}"
            return f"decl/{case['shape']}/{'+'.join(case['feats']) or 'plain'}/{'ok' if 'ok' in io['parse'] else 'perr'}"
        if case["op"] == "rule":
            if io.get("decl") != "ok":
                return f"rule/{case['origin']}/decl-{io.get('decl')}"
            return f"rule/{case['origin']}/{'lax' if case.get('lax') else 'strict'}/{'ok' if 'ok' in io['parse'] else 'perr'}"
        return "cmp"

    def neighbours(self, case, rng):
        out = []
        if case["op"] == "validator":
            v, b = decode(case["value"]), decode(case["bound"])
            for x in around(rng, b) + around(rng, v):
                out.append(dict(case, value=encode(x)))
        elif case["op"] == "ptype":
            for _ in range(30):
                c = gen_ptype_case(rng)
                out.append(dict(c, name=case["name"]) if rng.random() < 0.5 and PTYPE_SOURCE.get(c["name"]) is PTYPE_SOURCE.get(case["name"]) else c)
        elif case["op"] == "multi":
            out += [gen_multi_case(rng) for _ in range(4)]
        elif case["op"] == "decl":
            v = dec2(case["value"])
            if isinstance(v, (list, tuple, set)):
                items = list(v)
                T = type(v)
                for i in range(len(items)):
                    out.append(dict(case, value=encode(T(items[:i] + items[i + 1:]))))
                for x in [0, 1, -1, 2, 3, 5, "a", "ab", "", Decimal("0.5"), Decimal("100")]:
                    try:
                        out.append(dict(case, value=encode(T(items + [x]))))
                    except Exception:
                        pass
            else:
                for body in [c["attrs"] for c in case["classes"]] + [(case.get("wrap") or {}).get("cs", [])]:
                    for k, a in body:
                        if isinstance(a, dict) and k in ("gt", "ge", "lt", "le", "multiple_of", "max_digits"):
                            for x in around(rng, decode(a["v"])):
                                try:
                                    out.append(dict(case, value=encode(CLS_BY_NAME[case["origin"]](x))))
                                except Exception:
                                    pass
            for _ in range(6):
                out.append(gen_decl_case(rng))
        elif case["op"] == "rule":
            for n, b in case["constraints"]:
                for x in around(rng, decode(b)):
                    try:
                        out.append(dict(case, value=encode(CLS_BY_NAME[case["origin"]](x))))
                    except Exception:
                        pass
            # single constraints of the same declaration
            for c in case["constraints"]:
                out.append(dict(case, constraints=[c], lax=[x for x in case.get("lax", []) if x == c[0]]))
        return out

    def extra_static(self, tier):
        notes = (self._notes())
        out = [f"T1: {n}" for n in notes]
        if self.prop == "C02":
            from .common import REPO
            out += types_static_obligation(REPO)
        return out

    @staticmethod
    def _notes():
        from .common import LEAN
        p = LEAN / "Utv" / "Gen" / "NOTES.txt"
        if not p.exists():
            return ["Gen/NOTES.txt missing"]
        # only what these two properties' theorems are about (the translator serves other properties' functions as well)
        mine = ("Constraints.", "functional.", "__constraints__", "TYPE_EXACT_TOLERANCE", "utils/functional.py")
        return [l for l in p.read_text().splitlines() if l.strip() and any(m in l for m in mine)]


CHECK = C02()
