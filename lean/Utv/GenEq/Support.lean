/-
Value universe and operators for the T1-translated *object* code (ParserField predicates, `Options.__init__`,
`RuntimeContext`, `TypeRegistry`): Python functions that read attributes of `self` / `options`, call user
callables, test `unprovided(x)`, `x is True`, `isinstance(x, (str, list, …))`, `mode in 'rw'`.

Like `Utv/Py/Basic.lean` this file is *modelled* CPython behaviour and belongs to the trusted base of every
`Cxx_gen_*` obligation.  Operators are total and explicit about raising (`M V α = Except (Exc V) α`); whatever is
outside the modelled fragment raises `Exc.unmodelled`, never a guess.  `V` is the hand model's own abstract value
type (`Model.C05` is parametric in it); a value of `V` is carried as `OVal.val v` and the operators refuse to look
inside it.
-/
namespace Utv.Obj

inductive SeqK where
  | list | tuple | set | frozenset
  deriving DecidableEq, Repr

/-- Python values the translated object code handles. -/
inductive OVal (V : Type) where
  | none
  | unprovided                                    -- the singleton `utype.utils.datastructures.unprovided`
  | ellipsis
  | bool (b : Bool)
  | int (i : Int)
  | str (s : String)
  | seq (k : SeqK) (xs : List (OVal V))
  | dict (kvs : List (OVal V × OVal V))           -- insertion-ordered, keys pairwise different
  | fn (k : Nat)                                  -- a callable known by number (user predicate, factory, detector…)
  | cls (k : Nat)                                 -- a class known by number (its attributes are the world's business)
  | obj (cls : String) (attrs : List (String × OVal V))   -- an instance: class name + `__dict__` (+ class attributes)
  | val (v : V)                                   -- a value of the hand model's abstract value type

inductive Exc (V : Type) where
  | raised (e : OVal V)          -- `raise X(k=v, …)` (an `obj "X" [(k, v), …]`) or `raise e`
  | typeError
  | valueError
  | attributeError (name : String)
  | keyError
  | indexError
  | unmodelled (why : String)

abbrev M (V : Type) := Except (Exc V)

/-- a method that assigns to `self`: the (possibly updated) receiver travels with the outcome, also when the
method leaves through a `raise` statement -/
inductive Outcome (V : Type) where
  | ret (v : OVal V)
  | raise (e : OVal V)

/-- what calling a callable does is not utype's business: every translated function takes `W : World V`,
every theorem is for all `W` (or for the `World` an encoding builds from the hand model's own world) -/
structure World (V : Type) where
  /-- calling a value: a user predicate `no_input(value)`, `default_factory()`, a detector, a validator -/
  call : OVal V → List (OVal V) → M V (OVal V)
  /-- calling a function of utype itself that is not translated here, by name (`copy_value`, `Options()`) -/
  ext : String → List (OVal V) → M V (OVal V)
  /-- `getattr(C, name)` for a class known by number; `none` = no such attribute -/
  clsAttr : Nat → String → Option (OVal V)
  /-- `issubclass(C, (names…))` for a class value -/
  issubclass : OVal V → List String → M V Bool := fun _ _ => throw (.unmodelled "issubclass")
  /-- a method of a *threaded* object that is not translated (`context.transformer(value, t)` on the caller's own
  context): it may change the object, which is handed back with the outcome — also when the method raises -/
  method : String → OVal V → List (OVal V) → M V (OVal V × Outcome V) := fun _ _ _ => throw (.unmodelled "method")

variable {V : Type}

/-! ### identity tests against singletons, `unprovided(x)` -/

def OVal.isNone : OVal V → Bool
  | .none => true
  | _ => false

def OVal.isTrue : OVal V → Bool
  | .bool true => true
  | _ => false

def OVal.isFalse : OVal V → Bool
  | .bool false => true
  | _ => false

def OVal.isEllipsis : OVal V → Bool
  | .ellipsis => true
  | _ => false

/-- `unprovided(x)`: `Unprovided.__call__` is `isinstance(v, Unprovided)` (datastructures.py; the extractor checks
that this is still its body) -/
def OVal.isUnprovided : OVal V → Bool
  | .unprovided => true
  | _ => false

/-! ### truthiness, classes -/

/-- `bool(x)`.  Instances (`obj`) are the classes the encodings build (`Options`, `RuntimeContext`, `ParserField`,
`TypeRegistry`, exceptions): none of them defines `__bool__` / `__len__`, so they are true. -/
def truthy : OVal V → M V Bool
  | .none => pure false
  | .unprovided => pure false          -- `Unprovided.__bool__` returns False
  | .ellipsis => pure true
  | .bool b => pure b
  | .int i => pure (i != 0)
  | .str s => pure (s.toList != [])
  | .seq _ xs => pure (!xs.isEmpty)
  | .dict kvs => pure (!kvs.isEmpty)
  | .fn _ => pure true
  | .cls _ => pure true
  | .obj _ _ => pure true
  | .val _ => throw (.unmodelled "truthiness of an abstract value")

@[simp] theorem truthy_none : truthy (OVal.none : OVal V) = .ok false := rfl
@[simp] theorem truthy_unprovided : truthy (OVal.unprovided : OVal V) = .ok false := rfl
@[simp] theorem truthy_bool (b : Bool) : truthy (OVal.bool b : OVal V) = .ok b := rfl
@[simp] theorem truthy_int (i : Int) : truthy (OVal.int i : OVal V) = .ok (i != 0) := rfl
@[simp] theorem truthy_str (s : String) : truthy (OVal.str s : OVal V) = .ok (s.toList != []) := rfl
@[simp] theorem truthy_seq (k : SeqK) (xs : List (OVal V)) : truthy (OVal.seq k xs) = .ok (!xs.isEmpty) := rfl
@[simp] theorem truthy_dict (kvs : List (OVal V × OVal V)) : truthy (OVal.dict kvs) = .ok (!kvs.isEmpty) := rfl
@[simp] theorem truthy_fn (k : Nat) : truthy (OVal.fn k : OVal V) = .ok true := rfl
@[simp] theorem truthy_cls (k : Nat) : truthy (OVal.cls k : OVal V) = .ok true := rfl
@[simp] theorem truthy_obj (c : String) (a : List (String × OVal V)) : truthy (OVal.obj c a) = .ok true := rfl

def SeqK.name : SeqK → String
  | .list => "list" | .tuple => "tuple" | .set => "set" | .frozenset => "frozenset"

/-- `isinstance(x, (c₁, …))` for class names; `bool` is a subclass of `int` -/
def isinstance (x : OVal V) (classes : List String) : M V Bool :=
  match x with
  | .none => pure (classes.contains "NoneType")
  | .unprovided => pure (classes.contains "Unprovided")
  | .ellipsis => pure (classes.contains "ellipsis")
  | .bool _ => pure (classes.contains "bool" || classes.contains "int")
  | .int _ => pure (classes.contains "int")
  | .str _ => pure (classes.contains "str")
  | .seq k _ => pure (classes.contains k.name)
  | .dict _ => pure (classes.contains "dict")
  | .fn _ => pure (classes.contains "function")
  | .cls _ => pure (classes.contains "type")
  | .obj c _ => pure (classes.contains c)
  | .val _ => throw (.unmodelled "class of an abstract value")

/-- `callable(x)` -/
def callable : OVal V → M V Bool
  | .fn _ => pure true
  | .cls _ => pure true
  | .unprovided => pure true           -- `Unprovided` defines `__call__`
  | .obj _ _ => throw (.unmodelled "callable(instance)")
  | .val _ => throw (.unmodelled "callable(abstract value)")
  | _ => pure false

/-! ### equality on scalars, membership -/

def intOf? : OVal V → Option Int
  | .int i => some i
  | .bool b => some (if b then 1 else 0)
  | _ => Option.none

/-- `a == b` where both are scalars (None, bool/int, str, callables, the singletons); `none` = outside the fragment -/
def eqS (a b : OVal V) : Option Bool :=
  match a, b with
  | .unprovided, x => some x.isUnprovided         -- `Unprovided.__eq__(other)` is `self(other)`
  | x, .unprovided => some x.isUnprovided
  | .none, .none => some true
  | .ellipsis, .ellipsis => some true
  | .str s, .str t => some (s == t)
  | .fn j, .fn k => some (j == k)
  | .cls j, .cls k => some (j == k)
  | .val _, _ => Option.none
  | _, .val _ => Option.none
  | .obj _ _, _ => Option.none
  | _, .obj _ _ => Option.none
  | .seq _ _, _ => Option.none
  | _, .seq _ _ => Option.none
  | .dict _, _ => Option.none
  | _, .dict _ => Option.none
  | a, b =>
    match intOf? a, intOf? b with
    | some x, some y => some (x == y)
    | _, _ => some false

def eq (a b : OVal V) : M V Bool :=
  match eqS a b with
  | some r => pure r
  | Option.none => throw (.unmodelled "== outside the scalar fragment")

def memS (x : OVal V) : List (OVal V) → M V Bool
  | [] => pure false
  | y :: ys => do if (← eq x y) then pure true else memS x ys

/-- does `needle` occur in `hay` as a contiguous block (`needle in hay` on strings) -/
def isInfixB (needle : List Char) : List Char → Bool
  | [] => needle.isEmpty
  | c :: cs => needle.isPrefixOf (c :: cs) || isInfixB needle cs

def lookupKey (k : OVal V) : List (OVal V × OVal V) → M V (Option (OVal V))
  | [] => pure Option.none
  | (k', v) :: rest => do if (← eq k k') then pure (some v) else lookupKey k rest

/-- `item in container` -/
def contains (container item : OVal V) : M V Bool :=
  match container with
  | .str s => match item with
    | .str t => pure (isInfixB t.toList s.toList)
    | _ => throw .typeError
  | .seq _ xs => memS item xs
  | .dict kvs => do pure (← lookupKey item kvs).isSome
  | .val _ => throw (.unmodelled "membership in an abstract value")
  | _ => throw .typeError

/-! ### attributes -/

def lookupAttr (name : String) : List (String × OVal V) → Option (OVal V)
  | [] => Option.none
  | (n, v) :: rest => if name = n then some v else lookupAttr name rest

def setAttrL (name : String) (v : OVal V) : List (String × OVal V) → List (String × OVal V)
  | [] => [(name, v)]
  | (n, w) :: rest => if name = n then (n, v) :: rest else (n, w) :: setAttrL name v rest

def getattr (x : OVal V) (name : String) : M V (OVal V) :=
  match x with
  | .obj _ attrs => match lookupAttr name attrs with
    | some v => pure v
    | Option.none => throw (.attributeError name)
  | .val _ => throw (.unmodelled "attribute of an abstract value")
  | _ => throw (.attributeError name)

def setattr (x : OVal V) (name : String) (v : OVal V) : M V (OVal V) :=
  match x with
  | .obj c attrs => pure (.obj c (setAttrL name v attrs))
  | _ => throw (.unmodelled "attribute assignment on a non-instance")

/-- `hasattr(x, name)` / `getattr(x, name)` with a computed name (`hasattr(t, self.shortcut)`) -/
def hasattrW (W : World V) (x name : OVal V) : M V Bool :=
  match name with
  | .str n => match x with
    | .obj _ attrs => pure (lookupAttr n attrs).isSome
    | .cls k => pure (W.clsAttr k n).isSome
    | .val _ => throw (.unmodelled "attribute of an abstract value")
    | _ => pure false
  | _ => throw .typeError

def getattrW (W : World V) (x name : OVal V) : M V (OVal V) :=
  match name with
  | .str n => match x with
    | .cls k => match W.clsAttr k n with
      | some v => pure v
      | Option.none => throw (.attributeError n)
    | x => getattr x n
  | _ => throw .typeError

/-- `getattr(x, name, default)` -/
def getattrD (W : World V) (x name dflt : OVal V) : M V (OVal V) :=
  match name with
  | .str n => match x with
    | .obj _ attrs => pure ((lookupAttr n attrs).getD dflt)
    | .cls k => pure ((W.clsAttr k n).getD dflt)
    | .val _ => W.ext "getattr" [x, name, dflt]        -- an abstract value: the world's
    | _ => pure dflt
  | _ => throw .typeError

/-! ### numbers -/

def add (a b : OVal V) : M V (OVal V) :=
  match intOf? a, intOf? b with
  | some x, some y => pure (.int (x + y))
  | _, _ => throw (.unmodelled "+ operands")

def sub (a b : OVal V) : M V (OVal V) :=
  match intOf? a, intOf? b with
  | some x, some y => pure (.int (x - y))
  | _, _ => throw (.unmodelled "- operands")

def neg (a : OVal V) : M V (OVal V) :=
  match intOf? a with
  | some x => pure (.int (-x))
  | Option.none => throw (.unmodelled "unary - operand")

/-- a `datetime.timedelta` is the instance with its three normalised attributes (`0 ≤ seconds < 86400`,
`0 ≤ microseconds < 10^6`, `days` of any sign) -/
def mkDelta (us : Int) : OVal V :=
  .obj "timedelta" [("days", .int (us / 86400000000)), ("seconds", .int (us % 86400000000 / 1000000)),
    ("microseconds", .int (us % 1000000))]

/-- total microseconds of a timedelta instance -/
def deltaUs? : OVal V → Option Int
  | .obj "timedelta" [("days", .int d), ("seconds", .int s), ("microseconds", .int m)] =>
    some ((d * 86400 + s) * 1000000 + m)
  | _ => Option.none

/-- `timedelta(n)`: n days -/
def timedeltaDays (n : OVal V) : M V (OVal V) :=
  match intOf? n with
  | some d => pure (mkDelta (d * 86400000000))
  | Option.none => throw (.unmodelled "timedelta argument")

def lt (a b : OVal V) : M V Bool :=
  match intOf? a, intOf? b with
  | some x, some y => pure (decide (x < y))
  | _, _ => match deltaUs? a, deltaUs? b with
   | some x, some y => pure (decide (x < y))
   | _, _ => match a, b with
    | .val _, _ => throw (.unmodelled "ordering of an abstract value")
    | _, .val _ => throw (.unmodelled "ordering of an abstract value")
    | .str _, .str _ => throw (.unmodelled "string ordering")
    | _, _ => throw .typeError

/-- `a * b`: ints; a timedelta times an int -/
def mul (a b : OVal V) : M V (OVal V) :=
  match intOf? a, intOf? b with
  | some x, some y => pure (.int (x * y))
  | _, _ => match deltaUs? a, intOf? b with
    | some us, some k => pure (mkDelta (us * k))
    | _, _ => throw (.unmodelled "* operands")

/-- `a // b`, `a % b` on ints (floor semantics) -/
def floordiv (a b : OVal V) : M V (OVal V) :=
  match intOf? a, intOf? b with
  | some x, some y => if y = 0 then throw (.unmodelled "ZeroDivisionError") else pure (.int (x.fdiv y))
  | _, _ => throw (.unmodelled "// operands")

def mod (a b : OVal V) : M V (OVal V) :=
  match intOf? a, intOf? b with
  | some x, some y => if y = 0 then throw (.unmodelled "ZeroDivisionError") else pure (.int (x.fmod y))
  | _, _ => throw (.unmodelled "% operands")

/-! ### `str.format` on the fragment used: `{}` (a str, or an int in decimal) and `{:0Wd}` (zero-padded int, one-digit width) -/

def natDigits (n : Nat) : List Char := Nat.toDigits 10 n

def intRepr (i : Int) : List Char := if i < 0 then '-' :: natDigits i.natAbs else natDigits i.toNat

def padDigits (w n : Nat) : List Char := List.replicate (w - (natDigits n).length) '0' ++ natDigits n

/-- `{:0Wd}`: the width counts the sign -/
def padInt (w : Nat) (i : Int) : List Char :=
  if i < 0 then '-' :: padDigits (w - 1) i.natAbs else padDigits w i.toNat

def fmtField (spec : List Char) (x : OVal V) : M V (List Char) :=
  match spec, x with
  | [], .str s => pure s.toList
  | [], .int i => pure (intRepr i)
  | [':', '0', w, 'd'], .int i => pure (padInt (w.toNat - '0'.toNat) i)
  | _, _ => throw (.unmodelled "format field")

/-- the scanner: outside a field (`none`) or inside one with the spec read so far, reversed -/
def fmtGo : Option (List Char) → List Char → List (OVal V) → M V (List Char)
  | Option.none, [], _ => pure []
  | some _, [], _ => throw .valueError
  | Option.none, c :: r, args =>
    if c = '{' then fmtGo (some []) r args
    else if c = '}' then throw (.unmodelled "brace escape")
    else do pure (c :: (← fmtGo Option.none r args))
  | some sp, c :: r, args =>
    if c = '}' then
      match args with
      | [] => throw .indexError
      | a :: as => do pure ((← fmtField sp.reverse a) ++ (← fmtGo Option.none r as))
    else fmtGo (some (c :: sp)) r args

/-- `fmt.format(*args)` -/
def strFormat (fmt : OVal V) (args : List (OVal V)) : M V (OVal V) :=
  match fmt with
  | .str s => do pure (.str (String.ofList (← fmtGo Option.none s.toList args)))
  | _ => throw (.unmodelled ".format on a non-str")

def le (a b : OVal V) : M V Bool :=
  match intOf? a, intOf? b with
  | some x, some y => pure (decide (x ≤ y))
  | _, _ => match a, b with
    | .val _, _ => throw (.unmodelled "ordering of an abstract value")
    | _, .val _ => throw (.unmodelled "ordering of an abstract value")
    | .str _, .str _ => throw (.unmodelled "string ordering")
    | _, _ => throw .typeError

def gt (a b : OVal V) : M V Bool := lt b a
def ge (a b : OVal V) : M V Bool := le b a

/-! ### containers -/

def len : OVal V → M V (OVal V)
  | .str s => pure (.int s.length)
  | .seq _ xs => pure (.int xs.length)
  | .dict kvs => pure (.int kvs.length)
  | .val _ => throw (.unmodelled "len of an abstract value")
  | _ => throw .typeError

def iter : OVal V → M V (List (OVal V))
  | .seq _ xs => pure xs
  | .dict kvs => pure (kvs.map (·.1))
  | .str s => pure (s.toList.map fun c => .str (String.singleton c))
  | .val _ => throw (.unmodelled "iteration over an abstract value")
  | _ => throw .typeError

def enumFrom (i : Nat) : List (OVal V) → List (OVal V)
  | [] => []
  | x :: xs => .seq .tuple [.int i, x] :: enumFrom (i + 1) xs

/-- `enumerate(x)`: the pairs `(index, item)` -/
def enumerate (x : OVal V) : M V (List (OVal V)) := do pure (enumFrom 0 (← iter x))

/-- `list(x)` -/
def toList (x : OVal V) : M V (OVal V) := do pure (.seq .list (← iter x))

/-- `lst.append(item)`: the new list -/
def append (lst item : OVal V) : M V (OVal V) :=
  match lst with
  | .seq .list xs => pure (.seq .list (xs ++ [item]))
  | _ => throw (.unmodelled "append on a non-list")

/-- `lst.extend(other)` -/
def extend (lst other : OVal V) : M V (OVal V) :=
  match lst with
  | .seq .list xs => do pure (.seq .list (xs ++ (← iter other)))
  | _ => throw (.unmodelled "extend on a non-list")

/-- `a + b` on two lists (`[x] + self._registry`) -/
def concat (a b : OVal V) : M V (OVal V) :=
  match a, b with
  | .seq .list xs, .seq .list ys => pure (.seq .list (xs ++ ys))
  | .seq .tuple xs, .seq .tuple ys => pure (.seq .tuple (xs ++ ys))
  | _, _ => add a b

def index (v i : OVal V) : M V (OVal V) :=
  match v, i with
  | .seq k xs, .int n =>
    if k == .set || k == .frozenset then throw .typeError else
    let j := if n < 0 then n + xs.length else n
    if j < 0 then throw .indexError else
    match xs[j.toNat]? with
    | some x => pure x
    | Option.none => throw .indexError
  | .dict kvs, k => do
    match (← lookupKey k kvs) with
    | some x => pure x
    | Option.none => throw .keyError
  | _, _ => throw (.unmodelled "subscript")

def unpack2 (v : OVal V) : M V (OVal V × OVal V) :=
  match v with
  | .seq _ [a, b] => pure (a, b)
  | .seq _ _ => throw .valueError
  | _ => throw (.unmodelled "unpacking a non-sequence")

def unpack3 (v : OVal V) : M V (OVal V × OVal V × OVal V) :=
  match v with
  | .seq _ [a, b, c] => pure (a, b, c)
  | .seq _ _ => throw .valueError
  | _ => throw (.unmodelled "unpacking a non-sequence")

/-- `d.get(k)` -/
def dictGet (d k : OVal V) : M V (OVal V) :=
  match d with
  | .dict kvs => do pure ((← lookupKey k kvs).getD .none)
  | _ => throw (.unmodelled ".get on a non-dict")

def setKey (k v : OVal V) : List (OVal V × OVal V) → M V (List (OVal V × OVal V))
  | [] => pure [(k, v)]
  | (k', w) :: rest => do
    if (← eq k k') then pure ((k', v) :: rest) else pure ((k', w) :: (← setKey k v rest))

/-- `d[k] = v`: the new dict -/
def dictSet (d k v : OVal V) : M V (OVal V) :=
  match d with
  | .dict kvs => do pure (.dict (← setKey k v kvs))
  | _ => throw (.unmodelled "item assignment on a non-dict")

/-- `dict(d)`: a copy -/
def dictCopy (d : OVal V) : M V (OVal V) :=
  match d with
  | .dict kvs => pure (.dict kvs)
  | _ => throw (.unmodelled "dict() of a non-dict")

def updKeys : List (OVal V × OVal V) → List (OVal V × OVal V) → M V (List (OVal V × OVal V))
  | acc, [] => pure acc
  | acc, (k, v) :: rest => do updKeys (← setKey k v acc) rest

/-- `d.update(other)`: the new dict (keys of `d` keep their place, new keys are appended in `other`'s order) -/
def dictUpdate (d other : OVal V) : M V (OVal V) :=
  match d, other with
  | .dict kvs, .dict more => do pure (.dict (← updKeys kvs more))
  | _, _ => throw (.unmodelled ".update on a non-dict")

/-- `d.items()`: the pairs, as tuples -/
def dictItems (d : OVal V) : M V (OVal V) :=
  match d with
  | .dict kvs => pure (.seq .list (kvs.map fun p => .seq .tuple [p.1, p.2]))
  | _ => throw (.unmodelled ".items on a non-dict")

def delKey (k : OVal V) : List (OVal V × OVal V) → M V (List (OVal V × OVal V))
  | [] => pure []
  | (k', w) :: rest => do
    if (← eq k k') then delKey k rest else pure ((k', w) :: (← delKey k rest))

/-- `del d[k]`: the new dict; KeyError when the key is missing -/
def dictDel (d k : OVal V) : M V (OVal V) :=
  match d with
  | .dict kvs => do
    if (← lookupKey k kvs).isSome then pure (.dict (← delKey k kvs)) else throw .keyError
  | _ => throw (.unmodelled "item deletion on a non-dict")

/-- `d[k]`: KeyError when the key is missing -/
def dictItem (d k : OVal V) : M V (OVal V) :=
  match d with
  | .dict kvs => do
    match (← lookupKey k kvs) with
    | some v => pure v
    | Option.none => throw .keyError
  | _ => throw (.unmodelled "item access on a non-dict")

/-- `d.pop(k, *args)`: the new dict and the value; `args` is the tuple of the optional default -/
def dictPop (d k args : OVal V) : M V (OVal V × OVal V) :=
  match d with
  | .dict kvs => do
    match (← lookupKey k kvs) with
    | some v => pure (.dict (← delKey k kvs), v)
    | Option.none =>
      match args with
      | .seq _ [dflt] => pure (d, dflt)
      | .seq _ [] => throw .keyError
      | _ => throw (.unmodelled "pop with more than one default")
  | _ => throw (.unmodelled ".pop on a non-dict")

/-- `next(reversed(d))`: the key inserted last -/
def dictLastKey (d : OVal V) : M V (OVal V) :=
  match d with
  | .dict kvs =>
    match kvs.getLast? with
    | some p => pure p.1
    | Option.none => throw (.raised (.obj "StopIteration" []))
  | _ => throw (.unmodelled "reversed() of a non-dict")

/-- `d.clear()`: the new (empty) dict -/
def dictClear (d : OVal V) : M V (OVal V) :=
  match d with
  | .dict _ => pure (.dict [])
  | _ => throw (.unmodelled ".clear on a non-dict")

/-! ### `list.sort(key=…)`: a stable sort on integer keys (insertion from the right keeps equal keys in order) -/

def insByKey (k : Int) (x : OVal V) : List (Int × OVal V) → List (Int × OVal V)
  | [] => [(k, x)]
  | (k', y) :: rest => if k' < k then (k', y) :: insByKey k x rest else (k, x) :: (k', y) :: rest

def sortKeyed : List (Int × OVal V) → List (Int × OVal V)
  | [] => []
  | (k, x) :: rest => insByKey k x (sortKeyed rest)

def keyOf (key : OVal V → M V (OVal V)) (x : OVal V) : M V (Int × OVal V) := do
  match intOf? (← key x) with
  | some k => pure (k, x)
  | Option.none => throw (.unmodelled "sort key is not an int")

/-- `lst.sort(key=f)`: the sorted list -/
def sortByKey (key : OVal V → M V (OVal V)) (lst : OVal V) : M V (OVal V) :=
  match lst with
  | .seq .list xs => do
    let keyed ← xs.mapM (keyOf key)
    pure (.seq .list ((sortKeyed keyed).map (·.2)))
  | _ => throw (.unmodelled "sort on a non-list")

/-! ### exceptions -/

/-- is the exception an instance of one of the named classes (`except (TypeError, ValueError)`); exact class
names only: the hierarchy of user exception classes is not modelled -/
def Exc.isA (e : Exc V) (classes : List String) : Bool :=
  match e with
  | .typeError => classes.contains "TypeError" || classes.contains "Exception"
  | .valueError => classes.contains "ValueError" || classes.contains "Exception"
  | .attributeError _ => classes.contains "AttributeError" || classes.contains "Exception"
  | .keyError => classes.contains "KeyError" || classes.contains "Exception"
  | .indexError => classes.contains "IndexError" || classes.contains "Exception"
  | .raised (.obj c _) => classes.contains c || classes.contains "Exception"
  | .raised _ => false
  | .unmodelled _ => false

/-- the caught exception as an object (`except Exception as e: … origin_exc=e`) -/
def Exc.toVal : Exc V → OVal V
  | .raised e => e
  | .typeError => .obj "TypeError" []
  | .valueError => .obj "ValueError" []
  | .attributeError n => .obj "AttributeError" [("name", .str n)]
  | .keyError => .obj "KeyError" []
  | .indexError => .obj "IndexError" []
  | .unmodelled why => .obj "<unmodelled>" [("why", .str why)]

/-- `try: body  except (A, B): handler` -/
def tryExcept {α : Type} (classes : List String) (body : M V α) (handler : Exc V → M V α) : M V α :=
  match body with
  | .ok a => .ok a
  | .error e => if e.isA classes then handler e else .error e


/-- unfolding set for the `Except` plumbing of translated code -/
macro "obj_simp" : tactic =>
  `(tactic| simp [bind, Except.bind, pure, Except.pure, throw, throwThe, MonadExceptOf.throw])
macro "obj_simp" "[" ls:Lean.Parser.Tactic.simpLemma,* "]" : tactic =>
  `(tactic| simp [bind, Except.bind, pure, Except.pure, throw, throwThe, MonadExceptOf.throw, $ls,*])

/-- wrapper of every `Cxx_gen_*` proof: when the regenerated definition is no longer the model's function the build
error names the obligation (the harness shows the first line of each error) -/
syntax "gen_obligation " str " by " tacticSeq : tactic
macro_rules
  | `(tactic| gen_obligation $s by $t) => `(tactic| first | (($t); done) | fail $s)

/-! ### facts used by every encoding -/

theorem isInfixB_singleton (c : Char) (l : List Char) : isInfixB [c] l = l.contains c := by
  induction l with
  | nil => rfl
  | cons d ds ih =>
    simp only [isInfixB, ih, List.contains_cons]
    by_cases h : c = d
    · subst h; simp [List.isPrefixOf]
    · have h' : (c == d) = false := by simpa using h
      simp [List.isPrefixOf, h']

end Utv.Obj
