import Utv.Model.C08Spec
import Utv.Lemmas.C08
/-!
C08 — decorated functions get Python's binding with conforming arguments and result.
-/
namespace Utv.C08
set_option linter.unusedSectionVars false
variable {N V T : Type} [DecidableEq N] [DecidableEq V]

/-! ### generators: the wrappers are the undecorated generator with every value converted -/

theorem convBy_eq_convO (W : World N V T) (t : Option T) (v : V) :
    convBy W t v = match Spec.convO W t v with | some x => .ok x | none => .error .perr := convBy_eq W t v

/-- a sent value as the wrapper hands it to the raw generator: converted, or the conversion failed -/
def convInp (W : World N V T) (g : GenTypes T) : Option V → Option (Option V)
  | none => some none
  | some x => (Spec.convO W g.sendT x).map some

theorem genTrace_eq_wrapTrace (W : World N V T) (g : GenTypes T) {σ : Type} (step : σ → Option V → Step σ V)
    (rest : List (Option V)) : ∀ (st : σ) (inp : Option V),
      Spec.genTrace W g step st inp rest
        = match convInp W g inp with
          | none => [.raised]
          | some inp' => wrapTrace W g step st inp' rest := by
  induction rest with
  | nil =>
    intro st inp
    unfold Spec.genTrace wrapTrace
    cases inp with
    | none =>
      simp only [convInp]
      cases step st none with
      | ret r => cases r <;> simp [convBy_eq_convO] <;> (try split <;> simp_all)
      | yield v st' => simp [convBy_eq_convO]; split <;> simp_all
    | some x =>
      simp only [convInp]
      cases hx : Spec.convO W g.sendT x with
      | none => simp
      | some x' =>
        simp only [Option.map_some]
        cases step st (some x') with
        | ret r => cases r <;> simp [convBy_eq_convO] <;> (try split <;> simp_all)
        | yield v st' => simp [convBy_eq_convO]; split <;> simp_all
  | cons nxt more ih =>
    intro st inp
    unfold Spec.genTrace wrapTrace
    have tail : ∀ st', Spec.genTrace W g step st' nxt more =
        (match nxt with
          | none => wrapTrace W g step st' none more
          | some x =>
            match convBy W g.sendT x with
            | .error _ => [Ev.raised]
            | .ok x' => wrapTrace W g step st' (some x') more) := by
      intro st'
      rw [ih st' nxt]
      cases nxt with
      | none => simp [convInp]
      | some x =>
        simp only [convInp, convBy_eq_convO]
        cases Spec.convO W g.sendT x <;> simp
    cases inp with
    | none =>
      simp only [convInp]
      cases step st none with
      | ret r => cases r <;> simp [convBy_eq_convO] <;> (try split <;> simp_all)
      | yield v st' =>
        simp only [convBy_eq_convO, tail]
        cases Spec.convO W g.yieldT v with
        | none => simp
        | some y =>
          cases nxt with
          | none => simp
          | some x2 => simp; cases Spec.convO W g.sendT x2 <;> rfl
    | some x =>
      simp only [convInp]
      cases hx : Spec.convO W g.sendT x with
      | none => simp
      | some x' =>
        simp only [Option.map_some]
        cases step st (some x') with
        | ret r => cases r <;> simp [convBy_eq_convO] <;> (try split <;> simp_all)
        | yield v st' =>
          simp only [convBy_eq_convO, tail]
          cases Spec.convO W g.yieldT v with
          | none => simp
          | some y =>
          cases nxt with
          | none => simp
          | some x2 => simp; cases Spec.convO W g.sendT x2 <;> rfl

/-- **C08 (generators).**  For every raw generator (any state space, any step function), every declared
yield / send / return type, every transformer and every finite sequence of caller inputs (`next()` / `send(x)`
after the initial `next()`), the events the caller of the wrapper observes are exactly those of the undecorated
generator resumed with the converted sends, each yielded and returned value converted, cut at the first value that
does not convert (there the caller gets a ParseError).  `wrapTrace` is the loop shared by `sync_from_generator` and
(after fix C08-asend) `async_from_generator`; the lazy wrappers forward every resumption unchanged. -/
theorem C08_gen_trace (W : World N V T) (g : GenTypes T) {σ : Type} (step : σ → Option V → Step σ V)
    (st : σ) (sends : List (Option V)) :
    wrapTrace W g step st none sends = Spec.genTrace W g step st none sends := by
  rw [genTrace_eq_wrapTrace]; rfl

/-! ### the binding -/

/-- what `parse_data` hands over, whichever search strategy `Options.data_first_search` selects -/
theorem parseData_obs (W : World N V T) (hW : LowerIdem W) (s : Sig N V T) (wf : WF W s) (o : Opts)
    (excl : List N) (kw : List (N × V))
    (h1 : ∀ e ∈ kw, e.1 ∉ s.excludeVars W)
    (h3 : ∀ e ∈ kw, ∀ f, resolve W (s.fields W) e.1 = some f → f.posOnly = false → excl.contains f.name = false)
    (h5 : s.vk = none → ∀ e ∈ kw, s.kwTarget (Spec.normKey W s e.1) = true)
    (hn : ((Spec.normalise W s kw).map (·.1)).Nodup)
    (hpo : ∀ f ∈ s.fields W, f.posOnly = true → excl.contains f.name = true)
    (hreq : ∀ f ∈ s.fields W, excl.contains f.name = false →
        ((Spec.normalise W s kw).lookup f.name).isSome = true ∨ f.dflt.isSome = true) :
    match Spec.convKw W s (Spec.normalise W s kw) with
    | none => parseData W s o excl kw = .error .perr
    | some c => ∃ kw', parseData W s o excl kw = .ok kw' ∧ Obs W s excl c kw' := by
  unfold parseData
  by_cases hd : useDfs W s o = true
  · simp only [hd, if_true]
    exact dataFirst_obs W hW s wf o excl kw h1 h3 h5 hn hpo hreq
  · simp only [hd, Bool.false_eq_true, if_false]
    exact fieldFirst_obs W hW s wf o excl kw h1 h3 h5 hn hpo hreq

/-
**C08 (binding), full statement** — false of the code as it stands, see the two witnesses below:

    theorem C08_binding (W) (hW : LowerIdem W) (s) (wf : WF W s) (o) (args) (kw) (out)
        (hexp : Spec.expected W s args kw = some out) : call W s o args kw = out

It fails exactly where utype's documented design departs from Python: private (underscore) parameters are not
fields — they are never converted (`KnownDefect.privateAnnotated`) and are ignored when passed by keyword
(`KnownDefect.privateKw`).  Both predicates are decidable; outside them the statement holds in full:
-/

/-- **C08 (binding).**  For every transformer, every well-formed declaration over the five parameter kinds with
annotations, defaults and `Param(alias, alias_from, case_insensitive)` settings, every `Options.data_first_search` /
`ignore_alias_conflicts`, and every call (any number of positional values, any keywords under any accepted
spelling): if Python binds the call (accepted spellings read as the parameter's name), then
* when some given value does not convert to the annotation of the parameter it goes to, the call raises a ParseError
  and the body does not run;
* otherwise the body runs with exactly Python's binding of the converted call — each given value converted to its
  parameter's (or `*args` / `**kwargs`') annotation, each omitted parameter at its declared default;
provided no keyword names a private parameter and no private parameter is annotated (the two known findings). -/
theorem C08_binding_partial (W : World N V T) (hW : LowerIdem W) (s : Sig N V T) (wf : WF W s) (o : Opts)
    (args : List V) (kw : List (N × V)) (out : Outcome N V)
    (hk : KnownDefect.privateKw W s kw = false) (ha : KnownDefect.privateAnnotated W s = false)
    (hexp : Spec.expected W s args kw = some out) :
    call W s o args kw = out := by
  unfold Spec.expected at hexp
  simp only at hexp
  cases hpb : Spec.pyBind s args (Spec.normalise W s kw) with
  | none => simp [hpb] at hexp
  | some b0 =>
    simp only [hpb] at hexp
    unfold Spec.pyBind at hpb
    split at hpb
    · rename_i hn
      obtain ⟨hlen, ⟨bp, hbp⟩, ⟨bk, hbk⟩, hvk⟩ := pyBindCore_some s args _ b0 hpb
      -- the hypotheses of the keyword half
      have h1 : ∀ e ∈ kw, e.1 ∉ s.excludeVars W := by
        intro e he hmem
        have : KnownDefect.privateKw W s kw = true := by
          unfold KnownDefect.privateKw
          exact List.any_eq_true.mpr ⟨e, he, by simpa using hmem⟩
        rw [hk] at this; cases this
      have hpa : ∀ p ∈ s.pos, W.priv p.name = true → p.ann = none := by
        intro p hp hpriv
        cases hann : p.ann with
        | none => rfl
        | some t =>
          exfalso
          have : KnownDefect.privateAnnotated W s = true := by
            unfold KnownDefect.privateAnnotated
            exact List.any_eq_true.mpr ⟨p, List.mem_append_left _ hp, by simp [hpriv, hann]⟩
          rw [ha] at this; cases this
      have hpos_names : (s.pos.map (·.name)).Nodup := by
        have := wf.names_nodup
        rw [List.map_append] at this
        exact (List.nodup_append.mp this).1
      obtain ⟨excl, hexcl⟩ : ∃ excl, excl = keysOf W s.pos args := ⟨_, rfl⟩
      have h3 : ∀ e ∈ kw, ∀ f, resolve W (s.fields W) e.1 = some f → f.posOnly = false →
          excl.contains f.name = false := by
        intro e he f hr hpo
        cases hc : excl.contains f.name with
        | false => rfl
        | true =>
          exfalso
          have hm : f.name ∈ excl := by simpa using hc
          rw [hexcl] at hm
          obtain ⟨q, hq, hqn, hq'⟩ := keysOf_given W _ s.pos args bp f.name hbp hm
          obtain ⟨hnk, hkwp, _, _, _⟩ := key_field W hW s wf e.1 (h1 e he) f hr hpo
          have hqf : q = f := eq_of_name_eq wf.names_nodup (List.mem_append_left _ hq)
            (kwParams_sub W hW s wf f hkwp).1 hqn
          subst hqf
          rcases hq' with h | h
          · rw [hpo] at h; cases h
          · have hmem : (q.name, e.2) ∈ Spec.normalise W s kw := by
              simp only [Spec.normalise, List.mem_map]; exact ⟨e, he, by rw [hnk]⟩
            have := lookup_of_mem_nodup _ hn _ hmem
            simp only at this
            rw [h] at this; cases this
      have h5 : s.vk = none → ∀ e ∈ kw, s.kwTarget (Spec.normKey W s e.1) = true := by
        intro hv e he
        have hnil := hvk hv
        rw [List.filter_eq_nil_iff] at hnil
        have := hnil (Spec.normKey W s e.1, e.2)
          (by simp only [Spec.normalise, List.mem_map]; exact ⟨e, he, rfl⟩)
        simpa using this
      have hpo : ∀ f ∈ s.fields W, f.posOnly = true → excl.contains f.name = true := by
        intro f hf hfpo
        obtain ⟨hmem, hnp⟩ := (mem_fields W s f).mp hf
        have hfp : f ∈ s.pos := by
          rcases List.mem_append.mp hmem with h | h
          · exact h
          · rw [wf.kos_not_po f h] at hfpo; cases hfpo
        rw [hexcl]
        simpa using po_mem_keysOf W s.pos args f hfp hfpo hnp
      have hreq : ∀ f ∈ s.fields W, excl.contains f.name = false →
          ((Spec.normalise W s kw).lookup f.name).isSome = true ∨ f.dflt.isSome = true := by
        intro f hf hex
        obtain ⟨hmem, hnp⟩ := (mem_fields W s f).mp hf
        rcases List.mem_append.mp hmem with h | h
        · refine not_keysOf_omitted W _ s.pos args bp f hbp h hnp ?_
          intro hm
          rw [← hexcl] at hm
          have : excl.contains f.name = true := by simpa using hm
          rw [hex] at this; cases this
        · exact bindKos_mem _ s.kos bk hbk f h
      have hpd := parseData_obs W hW s wf o excl kw h1 h3 h5 hn hpo hreq
      have hps := posStage_eq W s (Spec.normalise W s kw) s.pos args bp hpa hbp hlen
      unfold call parseParams
      cases hca : Spec.convArgs W (s.vp.bind (·.2)) s.pos args with
      | none =>
        simp only [hca] at hps hexp
        cases hexp
        simp [hps]
      | some cas =>
        simp only [hca] at hps hexp
        obtain ⟨fill, hfill, hps'⟩ := hps
        simp only [hps', ← hexcl]
        cases hck : Spec.convKw W s (Spec.normalise W s kw) with
        | none =>
          simp only [hck] at hpd hexp
          cases hexp
          simp [hpd]
        | some c =>
          simp only [hck] at hpd hexp
          obtain ⟨kw', hpd', hobs1, hobs2⟩ := hpd
          simp only [hpd']
          have hckeys : c.map (·.1) = (Spec.normalise W s kw).map (·.1) := convKw_keys W s _ c hck
          have hkeys : ∀ x, (Spec.normalise W s kw).lookup x = none → c.lookup x = none := by
            intro x hx
            rw [lookup_eq_none_iff_not_mem] at hx ⊢
            rw [hckeys]; exact hx
          have hprivkey : ∀ p ∈ Spec.kwParams s, W.priv p.name = true → c.lookup p.name = none := by
            intro p hp hpriv
            apply hkeys
            rw [lookup_eq_none_iff_not_mem]
            intro hmem
            simp only [Spec.normalise, List.map_map, List.mem_map, Function.comp] at hmem
            obtain ⟨e, he, hne⟩ := hmem
            rcases key_cases W hW s wf excl kw h1 h3 e he with ⟨f, hf, h2, h3', _, _⟩ | ⟨h2, h3'⟩
            · have hfp : f = p := eq_of_name_eq wf.names_nodup (kwParams_sub W hW s wf f hf).1
                (kwParams_sub W hW s wf p hp).1 (by rw [← h2, hne])
              subst hfp
              rw [hpriv] at h3'; cases h3'
            · rw [h2] at hne
              rw [hne, (kwTarget_iff s _).mpr ⟨p, hp, rfl⟩] at h3'; cases h3'
          have hcaslen : cas.length = args.length := convArgs_length W _ s.pos args cas hca
          have hposok : PosOK kw' c s.pos cas.length := by
            rw [hcaslen]
            exact posOK_of_obs W s kw' c (Spec.normalise W s kw) excl hobs1 hprivkey hkeys s.pos args bp []
              (fun p hp => hp) hpos_names (by intro p _ h; cases h) (by simpa using hexcl) hbp
          have hfinal : pyBindCore s (cas ++ fill) kw' = pyBindCore s cas c := by
            apply pyBindCore_final
            · exact bindPos_final W kw' c s.pos cas fill hposok wf.po_first (by rw [hcaslen]; exact hfill)
            · apply bindKos_congr
              intro p hp
              have hkwp : p ∈ Spec.kwParams s := (mem_kwParams s p).mpr (Or.inr hp)
              rw [hobs1 p hkwp]
              have hnex : excl.contains p.name = false := by
                cases hc : excl.contains p.name with
                | false => rfl
                | true =>
                  exfalso
                  have hm : p.name ∈ excl := by simpa using hc
                  rw [hexcl] at hm
                  have h1' := keysOf_sub_names W s.pos args _ hm
                  have hnd := wf.names_nodup
                  rw [List.map_append, List.nodup_append] at hnd
                  exact hnd.2.2 _ h1' _ (List.mem_map_of_mem hp) rfl
              by_cases hpriv : W.priv p.name = true
              · simp [hpriv, hprivkey p hkwp hpriv]
              · have hpriv' : W.priv p.name = false := by simpa using hpriv
                simp only [hpriv', hnex, Bool.or_self, Bool.false_eq_true, if_false]
                cases c.lookup p.name <;> simp
            · exact hobs2
            · rw [hcaslen]; exact fillPo_length W _ true fill hfill
          rw [hfinal]
          cases hb : pyBindCore s cas c with
          | none => simp [hb] at hexp
          | some b' => simp [hb] at hexp; exact hexp
    · cases hpb

end Utv.C08
