import Utv.Model.Rule
import Utv.Model.C02Decl
import Utv.Lemmas.Py
import Utv.Lemmas.Num
/-!
C02 — validation is exact on well-typed values and agrees with isinstance.

All theorems are about `Utv.Gen.Constraints.*`, i.e. about the Lean text that `tools/extract.py`
regenerates from `utype/parser/rule.py` on every run (T1): an edit of a validator changes the
definition these proofs are checked against.  Every theorem is for all `Prims`.
-/
namespace Utv.C02
open Utv.Py Utv.Gen Utv.Rule

/-! ### gt / ge / lt / le — "holds in its documented sense": accepted iff the comparison is True -/

theorem C02_gt_iff (P : Prims) (v b r : PyVal) :
    Constraints.gt P v b = .ok r ↔ Py.gt v b = .ok true ∧ r = v := by
  unfold Constraints.gt
  cases h : Py.gt v b with
  | error e => py_simp
  | ok x => cases x <;> py_simp <;> first | exact eq_comm | skip

theorem C02_ge_iff (P : Prims) (v b r : PyVal) :
    Constraints.ge P v b = .ok r ↔ Py.ge v b = .ok true ∧ r = v := by
  unfold Constraints.ge
  cases h : Py.ge v b with
  | error e => py_simp
  | ok x => cases x <;> py_simp <;> first | exact eq_comm | skip

theorem C02_lt_iff (P : Prims) (v b r : PyVal) :
    Constraints.lt P v b = .ok r ↔ Py.lt v b = .ok true ∧ r = v := by
  unfold Constraints.lt
  cases h : Py.lt v b with
  | error e => py_simp
  | ok x => cases x <;> py_simp <;> first | exact eq_comm | skip

theorem C02_le_iff (P : Prims) (v b r : PyVal) :
    Constraints.le P v b = .ok r ↔ Py.le v b = .ok true ∧ r = v := by
  unfold Constraints.le
  cases h : Py.le v b with
  | error e => py_simp
  | ok x => cases x <;> py_simp <;> first | exact eq_comm | skip

/-- on ints the four constraints are the mathematical order, strictness included -/
theorem C02_order_int (P : Prims) (a b : Int) (r : PyVal) :
    (Constraints.gt P (.int a) (.int b) = .ok r ↔ b < a ∧ r = .int a) ∧
    (Constraints.ge P (.int a) (.int b) = .ok r ↔ b ≤ a ∧ r = .int a) ∧
    (Constraints.lt P (.int a) (.int b) = .ok r ↔ a < b ∧ r = .int a) ∧
    (Constraints.le P (.int a) (.int b) = .ok r ↔ a ≤ b ∧ r = .int a) := by
  refine ⟨?_, ?_, ?_, ?_⟩
  · rw [C02_gt_iff]; simp
  · rw [C02_ge_iff]; simp
  · rw [C02_lt_iff]; simp
  · rw [C02_le_iff]; simp

/-- every boundary: v = bound is rejected by the strict bounds and accepted by the inclusive ones;
bound ± 1 fall on the right sides -/
theorem C02_order_boundaries (P : Prims) (b : Int) :
    Constraints.gt P (.int b) (.int b) = .error .valueError ∧
    Constraints.lt P (.int b) (.int b) = .error .valueError ∧
    Constraints.ge P (.int b) (.int b) = .ok (.int b) ∧
    Constraints.le P (.int b) (.int b) = .ok (.int b) ∧
    Constraints.gt P (.int (b + 1)) (.int b) = .ok (.int (b + 1)) ∧
    Constraints.lt P (.int (b - 1)) (.int b) = .ok (.int (b - 1)) ∧
    Constraints.ge P (.int (b - 1)) (.int b) = .error .valueError ∧
    Constraints.le P (.int (b + 1)) (.int b) = .error .valueError := by
  refine ⟨?_, ?_, ?_, ?_, ?_, ?_, ?_, ?_⟩ <;>
    simp [Constraints.gt, Constraints.lt, Constraints.ge, Constraints.le, bind, Except.bind, pure,
      Except.pure, throw, throwThe, MonadExceptOf.throw] <;> omega

/-- unordered values never pass a range constraint (NaN; after the `fix:` commit) -/
theorem C02_nan_rejected (P : Prims) (b : Int) :
    Constraints.gt P (.float .nan) (.int b) = .error .valueError ∧
    Constraints.ge P (.float .nan) (.int b) = .error .valueError ∧
    Constraints.lt P (.float .nan) (.int b) = .error .valueError ∧
    Constraints.le P (.float .nan) (.int b) = .error .valueError := by
  refine ⟨?_, ?_, ?_, ?_⟩ <;>
    simp [Constraints.gt, Constraints.lt, Constraints.ge, Constraints.le, Py.gt, Py.ge, Py.le, Py.lt,
      Py.eq, Py.eqScalar, num?, isDecNan, isDec, isFloatNan, NumV.lt, NumV.eq, bind, Except.bind, pure, Except.pure, throw, throwThe,
      MonadExceptOf.throw]

/-! ### the order on the exact numeric domains, stated against integer arithmetic (not against `Py.lt`)

A finite number is `n · 2^p2 · 10^p10` (`Q`): an int is `n`, a Decimal `±c · 10^e`, a finite float `m · 2^e` — all exact.
Two such numbers are compared after scaling both to integers over **any** common pair of exponents `(m2, m10)` that is
below both; the verdict does not depend on the choice (the model happens to use the minimum). -/

/-- `q` as an integer multiple of `2^m2 · 10^m10` (for `m2 ≤ q.p2`, `m10 ≤ q.p10`) -/
def _root_.Utv.Py.Q.over (q : Q) (m2 m10 : Int) : Int := q.n * 2 ^ (q.p2 - m2).toNat * 10 ^ (q.p10 - m10).toNat

theorem toNat_split (x mn m : Int) (h1 : m ≤ mn) (h2 : mn ≤ x) : (x - m).toNat = (x - mn).toNat + (mn - m).toNat := by
  omega

theorem Q_over_min (a b : Q) (m2 m10 : Int) (h2a : m2 ≤ a.p2) (h2b : m2 ≤ b.p2) (h10a : m10 ≤ a.p10) (h10b : m10 ≤ b.p10) :
    a.over m2 m10 = (Q.scaled a b).1 * (2 ^ (min a.p2 b.p2 - m2).toNat * 10 ^ (min a.p10 b.p10 - m10).toNat) ∧
    b.over m2 m10 = (Q.scaled a b).2 * (2 ^ (min a.p2 b.p2 - m2).toNat * 10 ^ (min a.p10 b.p10 - m10).toNat) := by
  unfold Utv.Py.Q.over Q.scaled
  have e1 := toNat_split a.p2 (min a.p2 b.p2) m2 (by omega) (by omega)
  have e2 := toNat_split a.p10 (min a.p10 b.p10) m10 (by omega) (by omega)
  have e3 := toNat_split b.p2 (min a.p2 b.p2) m2 (by omega) (by omega)
  have e4 := toNat_split b.p10 (min a.p10 b.p10) m10 (by omega) (by omega)
  simp only [e1, e2, e3, e4, Int.pow_add]
  constructor <;> ac_rfl

theorem scale_pos (i j : Nat) : (0 : Int) < 2 ^ i * 10 ^ j :=
  Int.mul_pos (Int.pow_pos (by decide)) (Int.pow_pos (by decide))

/-- **`<` on finite numbers is the order of the scaled integers, over any common exponents** -/
theorem C02_lt_exact (a b : Q) (m2 m10 : Int) (h2a : m2 ≤ a.p2) (h2b : m2 ≤ b.p2) (h10a : m10 ≤ a.p10) (h10b : m10 ≤ b.p10) :
    Q.lt a b = decide (a.over m2 m10 < b.over m2 m10) := by
  obtain ⟨ha, hb⟩ := Q_over_min a b m2 m10 h2a h2b h10a h10b
  rw [ha, hb]
  unfold Q.lt
  simp only [Int.mul_lt_mul_right (scale_pos _ _)]

/-- … and `==` is equality of the scaled integers -/
theorem C02_eq_exact (a b : Q) (m2 m10 : Int) (h2a : m2 ≤ a.p2) (h2b : m2 ≤ b.p2) (h10a : m10 ≤ a.p10) (h10b : m10 ≤ b.p10) :
    Q.eq a b = decide (a.over m2 m10 = b.over m2 m10) := by
  obtain ⟨ha, hb⟩ := Q_over_min a b m2 m10 h2a h2b h10a h10b
  rw [ha, hb]
  unfold Q.eq
  have hpos := scale_pos (min a.p2 b.p2 - m2).toNat (min a.p10 b.p10 - m10).toNat
  have : ((Q.scaled a b).1 * (2 ^ (min a.p2 b.p2 - m2).toNat * 10 ^ (min a.p10 b.p10 - m10).toNat) =
      (Q.scaled a b).2 * (2 ^ (min a.p2 b.p2 - m2).toNat * 10 ^ (min a.p10 b.p10 - m10).toNat)) ↔
      (Q.scaled a b).1 = (Q.scaled a b).2 := by
    constructor
    · intro h; exact Int.eq_of_mul_eq_mul_right (Int.ne_of_gt hpos) h
    · intro h; rw [h]
  simp only [this]

/-- signed Decimal `s·c·10^e` -/
def decQ (s : Bool) (c : Nat) (e : Int) : Q := ⟨if s then -(c : Int) else c, 0, e⟩

/-- **Decimals against Decimals** (`gt`): over any exponent `m` below both, `value > bound` iff the integer coefficients
scaled to `10^m` compare so — e.g. `Decimal('1.50') > Decimal('1.5')` is `150 > 150`, false -/
theorem C02_gt_decimal (P : Prims) (s s' : Bool) (c c' : Nat) (e e' m : Int) (hm : m ≤ e) (hm' : m ≤ e') (r : PyVal) :
    Constraints.gt P (.dec (.fin s c e)) (.dec (.fin s' c' e')) = .ok r ↔
      (decQ s' c' e').over 0 m < (decQ s c e).over 0 m ∧ r = .dec (.fin s c e) := by
  rw [C02_gt_iff]
  have : Py.gt (.dec (.fin s c e)) (.dec (.fin s' c' e')) = .ok (Q.lt (decQ s' c' e') (decQ s c e)) := by
    simp [Py.gt, Py.lt, num?, isDecNan, isDec, isFloatNan, NumV.lt, decQ, pure, Except.pure]
  rw [this, C02_lt_exact _ _ 0 m (by simp [decQ]) (by simp [decQ]) (by simpa [decQ] using hm') (by simpa [decQ] using hm)]
  simp

/-- **mixed int bound / Decimal value** (`ge`), and the boundary: a Decimal equal to the int bound passes `ge`, fails `gt` -/
theorem C02_ge_decimal_int (P : Prims) (s : Bool) (c : Nat) (e m : Int) (b : Int) (hm : m ≤ e) (hm0 : m ≤ 0) (r : PyVal) :
    Constraints.ge P (.dec (.fin s c e)) (.int b) = .ok r ↔
      (⟨b, 0, 0⟩ : Q).over 0 m ≤ (decQ s c e).over 0 m ∧ r = .dec (.fin s c e) := by
  rw [C02_ge_iff]
  have hlt : Py.lt (.int b) (.dec (.fin s c e)) = .ok (Q.lt ⟨b, 0, 0⟩ (decQ s c e)) := by
    simp [Py.lt, num?, isDecNan, isDec, isFloatNan, NumV.lt, decQ, pure, Except.pure]
  have heq : Py.eq (.int b) (.dec (.fin s c e)) = Q.eq ⟨b, 0, 0⟩ (decQ s c e) := by
    simp [Py.eq, eqScalar, num?, NumV.eq, decQ]
  simp only [Py.ge, Py.le, hlt, heq, bind, Except.bind, pure, Except.pure]
  rw [C02_lt_exact _ _ 0 m (by simp) (by simp [decQ]) (by simpa using hm0) (by simpa [decQ] using hm),
    C02_eq_exact _ _ 0 m (by simp) (by simp [decQ]) (by simpa using hm0) (by simpa [decQ] using hm)]
  simp only [Except.ok.injEq, Bool.or_eq_true, decide_eq_true_eq]
  constructor
  · rintro ⟨h, rfl⟩; exact ⟨by omega, rfl⟩
  · rintro ⟨h, rfl⟩; exact ⟨by omega, rfl⟩

/-- **finite float against int** (`lt`): dyadic `m·2^e`, exact -/
theorem C02_lt_float_int (P : Prims) (mant e k : Int) (b : Int) (hk : k ≤ e) (hk0 : k ≤ 0) (r : PyVal) :
    Constraints.lt P (.float (.fin mant e)) (.int b) = .ok r ↔
      (⟨mant, e, 0⟩ : Q).over k 0 < (⟨b, 0, 0⟩ : Q).over k 0 ∧ r = .float (.fin mant e) := by
  rw [C02_lt_iff]
  have : Py.lt (.float (.fin mant e)) (.int b) = .ok (Q.lt ⟨mant, e, 0⟩ ⟨b, 0, 0⟩) := by
    simp [Py.lt, num?, isDecNan, isDec, isFloatNan, NumV.lt, pure, Except.pure]
  rw [this, C02_lt_exact _ _ k 0 (by simpa using hk) (by simpa using hk0) (by simp) (by simp)]
  simp

/-- NaN never passes a range constraint, whatever the bound is (float NaN against int / float / infinite bounds is
`False`; against a Decimal bound, and a Decimal NaN against anything, the comparison itself raises InvalidOperation) -/
theorem C02_nan_never_passes (P : Prims) (b r : PyVal) :
    Constraints.gt P (.float .nan) b ≠ .ok r ∧ Constraints.ge P (.float .nan) b ≠ .ok r ∧
    Constraints.lt P (.float .nan) b ≠ .ok r ∧ Constraints.le P (.float .nan) b ≠ .ok r := by
  refine ⟨?_, ?_, ?_, ?_⟩ <;> intro h
  · rw [C02_gt_iff] at h
    cases b <;> simp [Py.gt, Py.lt, num?, NumV.lt, isDecNan, isDec, isFloatNan, pure, Except.pure, throw, throwThe, MonadExceptOf.throw] at h
    all_goals (first | (rename_i f; cases f <;> simp_all [num?, NumV.lt]) | skip)
  · rw [C02_ge_iff] at h
    cases b <;> simp [Py.ge, Py.le, Py.lt, Py.eq, eqScalar, num?, NumV.lt, NumV.eq, isDecNan, isDec, isFloatNan, bind, Except.bind, pure, Except.pure, throw, throwThe, MonadExceptOf.throw] at h
    all_goals (first | (rename_i f; cases f <;> simp_all [num?, NumV.lt, NumV.eq]) | skip)
  · rw [C02_lt_iff] at h
    cases b <;> simp [Py.lt, num?, NumV.lt, isDecNan, isDec, isFloatNan, pure, Except.pure, throw, throwThe, MonadExceptOf.throw] at h
    all_goals (first | (rename_i f; cases f <;> simp_all [num?, NumV.lt]) | skip)
  · rw [C02_le_iff] at h
    cases b <;> simp [Py.le, Py.lt, Py.eq, eqScalar, num?, NumV.lt, NumV.eq, isDecNan, isDec, isFloatNan, bind, Except.bind, pure, Except.pure, throw, throwThe, MonadExceptOf.throw] at h
    all_goals (first | (rename_i f; cases f <;> simp_all [num?, NumV.lt, NumV.eq]) | skip)

/-! ### length / max_length / min_length -/

theorem C02_length_iff (P : Prims) (v r : PyVal) (n : Nat) (lg : Int) (h : lenOf v = some n) :
    Constraints.length P v (.int lg) = .ok r ↔ (n : Int) = lg ∧ r = v := by
  unfold Constraints.length
  simp only [hasLen_of_lenOf h, Bool.not_true]
  py_simp [len_of_lenOf h, ne_int]
  by_cases hn : (n : Int) = lg <;> simp [hn, eq_comm]

theorem C02_max_length_iff (P : Prims) (v r : PyVal) (n : Nat) (m : Int) (h : lenOf v = some n) :
    Constraints.max_length P v (.int m) = .ok r ↔ (n : Int) ≤ m ∧ r = v := by
  unfold Constraints.max_length
  simp only [hasLen_of_lenOf h, Bool.not_true]
  py_simp [len_of_lenOf h]
  by_cases hn : m < (n : Int) <;> simp [hn, eq_comm] <;> omega

theorem C02_min_length_iff (P : Prims) (v r : PyVal) (n : Nat) (m : Int) (h : lenOf v = some n) :
    Constraints.min_length P v (.int m) = .ok r ↔ m ≤ (n : Int) ∧ r = v := by
  unfold Constraints.min_length
  simp only [hasLen_of_lenOf h, Bool.not_true]
  py_simp [len_of_lenOf h]
  by_cases hn : (n : Int) < m <;> simp [hn, eq_comm] <;> omega

/-! ### const — equality plus type-exactness (with the generated tolerance table) -/

/-- `{type(value), type(v)} in TYPE_EXACT_TOLERANCE` over the generated table -/
def tolerant (a b : Cls) : Bool :=
  match Tables.TYPE_EXACT_TOLERANCE with
  | .seq _ items => memEq (.seq .set [.cls a, .cls b]) items
  | _ => false

theorem contains_tolerance (x : PyVal) (a b : Cls) (hx : x = .seq .set [.cls a, .cls b]) :
    Py.contains Tables.TYPE_EXACT_TOLERANCE x = .ok (tolerant a b) := by
  subst hx; rfl

theorem C02_const_iff (P : Prims) (v c r : PyVal) :
    Constraints.const P v c = .ok r ↔
      Py.eq v c = true ∧ (typeOf v = typeOf c ∨ tolerant (typeOf v) (typeOf c) = true) ∧ r = c := by
  unfold Constraints.const
  by_cases he : Py.eq v c = true
  · by_cases ht : typeOf v = typeOf c
    · py_simp [Py.ne, he, ht]; exact eq_comm
    · rw [contains_tolerance _ _ _ rfl]
      cases htol : tolerant (typeOf v) (typeOf c) with
      | true => py_simp [Py.ne, he, ht]; exact eq_comm
      | false => py_simp [Py.ne, he, ht]
  · py_simp [Py.ne, he]

/-- the tolerance table as it is in the source: int~float and int~Decimal are tolerated; the third entry is
written as a tuple, which a set never equals, so float~Decimal is *not* (stricter, not unsound) -/
theorem C02_tolerance_table :
    tolerant .int .float = true ∧ tolerant .float .int = true ∧ tolerant .int .decimal = true ∧
    tolerant .float .decimal = false ∧ tolerant .bool .int = false ∧ tolerant .str .int = false := by
  decide

/-- 0/False and 1/True are equal but not the same type: const keeps them apart -/
theorem C02_const_bool_int (P : Prims) :
    Constraints.const P (.bool true) (.int 1) = .error .valueError ∧
    Constraints.const P (.int 0) (.bool false) = .error .valueError ∧
    Constraints.const P (.int 1) (.int 1) = .ok (.int 1) := by
  refine ⟨?_, ?_, ?_⟩ <;> rfl

/-! ### enum (list form) -/

theorem C02_enum_iff (P : Prims) (v r : PyVal) (k : Cls) (xs : List PyVal)
    (hk : (Cls.sub k .enumMeta) = false) (hv : Py.isinstance v .enum = false) :
    Constraints.enum P v (.seq k xs) = .ok r ↔ memEq v xs = true ∧ r = v := by
  unfold Constraints.enum
  have h1 : Py.isinstance (.seq k xs) .enumMeta = false := by simpa [Py.isinstance, typeOf] using hk
  py_simp [h1, hv, Py.contains]
  by_cases hm : memEq v xs = true <;> simp [hm, eq_comm]

/-! ### multiple_of on ints -/

theorem C02_multiple_of_int (P : Prims) (a m : Int) (r : PyVal) (hm : m ≠ 0) :
    Constraints.multiple_of P (.int a) (.int m) = .ok r ↔ (∃ k : Int, a = k * m) ∧ r = .int a := by
  unfold Constraints.multiple_of
  have hm' : (m == 0) = false := by simpa using hm
  py_simp [Py.mod, asInt?, hm', Py.truthy]
  by_cases h0 : a.fmod m = 0
  · simp only [h0, if_true]
    have : m ∣ a := Int.dvd_of_fmod_eq_zero h0
    obtain ⟨k, hk⟩ := this
    constructor
    · intro h; exact ⟨⟨k, by rw [hk, Int.mul_comm]⟩, by simpa [eq_comm] using h⟩
    · rintro ⟨_, rfl⟩; rfl
  · simp only [h0, if_false]
    constructor
    · intro h; cases h
    · rintro ⟨⟨k, hk⟩, _⟩
      exact absurd (Int.fmod_eq_zero_of_dvd ⟨k, by rw [hk, Int.mul_comm]⟩) h0

theorem C02_multiple_of_zero (P : Prims) (a : Int) :
    Constraints.multiple_of P (.int a) (.int 0) = .error .zeroDivision := by
  simp [Constraints.multiple_of, Py.mod, asInt?, bind, Except.bind, throw, throwThe, MonadExceptOf.throw]

/-! ### unique_items -/

/-- no two elements are `==` -/
def NoDupEq : List PyVal → Prop
  | [] => True
  | x :: xs => memEq x xs = false ∧ NoDupEq xs

/-- processing `xs` after `acc`: no element equals (`==`) an earlier one -/
def noDupFrom : List PyVal → List PyVal → Bool
  | _, [] => true
  | acc, x :: xs => !memEq x acc && noDupFrom (acc ++ [x]) xs

/-- a loop whose body raises on a repeated element and appends otherwise (pointwise hypothesis `hf`) -/
theorem forIn_uniq (f : PyVal → PyVal → M (ForInStep PyVal))
    (hf : ∀ v acc, f v (.seq .list acc) =
      if memEq v acc then .error .valueError else .ok (.yield (.seq .list (acc ++ [v])))) :
    ∀ xs acc, forIn xs (PyVal.seq .list acc) f =
      if noDupFrom acc xs then (.ok (.seq .list (acc ++ xs)) : M PyVal) else .error .valueError := by
  intro xs
  induction xs with
  | nil => intro acc; simp [noDupFrom, pure, Except.pure]
  | cons x xs ih =>
    intro acc
    rw [List.forIn_cons, hf]
    cases hm : memEq x acc with
    | true => simp [noDupFrom, hm, bind, Except.bind]
    | false => simp [noDupFrom, hm, bind, Except.bind, ih]

theorem unique_items_seq (P : Prims) (k : Cls) (xs : List PyVal) :
    Constraints.unique_items P (.seq k xs) (.bool true) =
      if noDupFrom [] xs then .ok (.seq k xs) else .error .valueError := by
  unfold Constraints.unique_items
  simp only [Py.truthy, Py.iter]
  rw [show (pure xs : M (List PyVal)) = .ok xs from rfl]
  simp only [bind, Except.bind, Bool.not_true]
  rw [forIn_uniq _ (by
    intro v acc
    simp only [Py.contains, Py.append, bind, Except.bind, pure, Except.pure]
    cases memEq v acc <;> simp [throw, throwThe, MonadExceptOf.throw])]
  cases noDupFrom [] xs <;> simp [pure, Except.pure]

theorem memEq_append (x : PyVal) (a b : List PyVal) : memEq x (a ++ b) = (memEq x a || memEq x b) := by
  induction a with
  | nil => simp [memEq]
  | cons y ys ih => simp [memEq, ih, Bool.or_assoc]

theorem noDupFrom_iff (xs : List PyVal) : ∀ acc, noDupFrom acc xs = true ↔
    (∀ x ∈ xs, memEq x acc = false) ∧ xs.Pairwise (fun a b => Py.eq b a = false) := by
  induction xs with
  | nil => intro acc; simp [noDupFrom]
  | cons x xs ih =>
    intro acc
    simp only [noDupFrom, Bool.and_eq_true, Bool.not_eq_true', ih, memEq_append, memEq, Bool.or_false,
      Bool.or_eq_false_iff, List.pairwise_cons, List.mem_cons, forall_eq_or_imp]
    constructor
    · rintro ⟨h1, h2, h3⟩
      exact ⟨⟨h1, fun y hy => (h2 y hy).1⟩, fun y hy => (h2 y hy).2, h3⟩
    · rintro ⟨⟨h1, h2⟩, h3, h4⟩
      exact ⟨h1, fun y hy => ⟨h2 y hy, h3 y hy⟩, h4⟩

/-- **unique_items**: accepted iff the elements are pairwise different (`==`), result is the input -/
theorem C02_unique_items_iff (P : Prims) (k : Cls) (xs : List PyVal) (r : PyVal) :
    Constraints.unique_items P (.seq k xs) (.bool true) = .ok r ↔
      xs.Pairwise (fun a b => Py.eq b a = false) ∧ r = .seq k xs := by
  rw [unique_items_seq]
  cases h : noDupFrom [] xs with
  | true =>
    have := (noDupFrom_iff xs []).mp h
    simp only [if_true, this.2, true_and]
    constructor
    · intro h'; cases h'; rfl
    · intro h'; rw [h']
  | false =>
    have : ¬ xs.Pairwise (fun a b => Py.eq b a = false) := by
      intro hp
      have := (noDupFrom_iff xs []).mpr ⟨by intro x _; rfl, hp⟩
      simp [h] at this
    simp [this]

/-! ### max_digits / decimal_places — digit counting against the positional rendering -/

/-- what `_parse_decimal` computes on a finite Decimal -/
def codeDigits (c : Nat) (e : Int) : Int :=
  if e ≥ 0 then (numDigits c : Int) + e else if (e.natAbs : Int) > numDigits c then e.natAbs else numDigits c
def codeDecimals (e : Int) : Int := if e ≥ 0 then 0 else e.natAbs

theorem parseDecimal_fin (P : Prims) (s : Bool) (c : Nat) (e : Int) :
    Constraints.parseDecimal P (.dec (.fin s c e)) =
      .ok (.seq .tuple [.int (codeDigits c e), .int (codeDecimals e)]) := by
  unfold Constraints.parseDecimal codeDigits codeDecimals
  simp only [Py.isinstance, typeOf, Cls.sub, Py.asTuple, Py.sliceFrom, sliceStop, Py.unpack2, Py.contains,
    memEq, Py.len, digitsOf, Py.abs, asInt?, Py.add, Py.gt, Py.ge, bind, Except.bind, pure, Except.pure]
  by_cases h : (0:Int) ≤ e
  · simp [h, numDigits, bind, Except.bind, pure, Except.pure, Py.add, asInt?]
  · simp [h, numDigits, bind, Except.bind, pure, Except.pure, Py.add, asInt?, Py.abs]
    split <;> simp_all

/-- an int is counted as the Decimal with the same digits and exponent 0 (`Decimal(str(i))`) -/
theorem parseDecimal_int (P : Prims) (i : Int) :
    Constraints.parseDecimal P (.int i) = .ok (.seq .tuple [.int (codeDigits i.natAbs 0), .int 0]) := by
  have := parseDecimal_fin P (decide (i < 0)) i.natAbs 0
  unfold Constraints.parseDecimal at this ⊢
  simpa [Py.isinstance, typeOf, Cls.sub, Py.decimalOfStrOf, bind, Except.bind, pure, Except.pure, codeDecimals]
    using this

/-- the digit characters of the plain positional rendering of `c * 10^e`: (integer part, fraction part) -/
def positional (c : Nat) (e : Int) : List Char × List Char :=
  let ds := Nat.toDigits 10 c
  if e ≥ 0 then (ds ++ List.replicate e.toNat '0', [])
  else
    let k := e.natAbs
    if ds.length > k then (ds.take (ds.length - k), ds.drop (ds.length - k))
    else (['0'], List.replicate (k - ds.length) '0' ++ ds)

/-- documented `max_digits`: digit characters of the rendering, the lone `0` before the point of a pure fraction not counted -/
def specDigits (c : Nat) (e : Int) : Int :=
  let p := positional c e
  (if e < 0 ∧ (Nat.toDigits 10 c).length ≤ e.natAbs then 0 else (p.1.length : Int)) + p.2.length

/-- documented `decimal_places`: digits after the point -/
def specDecimals (c : Nat) (e : Int) : Int := (positional c e).2.length

theorem C02_parse_decimal_spec (c : Nat) (e : Int) :
    codeDigits c e = specDigits c e ∧ codeDecimals e = specDecimals c e := by
  unfold codeDigits codeDecimals specDigits specDecimals positional numDigits
  by_cases h : e ≥ 0
  · simp [h]
    omega
  · simp only [h, if_false]
    by_cases h2 : (Nat.toDigits 10 c).length > e.natAbs
    · simp [h2]
      omega
    · simp [h2]
      omega

theorem C02_max_digits_decimal (P : Prims) (s : Bool) (c : Nat) (e m : Int) (r : PyVal) :
    Constraints.max_digits P (.dec (.fin s c e)) (.int m) = .ok r ↔
      specDigits c e ≤ m ∧ r = .dec (.fin s c e) := by
  unfold Constraints.max_digits
  rw [parseDecimal_fin, (C02_parse_decimal_spec c e).1]
  py_simp [Py.unpack2]
  by_cases h : m < specDigits c e <;> simp [h, eq_comm] <;> omega

theorem C02_max_digits_int (P : Prims) (i m : Int) (r : PyVal) :
    Constraints.max_digits P (.int i) (.int m) = .ok r ↔ specDigits i.natAbs 0 ≤ m ∧ r = .int i := by
  unfold Constraints.max_digits
  rw [parseDecimal_int, (C02_parse_decimal_spec i.natAbs 0).1]
  py_simp [Py.unpack2]
  by_cases h : m < specDigits i.natAbs 0 <;> simp [h, eq_comm] <;> omega

/-- decimal_places: accepted iff the number of fraction digits is within the bound; the (documented) result is the
value re-quantised to exactly `d` places -/
theorem C02_decimal_places_decimal (P : Prims) (s : Bool) (c : Nat) (e d : Int) (r : PyVal) :
    Constraints.decimal_places P (.dec (.fin s c e)) (.int d) = .ok r ↔
      specDecimals c e ≤ d ∧ decQuantize s c e d = .ok r := by
  unfold Constraints.decimal_places
  rw [parseDecimal_fin, (C02_parse_decimal_spec c e).2]
  py_simp [Py.unpack2, Py.isinstance, typeOf, Cls.sub, Py.round, asInt?]
  by_cases h : d < specDecimals c e <;> simp [h] <;> omega

/-- … and that re-quantisation pads with zeros only (no digit is rounded away), so the numeric value is kept -/
theorem C02_decimal_places_pads (s : Bool) (c : Nat) (e d : Int) (h : specDecimals c e ≤ d)
    (hp : numDigits (c * 10 ^ (e + d).toNat) ≤ decPrec) :
    decQuantize s c e d = .ok (.dec (.fin s (c * 10 ^ (e + d).toNat) (-d))) := by
  have hd := (C02_parse_decimal_spec c e).2
  unfold codeDecimals at hd
  unfold decQuantize
  have he : e ≥ -d := by
    by_cases h0 : e ≥ 0
    · simp [h0] at hd; omega
    · simp [h0] at hd; omega
  have : (e - -d).toNat = (e + d).toNat := by congr 1; omega
  simp only [he, if_true, this]
  have : ¬ numDigits (c * 10 ^ (e + d).toNat) > decPrec := by omega
  simp [this, pure, Except.pure]

theorem C02_decimal_places_int (P : Prims) (i d : Int) (hd : 0 ≤ d) :
    Constraints.decimal_places P (.int i) (.int d) = .ok (.int i) := by
  unfold Constraints.decimal_places
  rw [parseDecimal_int]
  py_simp [Py.unpack2, Py.isinstance, typeOf, Cls.sub]
  omega

/-! ### regex — full match of `str(value)` -/

theorem C02_regex_iff (P : Prims) (v r : PyVal) (pat s : String) (b : Bool)
    (hs : Py.str P v = .ok (.str s)) (hm : P.reFullmatch pat s = some b) :
    Constraints.regex P v (.str pat) = .ok r ↔ b = true ∧ r = v := by
  unfold Constraints.regex
  py_simp [hs, Py.reFullmatch, hm, Py.truthy]
  cases b <;> simp [eq_comm]

/-! ### the validator phase as a whole -/

/-- a validator that returns its input when it accepts -/
def Preserving (f : Validator) : Prop := ∀ P v b r, f P v b = .ok r → r = v

theorem preserving_gt : Preserving Constraints.gt := fun P v b r h => ((C02_gt_iff P v b r).mp h).2
theorem preserving_ge : Preserving Constraints.ge := fun P v b r h => ((C02_ge_iff P v b r).mp h).2
theorem preserving_lt : Preserving Constraints.lt := fun P v b r h => ((C02_lt_iff P v b r).mp h).2
theorem preserving_le : Preserving Constraints.le := fun P v b r h => ((C02_le_iff P v b r).mp h).2

/-- closes `f P v b = .ok r → r = v` for straight-line validators: every `return` is `return value_` -/
macro "pres_auto" h:ident : tactic => `(tactic| (
  simp only [bind, Except.bind, pure, Except.pure, throw, throwThe, MonadExceptOf.throw] at $h:ident
  repeat' (first
    | (cases $h:ident; done)
    | (injection $h:ident with h'; exact h'.symm)
    | split at $h:ident)))

theorem preserving_regex : Preserving Constraints.regex := by
  intro P v b r h; unfold Constraints.regex at h; pres_auto h
theorem preserving_multiple_of : Preserving Constraints.multiple_of := by
  intro P v b r h; unfold Constraints.multiple_of at h; pres_auto h
theorem preserving_max_digits : Preserving Constraints.max_digits := by
  intro P v b r h; unfold Constraints.max_digits at h; pres_auto h
theorem preserving_length : Preserving Constraints.length := by
  intro P v b r h; unfold Constraints.length at h; pres_auto h
theorem preserving_max_length : Preserving Constraints.max_length := by
  intro P v b r h; unfold Constraints.max_length at h; pres_auto h
theorem preserving_min_length : Preserving Constraints.min_length := by
  intro P v b r h; unfold Constraints.min_length at h; pres_auto h
theorem preserving_unique_items : Preserving Constraints.unique_items := by
  intro P v b r h; unfold Constraints.unique_items at h; pres_auto h
theorem preserving_enum : Preserving Constraints.enum := by
  intro P v b r h
  unfold Constraints.enum at h
  simp only [Py.callValue, Py.getattrValue] at h
  pres_auto h

/-- the strict validators that hand their input back: all of them except `const` (returns the declared constant, which is
`==` to the input — `C02_const_returns_equal`) and `decimal_places` (re-quantises a Decimal — `C02_decimal_places_decimal`) -/
def strictPreservingNames : List String :=
  ["gt", "ge", "lt", "le", "enum", "regex", "multiple_of", "max_digits", "length", "max_length", "min_length",
   "unique_items"]

/-- **twelve of the fourteen strict validators are `Preserving`** — so `C02_validate_iff`, `C02_parse_typed_iff` and the C03
theorems that take `Preserving` as a hypothesis apply to every constraint list drawn from these names -/
theorem C02_preserving_of_name {name : String} (hn : name ∈ strictPreservingNames) :
    ∃ f, validatorOf name = some f ∧ Preserving f := by
  simp only [strictPreservingNames, List.mem_cons, List.mem_nil_iff, or_false] at hn
  rcases hn with rfl | rfl | rfl | rfl | rfl | rfl | rfl | rfl | rfl | rfl | rfl | rfl
  · exact ⟨_, rfl, preserving_gt⟩
  · exact ⟨_, rfl, preserving_ge⟩
  · exact ⟨_, rfl, preserving_lt⟩
  · exact ⟨_, rfl, preserving_le⟩
  · exact ⟨_, rfl, preserving_enum⟩
  · exact ⟨_, rfl, preserving_regex⟩
  · exact ⟨_, rfl, preserving_multiple_of⟩
  · exact ⟨_, rfl, preserving_max_digits⟩
  · exact ⟨_, rfl, preserving_length⟩
  · exact ⟨_, rfl, preserving_max_length⟩
  · exact ⟨_, rfl, preserving_min_length⟩
  · exact ⟨_, rfl, preserving_unique_items⟩

/-- `decimal_places` leaves everything but a Decimal alone -/
theorem preservingAt_decimal_places (P : Prims) (v b r : PyVal) (hv : Py.isinstance v .decimal = false)
    (h : Constraints.decimal_places P v b = .ok r) : r = v := by
  unfold Constraints.decimal_places at h
  simp only [hv] at h
  pres_auto h

/-- the two that are not: witnesses (so the hypothesis `Preserving` really excludes them) -/
theorem C02_const_not_preserving : ¬ Preserving Constraints.const := by
  intro h
  have := h ⟨fun _ => "", fun _ => "", fun _ => none, fun _ _ => none, fun f _ => f⟩ (.float (.fin 1 0)) (.int 1) (.int 1) rfl
  cases this

theorem C02_decimal_places_not_preserving : ¬ Preserving Constraints.decimal_places := by
  intro h
  have := h ⟨fun _ => "", fun _ => "", fun _ => none, fun _ _ => none, fun f _ => f⟩
    (.dec (.fin false 13 (-1))) (.int 2) (.dec (.fin false 130 (-2))) rfl
  cases this

/-- strict `const` returns the declared constant, which equals (`==`) the input: `class C(float, Rule): const = 1; C(1.0)` is the
int `1` — equal to the input, of the constant's type (the property asks for an equal result) -/
theorem C02_const_returns_equal (P : Prims) (v c r : PyVal) (h : Constraints.const P v c = .ok r) :
    r = c ∧ Py.eq v r = true := by
  have h' := (C02_const_iff P v c r).mp h
  exact ⟨h'.2.2, by rw [h'.2.2]; exact h'.1⟩

/-- **Rule level.**  For constraint sets whose validators return their input, the validator loop accepts exactly when
every single constraint accepts the *original* value, and hands the value back unchanged — for any number and order of
constraints. -/
theorem C02_validate_iff (P : Prims) (cs : List (String × PyVal)) (v r : PyVal)
    (hp : ∀ c ∈ cs, ∃ f, validatorOf c.1 = some f ∧ Preserving f) :
    validate P cs v = .ok r ↔
      (∀ c ∈ cs, ∃ f, validatorOf c.1 = some f ∧ f P v c.2 = .ok v) ∧ r = v := by
  induction cs with
  | nil => simp [validate, pure, Except.pure, eq_comm]
  | cons c cs ih =>
    obtain ⟨f, hf, hpres⟩ := hp c (by simp)
    have ih' := ih (fun c' hc' => hp c' (by simp [hc']))
    obtain ⟨name, bound⟩ := c
    simp only at hf
    simp only [validate, hf, bind, Except.bind]
    cases hfv : f P v bound with
    | error e =>
      simp only [List.mem_cons, forall_eq_or_imp]
      constructor
      · intro h; cases h
      · rintro ⟨⟨⟨g, hg, hgv⟩, _⟩, _⟩
        rw [hf] at hg; cases hg
        rw [hfv] at hgv; cases hgv
    | ok v' =>
      have : v' = v := hpres P v bound v' hfv
      subst this
      simp only [ih', List.mem_cons, forall_eq_or_imp]
      constructor
      · rintro ⟨h1, h2⟩; exact ⟨⟨⟨f, hf, hfv⟩, h1⟩, h2⟩
      · rintro ⟨⟨_, h1⟩, h2⟩; exact ⟨h1, h2⟩

/-- **any constraint list over the twelve input-preserving strict validators** (any length, any order, any bounds): accepted
iff each constraint accepts the original value; result = input -/
theorem C02_validate_iff_names (P : Prims) (cs : List (String × PyVal)) (v r : PyVal)
    (hn : ∀ c ∈ cs, c.1 ∈ strictPreservingNames) :
    validate P cs v = .ok r ↔
      (∀ c ∈ cs, ∃ f, validatorOf c.1 = some f ∧ f P v c.2 = .ok v) ∧ r = v :=
  C02_validate_iff P cs v r (fun c hc => C02_preserving_of_name (hn c hc))

/-- the hypothesis of `C02_validate_iff` is satisfiable: a non-trivial constraint set -/
example : ∀ c ∈ [("gt", PyVal.int 0), ("le", PyVal.int 10)], ∃ f, validatorOf c.1 = some f ∧ Preserving f := by
  intro c hc
  simp only [List.mem_cons, List.mem_nil_iff, or_false] at hc
  rcases hc with rfl | rfl
  · exact ⟨_, rfl, preserving_gt⟩
  · exact ⟨_, rfl, preserving_le⟩

/-- validators run in the order of the generated `Rule.__constraints__` table -/
theorem C02_constraint_order :
    Tables.constraintOrder = ["gt", "ge", "lt", "le", "const", "enum", "regex", "decimal_places", "multiple_of",
      "max_digits", "length", "max_length", "min_length", "unique_items"] := by decide

/-- `isinstance(v, T)` for a value of the source type is exactly "the parse succeeds" (rule.py:105-113) -/
theorem C02_isinstance_agrees (originOk : PyVal → Bool) (parse : PyVal → M PyVal) (v : PyVal)
    (h : originOk v = true) :
    instancecheck originOk parse v = true ↔ ∃ r, parse v = .ok r := by
  unfold instancecheck
  simp only [h, Bool.not_true]
  cases parse v <;> simp

/-! ### contains / min_contains / max_contains (`Rule._parse_contains`, enforced outside `__validators__`) -/

open Utv.C02D

theorem countLoop_eq (acc : PyVal → Bool) (xs : List PyVal) : ∀ n, countLoop acc xs n = n + xs.countP acc := by
  induction xs with
  | nil => intro n; simp [countLoop]
  | cons x xs ih =>
    intro n
    simp only [countLoop, ih, List.countP_cons]
    cases acc x <;> simp <;> omega

/-- the documented sense: at least one element the `contains` type accepts, at least `min_contains`, at most
`max_contains` of them (each bound only when declared) -/
def ContainsSat (c : ContainsCfg) (n : Nat) : Prop :=
  1 ≤ n ∧ (∀ m, c.minC = some m → m ≤ (n : Int)) ∧ (∀ m, c.maxC = some m → (n : Int) ≤ m)

/-- … on a value: nothing to check when `contains` is not declared; otherwise the value must be iterable and the
number of accepted elements must be in range -/
def ContainsHolds (acc : PyVal → Bool) (c : ContainsCfg) (v : PyVal) : Prop :=
  c.declared = true → ∃ xs, Py.iter v = .ok xs ∧ ContainsSat c (xs.countP acc)

/-- **contains family, any element acceptor, any value**: accepted iff the count of accepted elements is within the
declared bounds; the result is the input -/
theorem C02_contains_iff (acc : PyVal → Bool) (c : ContainsCfg) (v r : PyVal) :
    parseContains acc c v = .ok r ↔ ContainsHolds acc c v ∧ r = v := by
  unfold parseContains ContainsHolds
  cases hd : c.declared with
  | false => simp [pure, Except.pure, eq_comm]
  | true =>
    simp only [Bool.not_true, Bool.false_eq_true, if_false, forall_const]
    cases hi : Py.iter v with
    | error e => simp [bind, Except.bind]
    | ok xs =>
      simp only [bind, Except.bind, countLoop_eq, Nat.zero_add, Except.ok.injEq, exists_eq_left']
      unfold ContainsSat
      by_cases h0 : xs.countP acc = 0
      · simp [h0, throw, throwThe, MonadExceptOf.throw]
      · have h1 : 1 ≤ xs.countP acc := by omega
        simp only [beq_iff_eq, h0, if_false, h1, true_and]
        cases hmin : c.minC with
        | none =>
          cases hmax : c.maxC with
          | none => simp [pure, Except.pure, eq_comm]
          | some M =>
            by_cases hM : (xs.countP acc : Int) > M
            · simp [hM, throw, throwThe, MonadExceptOf.throw]; omega
            · simp [hM, pure, Except.pure, eq_comm]; omega
        | some m =>
          by_cases hm : (xs.countP acc : Int) < m
          · simp [hm, throw, throwThe, MonadExceptOf.throw]; intro h; omega
          · cases hmax : c.maxC with
            | none => simp [hm, pure, Except.pure, eq_comm]; omega
            | some M =>
              by_cases hM : (xs.countP acc : Int) > M
              · simp [hm, hM, throw, throwThe, MonadExceptOf.throw]; intro _; omega
              · simp [hm, hM, pure, Except.pure, eq_comm]; omega

/-- on a sequence with all three declared: `1 ≤ n`, `min ≤ n ≤ max` -/
theorem C02_contains_min_max (acc : PyVal → Bool) (k : Cls) (xs : List PyVal) (m M : Int) (r : PyVal) :
    parseContains acc ⟨true, some m, some M⟩ (.seq k xs) = .ok r ↔
      (1 ≤ xs.countP acc ∧ m ≤ (xs.countP acc : Int) ∧ (xs.countP acc : Int) ≤ M) ∧ r = .seq k xs := by
  rw [C02_contains_iff]
  simp [ContainsHolds, ContainsSat, Py.iter, pure, Except.pure]

/-- `contains` alone: at least one accepted element -/
theorem C02_contains_alone (acc : PyVal → Bool) (k : Cls) (xs : List PyVal) (r : PyVal) :
    parseContains acc ⟨true, none, none⟩ (.seq k xs) = .ok r ↔ 1 ≤ xs.countP acc ∧ r = .seq k xs := by
  rw [C02_contains_iff]
  simp [ContainsHolds, ContainsSat, Py.iter, pure, Except.pure]

/-- boundaries of the count: `n = max` passes and `n = max + 1` fails; `n = min` passes and `n = min - 1` fails -/
theorem C02_contains_boundaries (acc : PyVal → Bool) (k : Cls) (xs : List PyVal) (b : Int) (hb : 1 ≤ b) :
    ((xs.countP acc : Int) = b → parseContains acc ⟨true, none, some b⟩ (.seq k xs) = .ok (.seq k xs)) ∧
    ((xs.countP acc : Int) = b + 1 → ∀ r, parseContains acc ⟨true, none, some b⟩ (.seq k xs) ≠ .ok r) ∧
    ((xs.countP acc : Int) = b → parseContains acc ⟨true, some b, none⟩ (.seq k xs) = .ok (.seq k xs)) ∧
    ((xs.countP acc : Int) = b - 1 → ∀ r, parseContains acc ⟨true, some b, none⟩ (.seq k xs) ≠ .ok r) := by
  refine ⟨?_, ?_, ?_, ?_⟩
  · intro h
    rw [C02_contains_iff]
    refine ⟨fun _ => ⟨xs, rfl, ⟨by omega, fun m hm => (by cases hm), fun m hm => ?_⟩⟩, rfl⟩
    simp only [Option.some.injEq] at hm; omega
  · intro h r hr
    obtain ⟨hc, _⟩ := (C02_contains_iff _ _ _ _).mp hr
    obtain ⟨ys, hy, _, _, h3⟩ := hc rfl
    cases hy
    have := h3 b rfl
    omega
  · intro h
    rw [C02_contains_iff]
    refine ⟨fun _ => ⟨xs, rfl, ⟨by omega, fun m hm => ?_, fun m hm => (by cases hm)⟩⟩, rfl⟩
    simp only [Option.some.injEq] at hm; omega
  · intro h r hr
    obtain ⟨hc, _⟩ := (C02_contains_iff _ _ _ _).mp hr
    obtain ⟨ys, hy, _, h2, _⟩ := hc rfl
    cases hy
    have := h2 b rfl
    omega

/-! ### which validators a class gets: the constraints visible through the MRO (`Rule.__init_subclass__`) -/

theorem lookup_cons (b : Body) (rest : List Body) (key : String) :
    lookup (b :: rest) key = (match b.lookup key with | some a => some a | none => lookup rest key) := rfl

/-- a constraint bound in some class of the MRO and in no class before it is what `getattr` finds -/
theorem lookup_append (pre post : List Body) (b : Body) (key : String) (a : Attr)
    (hpre : ∀ p ∈ pre, p.lookup key = none) (hb : b.lookup key = some a) :
    lookup (pre ++ b :: post) key = some a := by
  induction pre with
  | nil => simp [lookup, hb]
  | cons p ps ih =>
    have hp : p.lookup key = none := hpre p (by simp)
    simp only [List.cons_append, lookup, hp]
    exact ih (fun q hq => hpre q (by simp [hq]))

/-- **`generate_validators` collects exactly the visible constraints**: a (validator name, bound) pair is collected
iff its key is a constraint name and `getattr` through the MRO yields that bound (not cancelled) in that mode -/
theorem C02_collect_iff (mro : List Body) (name : String) (v : PyVal) :
    (name, v) ∈ collect mro ↔
      ∃ key lax, key ∈ Tables.constraintOrder ∧ lookup mro key = some (.val v lax) ∧ name = vname key lax := by
  unfold collect
  simp only [List.mem_filterMap]
  constructor
  · rintro ⟨key, hk, h⟩
    cases hl : lookup mro key with
    | none => simp [hl] at h
    | some a =>
      cases a with
      | cancel => simp [hl] at h
      | val w lax =>
        simp only [hl, Option.some.injEq, Prod.mk.injEq] at h
        exact ⟨key, lax, hk, by rw [hl, h.2], h.1.symm⟩
  · rintro ⟨key, lax, hk, hl, rfl⟩
    exact ⟨key, hk, by simp [hl]⟩

/-- **every base, every level**: a constraint declared in any class of the MRO (own body, first base, a later base,
a grand-parent) and not re-bound before it is enforced by the compiled validators' source list — in particular
`class Score(int, NonNegative, AtMostTen): pass` collects both `ge` and `le` -/
theorem C02_inherited_collected (pre post : List Body) (b : Body) (key : String) (v : PyVal) (lax : Bool)
    (hk : key ∈ Tables.constraintOrder) (hpre : ∀ p ∈ pre, p.lookup key = none)
    (hb : b.lookup key = some (.val v lax)) :
    (vname key lax, v) ∈ collect (pre ++ b :: post) :=
  (C02_collect_iff _ _ _).mpr ⟨key, lax, hk, lookup_append pre post b key _ hpre hb, rfl⟩

/-- a cancelled (`unprovided`) or re-bound constraint of a base is *not* collected with the base's bound -/
theorem C02_override_wins (b : Body) (rest : List Body) (key : String) (a : Attr) (hb : b.lookup key = some a) :
    lookup (b :: rest) key = some a := by
  simp [lookup, hb]

/-- the worked example of the multiple-base declaration, computed by the model -/
theorem C02_multi_base_example :
    compile [[], [("ge", .val (.int 0) false)], [("le", .val (.int 10) false)]] = [("ge", .int 0), ("le", .int 10)] := by
  rfl

/-! ### the whole parse of a well-typed value, and isinstance -/

/-- **Declared type level.**  For a declaration whose validators return their input and whose args parser hands a
well-typed value back unchanged: the parse succeeds exactly when every compiled constraint accepts the value, the
contains family holds, and the hook accepts — nothing is skipped, nothing else is checked -/
theorem parseTyped_eq_core (P : Prims) (d : Decl) (v : PyVal) (hpre : d.pre v = .ok v) (happ : d.applied = false) :
    parseTyped P d v = parseCore P d v := by
  unfold parseTyped
  simp [hpre, happ, bind, Except.bind]

/-- a hidden type (`@utype.apply`) takes an instance of its origin as it is: only the hooks run (by design, decorator.py:193) -/
theorem C02_applied_skips_constraints (P : Prims) (d : Decl) (v w : PyVal) (hpre : d.pre v = .ok w) (happ : d.applied = true) :
    parseTyped P d v = d.post w := by
  unfold parseTyped
  simp [hpre, happ, bind, Except.bind]

theorem C02_parse_core_iff (P : Prims) (d : Decl) (v r : PyVal)
    (hargs : ∀ f, d.args = some f → f v = .ok v ∧ d.pack v = .ok v)
    (hp : ∀ c ∈ d.validators, ∃ f, validatorOf c.1 = some f ∧ Preserving f) :
    parseCore P d v = .ok r ↔
      (∀ c ∈ d.validators, ∃ f, validatorOf c.1 = some f ∧ f P v c.2 = .ok v) ∧
      ContainsHolds d.acc d.cont v ∧ d.post v = .ok r := by
  unfold parseCore
  have h1 : applyArgs d v = (.ok v : M PyVal) := by
    unfold applyArgs
    cases ha : d.args with
    | none => rfl
    | some f =>
      obtain ⟨h1, h2⟩ := hargs f ha
      simp only [h1, h2, bind, Except.bind]
  rw [h1]
  simp only [bind, Except.bind]
  cases hv : validate P d.validators v with
  | error e =>
    constructor
    · intro h; cases h
    · rintro ⟨hall, _, _⟩
      have := (C02_validate_iff P d.validators v v hp).mpr ⟨hall, rfl⟩
      rw [hv] at this; cases this
  | ok v2 =>
    have h2 := (C02_validate_iff P d.validators v v2 hp).mp hv
    obtain ⟨hall, rfl⟩ := h2
    cases hc : parseContains d.acc d.cont v2 with
    | error e =>
      constructor
      · intro h; simp only [hc] at h; cases h
      · rintro ⟨_, hch, _⟩
        have := (C02_contains_iff d.acc d.cont v2 v2).mpr ⟨hch, rfl⟩
        rw [hc] at this; cases this
    | ok v3 =>
      obtain ⟨hch, rfl⟩ := (C02_contains_iff d.acc d.cont v2 v3).mp hc
      constructor
      · intro h; simp only [hc] at h; exact ⟨hall, hch, h⟩
      · rintro ⟨_, _, h⟩; simp only [hc]; exact h

theorem C02_parse_typed_iff (P : Prims) (d : Decl) (v r : PyVal)
    (hpre : d.pre v = .ok v) (happ : d.applied = false)
    (hargs : ∀ f, d.args = some f → f v = .ok v ∧ d.pack v = .ok v)
    (hp : ∀ c ∈ d.validators, ∃ f, validatorOf c.1 = some f ∧ Preserving f) :
    parseTyped P d v = .ok r ↔
      (∀ c ∈ d.validators, ∃ f, validatorOf c.1 = some f ∧ f P v c.2 = .ok v) ∧
      ContainsHolds d.acc d.cont v ∧ d.post v = .ok r := by
  rw [parseTyped_eq_core P d v hpre happ]
  exact C02_parse_core_iff P d v r hargs hp

/-- `isinstance(v, T)` = origin check ∧ "the parse succeeds", for every declaration -/
theorem C02_isinstance_decl (P : Prims) (d : Decl) (originOk : PyVal → Bool) (v : PyVal) :
    instancecheck originOk (parseTyped P d) v = true ↔ originOk v = true ∧ ∃ r, parseTyped P d v = .ok r := by
  unfold instancecheck
  cases originOk v <;> cases parseTyped P d v <;> simp

/-- … in particular for a type whose *only* checks are contains / hooks (no validators, no args): isinstance is not
the bare origin check -/
theorem C02_isinstance_contains_only (P : Prims) (d : Decl) (originOk : PyVal → Bool) (v : PyVal)
    (hpre : d.pre v = .ok v) (happ : d.applied = false)
    (hv : d.validators = []) (ha : d.args = none) (ho : originOk v = true) :
    instancecheck originOk (parseTyped P d) v = true ↔ ContainsHolds d.acc d.cont v ∧ ∃ r, d.post v = .ok r := by
  rw [C02_isinstance_decl, ho]
  simp only [true_and]
  constructor
  · rintro ⟨r, hr⟩
    have := (C02_parse_typed_iff P d v r hpre happ (by simp [ha]) (by simp [hv])).mp hr
    exact ⟨this.2.1, r, this.2.2⟩
  · rintro ⟨hc, r, hr⟩
    exact ⟨r, (C02_parse_typed_iff P d v r hpre happ (by simp [ha]) (by simp [hv])).mpr ⟨by simp [hv], hc, hr⟩⟩

/-- non-vacuity: a contains-only declaration that accepts one list and rejects another of the same origin type -/
example (P : Prims) :
    let d : Decl := { validators := [], args := none, cont := ⟨true, some 2, some 3⟩,
                      acc := fun x => match x with | .int i => decide (0 < i) | _ => false, post := pure }
    instancecheck (fun _ => true) (parseTyped P d) (.seq .list [.int 1, .int 2, .int (-1)]) = true ∧
    instancecheck (fun _ => true) (parseTyped P d) (.seq .list [.int 1, .int (-2), .int (-1)]) = false := by
  constructor <;> rfl

/-! ### parametrising a constrained (sub)class keeps its constraints; a constrained member of a union is always parsed -/

theorem filterMap_congr_mem {α β : Type} (f g : α → Option β) :
    ∀ l : List α, (∀ x ∈ l, f x = g x) → l.filterMap f = l.filterMap g := by
  intro l
  induction l with
  | nil => intro _; rfl
  | cons a l ih =>
    intro h
    simp only [List.filterMap_cons, h a (by simp), ih (fun x hx => h x (by simp [hx]))]

theorem lookup_argsBody (mro : List Body) (args : PyVal) (e : Bool) (key : String)
    (h1 : key ≠ "__args__") (h2 : key ≠ "__ellipsis_args__") :
    lookup (getitemMro mro args e) key = lookup mro key := by
  unfold getitemMro argsBody
  have e1 : (key == "__args__") = false := by simpa using h1
  have e2 : (key == "__ellipsis_args__") = false := by simpa using h2
  cases e <;> simp [lookup, List.lookup, e1, e2]

/-- **`Sub[item]` has exactly the validators of `Sub`** — whatever `Sub` inherits, adds, overrides or cancels, at any
depth: the compiled list is that of the class that was subscripted -/
theorem C02_class_getitem_compile (mro : List Body) (args : PyVal) (e : Bool) :
    compile (getitemMro mro args e) = compile mro := by
  unfold compile collect
  congr 1
  apply filterMap_congr_mem
  intro key hk
  have h1 : key ≠ "__args__" := by
    intro h; subst h; revert hk; decide
  have h2 : key ≠ "__ellipsis_args__" := by
    intro h; subst h; revert hk; decide
  rw [lookup_argsBody mro args e key h1 h2]

/-- … and its contains / min_contains / max_contains -/
theorem C02_class_getitem_contains (mro : List Body) (args : PyVal) (e : Bool) :
    containsCfg (getitemMro mro args e) = containsCfg mro := by
  unfold containsCfg
  rw [lookup_argsBody mro args e "contains" (by decide) (by decide),
    lookup_argsBody mro args e "min_contains" (by decide) (by decide),
    lookup_argsBody mro args e "max_contains" (by decide) (by decide)]

/-- the worked example: `class U(list, Rule): unique_items = True; class S(U): max_length = 3; S[int]` -/
theorem C02_class_getitem_example :
    compile (getitemMro [[("max_length", .val (.int 3) false)], [("unique_items", .val (.bool true) false)]]
      (.seq .tuple [.opaque 0]) false) = [("max_length", .int 3), ("unique_items", .bool true)] := by
  rw [C02_class_getitem_compile]
  simp [compile, collect, lookup, List.lookup, vname, normalise, baseKey, Tables.constraintOrder, Py.truthy]

theorem tryMembers_rule_first (p : Nat → PyVal → M PyVal) (others : List Member) (i : Nat) (v : PyVal)
    (ho : ∀ m ∈ others, ∀ r, m.run i v ≠ .ok r) :
    tryMembers i v (.rule p :: others) = (match p i v with | .ok r => some r | .error _ => none) := by
  simp only [tryMembers, Member.run]
  cases p i v with
  | ok r => rfl
  | error e =>
    simp only
    induction others with
    | nil => rfl
    | cons m ms ih =>
      simp only [tryMembers]
      cases hm : m.run i v with
      | ok r => exact absurd hm (ho m (by simp) r)
      | error _ => exact ih (fun m' hm' => ho m' (by simp [hm']))

/-- **a constrained type inside a union is never short-cut**: for a value that no plain member's class equals and that
the other members reject at every stage, `(T | …)(v)` succeeds exactly when T's own parse succeeds at some stage, with
T's result — in particular a value of T's origin type that violates T (contains, hooks, anything) is rejected -/
theorem C02_union_member_iff (p : Nat → PyVal → M PyVal) (others : List Member) (stages : List Nat) (v r : PyVal)
    (hex : ∀ m ∈ others, m.exact v = false)
    (ho : ∀ i ∈ stages, ∀ m ∈ others, ∀ r, m.run i v ≠ .ok r)
    (hst : ∀ i ∈ stages, ∀ j ∈ stages, p i v = p j v) (hne : stages ≠ []) :
    unionParse (.rule p :: others) stages v = .ok r ↔ ∀ i ∈ stages, p i v = .ok r := by
  unfold unionParse
  have hany : (Member.rule p :: others).any (fun m => m.exact v) = false := by
    rw [List.any_cons]
    have : (others.any fun m => m.exact v) = false := by
      rw [List.any_eq_false]; intro m hm; simp [hex m hm]
    rw [this]; rfl
  simp only [hany, Bool.false_eq_true, if_false]
  induction stages with
  | nil => exact absurd rfl hne
  | cons i is ih =>
    simp only [tryStages]
    rw [tryMembers_rule_first p others i v (ho i (by simp))]
    cases hp : p i v with
    | ok r' =>
      simp only [pure, Except.pure, Except.ok.injEq]
      constructor
      · intro h j hj; rw [← hst i (by simp) j hj, hp, h]
      · intro h; have := h i (by simp); rw [hp] at this; injection this
    | error e =>
      simp only
      by_cases hn : is = []
      · subst hn
        simp only [tryStages, throw, throwThe, MonadExceptOf.throw]
        constructor
        · intro h; cases h
        · intro h; have := h i (by simp); rw [hp] at this; cases this
      · have hih := ih (fun j hj => ho j (List.mem_cons_of_mem _ hj))
          (fun a ha b hb => hst a (List.mem_cons_of_mem _ ha) b (List.mem_cons_of_mem _ hb)) hn
        constructor
        · intro h j hj
          have h' := hih.mp h
          rcases List.mem_cons.mp hj with rfl | hj'
          · obtain ⟨k, hk⟩ := List.exists_mem_of_ne_nil is hn
            rw [hst _ (by simp) k (by simp [hk])]; exact h' k hk
          · exact h' j hj'
        · intro h; exact hih.mpr (fun j hj => h j (by simp [hj]))

/-- the exact-type fast path of a union never applies to a member that is a constrained type -/
theorem C02_union_exact_not_rule (p : Nat → PyVal → M PyVal) (v : PyVal) : (Member.rule p).exact v = false := rfl

/-- non-vacuity / the `(HasPositive | None)([-1, -2])` example: the contains-only member is consulted and rejects -/
example (P : Prims) :
    let d : Decl := { validators := [], args := none, cont := ⟨true, none, some 2⟩,
                      acc := fun x => match x with | .int i => decide (0 < i) | _ => false, post := pure }
    let none_ : Member := .plain .noneType (fun _ _ => .error .typeError)
    unionParse [.rule (fun _ => parseTyped P d), none_] [0, 1, 2] (.seq .list [.int (-1), .int (-2)]) = .error .valueError ∧
    unionParse [.rule (fun _ => parseTyped P d), none_] [0, 1, 2] (.seq .list [.int 1, .int (-2)]) = .ok (.seq .list [.int 1, .int (-2)]) := by
  constructor <;> rfl

/-! ### a `const` without a source type (`types.Zero`) and declarations that are equal but not identical -/

/-- no conversion comes before a `const` that has no source type: whatever is accepted is `==` to the constant — no
fraction is a `Zero` -/
theorem C02_const_accepts_only_equal (P : Prims) (v c r : PyVal) (h : Constraints.const P v c = .ok r) :
    Py.eq v c = true ∧ r = c :=
  let h' := (C02_const_iff P v c r).mp h
  ⟨h'.1, h'.2.2⟩

/-- `types.Zero` on numbers: 0, 0.0 and Decimal 0 are accepted (int/float and int/Decimal tolerance) and give 0; `False`
(equal, other type) and 1/2 (a dyadic fraction, not equal) are rejected -/
theorem C02_zero_examples (P : Prims) :
    Constraints.const P (.int 0) (.int 0) = .ok (.int 0) ∧
    Constraints.const P (.float (.fin 0 0)) (.int 0) = .ok (.int 0) ∧
    Constraints.const P (.dec (.fin false 0 0)) (.int 0) = .ok (.int 0) ∧
    Constraints.const P (.bool false) (.int 0) = .error .valueError ∧
    Constraints.const P (.float (.fin 1 (-1))) (.int 0) = .error .valueError ∧
    Constraints.const P (.float (.fin (-1) (-2))) (.int 0) = .error .valueError := by
  refine ⟨?_, ?_, ?_, ?_, ?_, ?_⟩ <;> rfl

/-- declarations whose constants are equal but not identical stay apart: `const = 1` and `const = True` accept disjoint
sets of values (so two such declarations can never stand for one another) -/
theorem C02_const_twins_disjoint (P : Prims) (v r r' : PyVal)
    (h1 : Constraints.const P v (.int 1) = .ok r) (h2 : Constraints.const P v (.bool true) = .ok r') : False := by
  have a := (C02_const_iff P v (.int 1) r).mp h1
  have b := (C02_const_iff P v (.bool true) r').mp h2
  have ta : typeOf v = .int ∨ tolerant (typeOf v) .int = true := by simpa [typeOf] using a.2.1
  have tb : typeOf v = .bool ∨ tolerant (typeOf v) .bool = true := by simpa [typeOf] using b.2.1
  cases hv : typeOf v with
  | other n =>
    simp [hv, tolerant, Tables.TYPE_EXACT_TOLERANCE, memEq, Py.eq, eqScalar, num?] at tb
  | _ => simp [hv] at ta tb <;> revert ta tb <;> decide

/-- a declaration is a function of its own class bodies: in a sequence of declarations every declared type has the
validators it has when declared alone (no state is shared between declarations) -/
theorem C02_declarations_independent (mros : List (List Body)) (i : Nat) (h : i < mros.length) :
    (mros.map compile)[i]'(by simpa using h) = compile (mros[i]) := by
  simp

/-! ### review round: constraint lists that contain `decimal_places`; `normalise`; what "rejected" means; precision -/

theorem validate_append (P : Prims) (a b : List (String × PyVal)) (v : PyVal) :
    validate P (a ++ b) v = (validate P a v >>= validate P b) := by
  induction a generalizing v with
  | nil => simp [validate, bind, Except.bind, pure, Except.pure]
  | cons c a ih =>
    obtain ⟨n, bd⟩ := c
    simp only [List.cons_append, validate]
    cases validatorOf n with
    | none => simp [bind, Except.bind, throw, throwThe, MonadExceptOf.throw]
    | some f =>
      simp only [bind, Except.bind]
      cases f P v bd with
      | error e => rfl
      | ok w => simpa [bind, Except.bind] using ih w

/-- **a constraint list with `decimal_places` in it** (the one strict validator of a numeric type that is not
input-preserving): the constraints before it look at the input, `decimal_places` accepts iff the value has at most `d`
fraction digits and completes a Decimal to exactly `d` places, and the constraints after it (in table order: `multiple_of`,
`max_digits`) look at the **completed** value `w`, which is also the result — the documented padding (rule.md) -/
theorem C02_validate_decimal_places_chain (P : Prims) (pre post : List (String × PyVal)) (d v r : PyVal)
    (hpre : ∀ c ∈ pre, c.1 ∈ strictPreservingNames) (hpost : ∀ c ∈ post, c.1 ∈ strictPreservingNames) :
    validate P (pre ++ ("decimal_places", d) :: post) v = .ok r ↔
      (∀ c ∈ pre, ∃ f, validatorOf c.1 = some f ∧ f P v c.2 = .ok v) ∧
      ∃ w, Constraints.decimal_places P v d = .ok w ∧
        (∀ c ∈ post, ∃ f, validatorOf c.1 = some f ∧ f P w c.2 = .ok w) ∧ r = w := by
  rw [validate_append]
  cases h1 : validate P pre v with
  | error e =>
    simp only [bind, Except.bind]
    constructor
    · intro h; cases h
    · rintro ⟨hall, _⟩
      have := (C02_validate_iff_names P pre v v hpre).mpr ⟨hall, rfl⟩
      rw [h1] at this; cases this
  | ok v1 =>
    obtain ⟨hall, rfl⟩ := (C02_validate_iff_names P pre v v1 hpre).mp h1
    simp only [bind, Except.bind, validate, validatorOf]
    cases h2 : Constraints.decimal_places P v1 d with
    | error e =>
      constructor
      · intro h; cases h
      · rintro ⟨_, w, hw, _⟩; cases hw
    | ok w =>
      simp only [C02_validate_iff_names P post w r hpost]
      constructor
      · rintro ⟨hp, rfl⟩; exact ⟨hall, r, rfl, hp, rfl⟩
      · rintro ⟨_, w', hw', hp, rfl⟩
        injection hw' with hw'
        subst hw'
        exact ⟨hp, rfl⟩

/-- the documented example: `Decimal('1.3')` with `decimal_places = 2, max_digits = 2` is completed to `1.30` (3 digits)
and rejected by `max_digits`; with `max_digits = 3` it is accepted as `1.30` -/
theorem C02_decimal_places_then_max_digits_example (P : Prims) :
    validate P [("decimal_places", .int 2), ("max_digits", .int 2)] (.dec (.fin false 13 (-1))) = .error .valueError ∧
    validate P [("decimal_places", .int 2), ("max_digits", .int 3)] (.dec (.fin false 13 (-1))) = .ok (.dec (.fin false 130 (-2))) := by
  constructor <;> rfl

/-- **known finding `decimal-places-precision`**: completing a Decimal to `d` places goes through `round(value, d)` =
`quantize`, which raises `InvalidOperation` when the completed coefficient needs more digits than the context precision (28):
a valid value (fraction digits ≤ d) is then rejected -/
def KnownDefect.decimalPlacesPrecision (c : Nat) (e d : Int) : Bool :=
  decide (e ≥ -d) && decide (numDigits (c * 10 ^ (e + d).toNat) > decPrec)

theorem C02_decimal_places_precision_witness (P : Prims) :
    KnownDefect.decimalPlacesPrecision (10 ^ 27) 0 2 = true ∧
    specDecimals (10 ^ 27) 0 ≤ 2 ∧
    Constraints.decimal_places P (.dec (.fin false (10 ^ 27) 0)) (.int 2) = .error .invalidOperation := by
  refine ⟨by decide, by decide, ?_⟩
  rfl

/-- outside that region `decimal_places` is exact on finite Decimals: accepted iff the fraction digits fit, and the result is the
input with zeros appended (same number) -/
theorem C02_decimal_places_exact_partial (P : Prims) (s : Bool) (c : Nat) (e d : Int) (r : PyVal)
    (hk : KnownDefect.decimalPlacesPrecision c e d = false) :
    Constraints.decimal_places P (.dec (.fin s c e)) (.int d) = .ok r ↔
      specDecimals c e ≤ d ∧ r = .dec (.fin s (c * 10 ^ (e + d).toNat) (-d)) := by
  rw [C02_decimal_places_decimal]
  constructor
  · rintro ⟨h1, h2⟩
    have he : e ≥ -d := by
      have hd := (C02_parse_decimal_spec c e).2
      unfold codeDecimals at hd
      by_cases h0 : e ≥ 0
      · simp [h0] at hd; omega
      · simp [h0] at hd; omega
    have hp : numDigits (c * 10 ^ (e + d).toNat) ≤ decPrec := by
      simp [KnownDefect.decimalPlacesPrecision, he] at hk; omega
    rw [C02_decimal_places_pads s c e d h1 hp] at h2
    injection h2 with h2
    exact ⟨h1, h2.symm⟩
  · rintro ⟨h1, rfl⟩
    have he : e ≥ -d := by
      have hd := (C02_parse_decimal_spec c e).2
      unfold codeDecimals at hd
      by_cases h0 : e ≥ 0
      · simp [h0] at hd; omega
      · simp [h0] at hd; omega
    have hp : numDigits (c * 10 ^ (e + d).toNat) ≤ decPrec := by
      simp [KnownDefect.decimalPlacesPrecision, he] at hk; omega
    exact ⟨h1, C02_decimal_places_pads s c e d h1 hp⟩

example : KnownDefect.decimalPlacesPrecision 13 (-1) 2 = false := by decide

/-- the completed value is the same number: `c·10^e = (c·10^(e+d))·10^(-d)` (so the result of `decimal_places` is `==` its input) -/
theorem C02_decimal_places_same_number (s : Bool) (c : Nat) (e d : Int) (he : e ≥ -d) :
    Q.eq (decQ s c e) (decQ s (c * 10 ^ (e + d).toNat) (-d)) = true := by
  rw [C02_eq_exact _ _ 0 (-d) (by simp [decQ]) (by simp [decQ]) (by simpa [decQ] using he) (by simp [decQ])]
  simp only [decide_eq_true_eq, Utv.Py.Q.over, decQ, Int.sub_self, Int.toNat_zero, Int.pow_zero, Int.mul_one]
  have : (e - -d).toNat = (e + d).toNat := by congr 1; omega
  rw [this]
  cases s <;> simp [Int.natCast_mul, Int.natCast_pow, Int.neg_mul]

/-! #### `normalise`: which collected constraints become validators (`validate_constraints`, rule.py:773-837) -/

/-- `const` stands alone -/
theorem C02_normalise_const (cs : List (String × PyVal)) (c : String × PyVal)
    (h : cs.find? (fun c => baseKey c.1 == "const") = some c) : normalise cs = [c] := by
  simp [normalise, h]

/-- without `const`, `enum` stands alone -/
theorem C02_normalise_enum (cs : List (String × PyVal)) (c : String × PyVal)
    (h0 : cs.find? (fun c => baseKey c.1 == "const") = none)
    (h : cs.find? (fun c => baseKey c.1 == "enum") = some c) : normalise cs = [c] := by
  simp [normalise, h0, h]

def isNoneB (v : PyVal) : Bool := match v with | .none => true | _ => false

/-- the bounds that survive the first two filters of `normalise` -/
def liveBounds (cs : List (String × PyVal)) : List (String × PyVal) :=
  (cs.filter fun c => !isNoneB c.2).filter fun c => !(baseKey c.1 == "unique_items" && !Py.truthy c.2)

/-- without `const` and `enum`, a collected constraint becomes a validator iff its bound is not `None`, it is not a false
`unique_items`, and it is not a `min_length`/`max_length` made redundant by `length` (nor a zero `min_length`) -/
theorem C02_normalise_mem_iff (cs : List (String × PyVal)) (c : String × PyVal)
    (h0 : cs.find? (fun c => baseKey c.1 == "const") = none)
    (h1 : cs.find? (fun c => baseKey c.1 == "enum") = none) :
    c ∈ normalise cs ↔
      c ∈ liveBounds cs ∧
      (if baseKey c.1 == "min_length" then !((liveBounds cs).any fun x => baseKey x.1 == "length") && Py.truthy c.2
       else if baseKey c.1 == "max_length" then !((liveBounds cs).any fun x => baseKey x.1 == "length") else true) = true := by
  simp only [normalise, h0, h1, List.mem_filter, liveBounds, isNoneB]
  constructor <;> intro h <;> exact h

/-- **visible ⇒ enforced**: a constraint visible through the MRO with a real bound, in a declaration without `const`/`enum`
and other than the `min_length`/`max_length`/`unique_items` special cases, is one of the compiled validators -/
theorem C02_compile_enforced (mro : List Body) (key : String) (v : PyVal) (lax : Bool)
    (hk : key ∈ Tables.constraintOrder) (hl : lookup mro key = some (.val v lax))
    (h0 : (collect mro).find? (fun c => baseKey c.1 == "const") = none)
    (h1 : (collect mro).find? (fun c => baseKey c.1 == "enum") = none)
    (hv : isNoneB v = false)
    (hkey : baseKey (vname key lax) ≠ "unique_items" ∧ baseKey (vname key lax) ≠ "min_length" ∧
            baseKey (vname key lax) ≠ "max_length") :
    (vname key lax, v) ∈ compile mro := by
  unfold compile
  rw [C02_normalise_mem_iff _ _ h0 h1]
  have hu : (baseKey (vname key lax) == "unique_items") = false := by simpa using hkey.1
  have a : (baseKey (vname key lax) == "min_length") = false := by simpa using hkey.2.1
  have b : (baseKey (vname key lax) == "max_length") = false := by simpa using hkey.2.2
  refine ⟨?_, by simp [a, b]⟩
  simp only [liveBounds, List.mem_filter]
  exact ⟨⟨(C02_collect_iff mro _ v).mpr ⟨key, lax, hk, hl, rfl⟩, by simp [hv]⟩, by simp [hu]⟩

/-- the `length` rule: with `length` declared, `min_length` and `max_length` are not compiled (they are implied or the
declaration was refused) -/
theorem C02_normalise_length_example :
    normalise [("length", .int 2), ("max_length", .int 3), ("min_length", .int 1)] = [("length", .int 2)] := by
  simp [normalise, baseKey, Py.truthy]

/-- **declaration level**: for a class statement whose compiled validators are input-preserving (any MRO over the twelve
names), no item types and default hooks, the declared type accepts a value of its origin type exactly when every compiled
validator accepts it and the contains family read through the MRO holds; result = input -/
theorem C02_declared_type_iff (P : Prims) (mro : List Body) (acc : PyVal → Bool) (v r : PyVal)
    (hn : ∀ c ∈ compile mro, c.1 ∈ strictPreservingNames) :
    parseTyped P (declOf mro none acc pure) v = .ok r ↔
      (∀ c ∈ compile mro, ∃ f, validatorOf c.1 = some f ∧ f P v c.2 = .ok v) ∧
      ContainsHolds acc (containsCfg mro) v ∧ r = v := by
  have h := C02_parse_typed_iff P (declOf mro none acc pure) v r rfl rfl (by simp [declOf])
    (fun c hc => C02_preserving_of_name (hn c hc))
  simp only [declOf] at h ⊢
  rw [h]
  simp [pure, Except.pure, eq_comm]

/-- non-vacuity of `C02_parse_typed_iff` with item types, validators and contains together: `List[int]`-like declaration
(items of the item type convert to themselves, a list packs to itself), `max_length = 3`, `contains` positive, `max_contains = 2` -/
example (P : Prims) :
    let d : Decl := { validators := [("max_length", .int 3)], args := some pure, cont := ⟨true, none, some 2⟩,
                      acc := fun x => match x with | .int i => decide (0 < i) | _ => false, post := pure }
    (∀ f, d.args = some f → f (.seq .list [.int 1, .int (-2)]) = .ok (.seq .list [.int 1, .int (-2)]) ∧
        d.pack (.seq .list [.int 1, .int (-2)]) = .ok (.seq .list [.int 1, .int (-2)])) ∧
    (∀ c ∈ d.validators, ∃ f, validatorOf c.1 = some f ∧ Preserving f) ∧
    parseTyped P d (.seq .list [.int 1, .int (-2)]) = .ok (.seq .list [.int 1, .int (-2)]) ∧
    parseTyped P d (.seq .list [.int 1, .int 2, .int 3]) = .error .valueError := by
  refine ⟨?_, ?_, rfl, rfl⟩
  · intro f hf; simp at hf; subst hf; exact ⟨rfl, rfl⟩
  · intro c hc; simp at hc; subst hc; exact ⟨_, rfl, preserving_max_length⟩

/-- `max_contains = 0` (the repaired defect): together with `contains` nothing is accepted -/
theorem C02_contains_max_zero (acc : PyVal → Bool) (k : Cls) (xs : List PyVal) (r : PyVal) :
    parseContains acc ⟨true, none, some 0⟩ (.seq k xs) ≠ .ok r := by
  intro h
  obtain ⟨hc, _⟩ := (C02_contains_iff _ _ _ _).mp h
  obtain ⟨ys, _, h1, _, h3⟩ := hc rfl
  have := h3 0 rfl
  omega

/-! #### "rejected" vs "outside the model": on the exact domains the validators never answer `unmodelled` -/

/-- on numbers (bool, int, finite or infinite float, finite or infinite Decimal — any mix) a range constraint either accepts
(returning its input) or raises `ValueError`; it is never `unmodelled` and never another exception -/
theorem C02_range_total_numeric (P : Prims) (v b : PyVal) (hv : Numeric v) (hb : Numeric b) :
    (Constraints.gt P v b = .ok v ∨ Constraints.gt P v b = .error .valueError) ∧
    (Constraints.ge P v b = .ok v ∨ Constraints.ge P v b = .error .valueError) ∧
    (Constraints.lt P v b = .ok v ∨ Constraints.lt P v b = .error .valueError) ∧
    (Constraints.le P v b = .ok v ∨ Constraints.le P v b = .error .valueError) := by
  obtain ⟨x, hx, nx⟩ := hv
  obtain ⟨y, hy, ny⟩ := hb
  have h1 : Py.lt v b = .ok (NumV.lt x y) := lt_numeric hx hy nx ny
  have h2 : Py.lt b v = .ok (NumV.lt y x) := lt_numeric hy hx ny nx
  refine ⟨?_, ?_, ?_, ?_⟩
  · unfold Constraints.gt
    simp only [Py.gt, h2]
    cases NumV.lt y x <;> py_simp
  · unfold Constraints.ge
    simp only [Py.ge, Py.le, h2, bind, Except.bind, pure, Except.pure]
    cases (NumV.lt y x || Py.eq b v) <;> py_simp
  · unfold Constraints.lt
    simp only [h1]
    cases NumV.lt x y <;> py_simp
  · unfold Constraints.le
    simp only [Py.le, h1, bind, Except.bind, pure, Except.pure]
    cases (NumV.lt x y || Py.eq v b) <;> py_simp

/-- the length family on anything that has a length, with an int bound: accepts or `ValueError` -/
theorem C02_length_total (P : Prims) (v : PyVal) (n : Nat) (m : Int) (h : lenOf v = some n) :
    (Constraints.max_length P v (.int m) = .ok v ∨ Constraints.max_length P v (.int m) = .error .valueError) ∧
    (Constraints.min_length P v (.int m) = .ok v ∨ Constraints.min_length P v (.int m) = .error .valueError) ∧
    (Constraints.length P v (.int m) = .ok v ∨ Constraints.length P v (.int m) = .error .valueError) := by
  refine ⟨?_, ?_, ?_⟩
  · unfold Constraints.max_length
    simp only [hasLen_of_lenOf h, Bool.not_true]
    py_simp [len_of_lenOf h]
    by_cases hn : m < (n : Int) <;> simp [hn] <;> omega
  · unfold Constraints.min_length
    simp only [hasLen_of_lenOf h, Bool.not_true]
    py_simp [len_of_lenOf h]
    by_cases hn : (n : Int) < m <;> simp [hn] <;> omega
  · unfold Constraints.length
    simp only [hasLen_of_lenOf h, Bool.not_true]
    py_simp [len_of_lenOf h, ne_int]
    by_cases hn : (n : Int) = m <;> simp [hn]

/-! ### round 4: the Send slot of a generator and forward-referenced field annotations -/

/-- **every sent value other than `None` goes through the Send type** — also the falsy ones (0, 0.0, '', empty containers) -/
theorem C02_send_slot_parses (parse : PyVal → M PyVal) (v : PyVal) (h : v ≠ .none) : sendSlot parse v = parse v := by
  cases v <;> simp [sendSlot] at h ⊢

/-- `send(0)` into `Generator[int, PositiveInt, None]` is rejected, `send(1)` reaches the body unchanged -/
theorem C02_send_slot_falsy_example (P : Prims) :
    sendSlot (fun v => validate P [("gt", .int 0)] v) (.int 0) = .error .valueError ∧
    sendSlot (fun v => validate P [("gt", .int 0)] v) (.int 1) = .ok (.int 1) := by
  constructor <;> rfl

/-- **a lazily resolved field keeps its `Field(...)` constraints**: every constraint given to the field is collected for the
resolved type (first in the MRO), and the target's own constraints not re-bound by the field are collected as well -/
theorem C02_forward_ref_keeps_field_constraints (fc : Body) (target : List Body) (key : String) (v : PyVal) (lax : Bool)
    (hk : key ∈ Tables.constraintOrder) (hb : fc.lookup key = some (.val v lax)) :
    (vname key lax, v) ∈ collect (resolveForwardRef fc target) :=
  C02_inherited_collected [] target fc key v lax hk (by simp) hb

theorem C02_forward_ref_example :
    compile (resolveForwardRef [("le", .val (.int 100) false)] [[("ge", .val (.int 1) false)]]) =
      [("ge", .int 1), ("le", .int 100)] := by
  rfl

end Utv.C02
