/-
C18 — model of the depth / route accounting and of the conversion work of nested parsing.

Hand-written, branch for branch, of the code that decides *how deep* a value is and *how often*
a leaf converter runs:

* `RuntimeContext.__init__` / `enter`                       utype/parser/options.py:335-404
* `Options.make_context`                                     utype/parser/options.py:219-258
* nested data-class context (`init_dataclass`)               utype/parser/cls.py:551-592
* `transform_dataclass`                                      utype/parser/cls.py:599-616
* field loops `field_first_parse` / `data_first_parse`       utype/parser/base.py:423-619
* `ParserField.parse_value` (route = field name)             utype/parser/field.py:1063-1089
* `Rule.parse` + `_parse_seq_args` / `_parse_map_args`       utype/parser/rule.py:1681-1749, 1947-2032
* the staged union retries of `LogicalType.logical_parse`    utype/parser/rule.py:376-424
* `to_array_types` / `to_dict` / `to_null` on the value shapes of the fragment
                                                             utype/utils/transform.py:195-388

Tied to the code by the correspondence run (harness/c18.py): the same declarations (JSON
descriptors instantiated as real `Schema` classes), the same inputs (including cyclic ones) and
the same options run on the real library and on `parseTop` below; verdict, result tree, the
"a DepthExceedError is among the causes" flag and the *exact number of leaf-converter calls* are
compared.  The leaf converter is a parameter (`World`), so every theorem holds for every leaf
behaviour.

What is *not* the property's business is left out: constraints, aliases, required fields,
`collect_errors`, `invalid_items` policies (all at their defaults: fail-fast, throw).
-/
namespace Utv.C18

/-- the two transformer preferences that the union stages switch (options.py:78-79) -/
structure Mode where
  noLoss : Bool     -- no_data_loss
  noCast : Bool     -- no_explicit_cast
  deriving DecidableEq, Repr

def Mode.lenient : Mode := ⟨false, false⟩
def Mode.strict : Mode := ⟨true, true⟩

inductive Key where
  | str (s : String)
  | int (i : Int)
  | other (tag : Nat)      -- any other hashable key: None (0), False (1), True (2)
  deriving DecidableEq, Repr

/-- Python truthiness of a route: `0` and `''` are falsy (the pre-fix `if route:`). -/
def Key.falsy : Key → Bool
  | .str s => s == ""
  | .int i => i == 0
  | .other tag => tag ≤ 1

inductive KeyTy where
  | str | int | any          -- Dict[str, ·], Dict[int, ·], Dict[Any, ·]
  deriving DecidableEq, Repr

def KeyTy.admits : KeyTy → Key → Bool
  | .str, .str _ => true
  | .int, .int _ => true
  | .any, _ => true
  | _, _ => false

/-- declared types of the fragment -/
inductive Ty where
  | leaf                               -- the harness' counting leaf type
  | none                               -- NoneType
  | data (k : Nat)                     -- data class `k` of the environment (possibly recursive)
  | list (t : Ty)                      -- List[t]
  | tuple (t : Ty)                     -- Tuple[t, ...]
  | dict (kt : KeyTy) (t : Ty)         -- Dict[kt, t]
  | union (ts : List Ty)               -- Union[...] / Optional[...]
  deriving Repr

/-- input values (finite trees; a cyclic Python object is represented by its unfoldings) -/
inductive Val where
  | tok (n : Nat)                      -- a scalar handed to the leaf converter
  | none
  | list (vs : List Val)
  | dict (kvs : List (Key × Val))
  deriving Repr

/-- parse results -/
inductive Res where
  | leaf (n : Nat)
  | none
  | data (k : Nat) (fs : List (String × Res))     -- instance of class k, fields in declaration order
  | list (rs : List Res)
  | tuple (rs : List Res)
  | dict (kvs : List (Key × Res))
  deriving Repr

structure ClassDecl where
  fields   : List (String × Ty)
  mode     : Mode := Mode.lenient      -- the class' own `__options__` preferences
  maxDepth : Option Nat := none        -- `Options(max_depth=…)`
  dfs      : Bool := false             -- `data_first_search`
  deriving Repr

abbrev Env := List ClassDecl

/-- behaviour of the leaf converter: which tokens it accepts under which preferences.
It rejects everything that is not a token.  Every theorem is for all `World`s. -/
structure World where
  leafOk : Mode → Nat → Bool

/-- how the code under test counts levels (the two places where the unchanged code is wrong) -/
structure Quirks where
  /-- pre-fix `if route:` — a falsy route (index 0, key '' / 0) is taken for "no route" and adds a level -/
  falsyRoute : Bool := false
  /-- pre-fix: a context without a class (type_transform, function call) also counts as a level -/
  rootLevel : Bool := false
  /-- (never in the library; a seeded variant) a field setter chains its context to the one the instance was
  built with, so the level at which the instance sits in an earlier parse is carried into the assignment -/
  setterInherits : Bool := false
  deriving Repr

def Quirks.fixed : Quirks := {}
def Quirks.legacy : Quirks := { falsyRoute := true, rootLevel := true }

structure Flags where
  depth : Bool := false        -- a DepthExceedError is among the reported causes
  fuel  : Bool := false        -- the model ran out of fuel (never with the driver's budget)
  deriving DecidableEq, Repr

def Flags.or (a b : Flags) : Flags := ⟨a.depth || b.depth, a.fuel || b.fuel⟩

inductive Out (α : Type) where
  | ok (a : α)
  | err (f : Flags)            -- an instance of ParseError leaves the entry point
  deriving Repr

def Out.isOk {α} : Out α → Bool
  | .ok _ => true
  | .err _ => false

/-- the part of a `RuntimeContext` that matters here -/
structure Ctx where
  depth : Nat
  mode  : Mode
  md    : Option Nat           -- `options.max_depth` of this context
  deriving Repr

/-- options.py:372  `if self.options.max_depth and self.depth > self.options.max_depth` -/
def exceeded (md : Option Nat) (depth : Nat) : Bool :=
  match md with
  | some m => m != 0 && depth > m
  | none => false

/-- `context.enter(route, options)` (options.py:389-404 → `__init__` :335-375): same class, options
merged (`self.options & options` keeps `max_depth`), the route is appended — and, before the fix,
a falsy route was taken for "no route": one more level, checked against `max_depth`. -/
def enter (Q : Quirks) (c : Ctx) (falsy : Bool) (m : Mode) : Out Ctx :=
  let d := if Q.falsyRoute && falsy then c.depth + 1 else c.depth
  if Q.falsyRoute && falsy && exceeded c.md d then .err { depth := true }
  else .ok { c with depth := d, mode := m }

/-! ### generic loops (fail-fast: `handle_error` raises at the first error) -/

/-- items in order; the first failing item aborts; costs add up -/
def seqM {α β} (p : α → Out β × Nat) : List α → Out (List β) × Nat
  | [] => (.ok [], 0)
  | a :: as =>
    match p a with
    | (.err f, c) => (.err f, c)
    | (.ok b, c) =>
      match seqM p as with
      | (.ok bs, c') => (.ok (b :: bs), c + c')
      | (.err f, c') => (.err f, c + c')

/-- one union stage: the arguments in order, the first success returns, failures are collected
(`collect_tmp_error`), their costs add up (rule.py:386-397, 402-413, 414-424) -/
def tryAll {α β} (p : α → Out β × Nat) : List α → Flags → Out β × Nat
  | [], f => (.err f, 0)
  | a :: as, f =>
    match p a with
    | (.ok b, c) => (.ok b, c)
    | (.err g, c) =>
      match tryAll p as (f.or g) with
      | (o, c') => (o, c + c')

def flagsOf {β} : Out β → Flags
  | .err f => f
  | .ok _ => {}

/-- run a later stage only when the earlier one failed; costs add up, flags accumulate -/
def orElse {β} (a : Out β × Nat) (b : Flags → Out β × Nat) : Out β × Nat :=
  match a with
  | (.ok r, c) => (.ok r, c)
  | (.err f, c) => match b f with | (o, c') => (o, c + c')

def lookupKey {α} (k : Key) : List (Key × α) → Option α
  | [] => none
  | (k', a) :: rest => if k' = k then some a else lookupKey k rest

def hasNone : List Ty → Bool
  | [] => false
  | .none :: _ => true
  | _ :: ts => hasNone ts

def isNoneVal : Val → Bool
  | .none => true
  | _ => false

/-- `to_array_types` on a value that is not already a list/tuple (transform.py:255-308):
without `no_explicit_cast` a scalar or mapping is wrapped into a one-element list (`{}` → `[]`). -/
def wrapSeq (m : Mode) : Val → Option (List Val)
  | .list vs => some vs
  | .dict [] => if m.noCast then none else some []
  | v => if m.noCast then none else some [v]

/-- `transform_dataclass` (cls.py:616-630): a non-empty list / tuple given where a data class is expected stands
for its first item unless `no_explicit_cast` (more than one item is a data loss: TypeError before any context
is made; since ea05768 the unwrapping sits in a guard that turns any exception — also of an ill-behaved sequence
subclass, which the fragment does not contain — into a ParseError).  `none` = that error. -/
def unwrapData (m : Mode) : Val → Option Val
  | .list (w :: ws) => if m.noCast then some (.list (w :: ws)) else if m.noLoss && !ws.isEmpty then none else some w
  | v => some v

/-- `to_dict` (transform.py:311-386) on the value shapes of the fragment: a mapping is itself; an empty sequence is
the empty mapping; a sequence that is not a collection of key/value pairs is read through its first item
(`_attempt_from`; with `no_data_loss` only if it is the only item), which must be a mapping or an empty sequence;
scalars and None never convert; nothing converts under `no_explicit_cast`.  (Sequences of pairs are outside the
modelled fragment.)  `none` = the conversion raises. -/
def toDict (m : Mode) : Val → Option (List (Key × Val))
  | .dict kvs => some kvs
  | .list [] => if m.noCast then none else some []
  | .list (w :: ws) =>
    if m.noCast then none else if m.noLoss && !ws.isEmpty then none else
    match w with
    | .dict kvs => some kvs
    | .list [] => some []
    | _ => none
  | _ => none

def indexed {α} : Nat → List α → List (Nat × α)
  | _, [] => []
  | i, a :: as => (i, a) :: indexed (i + 1) as

/-- relabel a successful item (costs and errors unchanged) -/
def mapOut {β γ} (g : β → γ) : Out β × Nat → Out γ × Nat
  | (.ok b, n) => (.ok (g b), n)
  | (.err f, n) => (.err f, n)

/-- run `p` inside the child context `enter …` (an `enter` that raises costs nothing) -/
def inCtx {β} (e : Out Ctx) (p : Ctx → Out β × Nat) : Out β × Nat :=
  match e with
  | .err f => (.err f, 0)
  | .ok c => p c

/-! ### the parser -/

abbrev Parser := Ctx → Ty → Val → Out Res × Nat

/-- items of a sequence / variable-length tuple: `_parse_seq_args`
`for i, item in enumerate(items): with context.enter(route=i)` (the items are read once through `Rule._read_items`;
for lists and tuples that is the list of their items) -/
def parseItems (Q : Quirks) (rec : Parser) (c : Ctx) (t : Ty) (vs : List Val) : Out (List Res) × Nat :=
  seqM (fun (iv : Nat × Val) => inCtx (enter Q c (iv.1 == 0) c.mode) fun c' => rec c' t iv.2) (indexed 0 vs)

/-- field.py:1063 `context.enter(self.name)`: a field name is never falsy -/
def parseField (Q : Quirks) (rec : Parser) (c : Ctx) (t : Ty) (v : Val) : Out Res × Nat :=
  inCtx (enter Q c false c.mode) fun c' => rec c' t v

/-- one declared field in `field_first_parse`: looked up among the data keys; absent → default None -/
def ffItem (Q : Quirks) (rec : Parser) (c : Ctx) (kvs : List (Key × Val)) (ft : String × Ty) :
    Out (String × Res) × Nat :=
  match lookupKey (.str ft.1) kvs with
  | none => (Out.ok (ft.1, Res.none), 0)
  | some fv => mapOut (fun r => (ft.1, r)) (parseField Q rec c ft.2 fv)

/-- field_first_parse (base.py:538-585): the declared fields in order; absent → default None -/
def parseFF (Q : Quirks) (rec : Parser) (c : Ctx) (fields : List (String × Ty)) (kvs : List (Key × Val)) :
    Out (List (String × Res)) × Nat :=
  seqM (ffItem Q rec c kvs) fields

/-- a Python mapping holds every key once: later duplicates of a key (which only the list
representation can express) are not items of the mapping -/
def dedupFst {α} : List (String × α) → List (String × α)
  | [] => []
  | x :: xs => x :: (dedupFst xs).filter (fun y => y.1 != x.1)

/-- the known fields among the data keys, in input order (unknown keys are dropped: addition=None) -/
def knownItems (fields : List (String × Ty)) (kvs : List (Key × Val)) : List (String × Ty × Val) :=
  dedupFst (kvs.filterMap fun (kv : Key × Val) =>
    match kv.1 with
    | .str s => (fields.lookup s).map fun t => (s, t, kv.2)
    | _ => none)

/-- data_first_parse (base.py:437-470): the *data* keys in input order; then defaults -/
def parseDF (Q : Quirks) (rec : Parser) (c : Ctx) (fields : List (String × Ty)) (kvs : List (Key × Val)) :
    Out (List (String × Res)) × Nat :=
  mapOut (fun rs => fields.map fun ft => (ft.1, (rs.lookup ft.1).getD Res.none))
    (seqM (fun (it : String × Ty × Val) => mapOut (fun r => (it.1, r)) (parseField Q rec c it.2.1 it.2.2))
      (knownItems fields kvs))

/-- is the data key a declared field -/
def isKnown (fields : List (String × Ty)) (kv : Key × Val) : Bool :=
  match kv.1 with
  | .str s => (fields.lookup s).isSome
  | _ => false

def hasUnknown (fields : List (String × Ty)) (kvs : List (Key × Val)) : Bool := kvs.any fun kv => !isKnown fields kv

/-- the data keys before the first undeclared one -/
def knownPrefix (fields : List (String × Ty)) (kvs : List (Key × Val)) : List (Key × Val) := kvs.takeWhile (isKnown fields)

/-- an undeclared key is an error when additions are forbidden (`parse_addition`, base.py: `addition is False`
→ ExceedError): whatever was parsed before it has been paid for -/
def failIf {β} (b : Bool) (o : Out β × Nat) : Out β × Nat :=
  if b then (match o with | (.ok _, n) => (.err {}, n) | (.err f, n) => (.err f, n)) else o

/-- rule.py:1992-2013: key context route `f"{key}<key>"` (never falsy; keys of the declared key type
pass by the exact-type shortcut), value context route = the key itself -/
def parseEntries (Q : Quirks) (rec : Parser) (c : Ctx) (kt : KeyTy) (t : Ty) (kvs : List (Key × Val)) :
    Out (List (Key × Res)) × Nat :=
  seqM (fun (kv : Key × Val) =>
    if !kt.admits kv.1 then (Out.err {}, 0) else
    mapOut (fun r => (kv.1, r)) (inCtx (enter Q c kv.1.falsy c.mode) fun c' => rec c' t kv.2)) kvs

/-- one union stage under the preferences `m`: `context.enter('|', options=…)` (the route '|' is truthy).  The two
trial stages also pin the `invalid_*` policies to THROW (utype e7d1ed5); the model keeps them at THROW throughout. -/
def unionStage (Q : Quirks) (rec : Parser) (c : Ctx) (ts : List Ty) (v : Val) (m : Mode) (f : Flags) :
    Out Res × Nat :=
  tryAll (fun t => inCtx (enter Q c false m) fun c' => rec c' t v) ts f

/-- the staged union retries, rule.py:376-424 -/
def parseUnion (Q : Quirks) (rec : Parser) (c : Ctx) (ts : List Ty) (v : Val) : Out Res × Nat :=
  -- :377-380 stage 1: `type(value) == con` — only None/NoneType in this fragment
  if isNoneVal v && hasNone ts then (.ok .none, 0) else
  -- :383 stage 2 (strict) unless the context is already strict
  orElse (if !c.mode.noLoss || !c.mode.noCast then unionStage Q rec c ts v Mode.strict {} else (.err {}, 0)) fun f =>
  -- :399 stage 3 (no data loss) only from a fully lenient context
  orElse (if !c.mode.noLoss && !c.mode.noCast then unionStage Q rec c ts v ⟨true, c.mode.noCast⟩ f else (.err f, 0)) fun f =>
  -- :414 stage 4: the context's own preferences
  unionStage Q rec c ts v c.mode f

/-- `Options.make_context(cls=K, context=parent)` (options.py:219-262) → `RuntimeContext.__init__` without a route
(:335-378): a context of the class' own options, one level below the parent (`parentDepth = 0`: no parent), refused
with `DepthExceedError` when that level exceeds the class' `max_depth`. -/
def classCtx (parentDepth : Nat) (cd : ClassDecl) : Out Ctx :=
  if exceeded cd.maxDepth (parentDepth + 1) then .err { depth := true }
  else .ok { depth := parentDepth + 1, mode := cd.mode, md := cd.maxDepth }

/-- one layer of conversion: the value `v` is converted to the declared type `T` inside context `c`
(the context of the enclosing field / element); `rec` converts the parts. -/
def step (W : World) (Q : Quirks) (E : Env) (rec : Parser) (c : Ctx) (T : Ty) (v : Val) : Out Res × Nat :=
  match T with
  | .leaf =>
    -- the registered converter runs once (counted), whatever the value
    match v with
    | .tok n => if W.leafOk c.mode n then (.ok (.leaf n), 1) else (.err {}, 1)
    | _ => (.err {}, 1)
  | .none =>
    -- to_null (transform.py:195-206): only None (tokens are never null-strings)
    match v with
    | .none => (.ok .none, 0)
    | _ => (.err {}, 0)
  | .data k =>
    match E[k]? with
    | none => (.err {}, 0)
    | some cd =>
      -- cls.py:558-561 → options.py:219-258: a context *without route* for the nested class,
      -- with the class' own options; options.py:355-358 one level deeper; :374 the check
      -- cls.py:616-630 `transform_dataclass` looks at the value before any context is made
      match unwrapData c.mode v with
      | none => (.err {}, 0)
      | some v1 =>
      -- the nested class' context: `classCtx c.depth cd` (Props: `step_data_classCtx`)
      if exceeded cd.maxDepth (c.depth + 1) then (.err { depth := true }, 0) else
      let c' : Ctx := { depth := c.depth + 1, mode := cd.mode, md := cd.maxDepth }
      -- cls.py:583-591: not a Mapping → `to_dict` under the class' own preferences
      match toDict cd.mode v1 with
      | some kvs =>
        -- options.py:151-155: `no_data_loss` forbids additional keys (addition=False); field-first reports them after
        -- the fields (base.py `if options.addition is not None` loop), data-first at their place in the input
        let b := cd.mode.noLoss && hasUnknown cd.fields kvs
        mapOut (Res.data k) (failIf b
          (if cd.dfs then parseDF Q rec c' cd.fields (if b then knownPrefix cd.fields kvs else kvs)
           else parseFF Q rec c' cd.fields kvs))
      | none => (.err {}, 0)
  | .list t =>
    match wrapSeq c.mode v with
    | none => (.err {}, 0)
    | some vs => mapOut Res.list (parseItems Q rec c t vs)
  | .tuple t =>
    match wrapSeq c.mode v with
    | none => (.err {}, 0)
    | some vs => mapOut Res.tuple (parseItems Q rec c t vs)
  | .dict kt t =>
    -- rule.py:1699-1703: `to_dict` under the context's preferences, then the entries
    match toDict c.mode v with
    | some kvs => mapOut Res.dict (parseEntries Q rec c kt t kvs)
    | none => (.err {}, 0)
  | .union ts => parseUnion Q rec c ts v

/-- `parse fuel c T v` — outcome and number of leaf-converter invocations.  `fuel` bounds the
recursion depth (recursive declarations); the driver runs with far more than any case needs. -/
def parse (W : World) (Q : Quirks) (E : Env) : Nat → Parser
  | 0 => fun _ _ _ => (.err { fuel := true }, 0)
  | fuel + 1 => step W Q E (parse W Q E fuel)

/-- entry points.  `viaTransform = false`: `K(**data)` / `K.__from__(data)` — the class' own root
context.  `true`: `type_transform(data, K)` — a class-less root context (options.py:725) from
which the class is entered as a nested one; before the fix that root counted as a level. -/
def parseTop (W : World) (Q : Quirks) (E : Env) (fuel : Nat) (viaTransform : Bool) (k : Nat) (v : Val) :
    Out Res × Nat :=
  let d0 := if viaTransform && Q.rootLevel then 1 else 0
  parse W Q E fuel { depth := d0, mode := Mode.lenient, md := none } (.data k) v

/-- assignment to field `f` of an instance of class `k` (`inst.f = w`, `inst['f'] = w`, `inst.update(f=w)`, `|=`):
`Schema.__field_setter__` / `__setitem__` (schema.py:322-372) make a context for the instance's class **without a
parent** — `self.__parser__.make_context(force_error=True)` — and parse the value as that field
(`field.parse_value`); an undeclared key goes through `parse_addition` (ignored, or an error when additions are
forbidden).  The result is the new value of the field.  `level` = the nesting level at which the instance was built in
an earlier parse: the setter does not look at it (`Quirks.setterInherits` = a seeded variant that does). -/
def parseAssign (W : World) (Q : Quirks) (E : Env) (fuel : Nat) (level : Nat) (k : Nat) (f : String) (w : Val) :
    Out Res × Nat :=
  match E[k]? with
  | none => (.err {}, 0)
  | some cd =>
    match classCtx (if Q.setterInherits then level else 0) cd with
    | .err fl => (.err fl, 0)
    | .ok c' =>
      match cd.fields.lookup f with
      | some t => parseField Q (parse W Q E fuel) c' t w
      | none => if cd.mode.noLoss then (.err {}, 0) else (.ok .none, 0)

/-! ### the property's own vocabulary -/

mutual
/-- number of nested data-class instances along the deepest path of a result -/
def rdepth : Res → Nat
  | .leaf _ => 0
  | .none => 0
  | .data _ fs => rdepthF fs + 1
  | .list rs => rdepthL rs
  | .tuple rs => rdepthL rs
  | .dict kvs => rdepthK kvs
def rdepthL : List Res → Nat
  | [] => 0
  | r :: rs => max (rdepth r) (rdepthL rs)
def rdepthF : List (String × Res) → Nat
  | [] => 0
  | (_, r) :: rs => max (rdepth r) (rdepthF rs)
def rdepthK : List (Key × Res) → Nat
  | [] => 0
  | (_, r) :: rs => max (rdepth r) (rdepthK rs)
end

mutual
/-- every data-class instance of the result sits at a nesting level its class allows
(`n` = number of data-class levels above) -/
def within (E : Env) : Nat → Res → Bool
  | _, .leaf _ => true
  | _, .none => true
  | n, .data k fs =>
    (match E[k]? with
     | some cd => !exceeded cd.maxDepth (n + 1)
     | none => false) && withinF E (n + 1) fs
  | n, .list rs => withinL E n rs
  | n, .tuple rs => withinL E n rs
  | n, .dict kvs => withinK E n kvs
def withinL (E : Env) : Nat → List Res → Bool
  | _, [] => true
  | n, r :: rs => within E n r && withinL E n rs
def withinF (E : Env) : Nat → List (String × Res) → Bool
  | _, [] => true
  | n, (_, r) :: rs => within E n r && withinF E n rs
def withinK (E : Env) : Nat → List (Key × Res) → Bool
  | _, [] => true
  | n, (_, r) :: rs => within E n r && withinK E n rs
end

mutual
/-- every data-class instance of a result with the level it sits at: `(class, level)`, the outermost instance of a
result that starts `n` levels deep being level `n + 1`.  Plain recursion over the result tree — no reference to the
parser or to its limit check. -/
def levels : Nat → Res → List (Nat × Nat)
  | _, .leaf _ => []
  | _, .none => []
  | n, .data k fs => (k, n + 1) :: levelsF (n + 1) fs
  | n, .list rs => levelsL n rs
  | n, .tuple rs => levelsL n rs
  | n, .dict kvs => levelsK n kvs
def levelsL : Nat → List Res → List (Nat × Nat)
  | _, [] => []
  | n, r :: rs => levels n r ++ levelsL n rs
def levelsF : Nat → List (String × Res) → List (Nat × Nat)
  | _, [] => []
  | n, (_, r) :: rs => levels n r ++ levelsF n rs
def levelsK : Nat → List (Key × Res) → List (Nat × Nat)
  | _, [] => []
  | n, (_, r) :: rs => levels n r ++ levelsK n rs
end

/-- **The property's reading of a per-class limit, written on the result alone**: every instance belongs to a declared
class, and if that class declares `max_depth = m` (`m ≥ 1`; `0` means "no limit", options.py:374) the instance sits at
level `≤ m`, levels counted from the root of the parse (root = 1). -/
def Respects (E : Env) (n : Nat) (r : Res) : Prop :=
  ∀ p ∈ levels n r, ∃ cd, E[p.1]? = some cd ∧ ∀ m, cd.maxDepth = some m → m ≠ 0 → p.2 ≤ m

/-- the same declarations without any depth limit -/
def unlimited (E : Env) : Env := E.map fun cd => { cd with maxDepth := none }

/-- the same declarations with the limit `d` on every class -/
def withLimit (d : Nat) (E : Env) : Env := E.map fun cd => { cd with maxDepth := some d }

mutual
def vsize : Val → Nat
  | .tok _ => 1
  | .none => 1
  | .list vs => vsizeL vs + 1
  | .dict kvs => vsizeK kvs + 1
def vsizeL : List Val → Nat
  | [] => 0
  | v :: vs => vsize v + vsizeL vs
def vsizeK : List (Key × Val) → Nat
  | [] => 0
  | (_, v) :: vs => vsize v + vsizeK vs
end

/-! ### nesting that the declared types force on an input (value side of the specification) -/

def fieldsOf (E : Env) (k : Nat) : Option (List (String × Ty)) := (E[k]?).map (·.fields)

def isScalarVal : Val → Bool
  | .tok _ => true
  | .none => true
  | _ => false

def isTok : Val → Bool
  | .tok _ => true
  | _ => false

def isList : Val → Bool
  | .list _ => true
  | _ => false

def isDict : Val → Bool
  | .dict _ => true
  | _ => false

/-- `Forced E T v n`: every reading of `v` as a `T` either fails for reasons that have nothing to do with
depth, or passes through at least `n` nested data-class instances.  Written from the declarations alone
(which field has which type, what a list / mapping / union contains) — no reference to the parser.
A cyclic object satisfies `Forced … n` for every `n` along its cycle. -/
inductive Forced (E : Env) : Ty → Val → Nat → Prop
  | zero (T : Ty) (v : Val) : Forced E T v 0
  /-- a leaf / None type never accepts a container -/
  | leafBad (v : Val) (n : Nat) : isTok v = false → Forced E .leaf v n
  | noneBad (v : Val) (n : Nat) : isNoneVal v = false → Forced E .none v n
  /-- a data class never accepts a scalar; an undeclared class accepts nothing -/
  | dataBad (k : Nat) (v : Val) (n : Nat) : isScalarVal v = true ∨ fieldsOf E k = none → Forced E (.data k) v n
  /-- a sequence given where a data class is expected stands for the mapping `transform_dataclass` / `to_dict`
  find in it (first item, first item of the first item), whatever the preferences — if any -/
  | dataSeq (k : Nat) (ws : List Val) (n : Nat) :
      (∀ m m' v1 kvs, unwrapData m (.list ws) = some v1 → toDict m' v1 = some kvs → Forced E (.data k) (.dict kvs) n) →
      Forced E (.data k) (.list ws) n
  /-- one more level: a declared field of the class, present in the mapping, forces `n` levels below -/
  | data (k : Nat) (fields : List (String × Ty)) (kvs : List (Key × Val)) (f : String) (ft : Ty) (sub : Val) (n : Nat) :
      fieldsOf E k = some fields → fields.lookup f = some ft → lookupKey (.str f) kvs = some sub →
      Forced E ft sub n → Forced E (.data k) (.dict kvs) (n + 1)
  /-- any element of a list / tuple (any index) -/
  | listMem (t : Ty) (vs : List Val) (x : Val) (n : Nat) : x ∈ vs → Forced E t x n → Forced E (.list t) (.list vs) n
  | tupleMem (t : Ty) (vs : List Val) (x : Val) (n : Nat) : x ∈ vs → Forced E t x n → Forced E (.tuple t) (.list vs) n
  /-- a non-sequence given to a sequence type is rejected or wrapped into `[v]` -/
  | listWrap (t : Ty) (v : Val) (n : Nat) : isList v = false → v ≠ .dict [] → Forced E t v n → Forced E (.list t) v n
  | tupleWrap (t : Ty) (v : Val) (n : Nat) : isList v = false → v ≠ .dict [] → Forced E t v n → Forced E (.tuple t) v n
  /-- any value of a mapping (any key) -/
  | dictMem (kt : KeyTy) (t : Ty) (kvs : List (Key × Val)) (key : Key) (x : Val) (n : Nat) :
      (key, x) ∈ kvs → Forced E t x n → Forced E (.dict kt t) (.dict kvs) n
  | dictBad (kt : KeyTy) (t : Ty) (v : Val) (n : Nat) : isScalarVal v = true → Forced E (.dict kt t) v n
  | dictSeq (kt : KeyTy) (t : Ty) (ws : List Val) (n : Nat) :
      (∀ m kvs, toDict m (.list ws) = some kvs → Forced E (.dict kt t) (.dict kvs) n) →
      Forced E (.dict kt t) (.list ws) n
  /-- a union: whichever alternative reads the value (any branch) -/
  | union (ts : List Ty) (v : Val) (n : Nat) : isNoneVal v = false → (∀ t ∈ ts, Forced E t v n) → Forced E (.union ts) v n

/-- does stage 2 / stage 3 of a union run in a context with preferences `m` (rule.py:383, 399) -/
def stage2 (m : Mode) : Bool := !m.noLoss || !m.noCast
def stage3 (m : Mode) : Bool := !m.noLoss && !m.noCast

/-! ### declarations whose unions cannot be read in two ways -/

def isScalarTy : Ty → Bool
  | .leaf => true
  | .none => true
  | _ => false

mutual
/-- every union has at most one alternative that can read a container (`Optional[T]`, `Union[Node, int, None]`, …):
the depth limit can then not change *which* alternative reads a value -/
def unamb : Ty → Bool
  | .leaf => true
  | .none => true
  | .data _ => true
  | .list t => unamb t
  | .tuple t => unamb t
  | .dict _ t => unamb t
  | .union ts => unambL ts && decide ((ts.filter fun t => !isScalarTy t).length ≤ 1)
def unambL : List Ty → Bool
  | [] => true
  | t :: ts => unamb t && unambL ts
end

def envUnamb (E : Env) : Bool := E.all fun cd => cd.fields.all fun ft => unamb ft.2

/-- the attempts of a union in a context with preferences `m`, in the order the stages make them -/
def attempts (m : Mode) (ts : List Ty) : List (Mode × Ty) :=
  (if stage2 m then ts.map fun t => (Mode.strict, t) else []) ++
  ((if stage3 m then ts.map fun t => ((⟨true, m.noCast⟩ : Mode), t) else []) ++
   ts.map fun t => (m, t))

/-! ### weight of a declared type: how many leaf conversions one value node can cost -/

mutual
/-- leaf conversions per value node under type `T` in a context with preferences `m`, as long as nothing below
restarts the union stages (a data class does: it brings its own options, and is weighed on its own) -/
def tyWt : Mode → Ty → Nat
  | _, .leaf => 1
  | _, .none => 0
  | _, .data _ => 0
  | m, .list t => tyWt m t
  | m, .tuple t => tyWt m t
  | m, .dict _ t => tyWt m t
  | m, .union ts =>
    (if stage2 m then tyWtL Mode.strict ts else 0) + (if stage3 m then tyWtL ⟨true, m.noCast⟩ ts else 0) + tyWtL m ts
def tyWtL : Mode → List Ty → Nat
  | _, [] => 0
  | m, t :: ts => tyWt m t + tyWtL m ts
end

mutual
/-- no data class anywhere inside the type -/
def noData : Ty → Bool
  | .leaf => true
  | .none => true
  | .data _ => false
  | .list t => noData t
  | .tuple t => noData t
  | .dict _ t => noData t
  | .union ts => noDataL ts
def noDataL : List Ty → Bool
  | [] => true
  | t :: ts => noData t && noDataL ts
end

/-- the decidable region outside the known defect `union-retries-exponential`:
no union of the type has a data class among (or inside) its alternatives -/
def noDataUnderUnion : Ty → Bool
  | .leaf => true
  | .none => true
  | .data _ => true
  | .list t => noDataUnderUnion t
  | .tuple t => noDataUnderUnion t
  | .dict _ t => noDataUnderUnion t
  | .union ts => noDataL ts

/-- a declaration environment outside the known defect, with distinct field names per class, every field type
weighing at most `B` -/
def envOk (B : Nat) (E : Env) : Bool :=
  E.all fun cd =>
    cd.fields.all (fun ft => noDataUnderUnion ft.2 && decide (tyWt cd.mode ft.2 ≤ B)) &&
    decide ((cd.fields.map Prod.fst).Nodup)

end Utv.C18
