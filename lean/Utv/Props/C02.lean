import Utv.Model.Rule
import Utv.Lemmas.Py
/-!
C02 — validation is exact on well-typed values and agrees with isinstance.

All theorems are about `Utv.Gen.Constraints.*`, i.e. about the Lean text that `tools/extract.py`
regenerates from `utype/parser/rule.py` on every run (T1): an edit of a validator changes the
definition these proofs are checked against.  Every theorem is for all `Prims`.
-/
namespace Utv.C02
open Utv.Py Utv.Gen Utv.Rule

/-! ### gt / ge / lt / le — "holds in its documented sense": accepted iff the comparison is True -/

theorem C02_gt_iff (P : Prims) (v b r : PyVal) :
    Constraints.gt P v b = .ok r ↔ Py.gt v b = .ok true ∧ r = v := by
  unfold Constraints.gt
  cases h : Py.gt v b with
  | error e => py_simp
  | ok x => cases x <;> py_simp <;> first | exact eq_comm | skip

theorem C02_ge_iff (P : Prims) (v b r : PyVal) :
    Constraints.ge P v b = .ok r ↔ Py.ge v b = .ok true ∧ r = v := by
  unfold Constraints.ge
  cases h : Py.ge v b with
  | error e => py_simp
  | ok x => cases x <;> py_simp <;> first | exact eq_comm | skip

theorem C02_lt_iff (P : Prims) (v b r : PyVal) :
    Constraints.lt P v b = .ok r ↔ Py.lt v b = .ok true ∧ r = v := by
  unfold Constraints.lt
  cases h : Py.lt v b with
  | error e => py_simp
  | ok x => cases x <;> py_simp <;> first | exact eq_comm | skip

theorem C02_le_iff (P : Prims) (v b r : PyVal) :
    Constraints.le P v b = .ok r ↔ Py.le v b = .ok true ∧ r = v := by
  unfold Constraints.le
  cases h : Py.le v b with
  | error e => py_simp
  | ok x => cases x <;> py_simp <;> first | exact eq_comm | skip

/-- on ints the four constraints are the mathematical order, strictness included -/
theorem C02_order_int (P : Prims) (a b : Int) (r : PyVal) :
    (Constraints.gt P (.int a) (.int b) = .ok r ↔ b < a ∧ r = .int a) ∧
    (Constraints.ge P (.int a) (.int b) = .ok r ↔ b ≤ a ∧ r = .int a) ∧
    (Constraints.lt P (.int a) (.int b) = .ok r ↔ a < b ∧ r = .int a) ∧
    (Constraints.le P (.int a) (.int b) = .ok r ↔ a ≤ b ∧ r = .int a) := by
  refine ⟨?_, ?_, ?_, ?_⟩
  · rw [C02_gt_iff]; simp
  · rw [C02_ge_iff]; simp
  · rw [C02_lt_iff]; simp
  · rw [C02_le_iff]; simp

/-- every boundary: v = bound is rejected by the strict bounds and accepted by the inclusive ones;
bound ± 1 fall on the right sides -/
theorem C02_order_boundaries (P : Prims) (b : Int) :
    Constraints.gt P (.int b) (.int b) = .error .valueError ∧
    Constraints.lt P (.int b) (.int b) = .error .valueError ∧
    Constraints.ge P (.int b) (.int b) = .ok (.int b) ∧
    Constraints.le P (.int b) (.int b) = .ok (.int b) ∧
    Constraints.gt P (.int (b + 1)) (.int b) = .ok (.int (b + 1)) ∧
    Constraints.lt P (.int (b - 1)) (.int b) = .ok (.int (b - 1)) ∧
    Constraints.ge P (.int (b - 1)) (.int b) = .error .valueError ∧
    Constraints.le P (.int (b + 1)) (.int b) = .error .valueError := by
  refine ⟨?_, ?_, ?_, ?_, ?_, ?_, ?_, ?_⟩ <;>
    simp [Constraints.gt, Constraints.lt, Constraints.ge, Constraints.le, bind, Except.bind, pure,
      Except.pure, throw, throwThe, MonadExceptOf.throw] <;> omega

/-- unordered values never pass a range constraint (NaN; after the `fix:` commit) -/
theorem C02_nan_rejected (P : Prims) (b : Int) :
    Constraints.gt P (.float .nan) (.int b) = .error .valueError ∧
    Constraints.ge P (.float .nan) (.int b) = .error .valueError ∧
    Constraints.lt P (.float .nan) (.int b) = .error .valueError ∧
    Constraints.le P (.float .nan) (.int b) = .error .valueError := by
  refine ⟨?_, ?_, ?_, ?_⟩ <;>
    simp [Constraints.gt, Constraints.lt, Constraints.ge, Constraints.le, Py.gt, Py.ge, Py.le, Py.lt,
      Py.eq, Py.eqScalar, num?, isDecNan, isDec, isFloatNan, NumV.lt, NumV.eq, bind, Except.bind, pure, Except.pure, throw, throwThe,
      MonadExceptOf.throw]

/-! ### length / max_length / min_length -/

theorem C02_length_iff (P : Prims) (v r : PyVal) (n : Nat) (lg : Int) (h : lenOf v = some n) :
    Constraints.length P v (.int lg) = .ok r ↔ (n : Int) = lg ∧ r = v := by
  unfold Constraints.length
  simp only [hasLen_of_lenOf h, Bool.not_true]
  py_simp [len_of_lenOf h, ne_int]
  by_cases hn : (n : Int) = lg <;> simp [hn, eq_comm]

theorem C02_max_length_iff (P : Prims) (v r : PyVal) (n : Nat) (m : Int) (h : lenOf v = some n) :
    Constraints.max_length P v (.int m) = .ok r ↔ (n : Int) ≤ m ∧ r = v := by
  unfold Constraints.max_length
  simp only [hasLen_of_lenOf h, Bool.not_true]
  py_simp [len_of_lenOf h]
  by_cases hn : m < (n : Int) <;> simp [hn, eq_comm] <;> omega

theorem C02_min_length_iff (P : Prims) (v r : PyVal) (n : Nat) (m : Int) (h : lenOf v = some n) :
    Constraints.min_length P v (.int m) = .ok r ↔ m ≤ (n : Int) ∧ r = v := by
  unfold Constraints.min_length
  simp only [hasLen_of_lenOf h, Bool.not_true]
  py_simp [len_of_lenOf h]
  by_cases hn : (n : Int) < m <;> simp [hn, eq_comm] <;> omega

/-! ### const — equality plus type-exactness (with the generated tolerance table) -/

/-- `{type(value), type(v)} in TYPE_EXACT_TOLERANCE` over the generated table -/
def tolerant (a b : Cls) : Bool :=
  match Tables.TYPE_EXACT_TOLERANCE with
  | .seq _ items => memEq (.seq .set [.cls a, .cls b]) items
  | _ => false

theorem contains_tolerance (x : PyVal) (a b : Cls) (hx : x = .seq .set [.cls a, .cls b]) :
    Py.contains Tables.TYPE_EXACT_TOLERANCE x = .ok (tolerant a b) := by
  subst hx; rfl

theorem C02_const_iff (P : Prims) (v c r : PyVal) :
    Constraints.const P v c = .ok r ↔
      Py.eq v c = true ∧ (typeOf v = typeOf c ∨ tolerant (typeOf v) (typeOf c) = true) ∧ r = c := by
  unfold Constraints.const
  by_cases he : Py.eq v c = true
  · by_cases ht : typeOf v = typeOf c
    · py_simp [Py.ne, he, ht]; exact eq_comm
    · rw [contains_tolerance _ _ _ rfl]
      cases htol : tolerant (typeOf v) (typeOf c) with
      | true => py_simp [Py.ne, he, ht]; exact eq_comm
      | false => py_simp [Py.ne, he, ht]
  · py_simp [Py.ne, he]

/-- the tolerance table as it is in the source: int~float and int~Decimal are tolerated; the third entry is
written as a tuple, which a set never equals, so float~Decimal is *not* (stricter, not unsound) -/
theorem C02_tolerance_table :
    tolerant .int .float = true ∧ tolerant .float .int = true ∧ tolerant .int .decimal = true ∧
    tolerant .float .decimal = false ∧ tolerant .bool .int = false ∧ tolerant .str .int = false := by
  decide

/-- 0/False and 1/True are equal but not the same type: const keeps them apart -/
theorem C02_const_bool_int (P : Prims) :
    Constraints.const P (.bool true) (.int 1) = .error .valueError ∧
    Constraints.const P (.int 0) (.bool false) = .error .valueError ∧
    Constraints.const P (.int 1) (.int 1) = .ok (.int 1) := by
  refine ⟨?_, ?_, ?_⟩ <;> rfl

/-! ### enum (list form) -/

theorem C02_enum_iff (P : Prims) (v r : PyVal) (k : Cls) (xs : List PyVal)
    (hk : (Cls.sub k .enumMeta) = false) (hv : Py.isinstance v .enum = false) :
    Constraints.enum P v (.seq k xs) = .ok r ↔ memEq v xs = true ∧ r = v := by
  unfold Constraints.enum
  have h1 : Py.isinstance (.seq k xs) .enumMeta = false := by simpa [Py.isinstance, typeOf] using hk
  py_simp [h1, hv, Py.contains]
  by_cases hm : memEq v xs = true <;> simp [hm, eq_comm]

/-! ### multiple_of on ints -/

theorem C02_multiple_of_int (P : Prims) (a m : Int) (r : PyVal) (hm : m ≠ 0) :
    Constraints.multiple_of P (.int a) (.int m) = .ok r ↔ (∃ k : Int, a = k * m) ∧ r = .int a := by
  unfold Constraints.multiple_of
  have hm' : (m == 0) = false := by simpa using hm
  py_simp [Py.mod, asInt?, hm', Py.truthy]
  by_cases h0 : a.fmod m = 0
  · simp only [h0, if_true]
    have : m ∣ a := Int.dvd_of_fmod_eq_zero h0
    obtain ⟨k, hk⟩ := this
    constructor
    · intro h; exact ⟨⟨k, by rw [hk, Int.mul_comm]⟩, by simpa [eq_comm] using h⟩
    · rintro ⟨_, rfl⟩; rfl
  · simp only [h0, if_false]
    constructor
    · intro h; cases h
    · rintro ⟨⟨k, hk⟩, _⟩
      exact absurd (Int.fmod_eq_zero_of_dvd ⟨k, by rw [hk, Int.mul_comm]⟩) h0

theorem C02_multiple_of_zero (P : Prims) (a : Int) :
    Constraints.multiple_of P (.int a) (.int 0) = .error .zeroDivision := by
  simp [Constraints.multiple_of, Py.mod, asInt?, bind, Except.bind, throw, throwThe, MonadExceptOf.throw]

/-! ### unique_items -/

/-- no two elements are `==` -/
def NoDupEq : List PyVal → Prop
  | [] => True
  | x :: xs => memEq x xs = false ∧ NoDupEq xs

/-- processing `xs` after `acc`: no element equals (`==`) an earlier one -/
def noDupFrom : List PyVal → List PyVal → Bool
  | _, [] => true
  | acc, x :: xs => !memEq x acc && noDupFrom (acc ++ [x]) xs

/-- a loop whose body raises on a repeated element and appends otherwise (pointwise hypothesis `hf`) -/
theorem forIn_uniq (f : PyVal → PyVal → M (ForInStep PyVal))
    (hf : ∀ v acc, f v (.seq .list acc) =
      if memEq v acc then .error .valueError else .ok (.yield (.seq .list (acc ++ [v])))) :
    ∀ xs acc, forIn xs (PyVal.seq .list acc) f =
      if noDupFrom acc xs then (.ok (.seq .list (acc ++ xs)) : M PyVal) else .error .valueError := by
  intro xs
  induction xs with
  | nil => intro acc; simp [noDupFrom, pure, Except.pure]
  | cons x xs ih =>
    intro acc
    rw [List.forIn_cons, hf]
    cases hm : memEq x acc with
    | true => simp [noDupFrom, hm, bind, Except.bind]
    | false => simp [noDupFrom, hm, bind, Except.bind, ih]

theorem unique_items_seq (P : Prims) (k : Cls) (xs : List PyVal) :
    Constraints.unique_items P (.seq k xs) (.bool true) =
      if noDupFrom [] xs then .ok (.seq k xs) else .error .valueError := by
  unfold Constraints.unique_items
  simp only [Py.truthy, Py.iter]
  rw [show (pure xs : M (List PyVal)) = .ok xs from rfl]
  simp only [bind, Except.bind, Bool.not_true]
  rw [forIn_uniq _ (by
    intro v acc
    simp only [Py.contains, Py.append, bind, Except.bind, pure, Except.pure]
    cases memEq v acc <;> simp [throw, throwThe, MonadExceptOf.throw])]
  cases noDupFrom [] xs <;> simp [pure, Except.pure]

theorem memEq_append (x : PyVal) (a b : List PyVal) : memEq x (a ++ b) = (memEq x a || memEq x b) := by
  induction a with
  | nil => simp [memEq]
  | cons y ys ih => simp [memEq, ih, Bool.or_assoc]

theorem noDupFrom_iff (xs : List PyVal) : ∀ acc, noDupFrom acc xs = true ↔
    (∀ x ∈ xs, memEq x acc = false) ∧ xs.Pairwise (fun a b => Py.eq b a = false) := by
  induction xs with
  | nil => intro acc; simp [noDupFrom]
  | cons x xs ih =>
    intro acc
    simp only [noDupFrom, Bool.and_eq_true, Bool.not_eq_true', ih, memEq_append, memEq, Bool.or_false,
      Bool.or_eq_false_iff, List.pairwise_cons, List.mem_cons, forall_eq_or_imp]
    constructor
    · rintro ⟨h1, h2, h3⟩
      exact ⟨⟨h1, fun y hy => (h2 y hy).1⟩, fun y hy => (h2 y hy).2, h3⟩
    · rintro ⟨⟨h1, h2⟩, h3, h4⟩
      exact ⟨h1, fun y hy => ⟨h2 y hy, h3 y hy⟩, h4⟩

/-- **unique_items**: accepted iff the elements are pairwise different (`==`), result is the input -/
theorem C02_unique_items_iff (P : Prims) (k : Cls) (xs : List PyVal) (r : PyVal) :
    Constraints.unique_items P (.seq k xs) (.bool true) = .ok r ↔
      xs.Pairwise (fun a b => Py.eq b a = false) ∧ r = .seq k xs := by
  rw [unique_items_seq]
  cases h : noDupFrom [] xs with
  | true =>
    have := (noDupFrom_iff xs []).mp h
    simp only [if_true, this.2, true_and]
    constructor
    · intro h'; cases h'; rfl
    · intro h'; rw [h']
  | false =>
    have : ¬ xs.Pairwise (fun a b => Py.eq b a = false) := by
      intro hp
      have := (noDupFrom_iff xs []).mpr ⟨by intro x _; rfl, hp⟩
      simp [h] at this
    simp [this]

/-! ### max_digits / decimal_places — digit counting against the positional rendering -/

/-- what `_parse_decimal` computes on a finite Decimal -/
def codeDigits (c : Nat) (e : Int) : Int :=
  if e ≥ 0 then (numDigits c : Int) + e else if (e.natAbs : Int) > numDigits c then e.natAbs else numDigits c
def codeDecimals (e : Int) : Int := if e ≥ 0 then 0 else e.natAbs

theorem parseDecimal_fin (P : Prims) (s : Bool) (c : Nat) (e : Int) :
    Constraints.parseDecimal P (.dec (.fin s c e)) =
      .ok (.seq .tuple [.int (codeDigits c e), .int (codeDecimals e)]) := by
  unfold Constraints.parseDecimal codeDigits codeDecimals
  simp only [Py.isinstance, typeOf, Cls.sub, Py.asTuple, Py.sliceFrom, sliceStop, Py.unpack2, Py.contains,
    memEq, Py.len, digitsOf, Py.abs, asInt?, Py.add, Py.gt, Py.ge, bind, Except.bind, pure, Except.pure]
  by_cases h : (0:Int) ≤ e
  · simp [h, numDigits, bind, Except.bind, pure, Except.pure, Py.add, asInt?]
  · simp [h, numDigits, bind, Except.bind, pure, Except.pure, Py.add, asInt?, Py.abs]
    split <;> simp_all

/-- an int is counted as the Decimal with the same digits and exponent 0 (`Decimal(str(i))`) -/
theorem parseDecimal_int (P : Prims) (i : Int) :
    Constraints.parseDecimal P (.int i) = .ok (.seq .tuple [.int (codeDigits i.natAbs 0), .int 0]) := by
  have := parseDecimal_fin P (decide (i < 0)) i.natAbs 0
  unfold Constraints.parseDecimal at this ⊢
  simpa [Py.isinstance, typeOf, Cls.sub, Py.decimalOfStrOf, bind, Except.bind, pure, Except.pure, codeDecimals]
    using this

/-- the digit characters of the plain positional rendering of `c * 10^e`: (integer part, fraction part) -/
def positional (c : Nat) (e : Int) : List Char × List Char :=
  let ds := Nat.toDigits 10 c
  if e ≥ 0 then (ds ++ List.replicate e.toNat '0', [])
  else
    let k := e.natAbs
    if ds.length > k then (ds.take (ds.length - k), ds.drop (ds.length - k))
    else (['0'], List.replicate (k - ds.length) '0' ++ ds)

/-- documented `max_digits`: digit characters of the rendering, the lone `0` before the point of a pure fraction not counted -/
def specDigits (c : Nat) (e : Int) : Int :=
  let p := positional c e
  (if e < 0 ∧ (Nat.toDigits 10 c).length ≤ e.natAbs then 0 else (p.1.length : Int)) + p.2.length

/-- documented `decimal_places`: digits after the point -/
def specDecimals (c : Nat) (e : Int) : Int := (positional c e).2.length

theorem C02_parse_decimal_spec (c : Nat) (e : Int) :
    codeDigits c e = specDigits c e ∧ codeDecimals e = specDecimals c e := by
  unfold codeDigits codeDecimals specDigits specDecimals positional numDigits
  by_cases h : e ≥ 0
  · simp [h]
    omega
  · simp only [h, if_false]
    by_cases h2 : (Nat.toDigits 10 c).length > e.natAbs
    · simp [h2]
      omega
    · simp [h2]
      omega

theorem C02_max_digits_decimal (P : Prims) (s : Bool) (c : Nat) (e m : Int) (r : PyVal) :
    Constraints.max_digits P (.dec (.fin s c e)) (.int m) = .ok r ↔
      specDigits c e ≤ m ∧ r = .dec (.fin s c e) := by
  unfold Constraints.max_digits
  rw [parseDecimal_fin, (C02_parse_decimal_spec c e).1]
  py_simp [Py.unpack2]
  by_cases h : m < specDigits c e <;> simp [h, eq_comm] <;> omega

theorem C02_max_digits_int (P : Prims) (i m : Int) (r : PyVal) :
    Constraints.max_digits P (.int i) (.int m) = .ok r ↔ specDigits i.natAbs 0 ≤ m ∧ r = .int i := by
  unfold Constraints.max_digits
  rw [parseDecimal_int, (C02_parse_decimal_spec i.natAbs 0).1]
  py_simp [Py.unpack2]
  by_cases h : m < specDigits i.natAbs 0 <;> simp [h, eq_comm] <;> omega

/-- decimal_places: accepted iff the number of fraction digits is within the bound; the (documented) result is the
value re-quantised to exactly `d` places -/
theorem C02_decimal_places_decimal (P : Prims) (s : Bool) (c : Nat) (e d : Int) (r : PyVal) :
    Constraints.decimal_places P (.dec (.fin s c e)) (.int d) = .ok r ↔
      specDecimals c e ≤ d ∧ decQuantize s c e d = .ok r := by
  unfold Constraints.decimal_places
  rw [parseDecimal_fin, (C02_parse_decimal_spec c e).2]
  py_simp [Py.unpack2, Py.isinstance, typeOf, Cls.sub, Py.round, asInt?]
  by_cases h : d < specDecimals c e <;> simp [h] <;> omega

/-- … and that re-quantisation pads with zeros only (no digit is rounded away), so the numeric value is kept -/
theorem C02_decimal_places_pads (s : Bool) (c : Nat) (e d : Int) (h : specDecimals c e ≤ d)
    (hp : numDigits (c * 10 ^ (e + d).toNat) ≤ decPrec) :
    decQuantize s c e d = .ok (.dec (.fin s (c * 10 ^ (e + d).toNat) (-d))) := by
  have hd := (C02_parse_decimal_spec c e).2
  unfold codeDecimals at hd
  unfold decQuantize
  have he : e ≥ -d := by
    by_cases h0 : e ≥ 0
    · simp [h0] at hd; omega
    · simp [h0] at hd; omega
  have : (e - -d).toNat = (e + d).toNat := by congr 1; omega
  simp only [he, if_true, this]
  have : ¬ numDigits (c * 10 ^ (e + d).toNat) > decPrec := by omega
  simp [this, pure, Except.pure]

theorem C02_decimal_places_int (P : Prims) (i d : Int) (hd : 0 ≤ d) :
    Constraints.decimal_places P (.int i) (.int d) = .ok (.int i) := by
  unfold Constraints.decimal_places
  rw [parseDecimal_int]
  py_simp [Py.unpack2, Py.isinstance, typeOf, Cls.sub]
  omega

/-! ### regex — full match of `str(value)` -/

theorem C02_regex_iff (P : Prims) (v r : PyVal) (pat s : String) (b : Bool)
    (hs : Py.str P v = .ok (.str s)) (hm : P.reFullmatch pat s = some b) :
    Constraints.regex P v (.str pat) = .ok r ↔ b = true ∧ r = v := by
  unfold Constraints.regex
  py_simp [hs, Py.reFullmatch, hm, Py.truthy]
  cases b <;> simp [eq_comm]

/-! ### the validator phase as a whole -/

/-- a validator that returns its input when it accepts -/
def Preserving (f : Validator) : Prop := ∀ P v b r, f P v b = .ok r → r = v

theorem preserving_gt : Preserving Constraints.gt := fun P v b r h => ((C02_gt_iff P v b r).mp h).2
theorem preserving_ge : Preserving Constraints.ge := fun P v b r h => ((C02_ge_iff P v b r).mp h).2
theorem preserving_lt : Preserving Constraints.lt := fun P v b r h => ((C02_lt_iff P v b r).mp h).2
theorem preserving_le : Preserving Constraints.le := fun P v b r h => ((C02_le_iff P v b r).mp h).2

/-- **Rule level.**  For constraint sets whose validators return their input, the validator loop accepts exactly when
every single constraint accepts the *original* value, and hands the value back unchanged — for any number and order of
constraints. -/
theorem C02_validate_iff (P : Prims) (cs : List (String × PyVal)) (v r : PyVal)
    (hp : ∀ c ∈ cs, ∃ f, validatorOf c.1 = some f ∧ Preserving f) :
    validate P cs v = .ok r ↔
      (∀ c ∈ cs, ∃ f, validatorOf c.1 = some f ∧ f P v c.2 = .ok v) ∧ r = v := by
  induction cs with
  | nil => simp [validate, pure, Except.pure, eq_comm]
  | cons c cs ih =>
    obtain ⟨f, hf, hpres⟩ := hp c (by simp)
    have ih' := ih (fun c' hc' => hp c' (by simp [hc']))
    obtain ⟨name, bound⟩ := c
    simp only at hf
    simp only [validate, hf, bind, Except.bind]
    cases hfv : f P v bound with
    | error e =>
      simp only [List.mem_cons, forall_eq_or_imp]
      constructor
      · intro h; cases h
      · rintro ⟨⟨⟨g, hg, hgv⟩, _⟩, _⟩
        rw [hf] at hg; cases hg
        rw [hfv] at hgv; cases hgv
    | ok v' =>
      have : v' = v := hpres P v bound v' hfv
      subst this
      simp only [ih', List.mem_cons, forall_eq_or_imp]
      constructor
      · rintro ⟨h1, h2⟩; exact ⟨⟨⟨f, hf, hfv⟩, h1⟩, h2⟩
      · rintro ⟨⟨_, h1⟩, h2⟩; exact ⟨h1, h2⟩

/-- the hypothesis of `C02_validate_iff` is satisfiable: a non-trivial constraint set -/
example : ∀ c ∈ [("gt", PyVal.int 0), ("le", PyVal.int 10)], ∃ f, validatorOf c.1 = some f ∧ Preserving f := by
  intro c hc
  simp only [List.mem_cons, List.mem_nil_iff, or_false] at hc
  rcases hc with rfl | rfl
  · exact ⟨_, rfl, preserving_gt⟩
  · exact ⟨_, rfl, preserving_le⟩

/-- validators run in the order of the generated `Rule.__constraints__` table -/
theorem C02_constraint_order :
    Tables.constraintOrder = ["gt", "ge", "lt", "le", "const", "enum", "regex", "decimal_places", "multiple_of",
      "max_digits", "length", "max_length", "min_length", "unique_items"] := by decide

/-- `isinstance(v, T)` for a value of the source type is exactly "the parse succeeds" (rule.py:105-113) -/
theorem C02_isinstance_agrees (originOk : PyVal → Bool) (parse : PyVal → M PyVal) (v : PyVal)
    (h : originOk v = true) :
    instancecheck originOk parse v = true ↔ ∃ r, parse v = .ok r := by
  unfold instancecheck
  simp only [h, Bool.not_true]
  cases parse v <;> simp

end Utv.C02
