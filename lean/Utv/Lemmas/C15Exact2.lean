import Utv.Lemmas.C15Exact
/-! Building succeeds exactly when no reachable schema object is refused: the induction step. -/
set_option linter.unusedSimpArgs false
set_option linter.unusedVariables false
namespace Utv.C15
open Utv.JsonSchema
open KnownDefect

def degIn (k : String) (v : Json) : Bool :=
  if oneKeywords.contains k then degenerate v
  else if manyKeywords.contains k then (match v with
    | .arr ss => degenerateList ss
    | _ => false)
  else if k == "properties" then (match v with
    | .obj ps => degenerateProps ps
    | _ => false)
  else false

theorem degenerateKws_cons (all : Obj) (k : String) (v : Json) (rest : List (String × Json)) :
    degenerateKws all ((k, v) :: rest) = ((reached all k v && degIn k v) || degenerateKws all rest) := by
  conv => lhs; rw [degenerateKws.eq_def]
  rfl

theorem degenerateKws_false_iff (all : Obj) : (kws : List (String × Json)) →
    (degenerateKws all kws = false ↔ ∀ k v, (k, v) ∈ kws → reached all k v = true → degIn k v = false)
  | [] => by rw [degenerateKws]; simp
  | (k', v') :: rest => by
    rw [degenerateKws_cons, Bool.or_eq_false_iff, degenerateKws_false_iff all rest]
    constructor
    · rintro ⟨h1, h2⟩ k v hm hr
      rcases List.mem_cons.mp hm with h | h
      · cases h
        cases hd : degIn k' v' with
        | false => rfl
        | true => rw [hr, hd] at h1; cases h1
      · exact h2 k v h hr
    · intro h
      refine ⟨?_, fun k v hm hr => h k v (List.mem_cons_of_mem _ hm) hr⟩
      cases hr : reached all k' v' with
      | false => rfl
      | true => rw [h k' v' (by simp) hr]; rfl

theorem degenerateList_false_iff : (ss : List Json) → (degenerateList ss = false ↔ ∀ s ∈ ss, degenerate s = false)
  | [] => by rw [degenerateList]; simp
  | s :: rest => by
    rw [degenerateList, Bool.or_eq_false_iff, degenerateList_false_iff rest]
    simp

theorem degenerateProps_false_iff : (ps : List (String × Json)) → (degenerateProps ps = false ↔ ∀ p ∈ ps, degenerate p.2 = false)
  | [] => by rw [degenerateProps]; simp
  | (n, s) :: rest => by
    rw [degenerateProps, Bool.or_eq_false_iff, degenerateProps_false_iff rest]
    simp

theorem degenerate_obj (kvs : Obj) :
    degenerate (.obj kvs) = (!emptyEnum kvs && (refusedHere kvs || degenerateKws kvs kvs)) := by
  rw [degenerate]

/-- the induction hypothesis for one sub-schema -/
def BuildsIff (N : Names) (s : Json) : Prop :=
  inFragment s = true → ((parse N s).isSome = true ↔ degenerate s = false)

theorem typesBuilt_ne_nil (kvs : Obj) (hf : fragKws kvs kvs = true) : typesBuilt kvs ≠ [] := by
  unfold typesBuilt
  cases hl : lookup "type" kvs with
  | none => simp
  | some tv =>
    have hm := mem_of_lookup kvs _ _ hl
    have hfe := fragKws_mem kvs kvs hf _ _ hm
    simp only [fragEntry, Bool.and_eq_true] at hfe
    have h2 := hfe.2
    simp [manyKeywords, fragSimple] at h2
    cases tv with
    | arr ts =>
      simp only
      cases ts with
      | nil => simp at h2
      | cons x rest =>
        simp only [wfType, Bool.and_eq_true] at h2
        have := List.all_eq_true.mp h2.2.1 x (by simp)
        cases x <;> simp at this
        simp [strOf]
    | str t => simp
    | null | bool _ | num _ | obj _ => simp

theorem builtAs_iff (kvs : Obj) (t : String) :
    builtAs kvs t = true ↔ ∃ ty ∈ typesBuilt kvs, (ty <|> inferType kvs) = some t := by
  simp [builtAs, List.any_eq_true]

/-- one schema object builds iff it is not degenerate, given the same for its members -/
theorem obj_builds_iff (N : Names) (kvs : Obj)
    (ih1 : ∀ k v, (k, v) ∈ kvs → BuildsIff N v)
    (ihA : ∀ k ss, (k, Json.arr ss) ∈ kvs → ∀ s ∈ ss, BuildsIff N s)
    (ihP : ∀ k ps, (k, Json.obj ps) ∈ kvs → ∀ p ∈ ps, BuildsIff N p.2) : BuildsIff N (.obj kvs) := by
  intro hfr
  rw [inFragment_obj] at hfr
  simp only [Bool.and_eq_true] at hfr
  obtain ⟨hd, hf⟩ := hfr
  rw [parse_obj, assemble_iff, degenerate_obj]
  by_cases he : emptyEnum kvs = true
  · simp [he]
  have he' : emptyEnum kvs = false := by simpa using he
  rw [he']
  simp only [Bool.false_eq_true, false_or, Bool.not_false, Bool.true_and, Bool.or_eq_false_iff]
  rw [degenerateKws_false_iff]
  have hne := typesBuilt_ne_nil kvs hf
  -- what the fragment says about the members
  have fone : ∀ k v, (k, v) ∈ kvs → oneKeywords.contains k = true → inFragment v = true := by
    intro k v hm hk
    have hfe := fragKws_mem kvs kvs hf k v hm
    simp only [fragEntry, Bool.and_eq_true] at hfe
    have h2 := hfe.2
    have : (k == "items" || k == "additionalProperties") = true := by
      simp [oneKeywords] at hk; rcases hk with rfl | rfl <;> simp
    simpa [this] using h2
  have fmany : ∀ k ss, (k, Json.arr ss) ∈ kvs → manyKeywords.contains k = true → ∀ s ∈ ss, inFragment s = true := by
    intro k ss hm hk s hs
    have hfe := fragKws_mem kvs kvs hf k _ hm
    simp only [fragEntry, Bool.and_eq_true] at hfe
    have h2 := hfe.2
    have hnot : (k == "items" || k == "additionalProperties") = false := by
      simp [manyKeywords] at hk
      rcases hk with rfl | rfl | rfl | rfl <;> simp
    simp only [hnot, hk, Bool.false_eq_true, if_false, if_true] at h2
    cases ss with
    | nil => simp at hs
    | cons s0 rest =>
      simp only [Bool.and_eq_true] at h2
      rcases List.mem_cons.mp hs with h | h
      · subst h; exact h2.1
      · exact fragList_mem rest h2.2 s h
  have fprops : ∀ ps, ("properties", Json.obj ps) ∈ kvs → ∀ p ∈ ps, inFragment p.2 = true := by
    intro ps hm p hp
    obtain ⟨ps', he, _, hall⟩ := frag_properties kvs hf _ hm
    cases he
    exact hall p hp
  -- the members, through the induction hypotheses
  have okOne : ∀ k v, (k, v) ∈ kvs → oneKeywords.contains k = true → ((parse N v).isSome = true ↔ degenerate v = false) :=
    fun k v hm hk => ih1 k v hm (fone k v hm hk)
  have okMany : ∀ k ss, (k, Json.arr ss) ∈ kvs → manyKeywords.contains k = true →
      ((∀ s ∈ ss, (parse N s).isSome = true) ↔ degenerateList ss = false) := by
    intro k ss hm hk
    rw [degenerateList_false_iff]
    constructor
    · intro h s hs; exact (ihA k ss hm s hs (fmany k ss hm hk s hs)).mp (h s hs)
    · intro h s hs; exact (ihA k ss hm s hs (fmany k ss hm hk s hs)).mpr (h s hs)
  have okProps : ∀ ps, ("properties", Json.obj ps) ∈ kvs →
      ((∀ p ∈ ps, (parse N p.2).isSome = true) ↔ degenerateProps ps = false) := by
    intro ps hm
    rw [degenerateProps_false_iff]
    constructor
    · intro h p hp; exact (ihP _ ps hm p hp (fprops ps hm p hp)).mp (h p hp)
    · intro h p hp; exact (ihP _ ps hm p hp (fprops ps hm p hp)).mpr (h p hp)
  have refused_iff : refusedHere kvs = false ↔ ∀ ty ∈ typesBuilt kvs, declares kvs ty = true := by
    simp [refusedHere, List.any_eq_false]
  rw [refused_iff]
  constructor
  · -- builds: nothing refused, every reached member builds
    intro h
    have hall : ∀ ty ∈ typesBuilt kvs, declares kvs ty = true ∧ BaseReach N kvs (ty <|> inferType kvs) ∧
        (conditions kvs (parseKws N kvs)).isSome = true := by
      intro ty hty
      have := (with_iff N kvs ty).mp (h ty hty)
      exact ⟨((base_iff N kvs ty).mp this.1).1, ((base_iff N kvs ty).mp this.1).2, this.2⟩
    refine ⟨fun ty hty => (hall ty hty).1, ?_⟩
    intro k v hm hr
    have hlk := lookup_of_mem_distinct kvs hd k v hm
    unfold reached at hr
    unfold degIn
    by_cases k1 : (k == "prefixItems") = true
    · have e : k = "prefixItems" := by simpa using k1
      subst e
      simp only [beq_self_eq_true, if_true, Bool.and_eq_true] at hr
      obtain ⟨ty, hty, hta⟩ := (builtAs_iff kvs "array").mp hr.1
      simp [oneKeywords, manyKeywords]
      cases v with
      | arr ss =>
        simp only
        exact (okMany _ ss hm (by simp [manyKeywords])).mp (((hall ty hty).2.1.1 hta).1 ss hlk hr.2)
      | _ => rfl
    · simp only [k1, Bool.false_eq_true, if_false] at hr
      by_cases k2 : (k == "items") = true
      · have e : k = "items" := by simpa using k2
        subst e
        simp only [beq_self_eq_true, if_true, Bool.and_eq_true] at hr
        obtain ⟨ty, hty, hta⟩ := (builtAs_iff kvs "array").mp hr.1
        simp [oneKeywords]
        exact (okOne _ v hm (by simp [oneKeywords])).mp (((hall ty hty).2.1.1 hta).2 v hlk (by unfold itemsReached; exact hr.2))
      · simp only [k2, Bool.false_eq_true, if_false] at hr
        by_cases k3 : (k == "properties") = true
        · have e : k = "properties" := by simpa using k3
          subst e
          simp only [beq_self_eq_true, if_true, Bool.and_eq_true] at hr
          obtain ⟨ty, hty, hto⟩ := (builtAs_iff kvs "object").mp hr.1
          simp [oneKeywords, manyKeywords]
          cases v with
          | obj ps =>
            simp only
            exact (okProps ps hm).mp (((hall ty hty).2.1.2 hto).1 ps hlk hr.2)
          | _ => rfl
        · simp only [k3, Bool.false_eq_true, if_false] at hr
          by_cases k4 : (k == "additionalProperties") = true
          · have e : k = "additionalProperties" := by simpa using k4
            subst e
            simp only [beq_self_eq_true, if_true, Bool.and_eq_true] at hr
            obtain ⟨ty, hty, hto⟩ := (builtAs_iff kvs "object").mp hr.1
            simp [oneKeywords]
            cases v with
            | obj o => exact (okOne _ _ hm (by simp [oneKeywords])).mp (((hall ty hty).2.1.2 hto).2 o hlk)
            | _ => simp at hr
          · simp only [k4, Bool.false_eq_true, if_false] at hr
            by_cases k5 : (k == "anyOf" || k == "oneOf" || k == "allOf") = true
            · simp only [k5, if_true] at hr
              have hk : k = "anyOf" ∨ k = "oneOf" ∨ k = "allOf" := by
                simp at k5; rcases k5 with (h | h) | h <;> simp [h]
              have hmany : manyKeywords.contains k = true := by
                rcases hk with rfl | rfl | rfl <;> simp [manyKeywords]
              have hno : oneKeywords.contains k = false := by
                rcases hk with rfl | rfl | rfl <;> simp [oneKeywords]
              simp only [hno, hmany, Bool.false_eq_true, if_false, if_true]
              cases v with
              | arr ss =>
                simp only
                -- some type is built: its conditions were built
                cases htb : typesBuilt kvs with
                | nil => exact absurd htb hne
                | cons ty _ =>
                  have hc := (hall ty (by rw [htb]; simp)).2.2
                  exact (okMany _ ss hm hmany).mp ((conditions_iff N kvs).mp hc k hk ss hlk hr)
              | _ => rfl
            · simp [k5] at hr
  · -- nothing refused, reached members not degenerate: builds
    rintro ⟨hdecl, hmem⟩ ty hty
    have member : ∀ k v, lookup k kvs = some v → reached kvs k v = true → degIn k v = false :=
      fun k v hl hr => hmem k v (mem_of_lookup kvs k v hl) hr
    rw [with_iff, base_iff, conditions_iff]
    refine ⟨⟨hdecl ty hty, ?_, ?_⟩, ?_⟩
    · intro hta
      have hb : builtAs kvs "array" = true := (builtAs_iff kvs "array").mpr ⟨ty, hty, hta⟩
      refine ⟨fun ss hl ht => ?_, fun v hl hr => ?_⟩
      · have := member _ _ hl (by simp [reached, hb, ht])
        simp [degIn, oneKeywords, manyKeywords] at this
        exact (okMany _ ss (mem_of_lookup kvs _ _ hl) (by simp [manyKeywords])).mpr this
      · have := member _ _ hl (by
          unfold itemsReached at hr
          simp only [reached, hb, Bool.true_and]
          simpa using hr)
        simp [degIn, oneKeywords] at this
        exact (okOne _ v (mem_of_lookup kvs _ _ hl) (by simp [oneKeywords])).mpr this
    · intro hto
      have hb : builtAs kvs "object" = true := (builtAs_iff kvs "object").mpr ⟨ty, hty, hto⟩
      refine ⟨fun ps hl ht => ?_, fun o hl => ?_⟩
      · have := member _ _ hl (by simp [reached, hb, ht])
        simp [degIn, oneKeywords, manyKeywords] at this
        exact (okProps ps (mem_of_lookup kvs _ _ hl)).mpr this
      · have := member _ _ hl (by simp [reached, hb])
        simp [degIn, oneKeywords] at this
        exact (okOne _ _ (mem_of_lookup kvs _ _ hl) (by simp [oneKeywords])).mpr this
    · intro k hk ss hl ht
      have hmany : manyKeywords.contains k = true := by
        rcases hk with rfl | rfl | rfl <;> simp [manyKeywords]
      have := member _ _ hl (by
        rcases hk with rfl | rfl | rfl <;> simp [reached, ht])
      have hno : oneKeywords.contains k = false := by
        rcases hk with rfl | rfl | rfl <;> simp [oneKeywords]
      simp only [degIn, hno, hmany, Bool.false_eq_true, if_false, if_true] at this
      exact (okMany _ ss (mem_of_lookup kvs _ _ hl) hmany).mpr this

end Utv.C15
