import Utv.Model.C11
/-!
C11 — exclude / preserve policies touch only the offending elements.

All theorems are for *every* element / key / value / field / addition converter (`Parser α`, an
arbitrary function), every value type `α`, every `World`, and lists / mappings / declarations of any
length: the proofs are list inductions, nothing is enumerated.

Reading guide (names → meaning) is in design.d/C11.md.
-/
namespace Utv.C11

variable {α : Type}

/-! ### helpers -/

theorem map_ok {ε β γ : Type} (f : β → γ) (b : β) : (Except.ok b : Except ε β).map f = .ok (f b) := rfl
theorem map_error {ε β γ : Type} (f : β → γ) (e : ε) : (Except.error e : Except ε β).map f = .error e := rfl

theorem offending_iff (p : Parser α) (x : α) : Offending p x = true ↔ p x = none := by
  simp [Offending]

theorem not_offending_iff (p : Parser α) (x : α) : Offending p x = false ↔ ∃ y, p x = some y := by
  unfold Offending
  cases p x <;> simp

theorem removeOffenders_nil (p : Parser α) : removeOffenders p [] = [] := rfl

theorem removeOffenders_cons_ok (p : Parser α) (x y : α) (xs : List α) (h : p x = some y) :
    removeOffenders p (x :: xs) = x :: removeOffenders p xs := by
  simp [removeOffenders, Offending, h]

theorem removeOffenders_cons_bad (p : Parser α) (x : α) (xs : List α) (h : p x = none) :
    removeOffenders p (x :: xs) = removeOffenders p xs := by
  simp [removeOffenders, Offending, h]

/-! ### sequences -/

theorem parseSeqFrom_exclude (p : Parser α) (i : Nat) (xs : List α) :
    parseSeqFrom .exclude p i xs = .ok (xs.filterMap p) := by
  induction xs generalizing i with
  | nil => rfl
  | cons x xs ih =>
    cases h : p x with
    | none => simp [parseSeqFrom, h, ih]
    | some y => simp [parseSeqFrom, h, ih, map_ok]

theorem parseSeqFrom_throw_clean (p : Parser α) (i : Nat) (xs : List α) :
    parseSeqFrom .throw p i (removeOffenders p xs) = .ok (xs.filterMap p) := by
  induction xs generalizing i with
  | nil => rfl
  | cons x xs ih =>
    cases h : p x with
    | none => rw [removeOffenders_cons_bad p x xs h]; simp [h, ih]
    | some y => rw [removeOffenders_cons_ok p x y xs h]; simp [parseSeqFrom, h, ih, map_ok]

theorem parseSeqFrom_preserve (p : Parser α) (i : Nat) (xs : List α) :
    parseSeqFrom .preserve p i xs = .ok (xs.map fun x => (p x).getD x) := by
  induction xs generalizing i with
  | nil => rfl
  | cons x xs ih =>
    cases h : p x with
    | none => simp [parseSeqFrom, h, ih, map_ok]
    | some y => simp [parseSeqFrom, h, ih, map_ok]

theorem putBack_filterMap (p : Parser α) (xs : List α) :
    putBack p xs (xs.filterMap p) = xs.map fun x => (p x).getD x := by
  induction xs with
  | nil => rfl
  | cons x xs ih =>
    cases h : p x with
    | none => simp [putBack, Offending, h, ih]
    | some y => simp [putBack, Offending, h, ih]

/-- **exclude, headline**: parsing with `invalid_items='exclude'` is exactly strict (`throw`) parsing
of the input with the offending elements removed. -/
theorem C11_seq_exclude (p : Parser α) (xs : List α) :
    parseSeq .exclude p xs = parseSeq .throw p (removeOffenders p xs) := by
  simp [parseSeq, parseSeqFrom_exclude, parseSeqFrom_throw_clean]

/-- …and that strict parse succeeds, with every surviving element converted by `p` in order. -/
theorem C11_seq_exclude_value (p : Parser α) (xs : List α) :
    parseSeq .exclude p xs = .ok (xs.filterMap p) := parseSeqFrom_exclude p 0 xs

/-- **preserve, headline**: the result is the strict result of the input without the offenders, with
the offenders put back unchanged at their positions. -/
theorem C11_seq_preserve (p : Parser α) (xs : List α) :
    ∃ rs, parseSeq .throw p (removeOffenders p xs) = .ok rs ∧
          parseSeq .preserve p xs = .ok (putBack p xs rs) := by
  refine ⟨xs.filterMap p, parseSeqFrom_throw_clean p 0 xs, ?_⟩
  rw [putBack_filterMap]
  exact parseSeqFrom_preserve p 0 xs

/-- position by position: length is kept, a non-offending element is converted by `p`, an offending
one is returned unchanged. -/
theorem C11_seq_preserve_pointwise (p : Parser α) (xs : List α) :
    ∃ rs, parseSeq .preserve p xs = .ok rs ∧ rs.length = xs.length ∧
      ∀ i (h : i < xs.length) (h' : i < rs.length), rs[i] = (p xs[i]).getD xs[i] := by
  refine ⟨xs.map fun x => (p x).getD x, parseSeqFrom_preserve p 0 xs, by simp, ?_⟩
  intro i h h'
  simp

theorem parseSeqFrom_throw_strict (p : Parser α) (i : Nat) (xs rs : List α) :
    parseSeqFrom .throw p i xs = .ok rs ↔ strict p xs = some rs := by
  induction xs generalizing i rs with
  | nil => simp [parseSeqFrom, strict, eq_comm]
  | cons x xs ih =>
    cases h : p x with
    | none => simp [parseSeqFrom, strict, h]
    | some y =>
      cases hs : strict p xs with
      | none =>
        have : ∀ rs', parseSeqFrom .throw p (i + 1) xs ≠ .ok rs' := by
          intro rs' hc; have := (ih (i + 1) rs').mp hc; simp [hs] at this
        simp only [parseSeqFrom, strict, h, hs]
        cases hr : parseSeqFrom .throw p (i + 1) xs with
        | error e => simp [map_error]
        | ok r => exact absurd hr (this r)
      | some ys =>
        have := (ih (i + 1) ys).mpr hs
        simp [parseSeqFrom, strict, h, hs, this, map_ok]

/-- `throw` is strict element-wise conversion: it succeeds iff every element converts, with exactly
those conversions. -/
theorem C11_seq_throw_strict (p : Parser α) (xs rs : List α) :
    parseSeq .throw p xs = .ok rs ↔ strict p xs = some rs := parseSeqFrom_throw_strict p 0 xs rs

theorem parseSeqFrom_throw_error (p : Parser α) (i j : Nat) (xs : List α) :
    parseSeqFrom .throw p i xs = .error (.item j) →
      ∃ k x, j = i + k ∧ xs[k]? = some x ∧ Offending p x = true ∧
        ∀ y ∈ xs.take k, Offending p y = false := by
  induction xs generalizing i with
  | nil => simp [parseSeqFrom]
  | cons x xs ih =>
    cases h : p x with
    | none =>
      intro he
      simp [parseSeqFrom, h] at he
      exact ⟨0, x, by omega, by simp, by simp [Offending, h], by simp⟩
    | some y =>
      intro he
      simp only [parseSeqFrom, h] at he
      cases hr : parseSeqFrom .throw p (i + 1) xs with
      | ok r => simp [hr, map_ok] at he
      | error e =>
        simp [hr, map_error] at he
        subst he
        obtain ⟨k, x', hj, hx, ho, hall⟩ := ih (i + 1) hr
        refine ⟨k + 1, x', by omega, by simpa using hx, ho, ?_⟩
        intro z hz
        simp [List.take_succ_cons] at hz
        rcases hz with hz | hz
        · subst hz; simp [Offending, h]
        · exact hall z hz

/-- under `throw` the reported item is the *first* offending element. -/
theorem C11_seq_throw_first_offender (p : Parser α) (j : Nat) (xs : List α)
    (h : parseSeq .throw p xs = .error (.item j)) :
    ∃ x, xs[j]? = some x ∧ Offending p x = true ∧ ∀ y ∈ xs.take j, Offending p y = false := by
  obtain ⟨k, x, hj, hx, ho, hall⟩ := parseSeqFrom_throw_error p 0 j xs h
  have : j = k := by omega
  subst this
  exact ⟨x, hx, ho, hall⟩

/-- `preserve` = `throw` over the converter that hands offenders back unchanged. -/
theorem C11_seq_preserve_orSelf (p : Parser α) (xs : List α) :
    parseSeq .preserve p xs = parseSeq .throw (orSelf p) xs := by
  unfold parseSeq
  generalize 0 = i
  induction xs generalizing i with
  | nil => rfl
  | cons x xs ih =>
    cases h : p x with
    | none => simp [parseSeqFrom, h, orSelf, ih]
    | some y => simp [parseSeqFrom, h, orSelf, ih]

/-- without offenders the policy is irrelevant. -/
theorem C11_seq_no_offenders (pol : Policy) (p : Parser α) (xs : List α)
    (h : ∀ x ∈ xs, Offending p x = false) :
    parseSeq pol p xs = parseSeq .throw p xs := by
  unfold parseSeq
  generalize 0 = i
  induction xs generalizing i with
  | nil => rfl
  | cons x xs ih =>
    have hx := h x (by simp)
    obtain ⟨y, hy⟩ := (not_offending_iff p x).mp hx
    have ih' := fun i => ih (fun z hz => h z (by simp [hz])) i
    simp [parseSeqFrom, hy, ih']

/-- the `exclude` result is the element-wise conversion of the non-offending elements, one result per
non-offending element (nothing else is dropped, nothing is added). -/
theorem C11_seq_exclude_sublist (p : Parser α) (xs : List α) :
    ∃ rs, parseSeq .exclude p xs = .ok rs ∧ rs = (removeOffenders p xs).filterMap p ∧
      rs.length = (removeOffenders p xs).length := by
  refine ⟨xs.filterMap p, C11_seq_exclude_value p xs, ?_, ?_⟩
  · induction xs with
    | nil => rfl
    | cons x xs ih =>
      cases h : p x with
      | none => rw [removeOffenders_cons_bad p x xs h]; simp [h, ih]
      | some y => rw [removeOffenders_cons_ok p x y xs h]; simp [h, ih]
  · induction xs with
    | nil => rfl
    | cons x xs ih =>
      cases h : p x with
      | none => rw [removeOffenders_cons_bad p x xs h]; simp [h, ih]
      | some y => rw [removeOffenders_cons_ok p x y xs h]; simp [h, ih]

/-! ### sets / frozensets: iteration order is arbitrary, results are compared as multisets (`Perm`),
which `set(...)` / `frozenset(...)` cannot distinguish -/

theorem strict_ok_of_clean (p : Parser α) (ys : List α) (h : ∀ y ∈ ys, Offending p y = false) :
    parseSeq .throw p ys = .ok (ys.filterMap p) := by
  have := C11_seq_no_offenders .exclude p ys h
  rw [← this]
  exact C11_seq_exclude_value p ys

/-- **sets, exclude**: whatever order the filtered set `ys` is iterated in, strict parsing of it gives
the same elements as `exclude` parsing of the original. -/
theorem C11_set_exclude (p : Parser α) (xs ys : List α) (hperm : ys.Perm (removeOffenders p xs)) :
    ∃ rs rs', parseSeq .exclude p xs = .ok rs ∧ parseSeq .throw p ys = .ok rs' ∧ rs.Perm rs' := by
  have hclean : ∀ y ∈ ys, Offending p y = false := by
    intro y hy
    have := (hperm.mem_iff).mp hy
    simp [removeOffenders] at this
    exact this.2
  refine ⟨xs.filterMap p, ys.filterMap p, C11_seq_exclude_value p xs, strict_ok_of_clean p ys hclean, ?_⟩
  obtain ⟨_, _, h3, _⟩ := C11_seq_exclude_sublist p xs
  have h1 := C11_seq_exclude_value p xs
  have : xs.filterMap p = (removeOffenders p xs).filterMap p := by
    obtain ⟨rs, hrs, heq, _⟩ := C11_seq_exclude_sublist p xs
    rw [h1] at hrs
    cases hrs
    exact heq
  rw [this]
  exact (hperm.filterMap p).symm

theorem preserve_perm (p : Parser α) (xs : List α) :
    (xs.map fun x => (p x).getD x).Perm
      (xs.filterMap p ++ xs.filter (fun x => Offending p x)) := by
  induction xs with
  | nil => simp
  | cons x xs ih =>
    cases h : p x with
    | none =>
      simp only [List.map_cons, h, Option.getD_none, List.filterMap_cons, Offending, Option.isNone_none,
        List.filter_cons_of_pos]
      exact (List.Perm.cons x ih).trans (List.perm_middle.symm)
    | some y =>
      simp [h, Offending]
      exact ih

/-- **sets, preserve**: the result has the elements of the strict result of the filtered set plus the
offenders themselves. -/
theorem C11_set_preserve (p : Parser α) (xs ys : List α) (hperm : ys.Perm (removeOffenders p xs)) :
    ∃ rs rs', parseSeq .preserve p xs = .ok rs ∧ parseSeq .throw p ys = .ok rs' ∧
      rs.Perm (rs' ++ xs.filter (fun x => Offending p x)) := by
  obtain ⟨e, rs', he, hs, hp⟩ := C11_set_exclude p xs ys hperm
  refine ⟨_, rs', parseSeqFrom_preserve p 0 xs, hs, ?_⟩
  rw [C11_seq_exclude_value] at he
  cases he
  exact (preserve_perm p xs).trans (List.Perm.append_right _ hp)

/-! ### the whole `Rule.parse` of a sequence type: literal metamorphic form -/

/-- **rule level, exclude**: if `v'` is the input with exactly the offending elements removed (its
items are the non-offending items of `v`, in order), then `exclude` on `v` is `throw` on `v'` — for
list, variable-length tuple, and (in iteration order) set / frozenset. -/
theorem C11_seq_rule_exclude (W : World α) (k : SeqKind) (p : Parser α) (v v' : α) (xs : List α)
    (h : W.asSeq k v = some xs) (h' : W.asSeq k v' = some (removeOffenders p xs)) :
    parseSeqRule W k .exclude p v = parseSeqRule W k .throw p v' := by
  simp [parseSeqRule, h, h', C11_seq_exclude]

/-- **rule level, preserve**. -/
theorem C11_seq_rule_preserve (W : World α) (k : SeqKind) (p : Parser α) (v v' : α) (xs : List α)
    (h : W.asSeq k v = some xs) (h' : W.asSeq k v' = some (removeOffenders p xs)) :
    ∃ rs, parseSeqRule W k .throw p v' = .ok (W.mkSeq k rs) ∧
          parseSeqRule W k .preserve p v = .ok (W.mkSeq k (putBack p xs rs)) := by
  obtain ⟨rs, h1, h2⟩ := C11_seq_preserve p xs
  exact ⟨rs, by simp [parseSeqRule, h', h1, map_ok], by simp [parseSeqRule, h, h2, map_ok]⟩

/-- an input the origin transform rejects is rejected under every policy (nothing is "excluded"). -/
theorem C11_seq_rule_coerce (W : World α) (k : SeqKind) (pol : Policy) (p : Parser α) (v : α)
    (h : W.asSeq k v = none) : parseSeqRule W k pol p v = .error .coerce := by
  simp [parseSeqRule, h]

/-- after the fix the subscriptability of the container no longer matters … -/
theorem C11_seq_fixed_eq (sub : Bool) (pol : Policy) (p : Parser α) (i : Nat) (xs : List α)
    (h : sub = true) : parseSeqLegacyFrom sub pol p i xs = parseSeqFrom pol p i xs := by
  subst h
  induction xs generalizing i with
  | nil => rfl
  | cons x xs ih =>
    cases hp : p x <;> cases pol <;> simp [parseSeqLegacyFrom, parseSeqFrom, hp, ih]

/-- … whereas the code before `fixes/C11-set-error-item.patch` let a bare `TypeError` escape for a set
with one bad element, under `exclude` (and every other policy): negation witness, replayed on the
real code by the corpus. -/
theorem C11_set_legacy_escapes_witness :
    ∃ (p : Parser Nat) (xs : List Nat),
      parseSeqLegacyFrom SeqKind.set.subscriptable .exclude p 0 xs = .error .rawTypeError ∧
      parseSeqFrom .exclude p 0 xs = .ok [1] :=
  ⟨fun n => if n = 0 then none else some n, [1, 0], rfl, rfl⟩

/-! ### nested containers -/

/-- **every level of nesting**: for a sequence type inside any declared type tree, under one `Options`
object, `exclude` at that level is the strict parse (at that level; inner levels keep their policies) of
the input without the elements the *inner* converter rejects. -/
theorem C11_nested_seq_exclude (W : World α) (o : Opts) (k : SeqKind) (t : Ty α) (v v' : α) (xs : List α)
    (ho : o.items = .exclude) (h : W.asSeq k v = some xs)
    (h' : W.asSeq k v' = some (removeOffenders (parseTy W o t) xs)) :
    parseTy W o (.seq k t) v = (parseSeqRule W k .throw (parseTy W o t) v').toOption := by
  simp only [parseTy, ho]
  rw [C11_seq_rule_exclude W k (parseTy W o t) v v' xs h h']

theorem parseSeqFrom_mono (pol : Policy) (p p' : Parser α) (i : Nat) (xs rs : List α)
    (hp : ∀ x ∈ xs, ∀ y, p' x = some y → p x = some y)
    (h : parseSeqFrom .throw p' i xs = .ok rs) : parseSeqFrom pol p i xs = .ok rs := by
  induction xs generalizing i rs with
  | nil => simpa [parseSeqFrom] using h
  | cons x xs ih =>
    cases hx : p' x with
    | none => simp [parseSeqFrom, hx] at h
    | some y =>
      have hpx := hp x (by simp) y hx
      simp only [parseSeqFrom, hx] at h
      cases hr : parseSeqFrom .throw p' (i + 1) xs with
      | error e => simp [hr, map_error] at h
      | ok r =>
        simp [hr, map_ok] at h
        subst h
        have := ih (i + 1) r (fun z hz => hp z (by simp [hz])) hr
        simp [parseSeqFrom, hpx, this, map_ok]

theorem parseMap_mono (pk pv : Policy) (kp kp' : Parser α) (vp vp' : Option (Parser α)) (kvs rs : List (α × α))
    (hk : ∀ kv ∈ kvs, ∀ y, kp' kv.1 = some y → kp kv.1 = some y)
    (hv : ∀ q', vp' = some q' → ∃ q, vp = some q ∧ ∀ kv ∈ kvs, ∀ y, q' kv.2 = some y → q kv.2 = some y)
    (hn : vp' = none → vp = none)
    (h : parseMap .throw .throw kp' vp' kvs = .ok rs) : parseMap pk pv kp vp kvs = .ok rs := by
  induction kvs generalizing rs with
  | nil => simpa [parseMap] using h
  | cons kv rest ih =>
    obtain ⟨k, v⟩ := kv
    have ih' := fun rs h => ih rs (fun kv hkv => hk kv (by simp [hkv]))
      (fun q' hq' => by
        obtain ⟨q, hq, hqq⟩ := hv q' hq'
        exact ⟨q, hq, fun kv hkv => hqq kv (by simp [hkv])⟩) h
    cases hkk : kp' k with
    | none => simp [parseMap, hkk] at h
    | some k' =>
      have hk1 := hk (k, v) (by simp) k' hkk
      cases vp' with
      | none =>
        have hvn := hn rfl
        subst hvn
        simp only [parseMap, hkk] at h
        cases hr : parseMap .throw .throw kp' none rest with
        | error e => rw [hr] at h; simp [map_error] at h
        | ok r =>
          rw [hr] at h
          simp [map_ok] at h
          subst h
          simp [parseMap, hk1, ih' r hr, map_ok]
      | some q' =>
        obtain ⟨q, hq, hqq⟩ := hv q' rfl
        subst hq
        cases hvv : q' v with
        | none => simp [parseMap, hkk, hvv] at h
        | some v' =>
          have hv1 := hqq (k, v) (by simp) v' hvv
          simp only [parseMap, hkk, hvv] at h
          cases hr : parseMap .throw .throw kp' (some q') rest with
          | error e => rw [hr] at h; simp [map_error] at h
          | ok r =>
            rw [hr] at h
            simp [map_ok] at h
            subst h
            simp [parseMap, hk1, hv1, ih' r hr, map_ok]

/-- **input without offenders at any depth**: if a value converts under the all-`throw` options, then
under *every* combination of the three policies it converts to the same result — the policies touch
nothing when nothing is offending, however deeply the containers are nested.  Structural induction on
the declared type. -/
theorem C11_nested_clean_input (W : World α) (o : Opts) (T : Ty α) :
    ∀ v r, parseTy W Opts.strict T v = some r → parseTy W o T v = some r := by
  induction T with
  | leaf p => intro v r h; exact h
  | seq k t ih =>
    intro v r h
    simp only [parseTy, parseSeqRule] at h ⊢
    cases hs : W.asSeq k v with
    | none => rw [hs] at h; simp [Except.toOption] at h
    | some xs =>
      rw [hs] at h
      simp only at h ⊢
      cases hp : parseSeq Opts.strict.items (parseTy W Opts.strict t) xs with
      | error e => rw [hp] at h; simp [Except.map, Except.toOption] at h
      | ok rs =>
        have := parseSeqFrom_mono o.items (parseTy W o t) (parseTy W Opts.strict t) 0 xs rs
          (fun x _ y hy => ih x y hy) hp
        rw [hp] at h
        simp only [parseSeq]
        rw [this]
        exact h
  | map tk tv ihk ihv =>
    intro v r h
    simp only [parseTy, parseMapRule] at h ⊢
    cases hs : W.asMap v with
    | none => rw [hs] at h; simp [Except.toOption] at h
    | some kvs =>
      rw [hs] at h
      simp only at h ⊢
      cases hp : parseMap Opts.strict.keys Opts.strict.values (parseTy W Opts.strict tk)
          (some (parseTy W Opts.strict tv)) kvs with
      | error e => rw [hp] at h; simp [Except.map, Except.toOption] at h
      | ok rs =>
        have := parseMap_mono o.keys o.values (parseTy W o tk) (parseTy W Opts.strict tk)
          (some (parseTy W o tv)) (some (parseTy W Opts.strict tv)) kvs rs
          (fun kv _ y hy => ihk kv.1 y hy)
          (fun q' hq' => ⟨parseTy W o tv, rfl, by cases hq'; exact fun kv _ y hy => ihv kv.2 y hy⟩)
          (fun hn => by cases hn) hp
        rw [hp] at h
        rw [this]
        exact h
  | mapK tk ihk =>
    intro v r h
    simp only [parseTy, parseMapRule] at h ⊢
    cases hs : W.asMap v with
    | none => rw [hs] at h; simp [Except.toOption] at h
    | some kvs =>
      rw [hs] at h
      simp only at h ⊢
      cases hp : parseMap Opts.strict.keys Opts.strict.values (parseTy W Opts.strict tk) none kvs with
      | error e => rw [hp] at h; simp [Except.map, Except.toOption] at h
      | ok rs =>
        have := parseMap_mono o.keys o.values (parseTy W o tk) (parseTy W Opts.strict tk) none none kvs rs
          (fun kv _ y hy => ihk kv.1 y hy) (fun q' hq' => by cases hq') (fun _ => rfl) hp
        rw [hp] at h
        rw [this]
        exact h

/-! ### `*args: T` -/

/-- the `*args` loop of a decorated function is the sequence loop (so every sequence theorem holds
for it). -/
theorem C11_varargs_eq_seq (pol : Policy) (p : Parser α) (i : Nat) (xs : List α) :
    parseVarArgs pol (some p) i xs = parseSeqFrom pol p i xs := by
  induction xs generalizing i with
  | nil => rfl
  | cons x xs ih =>
    cases h : p x <;> cases pol <;> simp [parseVarArgs, parsePosType, parseSeqFrom, h, ih]

theorem C11_varargs_exclude (p : Parser α) (xs : List α) :
    parseVarArgs .exclude (some p) 0 xs = parseVarArgs .throw (some p) 0 (removeOffenders p xs) := by
  rw [C11_varargs_eq_seq, C11_varargs_eq_seq]
  exact C11_seq_exclude p xs

theorem C11_varargs_preserve (p : Parser α) (xs : List α) :
    ∃ rs, parseVarArgs .throw (some p) 0 (removeOffenders p xs) = .ok rs ∧
          parseVarArgs .preserve (some p) 0 xs = .ok (putBack p xs rs) := by
  rw [C11_varargs_eq_seq, C11_varargs_eq_seq]
  exact C11_seq_preserve p xs

/-- untyped `*args` are passed through under every policy. -/
theorem C11_varargs_untyped (pol : Policy) (i : Nat) (xs : List α) :
    parseVarArgs pol none i xs = .ok xs := by
  induction xs generalizing i with
  | nil => rfl
  | cons x xs ih => simp [parseVarArgs, parsePosType, ih, map_ok]

/-! ### fixed-length tuples (not in the property's list of kinds; modelled as coded) -/

def TupExtra.mapParser (f : Parser α → Parser α) : TupExtra α → TupExtra α
  | .typed p => .typed (f p)
  | .drop => .drop | .forbid => .forbid | .keep => .keep

theorem tupArgs_preserve (i : Nat) (ps : List (Parser α)) (xs : List α) :
    tupArgs .preserve i ps xs = tupArgs .throw i (ps.map orSelf) xs := by
  induction ps generalizing i xs with
  | nil => cases xs <;> rfl
  | cons p ps ih =>
    cases xs with
    | nil => rfl
    | cons x xs => cases h : p x <;> simp [tupArgs, h, orSelf, ih]

theorem tupExtras_preserve (pa : Parser α) (i : Nat) (xs : List α) :
    tupExtras .preserve pa i xs = tupExtras .throw (orSelf pa) i xs := by
  induction xs generalizing i with
  | nil => rfl
  | cons x xs ih => cases h : pa x <;> simp [tupExtras, h, orSelf, ih]

/-- fixed tuple, `preserve` = `throw` over converters that hand offenders back unchanged. -/
theorem C11_tuple_fixed_preserve (ps : List (Parser α)) (extra : TupExtra α) (xs : List α) :
    parseTupleFixed .preserve ps extra xs =
      parseTupleFixed .throw (ps.map orSelf) (extra.mapParser orSelf) xs := by
  cases extra <;>
    simp [parseTupleFixed, TupExtra.mapParser, tupArgs_preserve, tupExtras_preserve]

theorem tupArgs_exclude (i : Nat) (ps : List (Parser α)) (xs : List α) :
    tupArgs .exclude i ps xs = tupArgs .throw i ps xs := by
  induction ps generalizing i xs with
  | nil => cases xs <;> rfl
  | cons p ps ih =>
    cases xs with
    | nil => rfl
    | cons x xs => cases h : p x <;> simp [tupArgs, h, ih]

theorem tupExtras_exclude (pa : Parser α) (i : Nat) (xs : List α) :
    tupExtras .exclude pa i xs = tupExtras .throw pa i xs := by
  induction xs generalizing i with
  | nil => rfl
  | cons x xs ih => cases h : pa x <;> simp [tupExtras, h, ih]

/-- a fixed tuple has no element that could be dropped: `exclude` behaves as `throw` (as coded). -/
theorem C11_tuple_fixed_exclude_is_throw (ps : List (Parser α)) (extra : TupExtra α) (xs : List α) :
    parseTupleFixed .exclude ps extra xs = parseTupleFixed .throw ps extra xs := by
  cases extra <;> simp [parseTupleFixed, tupArgs_exclude, tupExtras_exclude]

/-! ### mappings -/

theorem strictifyParser_ok (pol : Policy) (p : Parser α) (x y : α) (h : p x = some y) :
    strictifyParser pol p x = some y := by
  cases pol <;> simp [strictifyParser, orSelf, h]

theorem strictifyParser_preserve_bad (p : Parser α) (x : α) (h : p x = none) :
    strictifyParser .preserve p x = some x := by
  simp [strictifyParser, orSelf, h]

theorem strictifyParser_throw_bad (p : Parser α) (x : α) (h : p x = none) :
    strictifyParser .throw p x = none := by
  simp [strictifyParser, h]

/-- **mappings, all 3×3 policy combinations at once**: parsing under `(invalid_keys, invalid_values)`
= fully strict parsing (`throw, throw`) of the input with exactly the excluded entries removed, where
a `preserve` policy is read as "offenders convert to themselves". -/
theorem C11_map_general (pk pv : Policy) (kp : Parser α) (vp : Option (Parser α)) (kvs : List (α × α)) :
    parseMap pk pv kp vp kvs =
      parseMap .throw .throw (strictifyParser pk kp) (vp.map (strictifyParser pv))
        (kvs.filter fun kv => !mapExcluded pk pv kp vp kv) := by
  induction kvs with
  | nil => rfl
  | cons kv rest ih =>
    obtain ⟨k, v⟩ := kv
    rw [List.filter_cons]
    cases hk : kp k with
    | some k' =>
      have hk' := strictifyParser_ok pk kp k k' hk
      cases vp with
      | none =>
        have hex : mapExcluded pk pv kp none (k, v) = false := by simp [mapExcluded, Offending, hk]
        simp [hex, parseMap, hk, hk', ih]
      | some q =>
        cases hv : q v with
        | some v' =>
          have hv' := strictifyParser_ok pv q v v' hv
          have hex : mapExcluded pk pv kp (some q) (k, v) = false := by simp [mapExcluded, Offending, hk, hv]
          simp [hex, parseMap, hk, hk', hv, hv', ih]
        | none =>
          cases pv with
          | exclude =>
            have hex : mapExcluded pk .exclude kp (some q) (k, v) = true := by simp [mapExcluded, Offending, hk, hv]
            simp [hex, parseMap, hk, hv, ih]
          | preserve =>
            have hv' := strictifyParser_preserve_bad q v hv
            have hex : mapExcluded pk .preserve kp (some q) (k, v) = false := by simp [mapExcluded, Offending, hk, hv]
            simp [hex, parseMap, hk, hk', hv, hv', ih]
          | throw =>
            have hv' := strictifyParser_throw_bad q v hv
            have hex : mapExcluded pk .throw kp (some q) (k, v) = false := by simp [mapExcluded, Offending, hk, hv]
            simp [hex, parseMap, hk, hk', hv, hv']
    | none =>
      cases pk with
      | exclude =>
        have hex : mapExcluded .exclude pv kp vp (k, v) = true := by simp [mapExcluded, Offending, hk]
        simp [hex, parseMap, hk, ih]
      | throw =>
        have hk' := strictifyParser_throw_bad kp k hk
        have hex : mapExcluded .throw pv kp vp (k, v) = false := by simp [mapExcluded, Offending, hk]
        simp [hex, parseMap, hk, hk']
      | preserve =>
        have hk' := strictifyParser_preserve_bad kp k hk
        cases vp with
        | none =>
          have hex : mapExcluded .preserve pv kp none (k, v) = false := by simp [mapExcluded, Offending, hk]
          simp [hex, parseMap, hk, hk', ih]
        | some q =>
          cases hv : q v with
          | some v' =>
            have hv' := strictifyParser_ok pv q v v' hv
            have hex : mapExcluded .preserve pv kp (some q) (k, v) = false := by simp [mapExcluded, Offending, hk, hv]
            simp [hex, parseMap, hk, hk', hv, hv', ih]
          | none =>
            cases pv with
            | exclude =>
              have hex : mapExcluded .preserve .exclude kp (some q) (k, v) = true := by simp [mapExcluded, Offending, hk, hv]
              simp [hex, parseMap, hk, hv, ih]
            | preserve =>
              have hv' := strictifyParser_preserve_bad q v hv
              have hex : mapExcluded .preserve .preserve kp (some q) (k, v) = false := by simp [mapExcluded, Offending, hk, hv]
              simp [hex, parseMap, hk, hk', hv, hv', ih]
            | throw =>
              have hv' := strictifyParser_throw_bad q v hv
              have hex : mapExcluded .preserve .throw kp (some q) (k, v) = false := by simp [mapExcluded, Offending, hk, hv]
              simp [hex, parseMap, hk, hk', hv, hv']

theorem strictifyParser_not_preserve (pol : Policy) (p : Parser α) (h : pol ≠ .preserve) :
    strictifyParser pol p = p := by
  cases pol <;> simp_all [strictifyParser]

/-- **mappings, exclude (the property's literal form)**: with `throw`/`exclude` policies the result is
the strict parse, by the *same* converters, of the input without the excluded entries. -/
theorem C11_map_exclude (pk pv : Policy) (kp : Parser α) (vp : Option (Parser α)) (kvs : List (α × α))
    (hk : pk ≠ .preserve) (hv : pv ≠ .preserve) :
    parseMap pk pv kp vp kvs =
      parseMap .throw .throw kp vp (kvs.filter fun kv => !mapExcluded pk pv kp vp kv) := by
  rw [C11_map_general, strictifyParser_not_preserve pk kp hk]
  cases vp with
  | none => rfl
  | some q => simp [strictifyParser_not_preserve pv q hv]

/-- without offending keys or values the policies are irrelevant. -/
theorem C11_map_no_offenders (pk pv : Policy) (kp : Parser α) (vp : Option (Parser α)) (kvs : List (α × α))
    (hk : ∀ kv ∈ kvs, Offending kp kv.1 = false)
    (hv : ∀ q, vp = some q → ∀ kv ∈ kvs, Offending q kv.2 = false) :
    parseMap pk pv kp vp kvs = parseMap .throw .throw kp vp kvs := by
  induction kvs with
  | nil => rfl
  | cons kv rest ih =>
    obtain ⟨k, v⟩ := kv
    obtain ⟨k', hk'⟩ := (not_offending_iff kp k).mp (hk (k, v) (by simp))
    have ih' := ih (fun kv h => hk kv (by simp [h])) (fun q hq kv h => hv q hq kv (by simp [h]))
    cases vp with
    | none => simp [parseMap, hk', ih']
    | some q =>
      obtain ⟨v', hv'⟩ := (not_offending_iff q v).mp (hv q rfl (k, v) (by simp))
      simp [parseMap, hk', hv', ih']

/-- every entry of the result of a key-`preserve` parse comes from an input entry: its key is the
converted key, or the unchanged key when that was offending (no other entry is touched). -/
theorem C11_map_rule_general (W : World α) (pk pv : Policy) (kp : Parser α) (vp : Option (Parser α))
    (v v' : α) (kvs : List (α × α)) (h : W.asMap v = some kvs)
    (h' : W.asMap v' = some (kvs.filter fun kv => !mapExcluded pk pv kp vp kv)) :
    parseMapRule W pk pv kp vp v =
      parseMapRule W .throw .throw (strictifyParser pk kp) (vp.map (strictifyParser pv)) v' := by
  simp [parseMapRule, h, h', C11_map_general pk pv kp vp kvs]

/-! ### data-class fields and extra keys -/

variable {κ : Type}

/-- **a required field is never silently excluded** (field level): an offending value of a required
field under an `exclude` policy raises. -/
theorem C11_required_never_excluded_value (inv : Policy) (f : Field κ α) (x : α)
    (hreq : f.required = true) (hbad : Offending f.parse x = true) (hpol : f.policy inv = .exclude) :
    parseValue inv f x = .raise := by
  have : f.parse x = none := (offending_iff _ _).mp hbad
  simp [parseValue, this, hpol, hreq]

/-- non-offending field values are converted by the field's converter under every policy. -/
theorem C11_field_ok_any_policy (inv : Policy) (f : Field κ α) (x y : α) (h : f.parse x = some y) :
    parseValue inv f x = .value y := by
  simp [parseValue, h]

/-- unfolding lemma (the body of `parseValue` for an offending value; restates the model, used as a rewrite
rule): dropped in favour of the default (`exclude`, optional field), handed back unchanged (`preserve`), or
an error (`throw`, or `exclude` on a required field). -/
theorem C11_field_cases_restates_model (inv : Policy) (f : Field κ α) (x : α) (hbad : Offending f.parse x = true) :
    parseValue inv f x =
      match f.policy inv with
      | .exclude => if f.required then .raise else (match f.default with | some d => .value d | none => .unprovided)
      | .preserve => .value x
      | .throw => .raise := by
  have : f.parse x = none := (offending_iff _ _).mp hbad
  unfold parseValue
  rw [this]
  rfl

variable [DecidableEq κ]

theorem lookup_filter_keep (q : κ × α → Bool) (k : κ) (x : α) (data : List (κ × α))
    (h : lookup k data = some x) (hq : q (k, x) = true) : lookup k (data.filter q) = some x := by
  induction data with
  | nil => simp [lookup] at h
  | cons kv rest ih =>
    obtain ⟨k', v⟩ := kv
    by_cases hk : k' = k
    · subst hk
      simp [lookup] at h
      subst h
      simp [List.filter, hq, lookup]
    · simp [lookup, hk] at h
      cases hqq : q (k', v) <;> simp [List.filter, hqq, lookup, hk, ih h]

theorem lookup_filter_none (q : κ × α → Bool) (k : κ) (data : List (κ × α))
    (h : lookup k data = none) : lookup k (data.filter q) = none := by
  induction data with
  | nil => rfl
  | cons kv rest ih =>
    obtain ⟨k', v⟩ := kv
    by_cases hk : k' = k
    · simp [lookup, hk] at h
    · simp [lookup, hk] at h
      cases hqq : q (k', v) <;> simp [List.filter, hqq, lookup, hk, ih h]

theorem lookup_none_of_not_mem (k : κ) (data : List (κ × α)) (h : k ∉ data.map (·.1)) :
    lookup k data = none := by
  induction data with
  | nil => rfl
  | cons kv rest ih =>
    obtain ⟨k', v⟩ := kv
    simp at h
    have hk : ¬ k' = k := fun e => h.1 e.symm
    simp only [lookup, hk, if_false]
    exact ih (by simpa using h.2)

theorem lookup_filter_drop (q : κ × α → Bool) (k : κ) (x : α) (data : List (κ × α))
    (hnd : (data.map (·.1)).Nodup) (h : lookup k data = some x) (hq : q (k, x) = false) :
    lookup k (data.filter q) = none := by
  induction data with
  | nil => rfl
  | cons kv rest ih =>
    obtain ⟨k', v⟩ := kv
    simp at hnd
    by_cases hk : k' = k
    · subst hk
      simp [lookup] at h
      subst h
      simp only [List.filter, hq]
      apply lookup_filter_none
      apply lookup_none_of_not_mem
      simpa using hnd.1
    · simp [lookup, hk] at h
      cases hqq : q (k', v) <;> simp [List.filter, hqq, lookup, hk, ih hnd.2 h]

theorem findField_none_iff (k : κ) (fields : List (Field κ α)) :
    findField k fields = none ↔ k ∉ fields.map (·.name) := by
  induction fields with
  | nil => simp [findField]
  | cons f fs ih =>
    by_cases h : f.name = k
    · simp [findField, h]
    · have h' : ¬ k = f.name := fun e => h e.symm
      simp [findField, h, h', ih]

/-- the filter of the field/addition theorem -/
def dataKept (inv : Policy) (fields : List (Field κ α)) (a : Addition α) (kv : κ × α) : Bool :=
  !(fieldExcluded inv fields kv || additionExcluded inv fields a kv)

omit [DecidableEq κ] in
theorem parseValue_strictified (inv : Policy) (f : Field κ α) (x : α) :
    parseValue .throw (f.strictified inv) x =
      match strictifyParser (f.policy inv) f.parse x with
      | some y => .value y
      | none => .raise := by
  have hp' : (f.strictified inv).parse x = strictifyParser (f.policy inv) f.parse x := rfl
  unfold parseValue
  rw [hp']
  cases strictifyParser (f.policy inv) f.parse x with
  | some y => rfl
  | none => rfl

omit [DecidableEq κ] in
theorem parseValue_strictified_ok (inv : Policy) (f : Field κ α) (x y : α) (h : f.parse x = some y) :
    parseValue .throw (f.strictified inv) x = .value y := by
  rw [parseValue_strictified, strictifyParser_ok _ _ _ _ h]

theorem strictifyParser_exclude_bad (p : Parser α) (x : α) (h : p x = none) :
    strictifyParser .exclude p x = none := by
  simp [strictifyParser, h]

theorem ffAddition_general (inv : Policy) (fields : List (Field κ α)) (a : Addition α) (data : List (κ × α)) :
    ffAddition inv a (fields.map (·.name)) data =
      ffAddition .throw (a.strictified inv) ((fields.map (Field.strictified inv)).map (·.name))
        (data.filter (dataKept inv fields a)) := by
  have hnames : (fields.map (Field.strictified inv)).map (·.name) = fields.map (·.name) := by
    simp [Field.strictified]
  rw [hnames]
  induction data with
  | nil => rfl
  | cons kv rest ih =>
    obtain ⟨k, v⟩ := kv
    by_cases hk : k ∈ fields.map (·.name)
    · cases hq : dataKept inv fields a (k, v) <;> simp [hq, ffAddition, hk, ih]
    · have hff : findField k fields = none := (findField_none_iff k fields).mpr hk
      cases a with
      | ignore =>
        simp [dataKept, fieldExcluded, additionExcluded, hff, ffAddition, hk, parseAddition,
          Addition.strictified, ih]
      | forbid =>
        simp [dataKept, fieldExcluded, additionExcluded, hff, ffAddition, hk, parseAddition,
          Addition.strictified]
      | keep =>
        simp [dataKept, fieldExcluded, additionExcluded, hff, ffAddition, hk, parseAddition,
          Addition.strictified, ih]
      | typed p =>
        cases hp : p v with
        | some y =>
          simp [dataKept, fieldExcluded, additionExcluded, hff, Offending, hp, ffAddition, hk,
            parseAddition, Addition.strictified, strictifyParser_ok inv p v y hp, ih]
        | none =>
          cases inv with
          | exclude =>
            simp [dataKept, fieldExcluded, additionExcluded, hff, Offending, hp, ffAddition, hk,
              parseAddition, ih]
          | preserve =>
            simp [dataKept, fieldExcluded, additionExcluded, hff, Offending, hp, ffAddition, hk,
              parseAddition, Addition.strictified, strictifyParser, orSelf, ih]
          | throw =>
            simp [dataKept, fieldExcluded, additionExcluded, hff, Offending, hp, ffAddition, hk,
              parseAddition, Addition.strictified, strictifyParser]

theorem findField_self_of_nodup (fields : List (Field κ α)) (hnd : (fields.map (·.name)).Nodup) :
    ∀ f ∈ fields, findField f.name fields = some f := by
  induction fields with
  | nil => simp
  | cons g gs ih =>
    intro f hf
    simp at hnd
    rcases List.mem_cons.mp hf with h | h
    · subst h; simp [findField]
    · have : ¬ g.name = f.name := by
        intro e
        exact hnd.1 f h e.symm
      simp [findField, this, ih hnd.2 f h]

theorem findField_strictified (inv : Policy) (k : κ) (fields : List (Field κ α)) :
    findField k (fields.map (Field.strictified inv)) = (findField k fields).map (Field.strictified inv) := by
  induction fields with
  | nil => rfl
  | cons f fs ih =>
    have : (f.strictified inv).name = f.name := rfl
    by_cases h : f.name = k <;> simp [findField, this, h, ih]

omit [DecidableEq κ] in
theorem parseValue_strictified_kept (inv : Policy) (f : Field κ α) (x : α)
    (h : (Offending f.parse x && f.policy inv == .exclude && !f.required) = false) :
    parseValue .throw (f.strictified inv) x = parseValue inv f x := by
  rw [parseValue_strictified]
  cases hp : f.parse x with
  | some y => simp [strictifyParser_ok _ _ _ _ hp, parseValue, hp]
  | none =>
    have hb : Offending f.parse x = true := by simp [Offending, hp]
    rw [C11_field_cases_restates_model inv f x hb]
    cases hpol : f.policy inv with
    | throw => simp [strictifyParser_throw_bad _ _ hp]
    | preserve => simp [strictifyParser_preserve_bad _ _ hp]
    | exclude =>
      have hr : f.required = true := by
        cases hr : f.required with
        | true => rfl
        | false => simp [hb, hpol, hr] at h
      simp [strictifyParser_exclude_bad _ _ hp, hr]

/-- the value of an extra key is removed by an `exclude` policy -/
def addExcludedV (inv : Policy) (a : Addition α) (v : α) : Bool :=
  match a with
  | .typed p => inv == .exclude && Offending p v
  | _ => false

theorem parseAddition_strictified_kept (inv : Policy) (a : Addition α) (v : α)
    (h : addExcludedV inv a v = false) :
    parseAddition .throw (a.strictified inv) v = parseAddition inv a v := by
  cases a with
  | ignore => rfl
  | forbid => rfl
  | keep => rfl
  | typed p =>
    cases hp : p v with
    | some y => simp [parseAddition, Addition.strictified, strictifyParser_ok _ _ _ _ hp, hp]
    | none =>
      cases inv with
      | exclude => simp [addExcludedV, Offending, hp] at h
      | preserve => simp [parseAddition, Addition.strictified, strictifyParser_preserve_bad _ _ hp, hp]
      | throw => simp [parseAddition, Addition.strictified, strictifyParser_throw_bad _ _ hp, hp]

theorem dataKept_field (inv : Policy) (fields : List (Field κ α)) (a : Addition α) (k : κ) (v : α) (f : Field κ α)
    (hf : findField k fields = some f) :
    dataKept inv fields a (k, v) = !(Offending f.parse v && f.policy inv == .exclude && !f.required) := by
  simp [dataKept, fieldExcluded, additionExcluded, hf]

theorem dataKept_extra (inv : Policy) (fields : List (Field κ α)) (a : Addition α) (k : κ) (v : α)
    (hf : findField k fields = none) :
    dataKept inv fields a (k, v) = !addExcludedV inv a v := by
  cases a <;> simp [dataKept, fieldExcluded, additionExcluded, hf, addExcludedV]

omit [DecidableEq κ] in
theorem nodup_filter_keys (q : κ × α → Bool) (data : List (κ × α)) (hnd : (data.map (·.1)).Nodup) :
    ((data.filter q).map (·.1)).Nodup :=
  List.Pairwise.sublist (List.Sublist.map _ List.filter_sublist) hnd

theorem map_ne_ok {ε β : Type} (g : β → β) (t : Except ε β) (h : ∀ r, t ≠ .ok r) : ∀ r, t.map g ≠ .ok r := by
  intro r
  cases t with
  | error e => simp [map_error]
  | ok v => exact absurd rfl (h v)

/-! #### the repaired loops: `parse_value(..., excluded_as_absent=True)` -/

omit [DecidableEq κ] in
/-- a required field is never silently excluded — also on the path the data loops use, and whatever
default the field carries (`Field(required='w', default=0)` under `Options(mode='w')`). -/
theorem C11_required_never_excluded_value_abs (inv : Policy) (f : Field κ α) (x : α)
    (hreq : f.required = true) (hbad : Offending f.parse x = true) (hpol : f.policy inv = .exclude) :
    parseValueAbs inv f x = .raise := by
  have : f.parse x = none := (offending_iff _ _).mp hbad
  simp [parseValueAbs, this, hpol, hreq]

omit [DecidableEq κ] in
theorem parseValueAbs_ok (inv : Policy) (f : Field κ α) (x y : α) (h : f.parse x = some y) :
    parseValueAbs inv f x = .value y := by
  simp [parseValueAbs, h]

omit [DecidableEq κ] in
/-- unfolding lemma (the body of `parseValueAbs` for an offending value; restates the model): reported as not
given (`exclude`, optional field — the default, if any, is the loop's business), handed back unchanged
(`preserve`), or an error. -/
theorem C11_field_abs_cases_restates_model (inv : Policy) (f : Field κ α) (x : α) (hbad : Offending f.parse x = true) :
    parseValueAbs inv f x =
      match f.policy inv with
      | .exclude => if f.required then .raise else .unprovided
      | .preserve => .value x
      | .throw => .raise := by
  have : f.parse x = none := (offending_iff _ _).mp hbad
  unfold parseValueAbs
  rw [this]
  rfl

omit [DecidableEq κ] in
theorem parseValueAbs_strictified (inv : Policy) (f : Field κ α) (x : α) :
    parseValueAbs .throw (f.strictified inv) x =
      match strictifyParser (f.policy inv) f.parse x with
      | some y => .value y
      | none => .raise := by
  have hp' : (f.strictified inv).parse x = strictifyParser (f.policy inv) f.parse x := rfl
  unfold parseValueAbs
  rw [hp']
  cases strictifyParser (f.policy inv) f.parse x with
  | some y => rfl
  | none => rfl

omit [DecidableEq κ] in
/-- a value that is not excluded is treated identically by the all-`throw` declaration -/
theorem parseValueAbs_strictified_kept (inv : Policy) (f : Field κ α) (x : α)
    (h : (Offending f.parse x && f.policy inv == .exclude && !f.required) = false) :
    parseValueAbs .throw (f.strictified inv) x = parseValueAbs inv f x := by
  rw [parseValueAbs_strictified]
  cases hp : f.parse x with
  | some y => simp [strictifyParser_ok _ _ _ _ hp, parseValueAbs, hp]
  | none =>
    have hb : Offending f.parse x = true := by simp [Offending, hp]
    rw [C11_field_abs_cases_restates_model inv f x hb]
    cases hpol : f.policy inv with
    | throw => simp [strictifyParser_throw_bad _ _ hp]
    | preserve => simp [strictifyParser_preserve_bad _ _ hp]
    | exclude =>
      have hr : f.required = true := by
        cases hr : f.required with
        | true => rfl
        | false => simp [hb, hpol, hr] at h
      simp [strictifyParser_exclude_bad _ _ hp, hr]

omit [DecidableEq κ] in
/-- an excluded value is reported as "not given" -/
theorem parseValueAbs_excluded (inv : Policy) (f : Field κ α) (x : α)
    (h : (Offending f.parse x && f.policy inv == .exclude && !f.required) = true) :
    parseValueAbs inv f x = .unprovided := by
  have h3 : (f.parse x = none ∧ f.policy inv = .exclude) ∧ f.required = false := by
    simpa [Offending] using h
  obtain ⟨⟨h3a, h3b⟩, h3c⟩ := h3
  simp [parseValueAbs, h3a, h3b, h3c]

theorem ffFields_general (inv : Policy) (fields fs : List (Field κ α)) (a : Addition α) (data : List (κ × α))
    (hnd : (data.map (·.1)).Nodup) (hsub : ∀ f ∈ fs, findField f.name fields = some f) :
    ffFields inv fs data =
      ffFields .throw (fs.map (Field.strictified inv)) (data.filter (dataKept inv fields a)) := by
  unfold ffFields
  induction fs with
  | nil => rfl
  | cons f fs ih =>
    have ih' := ih (fun g hg => hsub g (by simp [hg]))
    have hf := hsub f (by simp)
    have hname : (f.strictified inv).name = f.name := rfl
    have hreq : (f.strictified inv).required = f.required := rfl
    have habs : Acc.absent (f.strictified inv) = Acc.absent f := rfl
    have hacc : ∀ y, Acc.accept (f.strictified inv) y = Acc.accept f y := fun _ => rfl
    cases hl : lookup f.name data with
    | none =>
      have := lookup_filter_none (dataKept inv fields a) f.name data hl
      simp only [ffFieldsG, List.map_cons, hname, hl, this, hreq, habs, ih']
    | some x =>
      cases hb : (Offending f.parse x && f.policy inv == .exclude && !f.required) with
      | false =>
        have hkeep : dataKept inv fields a (f.name, x) = true := by
          rw [dataKept_field inv fields a f.name x f hf, hb]; rfl
        have := lookup_filter_keep (dataKept inv fields a) f.name x data hl hkeep
        have hstep := parseValueAbs_strictified_kept inv f x hb
        simp only [ffFieldsG, List.map_cons, hname, hl, this, fieldStep, if_true, hstep, habs, hacc, ih']
      | true =>
        have hdrop : dataKept inv fields a (f.name, x) = false := by
          rw [dataKept_field inv fields a f.name x f hf, hb]; rfl
        have := lookup_filter_drop (dataKept inv fields a) f.name x data hnd hl hdrop
        have hstep := parseValueAbs_excluded inv f x hb
        have hr : f.required = false := by
          have : ((Offending f.parse x && f.policy inv == .exclude) = true) ∧ (!f.required) = true := by
            simpa using hb
          simpa using this.2
        simp [ffFieldsG, hname, hl, this, fieldStep, hstep, hreq, hr, habs, ih']

/-- **fields + extra keys (field-first strategy), all policies and per-field `on_error` at once**:
parsing a data class under `invalid_values = inv` and per-field `on_error` equals fully strict parsing
(everything `throw`) of the data with exactly the excluded entries removed — optional fields whose
value is offending under an effective `exclude`, extra keys whose value is offending under
`invalid_values='exclude'` — where `preserve` reads as "offenders convert to themselves".  A required
field is never removed: its offending value stays in the data and makes the strict parse fail.  The
statement includes `dependencies`: an excluded field demands none and satisfies nobody's, exactly as
if it had not been given (result, `AbsenceError`, `DependenciesAbsenceError` and every other failure
agree). -/
theorem C11_fields_ff_general (inv : Policy) (fields : List (Field κ α)) (a : Addition α) (data : List (κ × α))
    (hdata : (data.map (·.1)).Nodup) (hfields : (fields.map (·.name)).Nodup) :
    parseDataFF inv fields a data =
      parseDataFF .throw (fields.map (Field.strictified inv)) (a.strictified inv)
        (data.filter (dataKept inv fields a)) := by
  have h1 := ffFields_general inv fields fields a data hdata (findField_self_of_nodup fields hfields)
  have h2 := ffAddition_general inv fields a data
  have h3 : (a.strictified inv).isIgnore = a.isIgnore := by cases a <;> rfl
  unfold ffFields at h1
  simp only [parseDataFF, parseDataFFG, h1, h2, h3]

/-! ### fields + extra keys, data-first strategy -/

theorem dfLoop_general (inv : Policy) (fields : List (Field κ α)) (a : Addition α) (data : List (κ × α)) :
    dfLoop inv fields a data =
      dfLoop .throw (fields.map (Field.strictified inv)) (a.strictified inv)
        (data.filter (dataKept inv fields a)) := by
  unfold dfLoop
  induction data with
  | nil => rfl
  | cons kv rest ih =>
    obtain ⟨k, v⟩ := kv
    rw [List.filter_cons]
    cases hf : findField k fields with
    | none =>
      have hf' : findField k (fields.map (Field.strictified inv)) = none := by
        rw [findField_strictified, hf]; rfl
      cases hb : addExcludedV inv a v with
      | false =>
        have hkeep : dataKept inv fields a (k, v) = true := by
          rw [dataKept_extra inv fields a k v hf, hb]; rfl
        have hadd := parseAddition_strictified_kept inv a v hb
        simp only [hkeep, if_true, dfLoopG, hf, hf', hadd, ih]
      | true =>
        have hdrop : dataKept inv fields a (k, v) = false := by
          rw [dataKept_extra inv fields a k v hf, hb]; rfl
        have hun : parseAddition inv a v = .unprovided := by
          cases a with
          | typed p =>
            have h2 : inv = .exclude ∧ p v = none := by simpa [addExcludedV, Offending] using hb
            simp [parseAddition, h2.1, h2.2]
          | ignore => simp [addExcludedV] at hb
          | forbid => simp [addExcludedV] at hb
          | keep => simp [addExcludedV] at hb
        simp only [hdrop, Bool.false_eq_true, if_false, dfLoopG, hf, hun, ih]
    | some f =>
      have hf' : findField k (fields.map (Field.strictified inv)) = some (f.strictified inv) := by
        rw [findField_strictified, hf]; rfl
      have hdeps : (f.strictified inv).deps = f.deps := rfl
      cases hb : (Offending f.parse v && f.policy inv == .exclude && !f.required) with
      | false =>
        have hkeep : dataKept inv fields a (k, v) = true := by
          rw [dataKept_field inv fields a k v f hf, hb]; rfl
        have hstep := parseValueAbs_strictified_kept inv f v hb
        simp only [hkeep, if_true, dfLoopG, hf, hf', fieldStep, hstep, hdeps, ih]
      | true =>
        have hdrop : dataKept inv fields a (k, v) = false := by
          rw [dataKept_field inv fields a k v f hf, hb]; rfl
        have hstep := parseValueAbs_excluded inv f v hb
        simp only [hdrop, Bool.false_eq_true, if_false, dfLoopG, hf, fieldStep, if_true, hstep, ih]

theorem dfFill_strictified (inv : Policy) (present : List κ) (fields : List (Field κ α)) :
    dfFill present (fields.map (Field.strictified inv)) = dfFill present fields := by
  induction fields with
  | nil => rfl
  | cons f fs ih =>
    have hname : (f.strictified inv).name = f.name := rfl
    have hreq : (f.strictified inv).required = f.required := rfl
    have hdef : (f.strictified inv).default = f.default := rfl
    simp only [List.map_cons, dfFill, hname, hreq, hdef, ih]

/-- **fields + extra keys (data-first strategy), all policies and per-field `on_error` at once**: the
same statement as `C11_fields_ff_general`, now as a plain equality (results as insertion logs, every
failure, the dependency check).  Before `fixes/C11-excluded-as-absent.patch` this held only as finite
maps and only for declarations without `dependencies`; the repaired loops skip an excluded value and
let the fill loop treat the field as not given, which is literally what the strict parse of the filtered
data does.  No `Nodup` hypothesis is needed any more. -/
theorem C11_fields_df_general (inv : Policy) (fields : List (Field κ α)) (a : Addition α) (data : List (κ × α)) :
    parseDataDF inv fields a data =
      parseDataDF .throw (fields.map (Field.strictified inv)) (a.strictified inv)
        (data.filter (dataKept inv fields a)) := by
  have h1 := dfLoop_general inv fields a data
  unfold dfLoop at h1
  simp only [parseDataDF, parseDataDFG, h1, dfFill_strictified]

/-! ### "a required field is never silently excluded", at the level of the whole data class -/

theorem ffFields_required_offending (inv : Policy) (fs : List (Field κ α)) (data : List (κ × α))
    (f : Field κ α) (x : α) (hf : f ∈ fs) (hl : lookup f.name data = some x)
    (hreq : f.required = true) (hbad : Offending f.parse x = true) (hpol : f.policy inv = .exclude) :
    ∀ r, ffFields inv fs data ≠ .ok r := by
  unfold ffFields
  induction fs with
  | nil => simp at hf
  | cons g gs ih =>
    intro r
    rcases List.mem_cons.mp hf with h | h
    · subst h
      simp [ffFieldsG, hl, fieldStep, C11_required_never_excluded_value_abs inv f x hreq hbad hpol]
    · have ih' := ih h
      simp only [ffFieldsG]
      repeat' split
      all_goals first | exact ih' r | exact map_ne_ok _ _ ih' r | simp

/-- **a required field is never silently excluded** (field-first): if the data carries an offending
value for a field that is required in this parse and whose effective policy is `exclude`, the parse
fails — whatever default the field has. -/
theorem C11_required_never_excluded_ff (inv : Policy) (fields : List (Field κ α)) (a : Addition α)
    (data : List (κ × α)) (f : Field κ α) (x : α) (hf : f ∈ fields) (hl : lookup f.name data = some x)
    (hreq : f.required = true) (hbad : Offending f.parse x = true) (hpol : f.policy inv = .exclude) :
    ∀ r, parseDataFF inv fields a data ≠ .ok r := by
  intro r
  unfold parseDataFF parseDataFFG
  have := ffFields_required_offending inv fields data f x hf hl hreq hbad hpol
  unfold ffFields at this
  cases h : ffFieldsG true inv fields data with
  | error e => simp
  | ok r' => exact absurd h (this r')

theorem dfLoop_required_offending (inv : Policy) (fields : List (Field κ α)) (a : Addition α)
    (data : List (κ × α)) (f : Field κ α) (k : κ) (x : α) (hmem : (k, x) ∈ data)
    (hf : findField k fields = some f)
    (hreq : f.required = true) (hbad : Offending f.parse x = true) (hpol : f.policy inv = .exclude) :
    ∀ r, dfLoop inv fields a data ≠ .ok r := by
  unfold dfLoop
  induction data with
  | nil => simp at hmem
  | cons kv rest ih =>
    intro r
    obtain ⟨k', v⟩ := kv
    rcases List.mem_cons.mp hmem with h | h
    · cases h
      simp [dfLoopG, hf, fieldStep, C11_required_never_excluded_value_abs inv f x hreq hbad hpol]
    · have ih' := ih h
      simp only [dfLoopG]
      repeat' split
      all_goals first | exact ih' r | exact map_ne_ok _ _ ih' r | simp

/-- the same for the data-first strategy. -/
theorem C11_required_never_excluded_df (inv : Policy) (fields : List (Field κ α)) (a : Addition α)
    (data : List (κ × α)) (f : Field κ α) (k : κ) (x : α) (hmem : (k, x) ∈ data)
    (hf : findField k fields = some f)
    (hreq : f.required = true) (hbad : Offending f.parse x = true) (hpol : f.policy inv = .exclude) :
    ∀ r, parseDataDF inv fields a data ≠ .ok r := by
  intro r
  unfold parseDataDF parseDataDFG
  have := dfLoop_required_offending inv fields a data f k x hmem hf hreq hbad hpol
  unfold dfLoop at this
  cases h : dfLoopG true inv fields a data with
  | error e => simp
  | ok r' => exact absurd h (this r')

/-! ### positional parameters of a decorated function (the default-returning path of `parse_value`) -/

omit [DecidableEq κ] in
/-- what a positional parameter with a default receives, argument by argument: the conversion of a
non-offending argument under every policy; for an offending one the parameter's default (`exclude` —
exactly what it receives when the argument is not given), the argument itself (`preserve`). -/
theorem C11_posparams_pointwise (inv : Policy) (ps : List (Field κ α)) (i : Nat) (xs : List α)
    (hinv : inv ≠ .throw)
    (hps : ∀ p ∈ ps, p.required = false ∧ p.onError = none ∧ ∃ d, p.default = some d) :
    parsePosParams inv ps i xs =
      .ok ((ps.zip xs).map (fun (p, x) => match p.parse x with
              | some y => y
              | none => if inv = .exclude then p.default.getD x else x)
            ++ (ps.drop xs.length).filterMap (·.default),
           xs.drop ps.length) := by
  induction ps generalizing i xs with
  | nil => cases xs <;> simp [parsePosParams]
  | cons p ps ih =>
    cases xs with
    | nil => simp [parsePosParams]
    | cons x xs =>
      obtain ⟨hr, ho, d, hd⟩ := hps p (by simp)
      have ih' := ih (i + 1) xs (fun q hq => hps q (by simp [hq]))
      cases hp : p.parse x with
      | some y => simp [parsePosParams, parseValue, hp, ih', map_ok]
      | none =>
        cases inv with
        | throw => exact absurd rfl hinv
        | exclude => simp [parsePosParams, parseValue, hp, Field.policy, ho, hr, hd, ih', map_ok]
        | preserve => simp [parsePosParams, parseValue, hp, Field.policy, ho, ih', map_ok]

/-! ### mode-dependent `required` -/

section modes
variable {μ : Type} [DecidableEq μ]

omit [DecidableEq κ] in
/-- **required in this mode ⇒ never excluded, even with a default**: `Field(required='w', default=d)`
parsed under `Options(mode='w')` with an offending value and an effective `exclude` raises on both
paths (`parse_value` as function parameters use it, and as the data loops use it); the default is not
substituted. -/
theorem C11_required_in_mode_never_excluded (inv : Policy) (mode : Option μ) (d : FieldDecl μ κ α) (x : α)
    (hreq : d.req.holds mode = true) (hbad : Offending d.parse x = true)
    (hpol : (d.resolve mode).policy inv = .exclude) :
    parseValue inv (d.resolve mode) x = .raise ∧ parseValueAbs inv (d.resolve mode) x = .raise :=
  ⟨C11_required_never_excluded_value inv (d.resolve mode) x hreq hbad hpol,
   C11_required_never_excluded_value_abs inv (d.resolve mode) x hreq hbad hpol⟩

omit [DecidableEq κ] in
/-- …and in a mode in which the field is not required the same value *is* excluded: the field counts
as not given and its default (if any) applies. -/
theorem C11_not_required_in_mode_excluded (inv : Policy) (mode : Option μ) (d : FieldDecl μ κ α) (x : α)
    (hreq : d.req.holds mode = false) (hbad : Offending d.parse x = true)
    (hpol : (d.resolve mode).policy inv = .exclude) :
    parseValueAbs inv (d.resolve mode) x = .unprovided ∧
    parseValue inv (d.resolve mode) x = (match d.default with | some v => .value v | none => .unprovided) := by
  have hp : d.parse x = none := (offending_iff _ _).mp hbad
  have hp' : (d.resolve mode).parse x = none := hp
  have hr' : (d.resolve mode).required = false := hreq
  constructor
  · simp [parseValueAbs, hp', hpol, hr']
  · simp only [parseValue, hp', hpol, hr']
    rfl

omit [DecidableEq κ] in
/-- which modes make a `required='…'` field required -/
theorem C11_req_holds_iff (ms : List μ) (mode : Option μ) :
    (Req.modes ms).holds mode = true ↔ ∃ m, mode = some m ∧ m ∈ ms := by
  cases mode with
  | none => simp [Req.holds]
  | some m => simp [Req.holds]

/-- the whole-class statements for a declaration with mode-dependent requirements are the instances of
`C11_fields_ff_general` / `C11_fields_df_general` at the resolved declaration; in particular a
mode-required field with an offending value fails the parse in both strategies, default or not. -/
theorem C11_required_in_mode_never_excluded_data (inv : Policy) (mode : Option μ) (decls : List (FieldDecl μ κ α))
    (a : Addition α) (data : List (κ × α)) (d : FieldDecl μ κ α) (x : α) (hd : d ∈ decls)
    (hmem : (d.name, x) ∈ data) (hl : lookup d.name data = some x)
    (hff : findField d.name (decls.map (FieldDecl.resolve mode)) = some (d.resolve mode))
    (hreq : d.req.holds mode = true) (hbad : Offending d.parse x = true)
    (hpol : (d.resolve mode).policy inv = .exclude) :
    (∀ r, parseDataFF inv (decls.map (FieldDecl.resolve mode)) a data ≠ .ok r) ∧
    (∀ r, parseDataDF inv (decls.map (FieldDecl.resolve mode)) a data ≠ .ok r) :=
  ⟨C11_required_never_excluded_ff inv _ a data (d.resolve mode) x (List.mem_map.mpr ⟨d, hd, rfl⟩) hl hreq hbad hpol,
   C11_required_never_excluded_df inv _ a data (d.resolve mode) d.name x hmem hff hreq hbad hpol⟩

/-! #### running options: `ignore_required`, `force_default` -/

omit [DecidableEq κ] in
theorem resolveR_default_run (mode : Option μ) (d : FieldDecl μ κ α) :
    d.resolveR { mode := mode } = d.resolve mode := by
  simp [FieldDecl.resolveR, FieldDecl.resolve, RunOpts.ignoresRequired]

omit [DecidableEq κ] in
/-- under `ignore_required=True` (or `force_default=…`, which implies it) no field is required … -/
theorem C11_ignore_required_nothing_required (r : RunOpts μ α) (d : FieldDecl μ κ α)
    (h : r.ignoresRequired = true) : (d.resolveR r).required = false := by
  simp [FieldDecl.resolveR, h]

omit [DecidableEq κ] in
/-- … so an offending value under an effective `exclude` is excluded in that run — never an error — and
the field counts as not given (its default, or the forced default, applies). -/
theorem C11_ignore_required_excludes (inv : Policy) (r : RunOpts μ α) (d : FieldDecl μ κ α) (x : α)
    (h : r.ignoresRequired = true) (hbad : Offending d.parse x = true)
    (hpol : (d.resolveR r).policy inv = .exclude) :
    parseValueAbs inv (d.resolveR r) x = .unprovided := by
  have hp : (d.resolveR r).parse x = none := (offending_iff _ _).mp hbad
  have hr := C11_ignore_required_nothing_required r d h
  simp [parseValueAbs, hp, hpol, hr]

omit [DecidableEq κ] in
/-- without `ignore_required` / `force_default` the same declaration and value raise when the mode makes
the field required: the two runs differ only through their own options. -/
theorem C11_required_run_never_excluded (inv : Policy) (r : RunOpts μ α) (d : FieldDecl μ κ α) (x : α)
    (h : r.ignoresRequired = false) (hreq : d.req.holds r.mode = true) (hbad : Offending d.parse x = true)
    (hpol : (d.resolveR r).policy inv = .exclude) :
    parseValueAbs inv (d.resolveR r) x = .raise ∧ parseValue inv (d.resolveR r) x = .raise := by
  have hr : (d.resolveR r).required = true := by simp [FieldDecl.resolveR, h, hreq]
  exact ⟨C11_required_never_excluded_value_abs inv _ x hr hbad hpol,
         C11_required_never_excluded_value inv _ x hr hbad hpol⟩

/-- bookkeeping, NOT a property theorem (it is `List.map` indexing and true of any step function): in the
model a sequence of parses is `steps.map (parseStep decls a)` — `is_required` / `get_default` are functions
of the declaration and of the running options, the model has no memo a previous parse could leave behind.
That the REAL code behaves like this stateless model is checked only by the correspondence run (`sequence`
cases: every step against the model and against a freshly declared class). -/
theorem C11_sequence_restates_model (decls : List (FieldDecl μ κ α)) (a : Addition α)
    (before after : List (ParseStep μ κ α)) (s : ParseStep μ κ α) :
    (runSteps decls a (before ++ s :: after))[before.length]? = (runSteps decls a [s])[0]? := by
  simp [runSteps]

/-- the declaration read strictly for one run -/
def FieldDecl.strictifiedFor (r : RunOpts μ α) (inv : Policy) (d : FieldDecl μ κ α) : FieldDecl μ κ α :=
  { d with onError := some .throw, parse := strictifyParser ((d.resolveR r).policy inv) d.parse }

/-- every step of a sequence obeys the general theorem with the fields resolved for *its* options -/
theorem C11_sequence_step_general (decls : List (FieldDecl μ κ α)) (a : Addition α) (s : ParseStep μ κ α)
    (hdata : (s.data.map (·.1)).Nodup) (hfields : (decls.map (·.name)).Nodup) :
    parseStep decls a s =
      parseStep (decls.map (FieldDecl.strictifiedFor s.run s.inv))
        (a.strictified s.inv)
        { s with inv := .throw,
                 data := s.data.filter (dataKept s.inv (decls.map (FieldDecl.resolveR s.run)) a) } := by
  have hmap : (decls.map (FieldDecl.strictifiedFor s.run s.inv)).map (FieldDecl.resolveR s.run)
      = (decls.map (FieldDecl.resolveR s.run)).map (Field.strictified s.inv) := by
    simp [List.map_map, Function.comp_def, FieldDecl.resolveR, Field.strictified, FieldDecl.strictifiedFor,
      Field.policy]
  have hnames : ((decls.map (FieldDecl.resolveR s.run)).map (·.name)).Nodup := by
    simpa [List.map_map, Function.comp_def, FieldDecl.resolveR] using hfields
  unfold parseStep
  simp only [hmap]
  cases s.dataFirst with
  | true => simp only [if_true]; exact C11_fields_df_general _ _ _ _
  | false =>
    simp only [Bool.false_eq_true, if_false]
    exact C11_fields_ff_general _ _ _ _ hdata hnames

end modes

/-! ### `dependencies`: the code before `fixes/C11-excluded-as-absent.patch` (negation witnesses) -/

def exDepA : Field Nat Nat :=   -- a: optional, depends on b
  { name := 0, required := false, default := none, onError := none, deps := [1],
    parse := fun n => if n < 5 then some n else none }

def exDepB : Field Nat Nat :=   -- b: optional with default 7
  { name := 1, required := false, default := some 7, onError := none,
    parse := fun n => if n < 5 then some n else none }

def exDepC : Field Nat Nat :=   -- c: optional with default 7, depends on d (= field 3, never given)
  { name := 2, required := false, default := some 7, onError := none, deps := [3],
    parse := fun n => if n < 5 then some n else none }

/-- before the fix an excluded dependency that has a default *satisfied* its dependant (both
strategies), whereas the strict parse without the offending value fails; after the fix both fail. -/
theorem C11_deps_legacy_excluded_dependency_witness :
    parseDataFFG false .exclude [exDepA, exDepB] .ignore [(0, 1), (1, 9)] = .ok [(0, 1), (1, 7)] ∧
    parseDataDFG false .exclude [exDepA, exDepB] .ignore [(0, 1), (1, 9)] = .ok [(0, 1), (1, 7)] ∧
    parseDataFF .throw [exDepA, exDepB] .ignore [(0, 1)] = .error .dependencies ∧
    parseDataFF .exclude [exDepA, exDepB] .ignore [(0, 1), (1, 9)] = .error .dependencies ∧
    parseDataDF .exclude [exDepA, exDepB] .ignore [(0, 1), (1, 9)] = .error .dependencies :=
  ⟨rfl, rfl, rfl, rfl, rfl⟩

/-- before the fix an excluded field that has a default still *demanded* its dependencies (both
strategies), whereas the strict parse without the offending value succeeds; after the fix both succeed. -/
theorem C11_deps_legacy_excluded_dependant_witness :
    parseDataFFG false .exclude [exDepC] .ignore [(2, 9)] = .error .dependencies ∧
    parseDataDFG false .exclude [exDepC] .ignore [(2, 9)] = .error .dependencies ∧
    parseDataFF .throw [exDepC] .ignore [] = .ok [(2, 7)] ∧
    parseDataFF .exclude [exDepC] .ignore [(2, 9)] = .ok [(2, 7)] ∧
    parseDataDF .exclude [exDepC] .ignore [(2, 9)] = .ok [(2, 7)] :=
  ⟨rfl, rfl, rfl, rfl, rfl⟩

/-! ### nested data classes -/

section nesteddata
variable {α : Type} [DecidableEq α]

/-- `f'` is `f` read strictly (`on_error='throw'`) with a converter that accepts no more than `f`'s does -/
def FieldLe (f' f : Field α α) : Prop :=
  f'.name = f.name ∧ f'.required = f.required ∧ f'.default = f.default ∧ f'.deps = f.deps ∧
  f'.onError = some .throw ∧ ∀ x y, f'.parse x = some y → f.parse x = some y

inductive FieldsLe : List (Field α α) → List (Field α α) → Prop where
  | nil : FieldsLe [] []
  | cons {f' f : Field α α} {fs' fs : List (Field α α)} (h : FieldLe f' f) (t : FieldsLe fs' fs) :
      FieldsLe (f' :: fs') (f :: fs)

omit [DecidableEq α] in
/-- under the strict reading a provided value is accepted or raises — and what is accepted strictly is
accepted, with the same result, under every policy -/
theorem parseValueAbs_mono (inv : Policy) (f' f : Field α α) (h : FieldLe f' f) (x : α) :
    (∃ y, parseValueAbs .throw f' x = .value y ∧ parseValueAbs inv f x = .value y) ∨
    parseValueAbs .throw f' x = .raise := by
  obtain ⟨_, _, _, _, ho, hp⟩ := h
  cases hx : f'.parse x with
  | some z => exact Or.inl ⟨z, by simp [parseValueAbs, hx], by simp [parseValueAbs, hp x z hx]⟩
  | none => exact Or.inr (by simp [parseValueAbs, hx, Field.policy, ho])

omit [DecidableEq α] in
theorem FieldsLe.names {fs' fs : List (Field α α)} (h : FieldsLe fs' fs) :
    fs'.map (·.name) = fs.map (·.name) := by
  induction h with
  | nil => rfl
  | cons h _ ih => simp [h.1, ih]

theorem FieldsLe.find {fs' fs : List (Field α α)} (h : FieldsLe fs' fs) (k : α) :
    (findField k fs' = none ∧ findField k fs = none) ∨
    ∃ f' f, findField k fs' = some f' ∧ findField k fs = some f ∧ FieldLe f' f := by
  induction h with
  | nil => exact Or.inl ⟨rfl, rfl⟩
  | @cons f' f fs' fs h _ ih =>
    by_cases hk : f.name = k
    · have hk' : f'.name = k := h.1.trans hk
      exact Or.inr ⟨f', f, by simp [findField, hk'], by simp [findField, hk], h⟩
    · have hk' : ¬ f'.name = k := fun e => hk (h.1.symm.trans e)
      simpa [findField, hk, hk'] using ih

omit [DecidableEq α] in
theorem map_ok_inv {ε β γ : Type} (g : β → γ) (t : Except ε β) (c : γ) (h : t.map g = .ok c) :
    ∃ b, t = .ok b ∧ g b = c := by
  cases t with
  | error e => simp [Except.map] at h
  | ok b => exact ⟨b, rfl, by simpa [Except.map] using h⟩

theorem ffFields_mono (inv : Policy) {fs' fs : List (Field α α)} (h : FieldsLe fs' fs)
    (data : List (α × α)) (acc : Acc α α) :
    ffFieldsG true .throw fs' data = .ok acc → ffFieldsG true inv fs data = .ok acc := by
  induction h generalizing acc with
  | nil => intro h; simpa [ffFieldsG] using h
  | @cons f' f fs' fs hle _ ih =>
    have hle' := hle
    obtain ⟨hn, hr, hd, hdp, _, _⟩ := hle
    have habs : Acc.absent f' = Acc.absent f := by funext a; simp [Acc.absent, hn, hd]
    have hacc : ∀ y, Acc.accept f' y = Acc.accept f y := by intro y; funext a; simp [Acc.accept, hn, hdp]
    intro hok
    simp only [ffFieldsG, hn] at hok ⊢
    cases hl : lookup f.name data with
    | none =>
      simp only [hl, hr] at hok ⊢
      cases hreq : f.required with
      | true => simp [hreq] at hok
      | false =>
        simp only [hreq, Bool.false_eq_true, if_false, habs] at hok ⊢
        obtain ⟨acc0, h0, hg⟩ := map_ok_inv _ _ _ hok
        rw [ih acc0 h0]
        simp [Except.map, hg]
    | some x =>
      simp only [hl, fieldStep, if_true] at hok ⊢
      rcases parseValueAbs_mono inv f' f hle' x with ⟨y, hv, hv'⟩ | hv
      · simp only [hv, hv', hacc] at hok ⊢
        obtain ⟨acc0, h0, hg⟩ := map_ok_inv _ _ _ hok
        rw [ih acc0 h0]
        simp [Except.map, hg]
      · simp [hv] at hok

omit [DecidableEq α] in
theorem parseAddition_mono (inv : Policy) (a : Addition α) (v : α) :
    (∀ y, parseAddition .throw a v = .value y → parseAddition inv a v = .value y) ∧
    (parseAddition .throw a v = .unprovided → parseAddition inv a v = .unprovided) := by
  cases a with
  | ignore => simp [parseAddition]
  | forbid => simp [parseAddition]
  | keep => simp [parseAddition]
  | typed p => cases hp : p v <;> simp [parseAddition, hp]

theorem ffAddition_mono (inv : Policy) (a : Addition α) (names : List α) (data rs : List (α × α)) :
    ffAddition .throw a names data = .ok rs → ffAddition inv a names data = .ok rs := by
  induction data generalizing rs with
  | nil => intro h; simpa [ffAddition] using h
  | cons kv rest ih =>
    obtain ⟨k, v⟩ := kv
    intro h
    simp only [ffAddition] at h ⊢
    by_cases hk : k ∈ names
    · simp only [hk, if_true] at h ⊢; exact ih rs h
    · simp only [hk, if_false] at h ⊢
      obtain ⟨m1, m2⟩ := parseAddition_mono inv a v
      cases hv : parseAddition .throw a v with
      | value y =>
        simp only [hv, m1 y hv] at h ⊢
        obtain ⟨r0, h0, hg⟩ := map_ok_inv _ _ _ h
        rw [ih r0 h0]
        simp [Except.map, hg]
      | unprovided => simp only [hv, m2 hv] at h ⊢; exact ih rs h
      | exceed => simp [hv] at h
      | raise => simp [hv] at h

theorem parseDataFF_mono (inv : Policy) {fs' fs : List (Field α α)} (h : FieldsLe fs' fs)
    (a : Addition α) (data rs : List (α × α)) :
    parseDataFF .throw fs' a data = .ok rs → parseDataFF inv fs a data = .ok rs := by
  intro hok
  simp only [parseDataFF, parseDataFFG] at hok ⊢
  cases hf : ffFieldsG true .throw fs' data with
  | error e => simp [hf] at hok
  | ok acc =>
    rw [hf] at hok
    rw [ffFields_mono inv h data acc hf]
    simp only at hok ⊢
    by_cases hl : depsLack acc.deps acc.unprov acc.res = true
    · simp [hl] at hok
    · simp only [hl, if_false] at hok ⊢
      by_cases hi : a.isIgnore = true
      · simpa [hi] using hok
      · simp only [hi, if_false] at hok ⊢
        rw [← h.names]
        obtain ⟨r0, h0, hg⟩ := map_ok_inv _ _ _ hok
        rw [ffAddition_mono inv a _ data r0 h0]
        simp [Except.map, hg]

theorem dfLoop_mono (inv : Policy) {fs' fs : List (Field α α)} (h : FieldsLe fs' fs)
    (a : Addition α) (data : List (α × α)) (acc : DAcc α α) :
    dfLoopG true .throw fs' a data = .ok acc → dfLoopG true inv fs a data = .ok acc := by
  induction data generalizing acc with
  | nil => intro h; simpa [dfLoopG] using h
  | cons kv rest ih =>
    obtain ⟨k, v⟩ := kv
    intro hok
    simp only [dfLoopG] at hok ⊢
    rcases h.find k with ⟨h1, h2⟩ | ⟨f', f, h1, h2, hle⟩
    · simp only [h1, h2] at hok ⊢
      obtain ⟨m1, m2⟩ := parseAddition_mono inv a v
      cases hv : parseAddition .throw a v with
      | value y =>
        simp only [hv, m1 y hv] at hok ⊢
        obtain ⟨a0, h0, hg⟩ := map_ok_inv _ _ _ hok
        rw [ih a0 h0]
        simp [Except.map, hg]
      | unprovided => simp only [hv, m2 hv] at hok ⊢; exact ih acc hok
      | exceed => simp [hv] at hok
      | raise => simp [hv] at hok
    · simp only [h1, h2, fieldStep, if_true] at hok ⊢
      rcases parseValueAbs_mono inv f' f hle v with ⟨y, hv, hv'⟩ | hv
      · simp only [hv, hv', hle.2.2.2.1] at hok ⊢
        obtain ⟨a0, h0, hg⟩ := map_ok_inv _ _ _ hok
        rw [ih a0 h0]
        simp [Except.map, hg]
      · simp [hv] at hok

theorem dfFill_le {fs' fs : List (Field α α)} (h : FieldsLe fs' fs) (present : List α) :
    dfFill present fs' = dfFill present fs := by
  induction h with
  | nil => rfl
  | cons hle _ ih => simp only [dfFill, hle.1, hle.2.1, hle.2.2.1, ih]

theorem parseDataDF_mono (inv : Policy) {fs' fs : List (Field α α)} (h : FieldsLe fs' fs)
    (a : Addition α) (data rs : List (α × α)) :
    parseDataDF .throw fs' a data = .ok rs → parseDataDF inv fs a data = .ok rs := by
  intro hok
  simp only [parseDataDF, parseDataDFG] at hok ⊢
  cases hf : dfLoopG true .throw fs' a data with
  | error e => simp [hf] at hok
  | ok acc =>
    rw [hf] at hok
    rw [dfLoop_mono inv h a data acc hf]
    simp only at hok ⊢
    rw [← dfFill_le h acc.given]
    exact hok

mutual
/-- **input without offenders at any depth, with data classes**: if a value converts under the strict
reading of a declared type — every class, list and field of it, at every level, under `throw` — then it
converts to the same result under the declared policies, whatever they are at each level (each nested
class has its own `invalid_values`, strategy and per-field `on_error`): the policies touch nothing when
nothing is offending.  Structural induction on the (nested) declared type. -/
theorem C11_nested_data_clean_input (W : World α) :
    ∀ (T : DTy α) (v r : α), DTy.parser W true T v = some r → DTy.parser W false T v = some r
  | .leaf _, _, _, h => h
  | .list k items t, v, r, h => by
    simp only [DTy.parser, parseSeqRule, if_true, Bool.false_eq_true, if_false] at h ⊢
    cases hs : W.asSeq k v with
    | none => rw [hs] at h; simp [Except.toOption] at h
    | some xs =>
      rw [hs] at h
      simp only at h ⊢
      cases hp : parseSeq .throw (DTy.parser W true t) xs with
      | error e => rw [hp] at h; simp [Except.map, Except.toOption] at h
      | ok rs =>
        have := parseSeqFrom_mono items (DTy.parser W false t) (DTy.parser W true t) 0 xs rs
          (fun x _ y hy => C11_nested_data_clean_input W t x y hy) hp
        rw [hp] at h
        simp only [parseSeq]
        rw [this]
        exact h
  | .data inv df a fs, v, r, h => by
    have hle := C11_nested_data_fields_le W fs
    simp only [DTy.parser, if_true, Bool.false_eq_true, if_false] at h ⊢
    cases hs : W.asMap v with
    | none => rw [hs] at h; simp at h
    | some kvs =>
      rw [hs] at h
      simp only at h ⊢
      cases df with
      | true =>
        simp only [if_true] at h ⊢
        cases hp : parseDataDF .throw (DTy.fieldsOf W true fs) a kvs with
        | error e => rw [hp] at h; simp [Except.map, Except.toOption] at h
        | ok rs => rw [hp] at h; rw [parseDataDF_mono inv hle a kvs rs hp]; exact h
      | false =>
        simp only [Bool.false_eq_true, if_false] at h ⊢
        cases hp : parseDataFF .throw (DTy.fieldsOf W true fs) a kvs with
        | error e => rw [hp] at h; simp [Except.map, Except.toOption] at h
        | ok rs => rw [hp] at h; rw [parseDataFF_mono inv hle a kvs rs hp]; exact h
/-- the strict fields of a class node accept no more than its declared fields -/
theorem C11_nested_data_fields_le (W : World α) :
    ∀ (fs : List (FieldSpec α × DTy α)), FieldsLe (DTy.fieldsOf W true fs) (DTy.fieldsOf W false fs)
  | [] => by simp only [DTy.fieldsOf]; exact FieldsLe.nil
  | (s, t) :: rest => by
    simp only [DTy.fieldsOf]
    exact FieldsLe.cons ⟨rfl, rfl, rfl, rfl, rfl, fun x y hy => C11_nested_data_clean_input W t x y hy⟩
      (C11_nested_data_fields_le W rest)
end

/-- **every level of data-class nesting**: at a class node anywhere in a declared type, with the
converters of its fields being whatever the nested declared types make them, the parse under the node's
own policies equals the all-`throw` parse (at this level; nested levels keep their policies) of the
input without the entries this level's `exclude` policies remove. -/
theorem C11_nested_data_level (W : World α) (inv : Policy) (a : Addition α) (fs : List (FieldSpec α × DTy α))
    (kvs : List (α × α)) (hdata : (kvs.map (·.1)).Nodup)
    (hfields : ((DTy.fieldsOf W false fs).map (·.name)).Nodup) :
    parseDataFF inv (DTy.fieldsOf W false fs) a kvs =
      parseDataFF .throw ((DTy.fieldsOf W false fs).map (Field.strictified inv)) (a.strictified inv)
        (kvs.filter (dataKept inv (DTy.fieldsOf W false fs) a)) ∧
    parseDataDF inv (DTy.fieldsOf W false fs) a kvs =
      parseDataDF .throw ((DTy.fieldsOf W false fs).map (Field.strictified inv)) (a.strictified inv)
        (kvs.filter (dataKept inv (DTy.fieldsOf W false fs) a)) :=
  ⟨C11_fields_ff_general inv _ a kvs hdata hfields, C11_fields_df_general inv _ a kvs⟩

end nesteddata

/-! ### `@property` outputs -/

omit [DecidableEq κ] in
/-- the output path decides exactly like the `*args` path, with the effective policy
`on_error or invalid_values`. -/
theorem C11_output_eq_pos (inv : Policy) (oe : Option Policy) (pt : Option (Parser α)) (x : α) :
    parseOutputValue inv oe pt x = parsePosType (oe.getD inv) pt x := by
  cases pt with
  | none => rfl
  | some p => cases h : p x <;> cases h2 : oe.getD inv <;> simp [parseOutputValue, parsePosType, h, h2]

omit [DecidableEq κ] in
/-- **property outputs, all policies**: the computed part of an instance equals the all-`throw`
computation over the declaration without the excluded properties (`preserve` read as "offenders convert
to themselves"). -/
theorem C11_props_general (inv : Policy) (props : List (OutProp κ α)) :
    parseProps inv props =
      parseProps .throw ((props.filter fun q => !propExcluded inv q).map (OutProp.strictified inv)) := by
  induction props with
  | nil => rfl
  | cons q qs ih =>
    rw [List.filter_cons]
    cases hq : q.parse with
    | none =>
      have hex : propExcluded inv q = false := by simp [propExcluded, hq]
      simp [hex, parseProps, parseOutputValue, OutProp.strictified, hq, ih]
    | some p =>
      cases hp : p q.raw with
      | some y =>
        have hex : propExcluded inv q = false := by simp [propExcluded, hq, Offending, hp]
        have := strictifyParser_ok (q.onError.getD inv) p q.raw y hp
        simp [hex, parseProps, parseOutputValue, OutProp.strictified, hq, hp, this, ih]
      | none =>
        cases hpol : q.onError.getD inv with
        | exclude =>
          have hex : propExcluded inv q = true := by simp [propExcluded, hq, Offending, hp, hpol]
          simp [hex, parseProps, parseOutputValue, hq, hp, hpol, ih]
        | preserve =>
          have hex : propExcluded inv q = false := by simp [propExcluded, hq, Offending, hp, hpol]
          have := strictifyParser_preserve_bad p q.raw hp
          simp [hex, parseProps, parseOutputValue, OutProp.strictified, hq, hp, hpol, this, ih]
        | throw =>
          have hex : propExcluded inv q = false := by simp [propExcluded, hq, Offending, hp, hpol]
          have := strictifyParser_throw_bad p q.raw hp
          simp [hex, parseProps, parseOutputValue, OutProp.strictified, hq, hp, hpol, this]

/-- before `fixes/C11-output-error-isolation.patch` a preserved (or excluded) offending `@property`
result of a constrained type still made the whole initialisation raise: negation witness, replayed on
the real code by the corpus. -/
theorem C11_output_legacy_leak_witness :
    ∃ (props : List (OutProp Nat Nat)),
      parsePropsLegacy .throw (fun _ => true) props = .error .collected ∧
      parseProps .throw props = .ok [(0, 5)] :=
  ⟨[{ name := 0, onError := some .preserve, parse := some (fun n => if n < 4 then some n else none), raw := 5 }],
   rfl, rfl⟩

omit [DecidableEq κ] in
/-- where the converter raises directly (nothing is recorded) the old code already agreed. -/
theorem C11_output_legacy_clean (inv : Policy) (props : List (OutProp κ α)) :
    parsePropsLegacy inv (fun _ => false) props = parseProps inv props := by
  have h : ∀ props : List (OutProp κ α),
      parsePropsLegacyAux inv (fun _ => false) props = (parseProps inv props).map (fun l => (l, false)) := by
    intro props
    induction props with
    | nil => rfl
    | cons q qs ih =>
      cases hv : parseOutputValue inv q.onError q.parse q.raw <;>
        simp only [parsePropsLegacyAux, parseProps, hv, ih, Bool.false_and, Bool.or_false] <;>
        cases parseProps inv qs <;> rfl
  unfold parsePropsLegacy
  rw [h]
  cases parseProps inv props <;> rfl

/-! ### review round: constrained containers, sets at `Rule.parse` level, put-back for mapping values,
discriminated fields -/

section review
variable {α : Type}

/-- **constrained containers, exclude** (full): also with validators on the container, `exclude` on `v` is
`throw` on the input without the offenders — the validators see the same list on both sides. -/
theorem C11_seq_rule_exclude_constrained (W : World α) (k : SeqKind) (p : Parser α) (cons : List α → Bool)
    (v v' : α) (xs : List α) (h : W.asSeq k v = some xs) (h' : W.asSeq k v' = some (removeOffenders p xs)) :
    parseSeqRuleC W k .exclude p cons v = parseSeqRuleC W k .throw p cons v' := by
  simp [parseSeqRuleC, h, h', C11_seq_exclude]

/- full statement (false of the code, see the witness below):
   parseSeqRuleC W k .throw p cons v' = .ok (W.mkSeq k rs) →
   parseSeqRuleC W k .preserve p cons v = .ok (W.mkSeq k (putBack p xs rs))                           -/
/-- **constrained containers, preserve** (partial: outside `KnownDefect.consRejectsPutBack`): when the strict
parse of the filtered input is accepted by the validators, `preserve` returns that result with the offenders
put back. -/
theorem C11_seq_rule_preserve_constrained_partial (W : World α) (k : SeqKind) (p : Parser α) (cons : List α → Bool)
    (v v' : α) (xs : List α) (h : W.asSeq k v = some xs) (h' : W.asSeq k v' = some (removeOffenders p xs))
    (hk : KnownDefect.consRejectsPutBack p cons xs = false)
    (rs : List α) (hs : parseSeqRuleC W k .throw p cons v' = .ok (W.mkSeq k rs))
    (hrs : parseSeq .throw p (removeOffenders p xs) = .ok rs) :
    parseSeqRuleC W k .preserve p cons v = .ok (W.mkSeq k (putBack p xs rs)) := by
  have hrs' : rs = xs.filterMap p := by
    have := parseSeqFrom_throw_clean p 0 xs
    simp only [parseSeq] at hrs
    rw [this] at hrs
    cases hrs; rfl
  subst hrs'
  have hc : cons (xs.filterMap p) = true := by
    simp only [parseSeqRuleC, h', hrs] at hs
    by_cases hcc : cons (List.filterMap p xs) = true
    · exact hcc
    · simp [hcc] at hs
  have hc2 : cons (xs.map fun x => (p x).getD x) = true := by
    simp only [KnownDefect.consRejectsPutBack, hc, Bool.true_and] at hk
    simpa using hk
  have hp := parseSeqFrom_preserve p 0 xs
  simp only [parseSeqRuleC, h, parseSeq, hp, hc2, if_true, putBack_filterMap]

/-- negation witness for the full statement: `max_length = 2`, input `[1, 9, 2]` with 9 offending — strict parse
of `[1, 2]` is accepted, `preserve` is rejected by the validator (replayed on the real code by the corpus). -/
theorem C11_preserve_constraint_witness :
    ∃ (W : World (List Nat)) (p : Parser (List Nat)) (cons : List (List Nat) → Bool),
      parseSeqRuleC W .list .throw p cons [1, 2] = .ok [1, 2] ∧
      parseSeqRuleC W .list .preserve p cons [1, 9, 2] = .error .constraint ∧
      KnownDefect.consRejectsPutBack p cons [[1], [9], [2]] = true :=
  ⟨{ asSeq := fun _ v => some (v.map fun n => [n]), mkSeq := fun _ xs => xs.flatten,
     asMap := fun _ => none, mkMap := fun _ => [] },
   fun v => if v.all (· < 5) then some v else none, fun rs => rs.length ≤ 2, rfl, rfl, rfl⟩

/-- non-vacuity of the partial theorem: its hypotheses hold for an input with a preserved offender -/
example :
    let W : World (List Nat) := { asSeq := fun _ v => some (v.map fun n => [n]), mkSeq := fun _ xs => xs.flatten,
                                  asMap := fun _ => none, mkMap := fun _ => [] }
    let p : Parser (List Nat) := fun v => if v.all (· < 5) then some v else none
    let cons : List (List Nat) → Bool := fun rs => rs.length ≥ 2
    KnownDefect.consRejectsPutBack p cons [[1], [9], [2]] = false ∧
    parseSeqRuleC W .list .throw p cons [1, 2] = .ok [1, 2] ∧
    parseSeqRuleC W .list .preserve p cons [1, 9, 2] = .ok [1, 9, 2] := ⟨rfl, rfl, rfl⟩

/-- **sets / frozensets at `Rule.parse` level**: `set(...)` does not depend on the order of its argument
(`hset`), so whatever order the filtered set `v'` iterates in (`hp`: a permutation of the non-offending items
of `v`), `exclude` on `v` is `throw` on `v'`. -/
theorem C11_set_rule_exclude (W : World α) (k : SeqKind) (p : Parser α) (v v' : α) (xs ys : List α)
    (hset : ∀ as bs : List α, as.Perm bs → W.mkSeq k as = W.mkSeq k bs)
    (h : W.asSeq k v = some xs) (h' : W.asSeq k v' = some ys) (hp : ys.Perm (removeOffenders p xs)) :
    parseSeqRule W k .exclude p v = parseSeqRule W k .throw p v' := by
  obtain ⟨rs, rs', h1, h2, hperm⟩ := C11_set_exclude p xs ys hp
  simp [parseSeqRule, h, h', h1, h2, map_ok, hset rs rs' hperm]

/-- … and `preserve` on `v` is the set of the strict result of `v'` together with the offenders themselves. -/
theorem C11_set_rule_preserve (W : World α) (k : SeqKind) (p : Parser α) (v v' : α) (xs ys : List α)
    (hset : ∀ as bs : List α, as.Perm bs → W.mkSeq k as = W.mkSeq k bs)
    (h : W.asSeq k v = some xs) (h' : W.asSeq k v' = some ys) (hp : ys.Perm (removeOffenders p xs)) :
    ∃ rs', parseSeqRule W k .throw p v' = .ok (W.mkSeq k rs') ∧
           parseSeqRule W k .preserve p v = .ok (W.mkSeq k (rs' ++ xs.filter (fun x => Offending p x))) := by
  obtain ⟨rs, rs', h1, h2, hperm⟩ := C11_set_preserve p xs ys hp
  exact ⟨rs', by simp [parseSeqRule, h', h2, map_ok], by simp [parseSeqRule, h, h1, map_ok, hset _ _ hperm]⟩

/-- the hypotheses of the two set theorems are satisfiable by a World whose "set" forgets the order, for a
filtered set that iterates in ANOTHER order than the original (where `C11_seq_rule_exclude` does not apply) -/
example :
    let W : World (List Nat) := { asSeq := fun _ v => some (v.map fun n => [n]), mkSeq := fun _ xs => [xs.length],
                                  asMap := fun _ => none, mkMap := fun _ => [] }
    let p : Parser (List Nat) := fun v => if v.all (· < 5) then some v else none
    (∀ as bs : List (List Nat), as.Perm bs → W.mkSeq .set as = W.mkSeq .set bs) ∧
    W.asSeq .set [1, 9, 3] = some [[1], [9], [3]] ∧ W.asSeq .set [3, 1] = some [[3], [1]] ∧
    ([[3], [1]] : List (List Nat)).Perm (removeOffenders p [[1], [9], [3]]) ∧
    parseSeqRule W .set .exclude p [1, 9, 3] = parseSeqRule W .set .throw p [3, 1] := by
  refine ⟨fun as bs h => by simp [h.length_eq], rfl, rfl, ?_, rfl⟩
  show ([[3], [1]] : List (List Nat)).Perm [[1], [3]]
  exact List.Perm.swap [1] [3] []

/-- the rule-level statements for lists are not vacuous either: a World and values satisfying `h`, `h'` -/
example :
    let W : World (List Nat) := { asSeq := fun _ v => some (v.map fun n => [n]), mkSeq := fun _ xs => xs.flatten,
                                  asMap := fun _ => none, mkMap := fun _ => [] }
    let p : Parser (List Nat) := fun v => if v.all (· < 5) then some v else none
    W.asSeq .list [1, 9, 3] = some [[1], [9], [3]] ∧
    W.asSeq .list [1, 3] = some (removeOffenders p [[1], [9], [3]]) ∧
    parseSeqRule W .list .exclude p [1, 9, 3] = .ok [1, 3] ∧ parseSeqRule W .list .throw p [1, 3] = .ok [1, 3] :=
  ⟨rfl, rfl, rfl, rfl⟩

/-! #### mappings: `preserve` for values, literally -/

theorem map_map_comp {ε β γ δ : Type} (f : β → γ) (g : γ → δ) (t : Except ε β) :
    (t.map f).map g = t.map (g ∘ f) := by
  cases t <;> rfl

theorem parseMap_orSelf_putBack (kp q : Parser α) (L : List (α × α)) :
    parseMap .throw .throw kp (some (orSelf q)) L =
      (parseMap .throw .throw kp (some q) (L.filter fun kv => !valuePreserved kp (some q) kv)).map
        (putBackVals kp (some q) L) := by
  induction L with
  | nil => rfl
  | cons kv rest ih =>
    obtain ⟨k, v⟩ := kv
    rw [List.filter_cons]
    cases hk : kp k with
    | none =>
      have hvp : valuePreserved kp (some q) (k, v) = false := by simp [valuePreserved, Offending, hk]
      simp [hvp, parseMap, hk, map_error]
    | some k' =>
      cases hv : q v with
      | some v' =>
        have hvp : valuePreserved kp (some q) (k, v) = false := by simp [valuePreserved, Offending, hk, hv]
        simp only [hvp, Bool.not_false, if_true, parseMap, hk, hv, orSelf, Option.getD_some, ih, map_map_comp]
        cases parseMap .throw .throw kp (some q) (rest.filter fun kv => !valuePreserved kp (some q) kv) with
        | error e => rfl
        | ok rs => simp [Except.map, putBackVals, hvp]
      | none =>
        have hvp : valuePreserved kp (some q) (k, v) = true := by simp [valuePreserved, Offending, hk, hv]
        simp only [hvp, Bool.not_true, Bool.false_eq_true, if_false, parseMap, hk, hv, orSelf, Option.getD_none, ih,
          map_map_comp]
        cases parseMap .throw .throw kp (some q) (rest.filter fun kv => !valuePreserved kp (some q) kv) with
        | error e => rfl
        | ok rs => simp [Except.map, putBackVals, hvp, hk]

/-- **mappings, `invalid_values='preserve'`, literally** (keys under `throw` or `exclude`): the result is the
strict (`invalid_values='throw'`) result of the mapping without the entries whose value is offending, with
those entries put back — converted key, value unchanged — at their positions; and it fails exactly when that
strict parse fails, with the same error. -/
theorem C11_map_preserve_values (pk : Policy) (kp q : Parser α) (kvs : List (α × α)) (hk : pk ≠ .preserve) :
    parseMap pk .preserve kp (some q) kvs =
      (parseMap pk .throw kp (some q) (kvs.filter fun kv => !valuePreserved kp (some q) kv)).map
        (putBackVals kp (some q) (kvs.filter fun kv => !(pk == .exclude && Offending kp kv.1))) := by
  have e1 : ∀ kv : α × α, mapExcluded pk .preserve kp (some q) kv = (pk == .exclude && Offending kp kv.1) := by
    intro kv; cases pk <;> simp [mapExcluded]
  have e2 : ∀ kv : α × α, mapExcluded pk .throw kp (some q) kv = (pk == .exclude && Offending kp kv.1) := by
    intro kv; cases pk <;> simp [mapExcluded]
  rw [C11_map_general pk .preserve, C11_map_general pk .throw, strictifyParser_not_preserve pk kp hk]
  simp only [Option.map_some, e1, e2]
  have hs1 : strictifyParser .preserve q = orSelf q := rfl
  have hs2 : strictifyParser .throw q = q := rfl
  rw [hs1, hs2, parseMap_orSelf_putBack, List.filter_filter, List.filter_filter]
  congr 2
  apply List.filter_congr
  intro kv _
  exact Bool.and_comm _ _

/-! #### discriminated fields -/

/-- a value whose discriminator selects no branch (or that is no mapping) is an offending value of the field —
so every field theorem above (`exclude` = absent, `preserve` = handed back, `throw` = error; required never
excluded; the whole-class theorems) speaks about discriminated fields too. -/
theorem C11_disc_mismatch_offending {τ : Type} (toDict : α → Option α) (tag : α → Option τ)
    (branch : τ → Option (Parser α)) (x : α)
    (h : toDict x = none ∨ (∃ d, toDict x = some d ∧ (tag d = none ∨ ∃ t, tag d = some t ∧ branch t = none))) :
    Offending (discParser toDict tag branch) x = true := by
  rcases h with h | ⟨d, hd, h | ⟨t, ht, hb⟩⟩
  · simp [Offending, discParser, h]
  · simp [Offending, discParser, hd, h]
  · simp [Offending, discParser, hd, ht, hb]

/-- before `fixes/C11-discriminator-policy.patch` such a value raised under `exclude` and `preserve` alike
although the field was optional with a default — and the same input without it parses: negation witness,
replayed on the real code by the corpus. -/
theorem C11_disc_legacy_bypasses_policy_witness :
    ∃ (f : Field Nat Nat) (toDict : Nat → Option Nat) (tag : Nat → Option Nat) (branch : Nat → Option (Parser Nat)),
      f.required = false ∧ f.default = some 0 ∧
      parseValueDiscLegacy .exclude f toDict tag branch 7 = .raise ∧
      parseValueDiscLegacy .preserve f toDict tag branch 7 = .raise ∧
      parseValueAbs .exclude { f with parse := discParser toDict tag branch } 7 = .unprovided ∧
      parseValue .preserve { f with parse := discParser toDict tag branch } 7 = .value 7 :=
  ⟨{ name := 0, required := false, default := some 0, onError := none, parse := fun _ => none },
   some, fun d => some (d % 10), fun t => if t = 1 then some (fun d => some d) else none, rfl, rfl, rfl, rfl, rfl, rfl⟩

end review

/-! #### data-class fields: `preserve`, literally (results as finite maps: a field's position is its name) -/

section putbackfields
variable {κ α : Type} [DecidableEq κ]

/-- the field reads `preserve` as `throw` (same converter, same everything else) -/
def Field.unpreserved (inv : Policy) (f : Field κ α) : Field κ α :=
  { f with onError := some (f.policy inv).strictified }

/-- the entry is a field value that a `preserve` policy hands back -/
def fieldPreserved (inv : Policy) (fields : List (Field κ α)) (kv : κ × α) : Bool :=
  match findField kv.1 fields with
  | some f => Offending f.parse kv.2 && f.policy inv == .preserve
  | none => false

theorem findField_name {k : κ} {fields : List (Field κ α)} {f : Field κ α} (h : findField k fields = some f) :
    f.name = k := by
  induction fields with
  | nil => simp [findField] at h
  | cons g gs ih =>
    by_cases hg : g.name = k
    · simp [findField, hg] at h; subst h; exact hg
    · simp [findField, hg] at h; exact ih h

theorem ffFields_keys (fix : Bool) (inv : Policy) (fs : List (Field κ α)) (data : List (κ × α)) (acc : Acc κ α)
    (h : ffFieldsG fix inv fs data = .ok acc) (k : κ) (hk : k ∉ fs.map (·.name)) : lookup k acc.res = none := by
  induction fs generalizing acc with
  | nil => simp [ffFieldsG] at h; subst h; rfl
  | cons f fs ih =>
    simp at hk
    have hne : ¬ f.name = k := fun e => hk.1 e.symm
    have hk' : k ∉ fs.map (·.name) := by simpa using hk.2
    simp only [ffFieldsG] at h
    repeat' split at h
    all_goals first
      | (simp at h; done)
      | (exact ih acc h hk')
      | (obtain ⟨a0, h0, hg⟩ := map_ok_inv _ _ _ h
         subst hg
         have := ih a0 h0 hk'
         first
           | (simp only [Acc.absent]; split <;> simp [lookup, hne, this])
           | (simp [Acc.accept, lookup, hne, this]))

/-- **fields, `preserve`, literally** (field-first; the fields part): if the parse that reads every `preserve`
as `throw` accepts the data without the preserved offenders, then the parse under the declared policies
succeeds and, name by name, returns the preserved offender's own value for a preserved field and the strict
result for every other name. -/
theorem C11_fields_preserve_putback (inv : Policy) (fields fs : List (Field κ α)) (data : List (κ × α))
    (hdata : (data.map (·.1)).Nodup) (hfs : (fs.map (·.name)).Nodup)
    (hsub : ∀ f ∈ fs, findField f.name fields = some f) (accR : Acc κ α)
    (hR : ffFields inv.strictified (fs.map (Field.unpreserved inv))
            (data.filter fun kv => !fieldPreserved inv fields kv) = .ok accR) :
    ∃ accL, ffFields inv fs data = .ok accL ∧
      ∀ k, lookup k accL.res =
        (match lookup k data with
          | some v => if fieldPreserved inv fields (k, v) && decide (k ∈ fs.map (·.name)) then some v
                      else lookup k accR.res
          | none => lookup k accR.res) := by
  unfold ffFields at hR ⊢
  induction fs generalizing accR with
  | nil =>
    simp [ffFieldsG] at hR
    subst hR
    exact ⟨Acc.empty, rfl, fun k => by cases lookup k data <;> simp [Acc.empty, lookup]⟩
  | cons f fs ih =>
    simp at hfs
    have hf := hsub f (by simp)
    have hsub' : ∀ g ∈ fs, findField g.name fields = some g := fun g hg => hsub g (by simp [hg])
    have hname : (f.unpreserved inv).name = f.name := rfl
    have hreq : (f.unpreserved inv).required = f.required := rfl
    have habs : Acc.absent (f.unpreserved inv) = Acc.absent f := rfl
    have hacc : ∀ y, Acc.accept (f.unpreserved inv) y = Acc.accept f y := fun _ => rfl
    have hnotin : f.name ∉ fs.map (·.name) := by simpa using hfs.1
    simp only [List.map_cons, ffFieldsG, hname] at hR ⊢
    -- the tail, once its strict run is known to succeed
    have tail : ∀ accR0, ffFieldsG true inv.strictified (fs.map (Field.unpreserved inv))
          (data.filter fun kv => !fieldPreserved inv fields kv) = .ok accR0 →
        ∃ accL0, ffFieldsG true inv fs data = .ok accL0 ∧ lookup f.name accL0.res = none ∧
          lookup f.name accR0.res = none ∧
          ∀ k, lookup k accL0.res =
            (match lookup k data with
              | some v => if fieldPreserved inv fields (k, v) && decide (k ∈ fs.map (·.name)) then some v
                          else lookup k accR0.res
              | none => lookup k accR0.res) := by
      intro accR0 h0
      obtain ⟨accL0, hL0, hk0⟩ := ih hfs.2 hsub' accR0 h0
      refine ⟨accL0, hL0, ffFields_keys true inv fs data accL0 hL0 f.name hnotin, ?_, hk0⟩
      have : f.name ∉ (fs.map (Field.unpreserved inv)).map (·.name) := by
        simpa [List.map_map, Function.comp_def, Field.unpreserved] using hnotin
      exact ffFields_keys true _ _ _ accR0 h0 f.name this
    cases hl : lookup f.name data with
    | none =>
      have hlF := lookup_filter_none (fun kv => !fieldPreserved inv fields kv) f.name data hl
      simp only [hlF, hreq] at hR
      cases hr : f.required with
      | true => simp [hr] at hR
      | false =>
        simp only [hr, Bool.false_eq_true, if_false, habs] at hR ⊢
        obtain ⟨accR0, h0, hg⟩ := map_ok_inv _ _ _ hR
        obtain ⟨accL0, hL0, hn1, hn2, hk0⟩ := tail accR0 h0
        refine ⟨Acc.absent f accL0, by simp [hL0, Except.map], ?_⟩
        intro k
        subst hg
        by_cases hk : f.name = k
        · subst hk
          simp only [hl, Acc.absent]
          cases f.default <;> simp [lookup, hn1, hn2]
        · have := hk0 k
          have hk' : ¬ k = f.name := fun e => hk e.symm
          simp only [Acc.absent]
          cases f.default <;> cases hd : lookup k data <;> simp_all [lookup]
    | some x =>
      cases hb : fieldPreserved inv fields (f.name, x) with
      | true =>
        -- preserved offender: removed on the right (⇒ treated as absent there), handed back on the left
        have hoff : f.parse x = none ∧ f.policy inv = .preserve := by
          simpa [fieldPreserved, hf, Offending] using hb
        have hlF := lookup_filter_drop (fun kv => !fieldPreserved inv fields kv) f.name x data hdata hl (by simp [hb])
        simp only [hlF, hreq] at hR
        cases hr : f.required with
        | true => simp [hr] at hR
        | false =>
          simp only [hr, Bool.false_eq_true, if_false, habs] at hR
          obtain ⟨accR0, h0, hg⟩ := map_ok_inv _ _ _ hR
          obtain ⟨accL0, hL0, hn1, hn2, hk0⟩ := tail accR0 h0
          have hstep : fieldStep true inv f x = .value x := by
            simp [fieldStep, parseValueAbs, hoff.1, hoff.2]
          refine ⟨Acc.accept f x accL0, by simp [hstep, hL0, Except.map], ?_⟩
          intro k
          subst hg
          by_cases hk : f.name = k
          · subst hk
            simp [hl, hb, Acc.accept, lookup]
          · have := hk0 k
            have hk' : ¬ k = f.name := fun e => hk e.symm
            simp only [Acc.absent, Acc.accept]
            cases f.default <;> cases hd : lookup k data <;> simp_all [lookup]
      | false =>
        have hlF := lookup_filter_keep (fun kv => !fieldPreserved inv fields kv) f.name x data hl (by simp [hb])
        -- same step on both sides
        have hstep : fieldStep true inv.strictified (f.unpreserved inv) x = fieldStep true inv f x := by
          simp only [fieldStep, if_true, parseValueAbs]
          have hp : (f.unpreserved inv).parse x = f.parse x := rfl
          rw [hp]
          cases hpx : f.parse x with
          | some y => rfl
          | none =>
            have hnp : f.policy inv ≠ .preserve := by
              intro e; simp [fieldPreserved, hf, Offending, hpx, e] at hb
            have hpol : (f.unpreserved inv).policy inv.strictified = f.policy inv := by
              simp only [Field.policy, Field.unpreserved, Option.getD_some]
              cases hq : f.onError.getD inv <;> simp_all [Policy.strictified, Field.policy]
            simp only [hpol, hreq]
        simp only [hlF, hstep, habs, hacc] at hR
        cases hs : fieldStep true inv f x with
        | raise => simp [hs] at hR
        | unprovided =>
          simp only [hs, if_true] at hR ⊢
          obtain ⟨accR0, h0, hg⟩ := map_ok_inv _ _ _ hR
          obtain ⟨accL0, hL0, hn1, hn2, hk0⟩ := tail accR0 h0
          refine ⟨Acc.absent f accL0, by simp [hL0, Except.map], ?_⟩
          intro k
          subst hg
          by_cases hk : f.name = k
          · subst hk
            simp only [hl, hb, Acc.absent]
            cases f.default <;> simp [lookup, hn1, hn2]
          · have := hk0 k
            have hk' : ¬ k = f.name := fun e => hk e.symm
            simp only [Acc.absent]
            cases f.default <;> cases hd : lookup k data <;> simp_all [lookup]
        | value y =>
          simp only [hs] at hR ⊢
          obtain ⟨accR0, h0, hg⟩ := map_ok_inv _ _ _ hR
          obtain ⟨accL0, hL0, hn1, hn2, hk0⟩ := tail accR0 h0
          refine ⟨Acc.accept f y accL0, by simp [hL0, Except.map], ?_⟩
          intro k
          subst hg
          by_cases hk : f.name = k
          · subst hk
            simp [hl, hb, Acc.accept, lookup]
          · have := hk0 k
            have hk' : ¬ k = f.name := fun e => hk e.symm
            simp only [Acc.accept]
            cases hd : lookup k data <;> simp_all [lookup]

end putbackfields

/-! ### a container inside a union -/

section unions
variable {α : Type}

theorem firstSome_head_only (p : Parser α) (ps : List (Parser α)) (v : α) (h : ∀ q ∈ ps, q v = none) :
    firstSome (p :: ps) v = p v := by
  have : firstSome ps v = none := by
    induction ps with
    | nil => rfl
    | cons q qs ih => simp [firstSome, h q (by simp), ih (fun r hr => h r (by simp [hr]))]
  cases hp : p v <;> simp [firstSome, hp, this]

/-- what converts under a stricter preference converts, to the same result, under a laxer one (C12's law,
a hypothesis here) -/
def ModeMono (p : Mode → Parser α) : Prop :=
  (∀ x y, p .strict x = some y → p .common x = some y) ∧ (∀ x y, p .noLoss x = some y → p .common x = some y)

theorem strict_filterMap_of_le (q pc : Parser α) (hle : ∀ x y, q x = some y → pc x = some y) (xs rs : List α)
    (h : strict q xs = some rs) : xs.filterMap pc = rs ∧ removeOffenders pc xs = xs := by
  induction xs generalizing rs with
  | nil => simp [strict] at h; subst h; exact ⟨rfl, rfl⟩
  | cons x xs ih =>
    cases hx : q x with
    | none => simp [strict, hx] at h
    | some y =>
      cases hs : strict q xs with
      | none => simp [strict, hx, hs] at h
      | some ys =>
        simp [strict, hx, hs] at h
        subst h
        obtain ⟨h1, h2⟩ := ih ys hs
        have hpc := hle x y hx
        exact ⟨by simp [hpc, h1], by rw [removeOffenders_cons_ok pc x y xs hpc, h2]⟩

theorem map_getD_eq_filterMap_of_clean (p : Parser α) (xs : List α) (h : ∀ x ∈ xs, Offending p x = false) :
    (xs.map fun x => (p x).getD x) = xs.filterMap p := by
  induction xs with
  | nil => rfl
  | cons x xs ih =>
    obtain ⟨y, hy⟩ := (not_offending_iff p x).mp (h x (by simp))
    simp [hy, ih (fun z hz => h z (by simp [hz]))]

/-- a trial stage of the repaired union either rejects or returns exactly the conversions of the final stage -/
theorem seqBranch_trial (W : World α) (k : SeqKind) (p : Mode → Parser α) (m : Mode)
    (hle : ∀ x y, p m x = some y → p .common x = some y) (v : α) (xs : List α) (h : W.asSeq k v = some xs)
    (r : α) (hr : seqBranch W k p m Opts.strict v = some r) :
    r = W.mkSeq k (xs.filterMap (p .common)) ∧ removeOffenders (p .common) xs = xs := by
  simp only [seqBranch, parseSeqRule, h, Opts.strict] at hr
  cases hp : parseSeq .throw (p m) xs with
  | error e => simp [hp, Except.map, Except.toOption] at hr
  | ok rs =>
    have hs := (C11_seq_throw_strict (p m) xs rs).mp hp
    obtain ⟨h1, h2⟩ := strict_filterMap_of_le (p m) (p .common) hle xs rs hs
    simp [hp, Except.map, Except.toOption] at hr
    exact ⟨by rw [← hr, h1], h2⟩

/-- value of the repaired union on a sequence input, whatever stage returns -/
theorem unionParse_seq_value (W : World α) (k : SeqKind) (p : Mode → Parser α) (others : List (Branch α)) (o : Opts)
    (hmono : ModeMono p) (v : α) (xs : List α) (h : W.asSeq k v = some xs)
    (hrej : ∀ b ∈ others, ∀ m o', b m o' v = none)
    (final : α) (hfinal : seqBranch W k p .common o v = some final)
    (hclean : removeOffenders (p .common) xs = xs → final = W.mkSeq k (xs.filterMap (p .common))) :
    unionParse true o (seqBranch W k p :: others) v = some final := by
  have hstage : ∀ m o', firstSome ((seqBranch W k p :: others).map fun b => b m o') v = seqBranch W k p m o' v := by
    intro m o'
    simp only [List.map_cons]
    apply firstSome_head_only
    intro q hq
    obtain ⟨b, hb, rfl⟩ := List.mem_map.mp hq
    exact hrej b hb m o'
  simp only [unionParse, if_true, hstage]
  cases h1 : seqBranch W k p .strict Opts.strict v with
  | some r =>
    obtain ⟨hr, hc⟩ := seqBranch_trial W k p .strict hmono.1 v xs h r h1
    simp [hr, hclean hc]
  | none =>
    cases h2 : seqBranch W k p .noLoss Opts.strict v with
    | some r =>
      obtain ⟨hr, hc⟩ := seqBranch_trial W k p .noLoss hmono.2 v xs h r h2
      simp [hr, hclean hc]
    | none => simp [hfinal]

/-- **a sequence inside a union, exclude**: with the trial stages of the union not applying the policy,
`Optional[List[T]]` (any union whose other conditions reject the input) under `invalid_items='exclude'` is the
strict parse of the input without the offending elements — offending for the lenient converter of the stage
whose result is returned.  In particular an element that converts leniently (`'1'`) is converted, not dropped. -/
theorem C11_union_seq_exclude (W : World α) (k : SeqKind) (p : Mode → Parser α) (others : List (Branch α)) (o : Opts)
    (hmono : ModeMono p) (ho : o.items = .exclude) (v v' : α) (xs : List α)
    (h : W.asSeq k v = some xs) (h' : W.asSeq k v' = some (removeOffenders (p .common) xs))
    (hrej : ∀ b ∈ others, ∀ m o', b m o' v = none ∧ b m o' v' = none) :
    unionParse true o (seqBranch W k p :: others) v = some (W.mkSeq k (xs.filterMap (p .common))) ∧
    unionParse true { o with items := .throw } (seqBranch W k p :: others) v'
      = some (W.mkSeq k (xs.filterMap (p .common))) := by
  have hfm : (removeOffenders (p .common) xs).filterMap (p .common) = xs.filterMap (p .common) := by
    obtain ⟨rs, h1, h2, _⟩ := C11_seq_exclude_sublist (p .common) xs
    rw [C11_seq_exclude_value] at h1
    cases h1
    exact h2.symm
  constructor
  · apply unionParse_seq_value W k p others o hmono v xs h (fun b hb m o' => (hrej b hb m o').1)
    · simp [seqBranch, parseSeqRule, h, ho, C11_seq_exclude_value, map_ok, Except.toOption]
    · intro _; rfl
  · apply unionParse_seq_value W k p others _ hmono v' _ h' (fun b hb m o' => (hrej b hb m o').2)
    · have := parseSeqFrom_throw_clean (p .common) 0 xs
      simp [seqBranch, parseSeqRule, h', parseSeq, this, map_ok, Except.toOption]
    · intro _; rw [hfm]

/-- **a sequence inside a union, preserve**: the result is the strict result of the input without the
offenders, with the offenders put back unchanged at their positions. -/
theorem C11_union_seq_preserve (W : World α) (k : SeqKind) (p : Mode → Parser α) (others : List (Branch α)) (o : Opts)
    (hmono : ModeMono p) (ho : o.items = .preserve) (v v' : α) (xs : List α)
    (h : W.asSeq k v = some xs) (h' : W.asSeq k v' = some (removeOffenders (p .common) xs))
    (hrej : ∀ b ∈ others, ∀ m o', b m o' v = none ∧ b m o' v' = none) :
    ∃ rs, unionParse true { o with items := .throw } (seqBranch W k p :: others) v' = some (W.mkSeq k rs) ∧
          unionParse true o (seqBranch W k p :: others) v = some (W.mkSeq k (putBack (p .common) xs rs)) := by
  have hfm : (removeOffenders (p .common) xs).filterMap (p .common) = xs.filterMap (p .common) := by
    obtain ⟨rs, h1, h2, _⟩ := C11_seq_exclude_sublist (p .common) xs
    rw [C11_seq_exclude_value] at h1
    cases h1
    exact h2.symm
  refine ⟨xs.filterMap (p .common), ?_, ?_⟩
  · apply unionParse_seq_value W k p others _ hmono v' _ h' (fun b hb m o' => (hrej b hb m o').2)
    · have := parseSeqFrom_throw_clean (p .common) 0 xs
      simp [seqBranch, parseSeqRule, h', parseSeq, this, map_ok, Except.toOption]
    · intro _; rw [hfm]
  · apply unionParse_seq_value W k p others o hmono v xs h (fun b hb m o' => (hrej b hb m o').1)
    · have := parseSeqFrom_preserve (p .common) 0 xs
      simp [seqBranch, parseSeqRule, h, ho, parseSeq, this, map_ok, Except.toOption, putBack_filterMap]
    · intro hc
      rw [putBack_filterMap]
      -- no offenders: handing back = converting
      congr 1
      apply map_getD_eq_filterMap_of_clean
      intro x hx
      have : x ∈ removeOffenders (p .common) xs := by rw [hc]; exact hx
      simp [removeOffenders] at this
      exact this.2

/-- before `fixes/C11-union-trial-stages.patch` the strict trial stage applied `exclude` itself and returned at
once: an element that only converts leniently (`'1'` for `int`: here 1 ↦ 11 only in the common mode) was dropped
although it is not offending — negation witness, replayed on the real code by the corpus. -/
theorem C11_union_legacy_drops_convertible_witness :
    ∃ (W : World (List Nat)) (p : Mode → Parser (List Nat)),
      ModeMono p ∧
      unionParse false ⟨.exclude, .throw, .throw⟩ [seqBranch W .list p] [1, 9, 2] = some [2] ∧
      unionParse true ⟨.exclude, .throw, .throw⟩ [seqBranch W .list p] [1, 9, 2] = some [11, 2] ∧
      unionParse true Opts.strict [seqBranch W .list p] [1, 2] = some [11, 2] :=
  ⟨{ asSeq := fun _ v => some (v.map fun n => [n]), mkSeq := fun _ xs => xs.flatten,
     asMap := fun _ => none, mkMap := fun _ => [] },
   fun m v => match m with
     | .common => if v = [1] then some [11] else if v = [2] then some [2] else none
     | _ => if v = [2] then some [2] else none,
   ⟨by intro x y h
       by_cases h2 : x = [2]
       · subst h2; simp at h; subst h; rfl
       · simp [h2] at h,
    by intro x y h
       by_cases h2 : x = [2]
       · subst h2; simp at h; subst h; rfl
       · simp [h2] at h⟩, rfl, rfl, rfl⟩

end unions

/-! ### non-vacuity of the hypotheses -/

def exField : Field Nat Nat :=
  { name := 0, required := false, default := some 7, onError := none, parse := fun n => if n < 5 then some n else none }

def exReq : Field Nat Nat :=
  { name := 1, required := true, default := none, onError := none, parse := fun n => if n < 5 then some n else none }

/-- the hypotheses of `C11_fields_ff_general` / `C11_fields_df_general` hold for a declaration and data in
which something *is* excluded, something is kept, and the two strategies really differ in insertion order -/
example : ([(0, 9), (1, 3), (2, 8)].map (·.1) : List Nat).Nodup ∧ ([exField, exReq].map (·.name)).Nodup ∧
    dataKept .exclude [exField, exReq] (.typed fun n => if n < 5 then some n else none) (0, 9) = false ∧
    dataKept .exclude [exField, exReq] (.typed fun n => if n < 5 then some n else none) (1, 3) = true ∧
    dataKept .exclude [exField, exReq] (.typed fun n => if n < 5 then some n else none) (2, 8) = false ∧
    parseDataFF .exclude [exField, exReq] (.typed fun n => if n < 5 then some n else none) [(0, 9), (1, 3), (2, 8)]
      = .ok [(0, 7), (1, 3)] ∧
    parseDataDF .exclude [exField, exReq] (.typed fun n => if n < 5 then some n else none) [(0, 9), (1, 3), (2, 8)]
      = .ok [(1, 3), (0, 7)] ∧
    parseDataDF .throw ([exField, exReq].map (Field.strictified .exclude)) (.typed fun n => if n < 5 then some n else none)
      [(1, 3)] = .ok [(1, 3), (0, 7)] := by
  refine ⟨by decide, by decide, rfl, rfl, rfl, rfl, rfl, rfl⟩

/-- the hypotheses of `C11_required_never_excluded_*` are satisfiable (and then the parse does fail) -/
example : exReq ∈ [exField, exReq] ∧ lookup exReq.name [(1, 9)] = some 9 ∧ exReq.required = true ∧
    Offending exReq.parse 9 = true ∧ exReq.policy .exclude = .exclude ∧
    parseDataFF .exclude [exField, exReq] .ignore [(1, 9)] = .error (.parse 1) := by
  refine ⟨by simp, rfl, rfl, rfl, rfl, rfl⟩

/-- `C11_set_exclude`: a filtered set iterated in another order -/
example : ([3, 1] : List Nat).Perm (removeOffenders (fun n => if n < 5 then some (n + 10) else none) [1, 9, 3]) ∧
    parseSeq .exclude (fun n => if n < 5 then some (n + 10) else none) [1, 9, 3] = .ok [11, 13] ∧
    parseSeq .throw (fun n => if n < 5 then some (n + 10) else none) [3, 1] = .ok [13, 11] := by
  refine ⟨?_, rfl, rfl⟩
  show ([3, 1] : List Nat).Perm [1, 3]
  exact List.Perm.swap 1 3 []

/-- `C11_nested_clean_input` is about a non-trivial situation: a nested value that converts strictly -/
example :
    let W : World (List Nat) := { asSeq := fun _ v => some (v.map fun n => [n]), mkSeq := fun _ xs => xs.flatten,
                                  asMap := fun _ => none, mkMap := fun _ => [] }
    parseTy W Opts.strict (.seq .list (.leaf fun v => if v.all (· < 5) then some v else none)) [1, 2] = some [1, 2] := by
  rfl

/-- `C11_required_never_excluded_df`: its hypotheses (`hmem`, `hf`, …) hold for a datum that then does fail -/
example : ((1 : Nat), (9 : Nat)) ∈ [((1 : Nat), (9 : Nat))] ∧ findField 1 [exField, exReq] = some exReq ∧
    exReq.required = true ∧ Offending exReq.parse 9 = true ∧ exReq.policy .exclude = .exclude ∧
    parseDataDF .exclude [exField, exReq] .ignore [(1, 9)] = .error (.parse 1) :=
  ⟨by simp, rfl, rfl, rfl, rfl, rfl⟩

def exModeDecl : FieldDecl Char Nat Nat :=
  { name := 1, req := .modes ['w'], default := some 7, onError := none, parse := fun n => if n < 5 then some n else none }

/-- `C11_required_in_mode_never_excluded(_data)`: a `required='w'` field WITH a default, mode `'w'`, offending
value, `exclude`: all hypotheses hold, both strategies fail; in mode `'r'` the same value is excluded and the
default applies -/
example : exModeDecl ∈ [exModeDecl] ∧ (exModeDecl.name, 9) ∈ [((1 : Nat), (9 : Nat))] ∧
    lookup exModeDecl.name [((1 : Nat), (9 : Nat))] = some 9 ∧
    findField exModeDecl.name ([exModeDecl].map (FieldDecl.resolve (some 'w'))) = some (exModeDecl.resolve (some 'w')) ∧
    exModeDecl.req.holds (some 'w') = true ∧ Offending exModeDecl.parse 9 = true ∧
    (exModeDecl.resolve (some 'w')).policy .exclude = .exclude ∧
    parseDataFF .exclude ([exModeDecl].map (FieldDecl.resolve (some 'w'))) .ignore [(1, 9)] = .error (.parse 1) ∧
    parseDataDF .exclude ([exModeDecl].map (FieldDecl.resolve (some 'w'))) .ignore [(1, 9)] = .error (.parse 1) ∧
    parseDataDF .exclude ([exModeDecl].map (FieldDecl.resolve (some 'r'))) .ignore [(1, 9)] = .ok [(1, 7)] :=
  ⟨by simp, by simp [exModeDecl], rfl, rfl, rfl, rfl, rfl, rfl, rfl, rfl⟩

/-- `C11_ignore_required_excludes`: a field that is required (`required=True`) is excluded, not an error, in a
run with `ignore_required`; the same value raises in a regular run -/
example :
    let d : FieldDecl Char Nat Nat := { name := 1, req := .yes, default := none, onError := none,
                                        parse := fun n => if n < 5 then some n else none }
    let r : RunOpts Char Nat := { ignoreRequired := true }
    r.ignoresRequired = true ∧ Offending d.parse 9 = true ∧ (d.resolveR r).policy .exclude = .exclude ∧
    parseValueAbs .exclude (d.resolveR r) 9 = .unprovided ∧
    parseValueAbs .exclude (d.resolveR {}) 9 = .raise := ⟨rfl, rfl, rfl, rfl, rfl⟩

/-- `C11_posparams_pointwise`: `hps` holds for parameters with defaults, with an excluded and a preserved argument -/
example :
    let ps : List (Field Nat Nat) := [exField, { exField with name := 5, default := some 8 }]
    (∀ p ∈ ps, p.required = false ∧ p.onError = none ∧ ∃ d, p.default = some d) ∧
    parsePosParams .exclude ps 0 [9, 3, 4] = .ok ([7, 3], [4]) ∧
    parsePosParams .preserve ps 0 [9, 3, 4] = .ok ([9, 3], [4]) := by
  refine ⟨?_, rfl, rfl⟩
  intro p hp
  simp at hp
  rcases hp with rfl | rfl <;> exact ⟨rfl, rfl, _, rfl⟩

def exNestedW : World Nat :=
  { asSeq := fun _ _ => none, mkSeq := fun _ _ => 0,
    asMap := fun v => if v = 100 then some [(0, 3), (1, 9)] else if v = 101 then some [(0, 3)] else none,
    mkMap := fun kvs => kvs.foldl (fun s kv => s + kv.1 * 10 + kv.2) 0 }

def exNestedT : DTy Nat := .data .exclude false .ignore
  [({ name := 0, required := true, default := none, onError := none },
      .leaf fun n => if n < 5 then some n else none),
   ({ name := 1, required := false, default := some 7, onError := none },
      .leaf fun n => if n < 5 then some n else none)]

/-- `C11_nested_data_clean_input` (after the reviewer's B.lean): its hypothesis holds for a class node on clean
input (strict = declared policies), and the theorem is silent — as it must be — on dirty input, where the
strict reading fails and `exclude` substitutes the default -/
example : DTy.parser exNestedW true exNestedT 101 = some 20 ∧ DTy.parser exNestedW false exNestedT 101 = some 20 ∧
    DTy.parser exNestedW true exNestedT 100 = none ∧ DTy.parser exNestedW false exNestedT 100 = some 20 :=
  ⟨rfl, rfl, rfl, rfl⟩

/-- `C11_fields_preserve_putback`: the strict run of the data without the preserved offender succeeds, and the
declared-policy run hands the offender back under its name -/
example :
    let fp : Field Nat Nat := { exField with onError := some .preserve }
    fieldPreserved .throw [fp, exReq] (0, 9) = true ∧
    ffFields Policy.throw.strictified ([fp, exReq].map (Field.unpreserved .throw))
        ([(0, 9), (1, 3)].filter fun kv => !fieldPreserved .throw [fp, exReq] kv)
      = .ok ⟨[(0, 7), (1, 3)], [0], []⟩ ∧
    ffFields .throw [fp, exReq] [(0, 9), (1, 3)] = .ok ⟨[(0, 9), (1, 3)], [], []⟩ := ⟨rfl, rfl, rfl⟩

/-- `C11_map_preserve_values`: a mapping with an excluded key, a preserved value and a clean entry -/
example :
    let kp : Parser Nat := fun n => if n < 5 then some (n + 10) else none
    let q : Parser Nat := fun n => if n < 5 then some (n + 20) else none
    parseMap .exclude .preserve kp (some q) [(9, 1), (1, 9), (2, 2)] = .ok [(11, 9), (12, 22)] ∧
    parseMap .exclude .throw kp (some q) ([(9, 1), (1, 9), (2, 2)].filter fun kv => !valuePreserved kp (some q) kv)
      = .ok [(12, 22)] ∧
    putBackVals kp (some q) [(1, 9), (2, 2)] [(12, 22)] = [(11, 9), (12, 22)] := ⟨rfl, rfl, rfl⟩

end Utv.C11
