/-
C05 / C06 — model of data-class parsing: `BaseParser.parse_data`, `data_first_parse`,
`field_first_parse`, `parse_addition` (utype/parser/base.py:367-693), the alias maps of
`generate_aliases` (base.py:291-341) and `get_field` (base.py:154-171), the field predicates
`is_required / is_no_input / always_no_input / is_no_output / get_default / get_on_error`
(utype/parser/field.py:767-920), `Field.get_alias / get_alias_from` + `ParserField.__init__/setup`
(field.py:287-322, 434-476, 554-559), `Options.__init__` normalisation (options.py:104-186),
`ClassParser.set_attributes` (cls.py:436-467) and `Schema.__post_init__ / __field_getter__`
(schema.py:275-311).

Hand-written, branch for branch, of the code *after* the fix patches
(utype 7b3aeda, which has fixes/C06-1..5 and the earlier C05 fixes, plus fixes/C05-excluded-name-rejected.patch; line numbers are of that tree); the behaviour before the patches is kept in `Legacy` (flags)
for the negation witnesses in Props.  Tied to the code by the correspondence run (harness/c05.py).

Keys (attribute names, aliases, input keys) and mode letters are natural numbers; values are an
arbitrary type `V` with decidable equality (Python `!=` on the values is modelled as structural
inequality — the harness generates ints and strs, where the two coincide).  What is not the
property's business is abstract in `World`: `str.lower / str.islower`, the per-field type conversion
`fp`, user predicates passed as `no_input= / no_output=`, and the conversion to the class's
`addition` type.  Every theorem is for every `World`.
-/
namespace Utv.C05

abbrev Key := Nat

/-! ### Python dict as an insertion-ordered association list -/

def dget {α : Type} (k : Key) : List (Key × α) → Option α
  | [] => none
  | (k', v) :: r => if k' = k then some v else dget k r

def dset {α : Type} (k : Key) (v : α) : List (Key × α) → List (Key × α)
  | [] => [(k, v)]
  | (k', v') :: r => if k' = k then (k, v) :: r else (k', v') :: dset k v r

def dhas {α : Type} (k : Key) (d : List (Key × α)) : Bool := (dget k d).isSome

/-- `d.update(e)` -/
def dupdate {α : Type} (d e : List (Key × α)) : List (Key × α) :=
  e.foldl (fun acc kv => dset kv.1 kv.2 acc) d

/-! ### Declarations -/

/-- `no_input=` / `no_output=`: False, True, a mode string, or a callable (index into `World.pred`) -/
inductive Flag where
  | no | yes | modes (ms : List Nat) | pred (k : Nat)
  deriving DecidableEq, Repr

/-- `required=` after `Field.__init__`: False, True, or a mode string -/
inductive Req where
  | no | yes | modes (ms : List Nat)
  deriving DecidableEq, Repr

inductive OnErr where
  | throw | exclude | preserve
  deriving DecidableEq, Repr

/-- `Options.addition`: None (drop), True or a type (keep / convert), False (reject) -/
inductive Add where
  | ignore | allow | forbid
  deriving DecidableEq, Repr

structure World (V : Type) where
  lower   : Key → Key
  islower : Key → Bool
  fp      : Nat → V → Option V      -- conversion to the declared type with this id; none = raises
  pred    : Nat → V → Bool          -- user callables given as no_input= / no_output=
  addConv : V → Option V            -- conversion to the class's addition type; none = raises
  copy    : V → V                   -- `copy_value` (utils/functional.py): what a default is passed through at every use
  schemaExcluded : List Key         -- the names `Schema` itself keeps out of fields and additions (its own members)

/-- What the user writes: `attname: T = Field(...)` (after the `readonly/writeonly → mode` shortcut). -/
structure FieldDecl (V : Type) where
  attname   : Key
  ty        : Option Nat := some 0         -- the annotation written in this class body (a type id); none = the
                                           -- attribute is assigned without annotation (`limit = 20`, `x = Field(...)`)
  alias     : Option Key := none
  aliasFrom : List Key := []
  ci        : Option Bool := none          -- Field(case_insensitive=), None = follow Options
  required  : Option Req := none           -- as written; None = not given
  default   : Option V := none             -- default= or the value default_factory() returns
  deferDefault : Bool := false
  noInput   : Flag := .no
  noOutput  : Flag := .no
  mode      : Option (List Nat) := none
  deps      : List Key := []               -- dependencies= as written (names or aliases)
  onError   : Option OnErr := none
  deriving Repr

structure Opts (V : Type) where
  mode : Option Nat := none
  addition : Add := .ignore
  ignoreRequired : Bool := false
  noDefault : Bool := false
  deferDefault : Bool := false
  forceDefault : Option V := none
  ignoreAliasConflicts : Bool := false
  collectErrors : Bool := false
  maxErrors : Option Nat := none
  maxParams : Option Nat := none
  minParams : Option Nat := none
  invalidValues : OnErr := .throw
  dataFirstSearch : Option Bool := some false      -- options.py:89, class default False
  caseInsensitive : Bool := false
  deriving Repr

/-- `Options.__init__` (options.py:170-186): force_default implies ignore_required; max_errors is
dropped without collect_errors. -/
def Opts.normalise {V : Type} (o : Opts V) : Opts V :=
  { o with
    ignoreRequired := o.ignoreRequired || o.forceDefault.isSome
    maxErrors := if o.collectErrors then o.maxErrors else none }

/-- `ParserField` after `generate` + `setup` + `apply_fields`. -/
structure PField (V : Type) where
  attname    : Key
  ty         : Option Nat         -- the type the field parses to; none = no annotation anywhere (`if not type: return value`)
  name       : Key                -- output name
  allAliases : List Key           -- accepted keys in priority order (lower-cased if case-insensitive)
  aliases    : List Key           -- those different from `name`
  ci         : Bool
  required   : Req
  default    : Option V
  deferDefault : Bool
  noInput    : Flag
  noOutput   : Flag
  mode       : Option (List Nat)
  deps       : List Key           -- output names of the dependencies (after apply_fields)
  onError    : Option OnErr
  deriving Repr

/-- `distinct_add` (utils/functional.py) -/
def distinctAdd (acc : List Key) : List Key → List Key
  | [] => acc
  | x :: xs => if acc.contains x then distinctAdd acc xs else distinctAdd (acc ++ [x]) xs

/-- `Field.__init__` (field.py:122-154): a default makes a non-string `required` False; None means True. -/
def FieldDecl.requiredNorm {V : Type} (d : FieldDecl V) : Req :=
  match d.required with
  | some (.modes ms) => .modes ms
  | some r => if d.default.isSome then .no else r
  | none => if d.default.isSome then .no else .yes

/-- `ParserField.generate` + `__init__` + `setup` (field.py:287-322, 434-476, 554-559). -/
def mkField {V : Type} (W : World V) (o : Opts V) (annotations : List (Key × Nat)) (d : FieldDecl V) : PField V :=
  let name := d.alias.getD d.attname                        -- get_alias
  let from_ := distinctAdd [d.attname] d.aliasFrom           -- get_alias_from
  let all := distinctAdd [name] from_                        -- ParserField.__init__: all_aliases
  let als := from_.filter (· ≠ name)
  let ci := d.ci.getD o.caseInsensitive                      -- is_case_insensitive
  { attname := d.attname, name := name
    -- generate_fields: the annotation of the body, else `self.annotations.get(key)` — what the bases accumulated
    ty := (match d.ty with | some t => some t | none => dget d.attname annotations)
    allAliases := if ci then all.map W.lower else all
    aliases := if ci then (als.map W.lower).eraseDups else als
    ci := ci, required := d.requiredNorm, default := d.default, deferDefault := d.deferDefault
    noInput := d.noInput, noOutput := d.noOutput, mode := d.mode, deps := d.deps, onError := d.onError }

/-- What `ClassParser.setup` builds. -/
structure Parser (V : Type) where
  fields  : List (Key × PField V)        -- self.fields : key → field, key lower-cased for ci fields
  aliasMap : List (Key × Key)            -- field_alias_map : alias → key
  ciNames : List Key                     -- case_insensitive_names
  additionTyped : Bool                   -- addition_type is set (Options.addition was a type)
  dataFirst : Bool                       -- assign_search_strategy
  depsOk : Bool := true                  -- every declared dependency names a field (else ConfigError, field.py:700-728)
  excludeVars : List Key := []           -- exclude_vars: `_private`, ClassVar, methods and other class-internal names
  deriving Repr

def fieldKey {V : Type} (W : World V) (f : PField V) : Key := if f.ci then W.lower f.name else f.name

/-- `generate_aliases` (base.py:291-341) without its ConfigErrors (those are `Parser.WF`, checked separately). -/
def aliasMapOf {V : Type} (fields : List (Key × PField V)) : List (Key × Key) :=
  fields.flatMap fun kf => (kf.2.aliases.filter (· ≠ kf.1)).map (fun a => (a, kf.1))

def ciNamesOf {V : Type} (fields : List (Key × PField V)) : List Key :=
  fields.flatMap fun kf => if kf.2.ci then kf.2.allAliases else []

/-- the key in `fields` a dependency refers to: through the alias map, else as it is; if that is no key, the
field whose *output name* it is (a field taken over from a base class was resolved to output names there —
fixes/C05-inherited-dependency-name.patch) -/
def depKey {V : Type} (fields : List (Key × PField V)) (amap : List (Key × Key)) (dep : Key) : Option Key :=
  let key := (dget dep amap).getD dep
  if dhas key fields then some key
  else (fields.find? fun kf => kf.2.name = dep).map (·.1)

/-- `apply_fields` (field.py:691-765): dependencies resolved to the *output name* of the target field. -/
def resolveDeps {V : Type} (fields : List (Key × PField V)) (amap : List (Key × Key))
    (deps : List Key) : List Key :=
  deps.foldl (fun acc dep =>
    match (depKey fields amap dep).bind fun key => dget key fields with
    | some f => if acc.contains f.name then acc else acc ++ [f.name]
    | none => acc) []

/-- `assign_search_strategy` (base.py:173-188). -/
def assignStrategy {V : Type} (o : Opts V) (ciNames : List Key) (amap : List (Key × Key)) : Bool :=
  match o.dataFirstSearch with
  | some b => b
  | none => !ciNames.isEmpty || !amap.isEmpty || o.ignoreRequired || o.addition == .allow   -- `or self.options.addition`: truthy only

/-- A class declaration, possibly a subclass of earlier declarations. -/
structure ClassDecl (V : Type) where
  fields : List (FieldDecl V)   -- declared in this class body (new fields, or replacing a field taken over)
  opts : Opts V                 -- __options__ as written in the body (if `ownOpts`)
  additionTyped : Bool := false
  bases : List Nat := []        -- data-class bases, as indices of earlier declarations, in `__bases__` order
  ownOpts : Bool := true        -- the body assigns `__options__`; otherwise the attribute of the first base is found
  drops : List Key := []        -- `name = ...` in the body: the field taken over under this key is dropped
  excluded : List Key := []     -- names of the body that are no fields: `_private`, ClassVar annotations, methods
  deriving Repr

/-- what declaring a class leaves behind: its parser, and the `Options` its `__options__` attribute holds -/
structure Built (V : Type) where
  parser : Parser V
  opts : Opts V
  additionTyped : Bool
  annotations : List (Key × Nat)       -- parser.annotations: attribute name → annotation, accumulated over the bases
  deriving Repr

/-- `ClassParser.setup` = `generate_from_bases` (cls.py:223-257: the fields of the bases, in reversed `__bases__`
order, the very same ParserField objects — they stay as the declaring class set them up) + `generate_fields`
(cls.py:114-221: dropped names, then the fields of the body, set up under this class's options, replacing by key)
+ `generate_aliases` / `apply_fields` over all of them + `parse_addition_type` + `assign_search_strategy`. -/
def mkParserIn {V : Type} (W : World V) (prev : List (Built V)) (c : ClassDecl V) : Built V :=
  let base := c.bases.head?.bind fun b => prev[b]?
  let eo : Opts V := if c.ownOpts then c.opts else (match base with | some b => b.opts | none => {})
  let typed := if c.ownOpts then c.additionTyped else (match base with | some b => b.additionTyped | none => false)
  let o := eo.normalise
  let inherited := c.bases.reverse.foldl
    (fun acc b => match prev[b]? with | some p => dupdate acc p.parser.fields | none => acc) []
  -- `annotations.update(parser.annotations)`: the base *parser's* accumulated map, so every level is kept
  -- `exclude_vars.update(parser.exclude_vars)`; a class without data-class bases has `Schema`'s own
  let exclIn := if c.bases.isEmpty then W.schemaExcluded else c.bases.reverse.foldl
    (fun acc b => match prev[b]? with | some p => acc ++ p.parser.excludeVars | none => acc) []
  let annIn := c.bases.reverse.foldl
    (fun acc b => match prev[b]? with | some p => dupdate acc p.annotations | none => acc) []
  let annOut := c.fields.foldl (fun acc d => match d.ty with | some t => dset d.attname t acc | none => acc) annIn
  let kept := inherited.filter fun kf => !c.drops.contains kf.1
  let own := c.fields.map fun d => let f := mkField W o annIn d; (fieldKey W f, f)
  let fs := dupdate kept own
  let amap := aliasMapOf fs
  let cin := ciNamesOf fs
  let fs' := fs.map fun kf => (kf.1, { kf.2 with deps := resolveDeps fs amap kf.2.deps })
  { parser :=
      { fields := fs', aliasMap := amap, ciNames := cin, additionTyped := typed
        dataFirst := assignStrategy o cin amap
        -- (a dropped name that is no key of a field taken over would be read as a new field with default `...`:
        --  outside the modelled fragment, reported as not well-formed)
        depsOk := (fs.all fun kf => kf.2.deps.all fun dep => (depKey fs amap dep).isSome)
                  && (c.drops.all fun k => dhas k inherited)
                  -- two fields of one body under the same key: ConfigError "field name conflicted" (cls.py:214-222)
                  && decide (own.map (·.1)).Nodup
        excludeVars := exclIn ++ c.excluded }
    opts := eo, additionTyped := typed, annotations := annOut }

/-- the declarations of a module, in order -/
def buildAll {V : Type} (W : World V) (decls : List (ClassDecl V)) : List (Built V) :=
  decls.foldl (fun acc c => acc ++ [mkParserIn W acc c]) []

/-- a class on its own -/
def mkParser {V : Type} (W : World V) (c : ClassDecl V) : Parser V := (mkParserIn W [] c).parser

/-! ### `get_field` (base.py:154-171) -/

def getFieldDirect {V : Type} (P : Parser V) (k : Key) : Option (PField V) :=
  match dget k P.fields with
  | some f => some f
  | none =>
    match dget k P.aliasMap with
    | some key => dget key P.fields
    | none => none

def getField {V : Type} (W : World V) (P : Parser V) (k : Key) : Option (PField V) :=
  match getFieldDirect P k with
  | some f => some f
  | none =>
    if !W.islower k && P.ciNames.contains (W.lower k) then getFieldDirect P (W.lower k) else none

/-! ### Field predicates (field.py:767-920) -/

/-- Which of the two readings of a mode-string flag is modelled: `fallthrough = true` is the code after
fixes/C05-mode-string-flags.patch (a mode string that does not contain the current mode falls through
to the field's own `mode`); `false` is the code before (returns False at once). -/
structure Legacy where
  modeStringReturns : Bool := false      -- field.py is_no_input / is_no_output before the fix
  predSkipsMode : Bool := false          -- always_no_input before the fix: a callable no_input returned False at once
  excludedProvided : Bool := false       -- before utype 107a5ff: a value dropped by 'exclude' fell back to the default as a given field
  deriving Repr, DecidableEq

def Legacy.none : Legacy := {}

def flagAt {V : Type} (W : World V) (fl : Flag) (v : V) : Flag :=
  match fl with
  | .pred k => if W.pred k v then .yes else .no
  | x => x

/-- `if self.mode: return options.mode not in self.mode` — an empty mode string is falsy: no restriction -/
def modeExcludes (fmode : Option (List Nat)) (m : Nat) : Bool :=
  match fmode with
  | some fm => !fm.isEmpty && !fm.contains m
  | none => false

/-- `is_no_input` / `is_no_output` share one shape (field.py:832-860, 894-920). -/
def flagHolds {V : Type} (L : Legacy) (W : World V) (omode : Option Nat) (fmode : Option (List Nat))
    (fl : Flag) (v : V) : Bool :=
  let x := flagAt W fl v
  match omode with
  | none => (match x with | .yes => true | _ => false)
  | some m =>
    match x with
    | .modes ms =>
      if L.modeStringReturns then ms.contains m
      else if ms.contains m then true
      else modeExcludes fmode m
    | .yes => true
    | _ => modeExcludes fmode m

def isNoInput {V : Type} (L : Legacy) (W : World V) (o : Opts V) (f : PField V) (v : V) : Bool :=
  flagHolds L W o.mode f.mode f.noInput v

def isNoOutput {V : Type} (L : Legacy) (W : World V) (o : Opts V) (f : PField V) (v : V) : Bool :=
  flagHolds L W o.mode f.mode f.noOutput v

/-- `always_no_input` (field.py:862-892) -/
def alwaysNoInput {V : Type} (L : Legacy) (o : Opts V) (f : PField V) : Bool :=
  match f.noInput with
  | .yes => true
  | fl =>
    match o.mode with
    | none => false
    | some m =>
      match fl with
      | .pred _ =>
        if L.predSkipsMode then false
        else modeExcludes f.mode m
      | .modes ms =>
        if ms.contains m then true
        else modeExcludes f.mode m
      | _ => modeExcludes f.mode m

/-- `is_required` (field.py:821-830) -/
def isRequired {V : Type} (L : Legacy) (o : Opts V) (f : PField V) : Bool :=
  if o.ignoreRequired || f.required = .no then false
  else if alwaysNoInput L o f then false
  else match f.required with
    | .yes => true
    | .no => false
    | .modes ms => (match o.mode with | none => false | some m => ms.contains m)

/-- `get_default(options, defer)` (field.py:786-814).  `W.copy` stands for `copy_value`: that the copy is deep is C19's business. -/
def getDefault {V : Type} (W : World V) (o : Opts V) (f : PField V) (defer : Bool) : Option V :=
  if o.noDefault then none
  else if !defer && (f.deferDefault || o.deferDefault) then none
  else if defer && !(f.deferDefault || o.deferDefault) then none
  else (match o.forceDefault with
    | some d => some d
    | none => f.default).map W.copy          -- `return copy_value(default)`

def getOnError {V : Type} (o : Opts V) (f : PField V) : OnErr := f.onError.getD o.invalidValues

/-! ### Errors and the run of a parse -/

inductive Err where
  | paramsExceed | paramsLack
  | exceed (key : Key)
  | aliasConflict (name : Key)
  | absence (name : Key)
  | parse (name : Key)
  | depsAbsence (lack : List Key)
  deriving DecidableEq, Repr

/-- The state both strategies thread through their loops.  `errs` is the sequence of
`context.handle_error` calls of a *collecting* run; a fail-fast run raises the first of them
(`finish`), and up to that point the two runs execute the same statements. -/
structure St (V : Type) where
  result : List (Key × V) := []
  deps   : List Key := []
  unprov : List Key := []
  errs   : List Err := []
  deriving Repr

/-- the type conversion of `parse_value` (field.py: `if not type: return value`, else `transformer(value, type)`) -/
def convert {V : Type} (W : World V) (f : PField V) (v : V) : Option V :=
  match f.ty with
  | none => some v
  | some t => W.fp t v

/-- `ParserField.parse_value` (field.py:1043-1127): value to store (if any) and the errors handled. -/
def parseValue {V : Type} (L : Legacy) (W : World V) (o : Opts V) (f : PField V) (v : V) :
    Option V × List Err × Bool :=
  match convert W f v with
  | some r => (some r, [], false)
  | none =>
    match getOnError o f with
    | .exclude =>
      if isRequired L o f then (getDefault W o f false, [.parse f.name], false)
      else if L.excludedProvided then (getDefault W o f false, [], false)
      else (none, [], true)            -- `return self.EXCLUDED`: the caller treats the field as not given
    | .preserve => (some v, [], false)
    | .throw => (none, [.parse f.name], false)

/-- The statements both strategies run for a field that has an input value `v` and a (possibly absent)
conflicting duplicate: no_input → default; else report the conflict, parse, store, collect dependencies.
The flag says that the value was dropped by the 'exclude' policy (`parsed is field.EXCLUDED`), which the two
strategies then handle in their own way. -/
def provide {V : Type} (L : Legacy) (W : World V) (o : Opts V) (f : PField V) (v : V) (conflict : Bool)
    (st : St V) : St V × Bool :=
  if isNoInput L W o f v then
    match getDefault W o f false with
    | some d => ({ st with result := dset f.name d st.result }, false)
    | none => (st, false)
  else
    let st := if conflict then { st with errs := st.errs ++ [.aliasConflict f.name] } else st
    let r := parseValue L W o f v
    let st := { st with errs := st.errs ++ r.2.1 }
    if r.2.2 then (st, true) else
    match r.1 with
    | none => (st, false)
    | some x => ({ st with result := dset f.name x st.result, deps := st.deps ++ f.deps }, false)

/-- field_first_parse on `parsed is field.EXCLUDED`: as a field that was not given — it joins the unprovided
fields, its default applies, it demands no dependencies -/
def ffExcluded {V : Type} (W : World V) (o : Opts V) (f : PField V) (st : St V) : St V :=
  let st := { st with unprov := st.unprov ++ [f.name] }
  match getDefault W o f false with
  | some d => { st with result := dset f.name d st.result }
  | none => st

/-- The statements for a field without input (base.py:523-535 and 640-661). -/
def absent {V : Type} (L : Legacy) (W : World V) (o : Opts V) (f : PField V) (st : St V) : St V :=
  let st := { st with unprov := st.unprov ++ [f.name] }
  if isRequired L o f then { st with errs := st.errs ++ [.absence f.name] }
  else match getDefault W o f false with
    | some d => { st with result := dset f.name d st.result }
    | none => st

/-- `parse_addition` (base.py:411-443, after fixes/C05-excluded-name-rejected.patch): value to keep (if any) and errors. -/
def parseAddition {V : Type} (W : World V) (P : Parser V) (o : Opts V) (k : Key) (v : V) :
    Option V × List Err :=
  if o.addition = .forbid then (none, [.exceed k]) else
  -- excluded vars cannot be carried in the addition even if allowed
  if P.excludeVars.contains k then (none, []) else
  match o.addition with
  | .forbid => (none, [.exceed k])
  | .ignore => (none, [])
  | .allow =>
    if !P.additionTyped then (some v, [])
    else match W.addConv v with
      | some r => (some r, [])
      | none =>
        match o.invalidValues with
        | .exclude => (none, [])
        | .preserve => (some v, [])
        | .throw => (some v, [.parse k])      -- ParseError(item=key); the raw value is returned

/-- `parse_addition` before fixes/C05-excluded-name-rejected.patch: the excluded names were tested first, so such a
key was dropped silently even under `addition=False` -/
def parseAdditionLegacy {V : Type} (W : World V) (P : Parser V) (o : Opts V) (k : Key) (v : V) :
    Option V × List Err :=
  if P.excludeVars.contains k then (none, []) else parseAddition W P o k v

/-- keep one unknown key: `add_value = self.parse_addition(...)`; `addition[key] = add_value` unless unprovided -/
def addStep {V : Type} (W : World V) (P : Parser V) (o : Opts V) (acc : List (Key × V) × List Err)
    (kv : Key × V) : List (Key × V) × List Err :=
  let (a, es) := parseAddition W P o kv.1 kv.2
  ((match a with | some x => dset kv.1 x acc.1 | none => acc.1), acc.2 ++ es)

/-- The dependency check (base.py:537-551 and 663-677).  `lack` is a Python set; it is listed here in
the order of the declared fields. -/
def depsCheck {V : Type} (P : Parser V) (st : St V) : St V :=
  if st.deps.isEmpty then st else
  let lack := (P.fields.map (·.2.name)).filter fun n =>
    st.deps.contains n && (st.unprov.contains n || !dhas n st.result)
  -- dependencies that are not output names of any field cannot occur (apply_fields resolves them)
  if lack.isEmpty then st else { st with errs := st.errs ++ [.depsAbsence lack] }

/-- `parse_data` prologue (base.py:367-388). -/
def paramsCheck {V : Type} (o : Opts V) (n : Nat) : List Err :=
  (match o.maxParams with | some m => if m ≠ 0 ∧ n > m then [Err.paramsExceed] else [] | none => [])
  ++ (match o.minParams with | some m => if m ≠ 0 ∧ n < m then [Err.paramsLack] else [] | none => [])

/-- `BaseParser._alias_conflict(a, b)`: `a != b`; a comparison that raises counts as different.  Values of the
modelled domain compare without raising, so this is structural inequality. -/
abbrev aliasConflict {V : Type} (a b : V) : Prop := a ≠ b

/-! ### data-first strategy (base.py:445-556, after the fix) -/

def idxOf (a : Key) : List Key → Nat
  | [] => 0
  | x :: xs => if x = a then 0 else idxOf a xs + 1

/-- an entry of `inputs`: `(field, value, rank)` for a field that was given, `(None, value, 0)` for an
additional key -/
structure Input (V : Type) where
  field : Option (PField V)
  value : V
  rank : Nat

structure DfScan (V : Type) where
  inputs : List (Key × Input V) := []       -- name → (field, value, rank) / additional key → (None, value, 0)
  conflicts : List Key := []                -- names of the fields given two different values

/-- one iteration of the first loop.  `field.positional_only` (function parameters) is always False for the
fields of a data class, so `not field or field.positional_only` is `not field` here. -/
def dfScanStep {V : Type} [DecidableEq V] (W : World V) (P : Parser V)
    (s : DfScan V) (kv : Key × V) : DfScan V :=
  match getField W P kv.1 with
  | none => { s with inputs := dset kv.1 ⟨none, kv.2, 0⟩ s.inputs }
  | some f =>
    let rank := idxOf (if f.allAliases.contains kv.1 then kv.1 else W.lower kv.1) f.allAliases
    match dget f.name s.inputs with
    | some used =>
      let s := if aliasConflict used.value kv.2 ∧ !s.conflicts.contains f.name
               then { s with conflicts := s.conflicts ++ [f.name] } else s
      if rank ≥ used.rank then s else { s with inputs := dset f.name ⟨some f, kv.2, rank⟩ s.inputs }
    | none => { s with inputs := dset f.name ⟨some f, kv.2, rank⟩ s.inputs }

/-- state of the second loop -/
structure DfRun (V : Type) where
  st : St V := {}
  addition : List (Key × V) := []
  excluded : List Key := []            -- names of the fields whose value the 'exclude' policy dropped

/-- one iteration of the second loop: an additional key goes through `parse_addition`, a field through the
shared statements; `parsed is field.EXCLUDED` → `excluded.add(name)` -/
def dfItemStep {V : Type} (L : Legacy) (W : World V) (P : Parser V) (o : Opts V) (conflicts : List Key)
    (acc : DfRun V) (ni : Key × Input V) : DfRun V :=
  match ni.2.field with
  | none =>
    let r := parseAddition W P o ni.1 ni.2.value
    { acc with st := { acc.st with errs := acc.st.errs ++ r.2 }
               addition := match r.1 with | some x => dset ni.1 x acc.addition | none => acc.addition }
  | some f =>
    let r := provide L W o f ni.2.value (conflicts.contains ni.1 && !o.ignoreAliasConflicts) acc.st
    { acc with st := r.1, excluded := if r.2 then acc.excluded ++ [ni.1] else acc.excluded }

/-- third loop (base.py:523-535) -/
def dfAbsentAll {V : Type} (L : Legacy) (W : World V) (P : Parser V) (o : Opts V) (inputs : List (Key × Input V))
    (excluded : List Key) (st : St V) : St V :=
  P.fields.foldl (fun st kf =>
    if dhas kf.2.name inputs && !excluded.contains kf.2.name then st else absent L W o kf.2 st) st

def dataFirst {V : Type} [DecidableEq V] (L : Legacy) (W : World V) (P : Parser V) (o : Opts V)
    (data : List (Key × V)) : St V :=
  let s := data.foldl (dfScanStep W P) {}
  let r := s.inputs.foldl (dfItemStep L W P o s.conflicts) {}
  let st := dfAbsentAll L W P o s.inputs r.excluded r.st
  let st := depsCheck P st
  { st with result := dupdate st.result r.addition }

/-! ### field-first strategy (base.py:558-693, after the fix) -/

structure Merged (V : Type) where
  data : List (Key × V) := []
  conflicts : List Key := []          -- lookup keys given twice (in different letter case) with different values

/-- `lookup_keys[k]`: the key under which the lower-casing pass files an input key -/
def lookupKey {V : Type} (W : World V) (P : Parser V) (k : Key) : Key :=
  if P.ciNames.contains (W.lower k) then W.lower k else k

/-- one iteration of the lower-casing pass: the first value filed under a lookup key is used, a later different
one is noted as a conflict -/
def ffMergeStep {V : Type} [DecidableEq V] (W : World V) (P : Parser V) (m : Merged V) (kv : Key × V) : Merged V :=
  let k := lookupKey W P kv.1
  match dget k m.data with
  | some v0 =>
    if aliasConflict v0 kv.2 ∧ !m.conflicts.contains k then { m with conflicts := m.conflicts ++ [k] } else m
  | none => { m with data := dset k kv.2 m.data }

/-- the lower-casing pass; without case-insensitive names the input is used as it is (`origin = data`,
`lookup_keys = {}`) -/
def ffMerge {V : Type} [DecidableEq V] (W : World V) (P : Parser V) (data : List (Key × V)) : Merged V :=
  if P.ciNames.isEmpty then { data := data } else data.foldl (ffMergeStep W P) {}

/-- the alias loop (base.py:593-640): the value used and whether a differing duplicate was seen -/
def ffPick {V : Type} [DecidableEq V] (ignoreConflicts : Bool) (m : Merged V) :
    List Key → Option V → Option V × Bool
  | [], value => (value, false)
  | a :: as, value =>
    match dget a m.data with
    | none => ffPick ignoreConflicts m as value
    | some x =>
      if ignoreConflicts then (some x, false)
      else match value with
        | none => if m.conflicts.contains a then (some x, true) else ffPick ignoreConflicts m as (some x)
        | some v =>
          if x ≠ v then (some v, true)
          else if m.conflicts.contains a then (some v, true)
          else ffPick ignoreConflicts m as (some v)

structure FfSt (V : Type) where
  st : St V := {}
  used : List Key := []

def ffFieldStep {V : Type} [DecidableEq V] (L : Legacy) (W : World V) (o : Opts V) (m : Merged V)
    (s : FfSt V) (kf : Key × PField V) : FfSt V :=
  let f := kf.2
  match ffPick o.ignoreAliasConflicts m f.allAliases none with
  | (none, _) => { s with st := absent L W o f s.st }
  | (some v, c) =>
    let r := provide L W o f v c s.st
    { st := if r.2 then ffExcluded W o f r.1 else r.1, used := s.used ++ f.allAliases }

/-- the addition loop: over the input in its original spelling (`origin`), skipping the keys whose lookup key
belongs to a provided field -/
def ffAdditions {V : Type} (W : World V) (P : Parser V) (o : Opts V) (used : List Key) (data : List (Key × V))
    (st : St V) : St V :=
  if o.addition = .ignore then st else
  let r := data.foldl (fun (acc : List (Key × V) × List Err) kv =>
    if used.contains (lookupKey W P kv.1) then acc else addStep W P o acc kv) ([], [])
  { st with result := dupdate st.result r.1, errs := st.errs ++ r.2 }

def fieldFirst {V : Type} [DecidableEq V] (L : Legacy) (W : World V) (P : Parser V) (o : Opts V)
    (data : List (Key × V)) : St V :=
  let m := ffMerge W P data
  let s := P.fields.foldl (ffFieldStep L W o m) {}
  let st := depsCheck P s.st
  ffAdditions W P o s.used data st

/-! ### `parse_data`, `__call__`, `__init__`, `set_attributes`, `__post_init__` -/

/-- strategy selection (base.py:389-402) -/
def useDataFirst {V : Type} (P : Parser V) (o : Opts V) : Bool :=
  match o.dataFirstSearch with
  | some b => b
  | none => P.dataFirst

def parseData {V : Type} [DecidableEq V] (L : Legacy) (W : World V) (P : Parser V) (o : Opts V)
    (data : List (Key × V)) : St V :=
  let pre := paramsCheck o data.length
  let st := if useDataFirst P o then dataFirst L W P o data else fieldFirst L W P o data
  { st with errs := pre ++ st.errs }

/-- What the caller observes. -/
inductive Outcome (V : Type) where
  | ok (mapping attrs : List (Key × V))       -- dict(inst), inst.__dict__
  | raised (e : Err)                           -- fail-fast: the first handled error is raised
  | collected (es : List Err)                  -- CollectedParseError(errors)
  deriving Repr

/-- `set_attributes` + `Schema.__post_init__` (cls.py:436-467, schema.py:275-287): the instance mapping
loses the no_output fields, `__dict__` gets every value under its attname. -/
def views {V : Type} (L : Legacy) (W : World V) (P : Parser V) (o : Opts V) (result : List (Key × V)) :
    List (Key × V) × List (Key × V) :=
  result.foldl (fun (acc : List (Key × V) × List (Key × V)) kv =>
    match getField W P kv.1 with
    | some f =>
      ((if isNoOutput L W o f kv.2 then acc.1 else dset kv.1 kv.2 acc.1), dset f.attname kv.2 acc.2)
    | none => (dset kv.1 kv.2 acc.1, dset kv.1 kv.2 acc.2)) ([], [])

/-- `RuntimeContext.handle_error` / `raise_error` (options.py:446-482). -/
def finish {V : Type} (L : Legacy) (W : World V) (P : Parser V) (o : Opts V) (st : St V) : Outcome V :=
  match st.errs with
  | [] => let (m, a) := views L W P o st.result; .ok m a
  | e :: _ =>
    if !o.collectErrors then .raised e
    else match o.maxErrors with
      | some n => .collected (st.errs.take (max n 1))
      | none => .collected st.errs

/-- `Cls.__from__(data, options=runtime)` / `Cls(**data)`: the runtime options replace the class's
(options.py:251-258), the parser was set up with the class's. -/
def initSchema {V : Type} [DecidableEq V] (L : Legacy) (W : World V) (c : ClassDecl V)
    (runtime : Option (Opts V)) (data : List (Key × V)) : Outcome V :=
  let P := mkParser W c
  let o := (runtime.getD c.opts).normalise
  finish L W P o (parseData L W P o data)

/-- the same for class number `target` of a sequence of declarations -/
def initSchemaH {V : Type} [DecidableEq V] (L : Legacy) (W : World V) (decls : List (ClassDecl V)) (target : Nat)
    (runtime : Option (Opts V)) (data : List (Key × V)) : Option (Outcome V) :=
  (buildAll W decls)[target]?.map fun B =>
    let o := (runtime.getD B.opts).normalise
    finish L W B.parser o (parseData L W B.parser o data)

/-- `Schema.__field_getter__` (schema.py:289-311) for a non-property field: what `inst.<attname>` gives. -/
def getattrView {V : Type} (W : World V) (o : Opts V) (f : PField V) (mapping attrs : List (Key × V)) : Option V :=
  match dget f.name mapping with
  | some v => some v
  | none =>
    match dget f.attname attrs with
    | some v => some v
    | none => getDefault W o f true

/-! ### Well-formed parsers: what `generate_fields` / `generate_aliases` / `apply_fields` guarantee
(their ConfigErrors, base.py:296-334, cls.py:205-219, field.py:700-750) -/

def disjoint (a b : List Key) : Bool := a.all fun x => !b.contains x

def pairwiseB {α : Type} (r : α → α → Bool) : List α → Bool
  | [] => true
  | x :: xs => xs.all (r x) && pairwiseB r xs

def nodupB (l : List Key) : Bool := pairwiseB (fun a b => a != b) l

def Parser.wf {V : Type} (W : World V) (P : Parser V) : Bool :=
  nodupB (P.fields.map (·.2.name))                                   -- output names are distinct
  && nodupB (P.fields.map (·.2.attname))
  && nodupB (P.fields.map (·.1))
  && P.fields.all (fun kf => kf.1 == fieldKey W kf.2)
  && pairwiseB (fun f g => disjoint f.2.allAliases g.2.allAliases) P.fields   -- no key accepted by two fields
  && P.fields.all (fun kf => kf.2.allAliases.head? == some kf.1)
  && P.fields.all (fun kf => kf.2.allAliases.all fun a => a == kf.1 || kf.2.aliases.contains a)
  && P.fields.all (fun kf => kf.2.aliases.all fun a => kf.2.allAliases.contains a)
  && P.fields.all (fun kf => kf.2.aliases.all fun a => !(P.fields.map (·.1)).contains a)  -- apply_fields
  && P.fields.all (fun kf => kf.2.allAliases.contains (if kf.2.ci then W.lower kf.2.attname else kf.2.attname))
  && P.fields.all (fun kf => !kf.2.ci || kf.2.allAliases.all fun a => W.lower a == a)
  && P.fields.all (fun kf => kf.2.ci || kf.2.allAliases.all fun a => !P.ciNames.contains (W.lower a))
  && P.fields.all (fun kf => kf.2.deps.all fun d => (P.fields.map (·.2.name)).contains d)
  && P.depsOk
  && P.aliasMap == aliasMapOf P.fields
  && P.ciNames == ciNamesOf P.fields

/-! ### Behaviour before fixes/C06-1..5-*.patch (for the negation witnesses) -/

/-- data_first_parse before the fix: duplicates compared with the *parsed* stored value, last duplicate
wins under ignore_alias_conflicts, no_input inputs forgotten, defaults skipped under ignore_required. -/
def dataFirstLegacy {V : Type} [DecidableEq V] (W : World V) (P : Parser V) (o : Opts V)
    (data : List (Key × V)) : St V :=
  let L : Legacy := { excludedProvided := true }
  let (st, add) := data.foldl (fun (acc : St V × List (Key × V)) kv =>
    let (st, add) := acc
    match getField W P kv.1 with
    | none =>
      let (a, es) := parseAddition W P o kv.1 kv.2
      ({ st with errs := st.errs ++ es }, match a with | some x => dset kv.1 x add | none => add)
    | some f =>
      if isNoInput L W o f kv.2 then
        ((match getDefault W o f false with
          | some d => { st with result := dset f.name d st.result } | none => st), add)
      else
        match (if o.ignoreAliasConflicts then none else dget f.name st.result) with
        | some stored =>
          ((if stored ≠ kv.2 then { st with errs := st.errs ++ [.aliasConflict f.name] } else st), add)
        | none =>
          let r := parseValue L W o f kv.2
          let st := { st with errs := st.errs ++ r.2.1 }
          ((match r.1 with
            | none => st
            | some r => { st with result := dset f.name r st.result, deps := st.deps ++ f.deps }), add))
    (({} : St V), [])
  let st := if o.ignoreRequired then st else
    P.fields.foldl (fun st kf => if dhas kf.2.name st.result then st else absent L W o kf.2 st) st
  let st := depsCheck P st
  { st with result := dupdate st.result add }

/-- field_first_parse before the fix: case variants of one key merged silently (last wins), the conflict
reported before the no_input test. -/
def fieldFirstLegacy {V : Type} [DecidableEq V] (W : World V) (P : Parser V) (o : Opts V)
    (data : List (Key × V)) : St V :=
  let L : Legacy := { excludedProvided := true }
  let data' := if P.ciNames.isEmpty then data else
    data.foldl (fun m kv => dset (lookupKey W P kv.1) kv.2 m) []
  let m : Merged V := { data := data' }
  let s := P.fields.foldl (fun (s : FfSt V) kf =>
    let f := kf.2
    match ffPick o.ignoreAliasConflicts m f.allAliases none with
    | (none, _) => { s with st := absent L W o f s.st }
    | (some v, c) =>
      let st := if c then { s.st with errs := s.st.errs ++ [.aliasConflict f.name] } else s.st
      { st := (provide L W o f v false st).1, used := s.used ++ f.allAliases }) {}
  let st := depsCheck P s.st
  ffAdditions W P o s.used data st

end Utv.C05
