import Utv.Model.C08Spec
import Utv.Lemmas.C08
/-!
C08 — decorated functions get Python's binding with conforming arguments and result.
-/
namespace Utv.C08
set_option linter.unusedSectionVars false
variable {N V T : Type} [DecidableEq N] [DecidableEq V]

/-! ### generators: the wrappers are the undecorated generator with every value converted -/

theorem convBy_eq_convO (W : World N V T) (t : Option T) (v : V) :
    convBy W t v = match Spec.convO W t v with | some x => .ok x | none => .error .perr := convBy_eq W t v

theorem pw_cons (f : Bool) (y : V) (outs' : List (Ev V)) (n : Nat) :
    (if (f && (Ev.yielded y :: outs').length == n + 1 + 1 && (Ev.yielded y :: outs').all Spec.Ev.isYielded) = true
      then (Ev.yielded y :: outs') ++ [Ev.raised] else Ev.yielded y :: outs')
    = Ev.yielded y :: (if (f && outs'.length == n + 1 && outs'.all Spec.Ev.isYielded) = true
      then outs' ++ [Ev.raised] else outs') := by
  simp only [List.length_cons, List.all_cons, Spec.Ev.isYielded, Bool.true_and, Nat.add_right_cancel_iff, beq_iff_eq,
    List.cons_append]
  have : (outs'.length + 1 == n + 1 + 1) = (outs'.length == n + 1) := by
    cases h : (outs'.length == n + 1) <;> simp_all
  rw [this]
  split <;> rfl

theorem wrapTrace_eq_pointwise (W : World N V T) (g : GenTypes T) {σ : Type} (step : σ → Option V → Step σ V)
    (sends : List (Option V)) : ∀ (st : σ) (inp : Option V),
    wrapTrace W g step st inp sends = Spec.pointwise W g step st inp sends := by
  induction sends with
  | nil =>
    intro st inp
    unfold wrapTrace Spec.pointwise rawTrace
    simp only [Spec.convSends, Bool.false_and, Bool.false_eq_true, if_false]
    cases step st inp with
    | escaped => simp [Spec.convEvents]
    | diverged => simp [Spec.convEvents]
    | ret r =>
      cases r with
      | none => simp [Spec.convEvents]
      | some rv =>
        simp only [Spec.convEvents, convBy_eq]
        cases Spec.convO W g.retT rv <;> simp
    | yield v st' =>
      simp only [Spec.convEvents, convBy_eq]
      cases Spec.convO W g.yieldT v <;> simp [Spec.convEvents]
  | cons s rest ih =>
    intro st inp
    unfold wrapTrace
    cases hstep : step st inp with
    | escaped => unfold Spec.pointwise rawTrace; simp [hstep, Spec.convEvents, Spec.Ev.isYielded]
    | diverged => unfold Spec.pointwise rawTrace; simp [hstep, Spec.convEvents, Spec.Ev.isYielded]
    | ret r =>
      unfold Spec.pointwise rawTrace
      cases r with
      | none => simp [hstep, Spec.convEvents, Spec.Ev.isYielded]
      | some rv =>
        simp only [hstep, Spec.convEvents, convBy_eq]
        cases Spec.convO W g.retT rv <;> simp [Spec.Ev.isYielded]
    | yield v st' =>
      simp only [convBy_eq]
      cases hy : Spec.convO W g.yieldT v with
      | none =>
        unfold Spec.pointwise rawTrace
        simp [hstep, Spec.convEvents, hy, Spec.Ev.isYielded]
      | some y =>
        simp only
        cases s with
        | none =>
          dsimp only
          rw [ih st' none]
          unfold Spec.pointwise
          conv => rhs; unfold rawTrace
          simp only [hstep, Spec.convSends, Spec.convEvents, hy, List.length_cons]
          exact (pw_cons _ y _ _).symm
        | some x =>
          cases hx : Spec.convO W g.sendT x with
          | none =>
            dsimp only
            simp only [hx]
            unfold Spec.pointwise
            conv => rhs; unfold rawTrace
            simp [hstep, Spec.convSends, hx, Spec.convEvents, hy, Spec.Ev.isYielded]
          | some x' =>
            dsimp only
            simp only [hx]
            rw [ih st' (some x')]
            unfold Spec.pointwise
            conv => rhs; unfold rawTrace
            simp only [hstep, Spec.convSends, hx, Spec.convEvents, hy, List.length_cons]
            exact (pw_cons _ y _ _).symm
/-- **C08 (generators).**  For every raw generator (any state space, any step function), every declared
yield / send / return type, every transformer and every finite input history (`next()` / `send(x)` after the initial
`next()`): the events the caller of the wrapper observes are the generator clause of the specification, which is
stated on lists and independently of the wrapper's loop — convert the sends one by one, run the UNDECORATED machine on
the converted history, convert its yields / return one by one, cut at the first value that does not convert (there
the caller gets a ParseError).  `wrapTrace` is the loop shared by `sync_from_generator` and `async_from_generator`. -/
theorem C08_gen_trace (W : World N V T) (g : GenTypes T) {σ : Type} (step : σ → Option V → Step σ V)
    (st : σ) (sends : List (Option V)) :
    wrapTrace W g step st none sends = Spec.pointwise W g step st none sends :=
  wrapTrace_eq_pointwise W g step sends st none

/-! ### tail delegation: the body hands over to a generator it yields -/

/-- with the pending sent value cleared, the wrappers' hand-over loop is the flattening of the specification -/
theorem hop_reset_eq_flat {σ : Type} (raw : σ → Option V → RawStep σ V) (fuel : Nat) :
    ∀ (st : σ) (inp : Option V), hop true raw fuel st inp = Spec.flat raw fuel st inp := by
  induction fuel with
  | zero => intro st inp; rfl
  | succ n ih =>
    intro st inp
    simp only [hop, Spec.flat]
    cases raw st inp with
    | yield v st' => rfl
    | ret r => rfl
    | delegate st' => simpa using ih st' none

/-- fuel adequacy: once the hand-overs of one resumption have been followed within `fuel`, any larger fuel gives the
same step — the theorems below hold for every fuel, and a finite chain of hand-overs is followed in full by any fuel
that exceeds its length -/
theorem hop_fuel_mono (reset : Bool) {σ : Type} (raw : σ → Option V → RawStep σ V) (fuel : Nat) :
    ∀ (fuel' : Nat) (st : σ) (inp : Option V), fuel ≤ fuel' →
    (match hop reset raw fuel st inp with | .diverged => False | _ => True) →
    hop reset raw fuel' st inp = hop reset raw fuel st inp := by
  induction fuel with
  | zero => intro fuel' st inp _ h; simp [hop] at h
  | succ n ih =>
    intro fuel' st inp hle h
    cases fuel' with
    | zero => omega
    | succ m =>
      simp only [hop] at h ⊢
      cases hr : raw st inp with
      | yield v st' => rfl
      | ret r => rfl
      | delegate st' =>
        simp only [hr] at h ⊢
        cases hi : (if reset = true then none else inp) with
        | some x => rfl
        | none =>
          simp only [hi] at h ⊢
          exact ih m st' none (by omega) h

/-- **C08 (generators with delegation).**  For every raw generator whose body may, at any point, hand over to another
generator by yielding it (and that one to a further one, …), every declared type, transformer and input history, the
wrapper's trace (`sync_from_generator` after fix C08-sync-delegate-sent, `async_from_generator`) is the trace of the
undecorated generators followed through their hand-overs, with sends, yields and the return converted — whatever was
sent before a hand-over; `fuel` bounds the number of consecutive hand-overs followed and is arbitrary. -/
theorem C08_gen_trace_delegation (W : World N V T) (g : GenTypes T) {σ : Type} (raw : σ → Option V → RawStep σ V)
    (fuel : Nat) (st : σ) (sends : List (Option V)) :
    wrapTrace W g (hop true raw fuel) st none sends = Spec.pointwise W g (Spec.flat raw fuel) st none sends := by
  have : hop true raw fuel = Spec.flat raw fuel := by
    funext st inp; exact hop_reset_eq_flat raw fuel st inp
  rw [this, C08_gen_trace]

theorem forwardInput_pyIsNone (x : Option V) : forwardInput pyIsNone x = x := by
  cases x <;> rfl

/-- **C08 (lazy generators).**  The lazy wrappers forward `send(x)` for *every* sent value `x` — falsy ones (0, '',
False) included — and `next()` only for None, so a lazily wrapped generator (sync or async) has exactly the trace of
the specification as well: for every raw generator, declared types, transformer and input history. -/
theorem C08_gen_trace_lazy (W : World N V T) (g : GenTypes T) {σ : Type} (step : σ → Option V → Step σ V)
    (st : σ) (sends : List (Option V)) :
    lazyTrace W g step pyIsNone st none sends = Spec.pointwise W g step st none sends := by
  unfold lazyTrace
  have : sends.map (forwardInput pyIsNone) = sends := by
    induction sends with
    | nil => rfl
    | cons a l ih => simp [forwardInput_pyIsNone, ih]
  rw [this, forwardInput_pyIsNone, C08_gen_trace]

theorem C08_gen_trace_lazy_delegation (W : World N V T) (g : GenTypes T) {σ : Type}
    (raw : σ → Option V → RawStep σ V) (fuel : Nat) (st : σ) (sends : List (Option V)) :
    lazyTrace W g (hop true raw fuel) pyIsNone st none sends
      = Spec.pointwise W g (Spec.flat raw fuel) st none sends := by
  have : hop true raw fuel = Spec.flat raw fuel := by
    funext st inp; exact hop_reset_eq_flat raw fuel st inp
  rw [this, C08_gen_trace_lazy]

/-! ### the binding -/

/-- what `parse_data` hands over, whichever search strategy `Options.data_first_search` selects -/
theorem parseData_obs (W : World N V T) (hW : LowerIdem W) (s : Sig N V T) (wf : WF W s) (o : Opts)
    (excl : List N) (kw : List (N × V))
    (h1 : ∀ e ∈ kw, e.1 ∉ s.excludeVars W)
    (h3 : ∀ e ∈ kw, ∀ f, resolve W (s.fields W) e.1 = some f → f.posOnly = false → excl.contains f.name = false)
    (h5 : s.vk = none → ∀ e ∈ kw, s.kwTarget (Spec.normKey W s e.1) = true)
    (hn : ((Spec.normalise W s kw).map (·.1)).Nodup)
    (hpo : ∀ f ∈ s.fields W, f.posOnly = true → excl.contains f.name = true)
    (hreq : ∀ f ∈ s.fields W, excl.contains f.name = false →
        ((Spec.normalise W s kw).lookup f.name).isSome = true ∨ f.dflt.isSome = true) :
    match Spec.convKw W s (Spec.normalise W s kw) with
    | none => parseData W s o excl kw = .error .perr
    | some c => ∃ kw', parseData W s o excl kw = .ok kw' ∧ Obs W s excl c kw' := by
  unfold parseData
  by_cases hd : useDfs W s o = true
  · simp only [hd, if_true]
    exact dataFirst_obs W hW s wf o excl kw h1 h3 h5 hn hpo hreq
  · simp only [hd, Bool.false_eq_true, if_false]
    exact fieldFirst_obs W hW s wf o excl kw h1 h3 h5 hn hpo hreq

/-- the refinement step behind `C08_binding_partial`, with what `parse_params` hands to the raw call exposed -/
theorem binding_core (W : World N V T) (hW : LowerIdem W) (s : Sig N V T) (wf : WF W s) (o : Opts)
    (args : List V) (kw : List (N × V)) (b0 : Binding N V)
    (hk : KnownDefect.privateKw W s kw = false) (ha : KnownDefect.privateAnnotated W s = false)
    (hpb : Spec.pyBind s args (Spec.normalise W s kw) = some b0) :
    match Spec.convArgs W (s.vp.bind (·.2)) s.pos args, Spec.convKw W s (Spec.normalise W s kw) with
    | some cas, some c => ∃ args' kw', parseParams W s o args kw = .ok (args', kw') ∧
        pyBindCore s args' kw' = pyBindCore s cas c ∧
        kw'.filter (fun e => !isTarget s e) = c.filter (fun e => !isTarget s e)
    | _, _ => parseParams W s o args kw = .error .perr := by
  unfold Spec.pyBind at hpb
  split at hpb
  · rename_i hn
    obtain ⟨hlen, ⟨bp, hbp⟩, ⟨bk, hbk⟩, hvk⟩ := pyBindCore_some s args _ b0 hpb
    -- the hypotheses of the keyword half
    have h1 : ∀ e ∈ kw, e.1 ∉ s.excludeVars W := by
      intro e he hmem
      have : KnownDefect.privateKw W s kw = true := by
        unfold KnownDefect.privateKw
        exact List.any_eq_true.mpr ⟨e, he, by simpa using hmem⟩
      rw [hk] at this; cases this
    have hpa : ∀ p ∈ s.pos, W.priv p.name = true → p.ann = none := by
      intro p hp hpriv
      cases hann : p.ann with
      | none => rfl
      | some t =>
        exfalso
        have : KnownDefect.privateAnnotated W s = true := by
          unfold KnownDefect.privateAnnotated
          exact List.any_eq_true.mpr ⟨p, List.mem_append_left _ hp, by simp [hpriv, hann]⟩
        rw [ha] at this; cases this
    have hpos_names : (s.pos.map (·.name)).Nodup := by
      have := wf.names_nodup
      rw [List.map_append] at this
      exact (List.nodup_append.mp this).1
    obtain ⟨excl, hexcl⟩ : ∃ excl, excl = keysOf W s.pos args := ⟨_, rfl⟩
    have h3 : ∀ e ∈ kw, ∀ f, resolve W (s.fields W) e.1 = some f → f.posOnly = false →
        excl.contains f.name = false := by
      intro e he f hr hpo
      cases hc : excl.contains f.name with
      | false => rfl
      | true =>
        exfalso
        have hm : f.name ∈ excl := by simpa using hc
        rw [hexcl] at hm
        obtain ⟨q, hq, hqn, hq'⟩ := keysOf_given W _ s.pos args bp f.name hbp hm
        obtain ⟨hnk, hkwp, _, _, _⟩ := key_field W hW s wf e.1 (h1 e he) f hr hpo
        have hqf : q = f := eq_of_name_eq wf.names_nodup (List.mem_append_left _ hq)
          (kwParams_sub W hW s wf f hkwp).1 hqn
        subst hqf
        rcases hq' with h | h
        · rw [hpo] at h; cases h
        · have hmem : (q.name, e.2) ∈ Spec.normalise W s kw := by
            simp only [Spec.normalise, List.mem_map]; exact ⟨e, he, by rw [hnk]⟩
          have := lookup_of_mem_nodup _ hn _ hmem
          simp only at this
          rw [h] at this; cases this
    have h5 : s.vk = none → ∀ e ∈ kw, s.kwTarget (Spec.normKey W s e.1) = true := by
      intro hv e he
      have hnil := hvk hv
      rw [List.filter_eq_nil_iff] at hnil
      have := hnil (Spec.normKey W s e.1, e.2)
        (by simp only [Spec.normalise, List.mem_map]; exact ⟨e, he, rfl⟩)
      simpa using this
    have hpo : ∀ f ∈ s.fields W, f.posOnly = true → excl.contains f.name = true := by
      intro f hf hfpo
      obtain ⟨hmem, hnp⟩ := (mem_fields W s f).mp hf
      have hfp : f ∈ s.pos := by
        rcases List.mem_append.mp hmem with h | h
        · exact h
        · rw [wf.kos_not_po f h] at hfpo; cases hfpo
      rw [hexcl]
      simpa using po_mem_keysOf W s.pos args f hfp hfpo hnp
    have hreq : ∀ f ∈ s.fields W, excl.contains f.name = false →
        ((Spec.normalise W s kw).lookup f.name).isSome = true ∨ f.dflt.isSome = true := by
      intro f hf hex
      obtain ⟨hmem, hnp⟩ := (mem_fields W s f).mp hf
      rcases List.mem_append.mp hmem with h | h
      · refine not_keysOf_omitted W _ s.pos args bp f hbp h hnp ?_
        intro hm
        rw [← hexcl] at hm
        have : excl.contains f.name = true := by simpa using hm
        rw [hex] at this; cases this
      · exact bindKos_mem _ s.kos bk hbk f h
    have hpd := parseData_obs W hW s wf o excl kw h1 h3 h5 hn hpo hreq
    have hps := posStage_eq W s (Spec.normalise W s kw) s.pos args bp hpa hbp hlen
    unfold parseParams
    cases hca : Spec.convArgs W (s.vp.bind (·.2)) s.pos args with
    | none =>
      simp only [hca] at hps
      simp [hps]
    | some cas =>
      simp only [hca] at hps
      obtain ⟨fill, hfill, hps'⟩ := hps
      simp only [hps', ← hexcl]
      cases hck : Spec.convKw W s (Spec.normalise W s kw) with
      | none =>
        simp only [hck] at hpd
        simp [hpd]
      | some c =>
        simp only [hck] at hpd
        obtain ⟨kw', hpd', hobs1, hobs2⟩ := hpd
        simp only [hpd']
        have hckeys : c.map (·.1) = (Spec.normalise W s kw).map (·.1) := convKw_keys W s _ c hck
        have hkeys : ∀ x, (Spec.normalise W s kw).lookup x = none → c.lookup x = none := by
          intro x hx
          rw [lookup_eq_none_iff_not_mem] at hx ⊢
          rw [hckeys]; exact hx
        have hprivkey : ∀ p ∈ Spec.kwParams s, W.priv p.name = true → c.lookup p.name = none := by
          intro p hp hpriv
          apply hkeys
          rw [lookup_eq_none_iff_not_mem]
          intro hmem
          simp only [Spec.normalise, List.map_map, List.mem_map, Function.comp] at hmem
          obtain ⟨e, he, hne⟩ := hmem
          rcases key_cases W hW s wf excl kw h1 h3 e he with ⟨f, hf, h2, h3', _, _⟩ | ⟨h2, h3'⟩
          · have hfp : f = p := eq_of_name_eq wf.names_nodup (kwParams_sub W hW s wf f hf).1
              (kwParams_sub W hW s wf p hp).1 (by rw [← h2, hne])
            subst hfp
            rw [hpriv] at h3'; cases h3'
          · rw [h2] at hne
            rw [hne, (kwTarget_iff s _).mpr ⟨p, hp, rfl⟩] at h3'; cases h3'
        have hcaslen : cas.length = args.length := convArgs_length W _ s.pos args cas hca
        have hposok : PosOK kw' c s.pos cas.length := by
          rw [hcaslen]
          exact posOK_of_obs W s kw' c (Spec.normalise W s kw) excl hobs1 hprivkey hkeys s.pos args bp []
            (fun p hp => hp) hpos_names (by intro p _ h; cases h) (by simpa using hexcl) hbp
        have hfinal : pyBindCore s (cas ++ fill) kw' = pyBindCore s cas c := by
          apply pyBindCore_final
          · exact bindPos_final W kw' c s.pos cas fill hposok wf.po_first (by rw [hcaslen]; exact hfill)
          · apply bindKos_congr
            intro p hp
            have hkwp : p ∈ Spec.kwParams s := (mem_kwParams s p).mpr (Or.inr hp)
            rw [hobs1 p hkwp]
            have hnex : excl.contains p.name = false := by
              cases hc : excl.contains p.name with
              | false => rfl
              | true =>
                exfalso
                have hm : p.name ∈ excl := by simpa using hc
                rw [hexcl] at hm
                have h1' := keysOf_sub_names W s.pos args _ hm
                have hnd := wf.names_nodup
                rw [List.map_append, List.nodup_append] at hnd
                exact hnd.2.2 _ h1' _ (List.mem_map_of_mem hp) rfl
            by_cases hpriv : W.priv p.name = true
            · simp [hpriv, hprivkey p hkwp hpriv]
            · have hpriv' : W.priv p.name = false := by simpa using hpriv
              simp only [hpriv', hnex, Bool.or_self, Bool.false_eq_true, if_false]
              cases c.lookup p.name <;> simp
          · exact hobs2
          · rw [hcaslen]; exact fillPo_length W _ true fill hfill
        exact ⟨cas ++ fill, kw', rfl, hfinal, hobs2⟩
  · cases hpb


theorem mem_boundNames (W : World N V T) (ps : List (Param N V T)) :
    ∀ (as : List V) (x : N), x ∈ boundNames W ps as →
      x ∈ keysOf W ps as ∧ ∃ q ∈ ps, q.name = x ∧ q.posOnly = false := by
  induction ps with
  | nil => intro as x hx; cases as <;> simp [boundNames] at hx
  | cons p ps ih =>
    intro as x hx
    cases as with
    | nil => simp [boundNames] at hx
    | cons a as =>
      simp only [boundNames] at hx
      simp only [keysOf]
      by_cases hp : (!W.priv p.name && !p.posOnly) = true
      · simp only [hp, if_true] at hx
        simp only [Bool.and_eq_true, Bool.not_eq_true'] at hp
        rcases List.mem_cons.mp hx with rfl | hx'
        · exact ⟨by simp [hp.1], p, by simp, rfl, hp.2⟩
        · obtain ⟨h1, q, hq, h2⟩ := ih as x hx'
          refine ⟨?_, q, by simp [hq], h2⟩
          split
          · exact h1
          · exact List.mem_cons_of_mem _ h1
      · simp only [hp, Bool.false_eq_true, if_false] at hx
        obtain ⟨h1, q, hq, h2⟩ := ih as x hx
        refine ⟨?_, q, by simp [hq], h2⟩
        split
        · exact h1
        · exact List.mem_cons_of_mem _ h1

/-- when Python binds the (normalised) call, no keyword names a parameter already bound by position: the duplicate
check of `parse_params` does not fire -/
theorem dupBound_false (W : World N V T) (hW : LowerIdem W) (s : Sig N V T) (wf : WF W s)
    (args : List V) (kw : List (N × V)) (bp : List V)
    (h1 : ∀ e ∈ kw, e.1 ∉ s.excludeVars W)
    (hn : ((Spec.normalise W s kw).map (·.1)).Nodup)
    (hbp : bindPos (Spec.normalise W s kw) s.pos args = some bp) :
    dupBound W s args kw = false := by
  cases hd : dupBound W s args kw with
  | false => rfl
  | true =>
    exfalso
    unfold dupBound at hd
    obtain ⟨e, he, hm⟩ := List.any_eq_true.mp hd
    cases hr : resolve W (s.fields W) e.1 with
    | none => simp [hr] at hm
    | some f =>
      simp only [hr, List.contains_iff_mem] at hm
      obtain ⟨hk, q, hq, hqn, hqpo⟩ := mem_boundNames W s.pos args f.name hm
      obtain ⟨q', hq', hqn', hq''⟩ := keysOf_given W _ s.pos args bp f.name hbp hk
      obtain ⟨hf, _⟩ := matches_of_resolve W hW s wf e.1 f hr
      have hfmem := ((mem_fields W s f).mp hf).1
      have e1 : q = f := eq_of_name_eq wf.names_nodup (List.mem_append_left _ hq) hfmem hqn
      have e2 : q' = f := eq_of_name_eq wf.names_nodup (List.mem_append_left _ hq') hfmem hqn'
      have hfpo : f.posOnly = false := e1 ▸ hqpo
      have hq3 : f.posOnly = true ∨ (Spec.normalise W s kw).lookup f.name = none := e2 ▸ hq''
      rcases hq3 with h | h
      · rw [hfpo] at h; cases h
      · obtain ⟨hnk, _⟩ := key_field W hW s wf e.1 (h1 e he) f hr hfpo
        have hmem : (f.name, e.2) ∈ Spec.normalise W s kw := by
          simp only [Spec.normalise, List.mem_map]; exact ⟨e, he, by rw [hnk]⟩
        have := lookup_of_mem_nodup _ hn _ hmem
        simp only at this
        rw [h] at this; cases this

theorem dupBound_false_of_bind (W : World N V T) (hW : LowerIdem W) (s : Sig N V T) (wf : WF W s)
    (args : List V) (kw : List (N × V)) (b0 : Binding N V)
    (hk : KnownDefect.privateKw W s kw = false)
    (hpb : Spec.pyBind s args (Spec.normalise W s kw) = some b0) : dupBound W s args kw = false := by
  unfold Spec.pyBind at hpb
  split at hpb
  · rename_i hn
    obtain ⟨_, ⟨bp, hbp⟩, _, _⟩ := pyBindCore_some s args _ b0 hpb
    refine dupBound_false W hW s wf args kw bp ?_ hn hbp
    intro e he hmem
    have : KnownDefect.privateKw W s kw = true := by
      unfold KnownDefect.privateKw
      exact List.any_eq_true.mpr ⟨e, he, by simpa using hmem⟩
    rw [hk] at this; cases this
  · cases hpb

/-
**C08 (binding), full statement** — false of the code as it stands, see the two witnesses below:

    theorem C08_binding (W) (hW : LowerIdem W) (s) (wf : WF W s) (o) (args) (kw) (out)
        (hexp : Spec.expected W s args kw = some out) : call W s o args kw = out

It fails exactly where utype's documented design departs from Python: private (underscore) parameters are not
fields — they are never converted (`KnownDefect.privateAnnotated`) and are ignored when passed by keyword
(`KnownDefect.privateKw`).  Both predicates are decidable; outside them the statement holds in full:
-/

/-- **C08 (binding).**  For every transformer, every well-formed declaration over the five parameter kinds with
annotations, defaults and `Param(alias, alias_from, case_insensitive)` settings, every `Options.data_first_search` /
`ignore_alias_conflicts`, and every call (any number of positional values, any keywords under any accepted
spelling): if Python binds the call (accepted spellings read as the parameter's name), then
* when some given value does not convert to the annotation of the parameter it goes to, the call raises a ParseError
  and the body does not run;
* otherwise the body runs with exactly Python's binding of the converted call — each given value converted to its
  parameter's (or `*args` / `**kwargs`') annotation, each omitted parameter at its declared default;
provided no keyword names a private parameter and no private parameter is annotated (the two known findings). -/
theorem C08_binding_partial (W : World N V T) (hW : LowerIdem W) (s : Sig N V T) (wf : WF W s) (o : Opts)
    (args : List V) (kw : List (N × V)) (out : Outcome N V)
    (hk : KnownDefect.privateKw W s kw = false) (ha : KnownDefect.privateAnnotated W s = false)
    (hexp : Spec.expected W s args kw = some out) :
    call W s o args kw = out := by
  unfold Spec.expected at hexp
  simp only at hexp
  cases hpb : Spec.pyBind s args (Spec.normalise W s kw) with
  | none => simp [hpb] at hexp
  | some b0 =>
    simp only [hpb] at hexp
    have hcore := binding_core W hW s wf o args kw b0 hk ha hpb
    unfold call parseParamsD
    simp only [dupBound_false_of_bind W hW s wf args kw b0 hk hpb, Bool.false_eq_true, if_false]
    cases hca : Spec.convArgs W (s.vp.bind (·.2)) s.pos args with
    | none =>
      simp only [hca] at hcore hexp
      cases hexp
      simp [hcore, PErr.outcome]
    | some cas =>
      cases hck : Spec.convKw W s (Spec.normalise W s kw) with
      | none =>
        simp only [hca, hck] at hcore hexp
        cases hexp
        simp [hcore, PErr.outcome]
      | some c =>
        simp only [hca, hck] at hcore hexp
        obtain ⟨args', kw', hpp, hfin, _⟩ := hcore
        simp only [hpp, hfin]
        cases hb : pyBindCore s cas c with
        | none => simp [hb] at hexp
        | some b' => simp [hb] at hexp; exact hexp

/-! ### corollaries in the property's words -/

/-- **any accepted name is equivalent**: replacing the spelling of one keyword by another spelling the same
parameter accepts (`alias`, `alias_from`, any case when case-insensitive) does not change the outcome of the call -/
theorem C08_alias_equiv (W : World N V T) (hW : LowerIdem W) (s : Sig N V T) (wf : WF W s) (o : Opts)
    (args : List V) (kwL kwR : List (N × V)) (k k' : N) (v : V) (p : Param N V T) (out : Outcome N V)
    (hp : p ∈ Spec.kwParams s) (hk : Spec.accepted W p k = true) (hk' : Spec.accepted W p k' = true)
    (hd : KnownDefect.privateKw W s (kwL ++ (k, v) :: kwR) = false)
    (hd' : KnownDefect.privateKw W s (kwL ++ (k', v) :: kwR) = false)
    (ha : KnownDefect.privateAnnotated W s = false)
    (hexp : Spec.expected W s args (kwL ++ (k, v) :: kwR) = some out) :
    call W s o args (kwL ++ (k, v) :: kwR) = out ∧ call W s o args (kwL ++ (k', v) :: kwR) = out := by
  have key : ∀ x, Spec.accepted W p x = true → x ∉ s.excludeVars W → Spec.normKey W s x = p.name := by
    intro x hx hne
    obtain ⟨hpf, hpm⟩ := field_of_accepted W hW s wf x hne p hp hx
    have hr := resolve_of_matches W hW s wf x p hpf hpm
    exact (key_field W hW s wf x hne p hr (kwParams_sub W hW s wf p hp).2).1
  have hne : k ∉ s.excludeVars W := by
    intro hmem
    have : KnownDefect.privateKw W s (kwL ++ (k, v) :: kwR) = true := by
      unfold KnownDefect.privateKw
      exact List.any_eq_true.mpr ⟨(k, v), by simp, by simpa using hmem⟩
    rw [hd] at this; cases this
  have hne' : k' ∉ s.excludeVars W := by
    intro hmem
    have : KnownDefect.privateKw W s (kwL ++ (k', v) :: kwR) = true := by
      unfold KnownDefect.privateKw
      exact List.any_eq_true.mpr ⟨(k', v), by simp, by simpa using hmem⟩
    rw [hd'] at this; cases this
  have hnorm : Spec.normalise W s (kwL ++ (k', v) :: kwR) = Spec.normalise W s (kwL ++ (k, v) :: kwR) := by
    simp [Spec.normalise, key k hk hne, key k' hk' hne']
  have hexp' : Spec.expected W s args (kwL ++ (k', v) :: kwR) = some out := by
    unfold Spec.expected at hexp ⊢
    rw [hnorm]; exact hexp
  exact ⟨C08_binding_partial W hW s wf o args _ out hd ha hexp,
    C08_binding_partial W hW s wf o args _ out hd' ha hexp'⟩

/-- **by position or by name**: Python's own binding does not distinguish a positional-or-keyword parameter passed
as the next positional argument from the same value passed under its name — stated on the specification … -/
theorem pyBind_pos_eq_name (s : Sig N V T) (hnd : ((s.pos ++ s.kos).map (·.name)).Nodup) :
    ∀ (ps : List (Param N V T)) (args : List V) (v : V) (kw : List (N × V)) (p : Param N V T),
    (∀ q ∈ ps, q ∈ s.pos) → (ps.map (·.name)).Nodup →
    ps[args.length]? = some p → p.posOnly = false → kw.lookup p.name = none →
    bindPos kw ps (args ++ [v]) = bindPos ((p.name, v) :: kw) ps args := by
  intro ps
  induction ps with
  | nil => intro args v kw p _ _ h; simp at h
  | cons q ps ih =>
    intro args v kw p hsub hn hidx hpo hl
    simp only [List.map_cons, List.nodup_cons] at hn
    cases args with
    | nil =>
      simp only [List.length_nil, List.getElem?_cons_zero, Option.some.injEq] at hidx
      subst hidx
      simp only [List.nil_append]
      rw [bindPos, bindPos]
      simp only [hpo, hl, Bool.not_false, Option.isSome_none, Bool.and_false, Bool.false_eq_true, if_false,
        List.lookup_cons, beq_self_eq_true]
      -- the remaining slots read the same: none of them is named q.name
      have : ∀ (l : List (Param N V T)), q.name ∉ l.map (·.name) →
          bindPos kw l [] = bindPos ((q.name, v) :: kw) l [] := by
        intro l
        induction l with
        | nil => intro _; rfl
        | cons r l ihl =>
          intro hr
          simp only [List.map_cons, List.mem_cons, not_or] at hr
          rw [bindPos, bindPos, ihl hr.2]
          have : (r.name == q.name) = false := by simpa using fun h => hr.1 h.symm
          simp [List.lookup_cons, this]
      rw [this ps hn.1]
      rfl
    | cons a args =>
      simp only [List.length_cons, List.getElem?_cons_succ] at hidx
      simp only [List.cons_append]
      rw [bindPos, bindPos]
      have hne : q.name ≠ p.name := by
        intro h
        have := List.mem_of_getElem? hidx
        exact hn.1 (h ▸ List.mem_map_of_mem this)
      have hb : (q.name == p.name) = false := by simpa using hne
      simp only [List.lookup_cons, hb]
      rw [ih args v kw p (fun r hr => hsub r (by simp [hr])) hn.2 hidx hpo hl]

theorem bindPos_given_none (kw : List (N × V)) (ps : List (Param N V T)) :
    ∀ (args : List V) (v : V) (p : Param N V T) (b : List V), ps[args.length]? = some p → p.posOnly = false →
    bindPos kw ps (args ++ [v]) = some b → kw.lookup p.name = none := by
  induction ps with
  | nil => intro args v p b h; simp at h
  | cons q ps ih =>
    intro args v p b hidx hpo hb
    cases args with
    | nil =>
      simp only [List.length_nil, List.getElem?_cons_zero, Option.some.injEq] at hidx
      subst hidx
      simp only [List.nil_append] at hb
      unfold bindPos at hb
      split at hb
      · cases hb
      · rename_i hc
        cases hl : kw.lookup q.name with
        | none => rfl
        | some _ => simp [hpo, hl] at hc
    | cons a args =>
      simp only [List.length_cons, List.getElem?_cons_succ] at hidx
      simp only [List.cons_append] at hb
      unfold bindPos at hb
      split at hb
      · cases hb
      · cases hb' : bindPos kw ps (args ++ [v]) with
        | none => simp [hb'] at hb
        | some b' => exact ih args v p b' hidx hpo hb'

theorem bindKos_cons_irrelevant (kw : List (N × V)) (k : N) (v : V) (ks : List (Param N V T))
    (h : k ∉ ks.map (·.name)) : bindKos ((k, v) :: kw) ks = bindKos kw ks := by
  induction ks with
  | nil => rfl
  | cons q ks ih =>
    simp only [List.map_cons, List.mem_cons, not_or] at h
    rw [bindKos, bindKos, ih h.2]
    have : (q.name == k) = false := by simpa using fun h' => h.1 h'.symm
    simp [List.lookup_cons, this]

/-- … on Python's whole binding … -/
theorem pyBindCore_pos_eq_name (s : Sig N V T) (hnd : ((s.pos ++ s.kos).map (·.name)).Nodup)
    (args : List V) (v : V) (kw : List (N × V)) (p : Param N V T)
    (hidx : s.pos[args.length]? = some p) (hpo : p.posOnly = false) (hl : kw.lookup p.name = none) :
    pyBindCore s (args ++ [v]) kw = pyBindCore s args ((p.name, v) :: kw) := by
  have hlt : args.length < s.pos.length := by
    rcases Nat.lt_or_ge args.length s.pos.length with h | h
    · exact h
    · rw [List.getElem?_eq_none h] at hidx; cases hidx
  have hpmem : p ∈ s.pos := List.mem_of_getElem? hidx
  rw [List.map_append, List.nodup_append] at hnd
  have hbp := pyBind_pos_eq_name s (by rw [List.map_append, List.nodup_append]; exact hnd) s.pos args v kw p
    (fun q hq => hq) hnd.1 hidx hpo hl
  have hbk : bindKos ((p.name, v) :: kw) s.kos = bindKos kw s.kos := by
    apply bindKos_cons_irrelevant
    intro hm
    exact hnd.2.2 _ (List.mem_map_of_mem hpmem) _ hm rfl
  have htgt : s.kwTarget p.name = true :=
    (kwTarget_iff s _).mpr ⟨p, (mem_kwParams s p).mpr (Or.inl ⟨hpmem, hpo⟩), rfl⟩
  unfold pyBindCore
  have c1 : (s.pos.length < (args ++ [v]).length) = False := by simp; omega
  have c2 : (s.pos.length < args.length) = False := by simp; omega
  have d1 : (args ++ [v]).drop s.pos.length = [] := List.drop_eq_nil_of_le (by simp; omega)
  have d2 : args.drop s.pos.length = [] := List.drop_eq_nil_of_le (by omega)
  simp only [c1, c2, hbp, hbk, d1, d2, List.filter_cons, htgt, Bool.not_true, Bool.false_eq_true, if_false]

theorem convArgs_snoc (W : World N V T) (vpT : Option T) (ps : List (Param N V T)) :
    ∀ (args : List V) (v : V) (p : Param N V T), ps[args.length]? = some p →
    Spec.convArgs W vpT ps (args ++ [v])
      = match Spec.convArgs W vpT ps args, Spec.convO W p.ann v with
        | some a, some v' => some (a ++ [v'])
        | _, _ => none := by
  induction ps with
  | nil => intro args v p h; simp at h
  | cons q ps ih =>
    intro args v p hidx
    cases args with
    | nil =>
      simp only [List.length_nil, List.getElem?_cons_zero, Option.some.injEq] at hidx
      subst hidx
      simp only [List.nil_append, Spec.convArgs]
      cases Spec.convO W q.ann v <;> simp [Spec.convArgs]
    | cons a args =>
      simp only [List.length_cons, List.getElem?_cons_succ] at hidx
      simp only [List.cons_append, Spec.convArgs, ih args v p hidx]
      cases Spec.convO W q.ann a <;> cases Spec.convArgs W vpT ps args <;> cases Spec.convO W p.ann v <;> simp

/-- **by position or by name**: a positional-or-keyword parameter passed as the next positional argument, or under its
own name, gives the same outcome (and by `C08_alias_equiv` under any accepted spelling). -/
theorem C08_by_name_eq_by_pos (W : World N V T) (hW : LowerIdem W) (s : Sig N V T) (wf : WF W s) (o : Opts)
    (args : List V) (v : V) (kw : List (N × V)) (p : Param N V T) (out : Outcome N V)
    (hidx : s.pos[args.length]? = some p) (hpo : p.posOnly = false) (hpriv : W.priv p.name = false)
    (hd : KnownDefect.privateKw W s kw = false) (ha : KnownDefect.privateAnnotated W s = false)
    (hexp : Spec.expected W s (args ++ [v]) kw = some out) :
    call W s o (args ++ [v]) kw = out ∧ call W s o args ((p.name, v) :: kw) = out := by
  have hpmem : p ∈ s.pos := List.mem_of_getElem? hidx
  have hkwp : p ∈ Spec.kwParams s := (mem_kwParams s p).mpr (Or.inl ⟨hpmem, hpo⟩)
  have hpf : p ∈ s.fields W := (mem_fields W s p).mpr ⟨List.mem_append_left _ hpmem, hpriv⟩
  have hne : p.name ∉ s.excludeVars W := by
    intro hm
    unfold Sig.excludeVars at hm
    have := (List.mem_filter.mp hm).2
    rw [hpriv] at this; cases this
  have hd' : KnownDefect.privateKw W s ((p.name, v) :: kw) = false := by
    unfold KnownDefect.privateKw at hd ⊢
    simp only [List.any_cons, hd, Bool.or_false]
    simpa using hne
  -- the name normalises to itself
  have hself : Spec.normKey W s p.name = p.name := by
    have hacc : Spec.accepted W p p.name = true := by unfold Spec.accepted; simp
    have hm : Matches W p p.name := (accepted_iff W hW p p.name).mp hacc
    exact (key_field W hW s wf p.name hne p (resolve_of_matches W hW s wf p.name p hpf hm) hpo).1
  have hnorm : Spec.normalise W s ((p.name, v) :: kw) = (p.name, v) :: Spec.normalise W s kw := by
    simp [Spec.normalise, hself]
  have hann : Spec.annOfKey s p.name = p.ann := annOfKey_field W hW s wf p hkwp
  have hexp0 := hexp
  unfold Spec.expected at hexp
  simp only at hexp
  cases hpb : Spec.pyBind s (args ++ [v]) (Spec.normalise W s kw) with
  | none => simp [hpb] at hexp
  | some b0 =>
    simp only [hpb] at hexp
    unfold Spec.pyBind at hpb
    split at hpb
    · rename_i hn
      obtain ⟨_, ⟨bp, hbp⟩, _, _⟩ := pyBindCore_some s _ _ b0 hpb
      have hl : (Spec.normalise W s kw).lookup p.name = none := bindPos_given_none _ s.pos args v p bp hidx hpo hbp
      have hnk : p.name ∉ (Spec.normalise W s kw).map (·.1) := (lookup_eq_none_iff_not_mem _ _).mp hl
      have hexp' : Spec.expected W s args ((p.name, v) :: kw) = some out := by
        unfold Spec.expected
        simp only [hnorm]
        have hpb' : Spec.pyBind s args ((p.name, v) :: Spec.normalise W s kw) = some b0 := by
          unfold Spec.pyBind
          have : (((p.name, v) :: Spec.normalise W s kw).map (·.1)).Nodup := by
            simp only [List.map_cons, List.nodup_cons]; exact ⟨hnk, hn⟩
          simp only [this, if_true]
          rw [← pyBindCore_pos_eq_name s wf.names_nodup args v _ p hidx hpo hl]; exact hpb
        simp only [hpb', Spec.convKw, hann]
        rw [convArgs_snoc W _ s.pos args v p hidx] at hexp
        cases hca : Spec.convArgs W (s.vp.bind (·.2)) s.pos args with
        | none => simp only [hca] at hexp ⊢; cases Spec.convO W p.ann v <;> simpa using hexp
        | some a =>
          cases hcv : Spec.convO W p.ann v with
          | none => simp only [hca, hcv] at hexp ⊢; simpa using hexp
          | some v' =>
            cases hck : Spec.convKw W s (Spec.normalise W s kw) with
            | none => simp only [hca, hcv, hck] at hexp ⊢; simpa using hexp
            | some ck =>
              simp only [hca, hcv, hck] at hexp ⊢
              have halen : a.length = args.length := convArgs_length W _ s.pos args a hca
              have hckl : ck.lookup p.name = none := by
                rw [lookup_eq_none_iff_not_mem, convKw_keys W s _ ck hck]; exact hnk
              rw [← pyBindCore_pos_eq_name s wf.names_nodup a v' ck p (by rw [halen]; exact hidx) hpo hckl]
              exact hexp
      exact ⟨C08_binding_partial W hW s wf o _ kw out hd ha hexp0,
        C08_binding_partial W hW s wf o args _ out hd' ha hexp'⟩
    · cases hpb

/-! ### class contexts: the reserved first parameter -/

/-- the outcome of the function without its first parameter, seen from the full declaration -/
def consFirst (a : V) : Outcome N V → Outcome N V
  | .body b => .body { b with pos := a :: b.pos }
  | .perr => .perr
  | .tyerr => .tyerr

theorem pyBindCore_cons (s' : Sig N V T) (r : Param N V T) (a : V) (args' : List V) (kw' : List (N × V))
    (hl : kw'.lookup r.name = none) :
    pyBindCore { s' with pos := r :: s'.pos } (a :: args') kw'
      = (pyBindCore s' args' kw').map (fun b => { b with pos := a :: b.pos }) := by
  have hne : ∀ e ∈ kw', (r.name == e.1) = false := by
    intro e he
    have := (lookup_eq_none_iff_not_mem kw' r.name).mp hl
    simp only [beq_eq_false_iff_ne, ne_eq]
    intro h
    exact this (h ▸ List.mem_map_of_mem he)
  have hfilter : kw'.filter (fun e => !({ s' with pos := r :: s'.pos } : Sig N V T).kwTarget e.1)
      = kw'.filter (fun e => !s'.kwTarget e.1) := by
    apply List.filter_congr
    intro e he
    simp [Sig.kwTarget, hne e he]
  unfold pyBindCore
  simp only [hfilter, List.length_cons, Nat.add_lt_add_iff_right, List.drop_succ_cons]
  rw [bindPos]
  simp only [hl, Option.isSome_none, Bool.and_false, Bool.false_eq_true, if_false]
  by_cases hlen : (s'.vp.isNone && decide (s'.pos.length < args'.length)) = true
  · simp [hlen]
  · simp only [hlen, Bool.false_eq_true, if_false]
    cases bindPos kw' s'.pos args' with
    | none => simp
    | some bp =>
      cases bindKos kw' s'.kos with
      | none => simp
      | some bk =>
        simp only [Option.map_some]
        split <;> simp

/-- the reserved-first-parameter step, for whichever way the first argument was found (`first`, the remaining
positional arguments `args1` and keywords `kw1`) -/
theorem reserved_core (W : World N V T) (hW : LowerIdem W) (full : Sig N V T) (r : Param N V T)
    (ps : List (Param N V T)) (o : Opts) (self : V) (args : List V) (kw : List (N × V)) (out : Outcome N V)
    (hpos : full.pos = r :: ps)
    (wf : WF W { full with pos := ps })
    (hr : ∀ p ∈ Spec.kwParams { full with pos := ps }, p.name ≠ r.name)
    (hrk : r.name ∉ kw.map (·.1))
    (hk : KnownDefect.privateKw W { full with pos := ps } kw = false)
    (ha : KnownDefect.privateAnnotated W { full with pos := ps } = false)
    (hexp : Spec.expected W { full with pos := ps } args kw = some out) :
    (match parseParamsD W { full with pos := ps } o args kw with
      | .error e => e.outcome
      | .ok (args', kw') => rawCall full (self :: args', kw')) = consFirst self out := by
  obtain ⟨s', hs'⟩ : ∃ s' : Sig N V T, s' = { full with pos := ps } := ⟨_, rfl⟩
  have hfull : full = { s' with pos := r :: s'.pos } := by
    rw [hs']; cases full; simp at hpos; simp [hpos]
  rw [← hs'] at wf hr hk ha hexp ⊢
  unfold Spec.expected at hexp
  simp only at hexp
  cases hpb : Spec.pyBind s' args (Spec.normalise W s' kw) with
  | none => simp [hpb] at hexp
  | some b0 =>
    simp only [hpb] at hexp
    have hcore := binding_core W hW s' wf o args kw b0 hk ha hpb
    unfold parseParamsD
    simp only [dupBound_false_of_bind W hW s' wf args kw b0 hk hpb, Bool.false_eq_true, if_false]
    have h1 : ∀ e ∈ kw, e.1 ∉ s'.excludeVars W := by
      intro e he hmem
      have : KnownDefect.privateKw W s' kw = true := by
        unfold KnownDefect.privateKw
        exact List.any_eq_true.mpr ⟨e, he, by simpa using hmem⟩
      rw [hk] at this; cases this
    cases hca : Spec.convArgs W (s'.vp.bind (·.2)) s'.pos args with
    | none =>
      simp only [hca] at hcore hexp
      cases hexp
      simp [hcore, consFirst, PErr.outcome]
    | some cas =>
      cases hck : Spec.convKw W s' (Spec.normalise W s' kw) with
      | none =>
        simp only [hca, hck] at hcore hexp
        cases hexp
        simp [hcore, consFirst, PErr.outcome]
      | some ck =>
        simp only [hca, hck] at hcore hexp
        obtain ⟨args', kw', hpp, hfin, hext⟩ := hcore
        simp only [hpp, rawCall]
        -- `self`'s name is not a key of what parse_params hands over
        have hnt : s'.kwTarget r.name = false := by
          cases ht : s'.kwTarget r.name with
          | false => rfl
          | true =>
            obtain ⟨p, hp, hn⟩ := (kwTarget_iff s' _).mp ht
            exact absurd hn (hr p hp)
        have hl : kw'.lookup r.name = none := by
          cases hh : kw'.lookup r.name with
          | none => rfl
          | some x =>
            exfalso
            have hmem := mem_of_lookup _ _ _ hh
            have hmf : (r.name, x) ∈ kw'.filter (fun e => !isTarget s' e) :=
              List.mem_filter.mpr ⟨hmem, by simp [isTarget, hnt]⟩
            rw [hext] at hmf
            have hkey : r.name ∈ ck.map (·.1) := List.mem_map_of_mem (List.mem_filter.mp hmf).1
            rw [convKw_keys W s' _ ck hck] at hkey
            simp only [Spec.normalise, List.map_map, List.mem_map, Function.comp] at hkey
            obtain ⟨e, he, hne⟩ := hkey
            -- a key normalises either to a keyword-capable parameter's name or to itself
            unfold Spec.normKey at hne
            split at hne
            · rename_i p hfind
              exact hr p (List.mem_of_find?_eq_some hfind) hne
            · exact hrk (hne ▸ List.mem_map_of_mem he)
        rw [hfull, pyBindCore_cons s' r self args' kw' hl, hfin]
        cases hb : pyBindCore s' cas ck with
        | none => simp [hb] at hexp
        | some b' =>
          simp only [hb, Option.map_some, Option.some.injEq] at hexp
          subst hexp
          simp [consFirst]

/-- what `get_params` + the raw call do once the first argument is known -/
theorem callDecl_reserved (W : World N V T) (c : Ctx) (full : Sig N V T) (r : Param N V T) (ps : List (Param N V T))
    (o : Opts) (args : List V) (kw : List (N × V))
    (hres : firstReserve c full = true) (hpos : full.pos = r :: ps) :
    callDecl W c full o args kw =
      match (match args with
        | a :: as => (a, as, kw)
        | [] => match kw.lookup r.name with
          | some v => (v, [], kw.filter (fun e => e.1 != r.name))
          | none => (W.noneV, [], kw)) with
      | (first, args1, kw1) =>
        match parseParamsD W { full with pos := ps } o args1 kw1 with
        | .error e => e.outcome
        | .ok (args', kw') =>
          if c.fromClass && !W.isInst first then .perr
          else rawCall full (first :: args', kw') := by
  have key : ∀ (first : V) (args1 : List V) (kw1 : List (N × V)),
      (match (match parseParamsD W { full with pos := ps } o args1 kw1 with
          | .error e => Except.error e
          | .ok (args', kw') =>
            if c.fromClass && !W.isInst first then Except.error PErr.perr
            else Except.ok (first :: args', kw')) with
        | .error e => (e.outcome : Outcome N V)
        | .ok ak => rawCall full ak)
      = match parseParamsD W { full with pos := ps } o args1 kw1 with
        | .error e => e.outcome
        | .ok (args', kw') =>
          if c.fromClass && !W.isInst first then .perr
          else rawCall full (first :: args', kw') := by
    intro first args1 kw1
    cases parseParamsD W { full with pos := ps } o args1 kw1 with
    | error e => rfl
    | ok ak =>
      obtain ⟨a', k'⟩ := ak
      by_cases hchk : (c.fromClass && !W.isInst first) = true <;> simp [hchk, PErr.outcome]
  unfold callDecl getParams
  rw [hres, hpos]
  simp only
  cases args with
  | cons a as => exact key a as kw
  | nil =>
    simp only
    cases kw.lookup r.name with
    | some v => exact key v [] _
    | none => exact key W.noneV [] kw

/-- **class contexts.**  When the decorated object reserves its first parameter (instance method, `classmethod`,
method of a class decorated as a whole), a call that passes `self`/`cls` first — an instance of the class, where the
class was decorated as a whole — behaves as the function without that parameter: same ParseError / same binding,
with the first argument handed through untouched. -/
theorem C08_method_binding (W : World N V T) (hW : LowerIdem W) (c : Ctx) (full : Sig N V T) (r : Param N V T)
    (ps : List (Param N V T)) (o : Opts) (self : V) (args : List V) (kw : List (N × V)) (out : Outcome N V)
    (hres : firstReserve c full = true) (hpos : full.pos = r :: ps)
    (hinst : c.fromClass = true → W.isInst self = true)
    (wf : WF W { full with pos := ps })
    (hr : ∀ p ∈ Spec.kwParams { full with pos := ps }, p.name ≠ r.name)
    (hrk : r.name ∉ kw.map (·.1))
    (hk : KnownDefect.privateKw W { full with pos := ps } kw = false)
    (ha : KnownDefect.privateAnnotated W { full with pos := ps } = false)
    (hexp : Spec.expected W { full with pos := ps } args kw = some out) :
    callDecl W c full o (self :: args) kw = consFirst self out := by
  rw [callDecl_reserved W c full r ps o (self :: args) kw hres hpos]
  have hchk : (c.fromClass && !W.isInst self) = false := by
    cases hc : c.fromClass with
    | false => rfl
    | true => simp [hinst hc]
  simp only [hchk, Bool.false_eq_true, if_false]
  exact reserved_core W hW full r ps o self args kw out hpos wf hr hrk hk ha hexp

/-- **`self` by keyword** (fix C08-reserve-kw): with no positional argument, the reserved first parameter passed under
its own name is bound the same way — the call behaves as the function without that parameter on the remaining
keywords -/
theorem C08_method_binding_self_kw (W : World N V T) (hW : LowerIdem W) (c : Ctx) (full : Sig N V T)
    (r : Param N V T) (ps : List (Param N V T)) (o : Opts) (self : V) (kw : List (N × V)) (out : Outcome N V)
    (hres : firstReserve c full = true) (hpos : full.pos = r :: ps)
    (hself : kw.lookup r.name = some self)
    (hinst : c.fromClass = true → W.isInst self = true)
    (wf : WF W { full with pos := ps })
    (hr : ∀ p ∈ Spec.kwParams { full with pos := ps }, p.name ≠ r.name)
    (hk : KnownDefect.privateKw W { full with pos := ps } (kw.filter (fun e => e.1 != r.name)) = false)
    (ha : KnownDefect.privateAnnotated W { full with pos := ps } = false)
    (hexp : Spec.expected W { full with pos := ps } [] (kw.filter (fun e => e.1 != r.name)) = some out) :
    callDecl W c full o [] kw = consFirst self out := by
  rw [callDecl_reserved W c full r ps o [] kw hres hpos]
  simp only [hself]
  have hchk : (c.fromClass && !W.isInst self) = false := by
    cases hc : c.fromClass with
    | false => rfl
    | true => simp [hinst hc]
  simp only [hchk, Bool.false_eq_true, if_false]
  refine reserved_core W hW full r ps o self [] _ out hpos wf hr ?_ hk ha hexp
  intro hmem
  obtain ⟨e, he, hn⟩ := List.mem_map.mp hmem
  have := (List.mem_filter.mp he).2
  simp [hn] at this

/-- **a first argument that is not an instance** of the class decorated as a whole is refused with a ParseError
(InvalidInstance / InvalidSubclass) before the function is called, whenever the other parameters parse -/
theorem C08_method_invalid_instance (W : World N V T) (c : Ctx) (full : Sig N V T) (r : Param N V T)
    (ps : List (Param N V T)) (o : Opts) (first : V) (args : List V) (kw : List (N × V))
    (hres : firstReserve c full = true) (hpos : full.pos = r :: ps)
    (hfc : c.fromClass = true) (hinst : W.isInst first = false)
    (hdup : dupBound W { full with pos := ps } args kw = false) :
    callDecl W c full o (first :: args) kw = .perr := by
  rw [callDecl_reserved W c full r ps o (first :: args) kw hres hpos]
  simp only [hfc, hinst, Bool.not_false, Bool.and_self, if_true]
  unfold parseParamsD
  simp only [hdup, Bool.false_eq_true, if_false]
  cases parseParams W { full with pos := ps } o args kw with
  | error e => rfl
  | ok ak => rfl

/-- **static contexts**: a `staticmethod` object reserves nothing — the call is the plain function's, to which
`C08_binding_partial` applies as it stands -/
theorem C08_static_binding (W : World N V T) (c : Ctx) (full : Sig N V T) (o : Opts) (args : List V)
    (kw : List (N × V)) (hs : c.isStatic = true) (hc : c.isClassm = false) :
    callDecl W c full o args kw = call W full o args kw := by
  have : firstReserve c full = false := by unfold firstReserve; simp [hs, hc]
  unfold callDecl getParams call rawCall
  rw [this]
  cases parseParamsD W full o args kw with
  | error e => rfl
  | ok ak => rfl

/-! ### the result -/

theorem parseResult_eq (W : World N V T) (ret : Option T) (r : V) :
    parseResult W ret r = match Spec.convO W ret r with
      | some v => .ok v
      | none => .perr := by
  unfold parseResult
  rw [convBy_eq]
  cases Spec.convO W ret r <;> rfl

theorem finish_eq_result (W : World N V T) (ret : Option T) (body : Binding N V → V) (out : Outcome N V) :
    finish W ret body out = Spec.result W ret body out := by
  cases out with
  | body b =>
    simp only [finish, Spec.result, parseResult_eq]
    cases Spec.convO W ret (body b) <;> rfl
  | perr => rfl
  | tyerr => rfl

/-- **the returned value** (synchronous call).  For every body (any function of the binding it receives) and every
return annotation: when Python binds the call, the caller of the decorated function gets the result of the body —
run on Python's binding of the converted call — converted to the return annotation; a result that does not convert
is a ParseError (the body has run); a parameter that does not convert is a ParseError without the body.  Same
hypotheses as `C08_binding_partial`. -/
theorem C08_call_result (W : World N V T) (hW : LowerIdem W) (s : Sig N V T) (wf : WF W s) (o : Opts)
    (ret : Option T) (body : Binding N V → V) (args : List V) (kw : List (N × V)) (out : Outcome N V)
    (hk : KnownDefect.privateKw W s kw = false) (ha : KnownDefect.privateAnnotated W s = false)
    (hexp : Spec.expected W s args kw = some out) :
    finish W ret body (call W s o args kw) = Spec.result W ret body out := by
  rw [C08_binding_partial W hW s wf o args kw out hk ha hexp, finish_eq_result]

/-- … for a method (reserved first parameter passed positionally) -/
theorem C08_method_result (W : World N V T) (hW : LowerIdem W) (c : Ctx) (full : Sig N V T) (r : Param N V T)
    (ps : List (Param N V T)) (o : Opts) (ret : Option T) (body : Binding N V → V) (self : V) (args : List V)
    (kw : List (N × V)) (out : Outcome N V)
    (hres : firstReserve c full = true) (hpos : full.pos = r :: ps)
    (hinst : c.fromClass = true → W.isInst self = true)
    (wf : WF W { full with pos := ps })
    (hr : ∀ p ∈ Spec.kwParams { full with pos := ps }, p.name ≠ r.name)
    (hrk : r.name ∉ kw.map (·.1))
    (hk : KnownDefect.privateKw W { full with pos := ps } kw = false)
    (ha : KnownDefect.privateAnnotated W { full with pos := ps } = false)
    (hexp : Spec.expected W { full with pos := ps } args kw = some out) :
    callR W c full o ret body (self :: args) kw = Spec.result W ret body (consFirst self out) := by
  unfold callR
  rw [C08_method_binding W hW c full r ps o self args kw out hres hpos hinst wf hr hrk hk ha hexp, finish_eq_result]

/-- what awaiting the object returned by a decorated coroutine function gives (an exception at call time counts) -/
def CoroRet.result : CoroRet N V → Ret N V
  | .raisedAtCall .perr => .perr
  | .raisedAtCall .tyerr => .tyerr
  | .awaited r => r

/-- **coroutines.**  A decorated coroutine function — eager or not — gives, once awaited, exactly what the
synchronous call of the same declaration gives (binding, converted result, errors), so every binding / result theorem
carries over; the lazy wrapper raises nothing before the await, the eager one raises at call time exactly the errors
of `get_params` (the parameters' ParseErrors, the duplicate check's TypeError), never the raw call's TypeError or the
result's ParseError. -/
theorem C08_coroutine_result (W : World N V T) (c : Ctx) (full : Sig N V T) (o : Opts) (ret : Option T)
    (body : Binding N V → V) (args : List V) (kw : List (N × V)) (eager : Bool) :
    (coroCall eager W c full o ret body args kw).result = callR W c full o ret body args kw ∧
    (∀ e, coroCall false W c full o ret body args kw ≠ .raisedAtCall e) ∧
    ((∃ e, coroCall true W c full o ret body args kw = .raisedAtCall e) ↔
      (getParams W c full o args kw).isOk = false) := by
  unfold coroCall callR callDecl
  cases hg : getParams W c full o args kw with
  | error e =>
    refine ⟨?_, ?_, ?_⟩
    · cases eager <;> cases e <;> simp [CoroRet.result, finish, PErr.outcome]
    · simp
    · simp [Except.isOk, Except.toBool]
  | ok ak =>
    refine ⟨?_, ?_, ?_⟩
    · simp [CoroRet.result]
    · simp
    · simp [Except.isOk, Except.toBool]

/-! ### every way a `Param` can be attached -/

/-- **the Param is found wherever it stands in the metadata**: `Annotated[T, "doc", …, Param(...), …]` and a nested
`Annotated[Annotated[T, "doc"], Param(...)]` (which `typing` flattens to the same list) declare the same field as
`Annotated[T, Param(...)]` — its constraints, alias and alias_from apply -/
theorem C08_annotated_param_found {S : Type} (docs rest : List (Meta S)) (s : S)
    (h : ∀ m ∈ docs, m = Meta.other) : findParam (docs ++ .param s :: rest) = some s := by
  induction docs with
  | nil => rfl
  | cons m docs ih =>
    have hm : m = Meta.other := h m (by simp)
    subst hm
    simpa [findParam] using ih (fun x hx => h x (by simp [hx]))

/-! ### the decorator's Options and `**kwargs` -/

/-- **the declaration wins**: whatever `addition` the decorator's Options carry — unset, False, True, a type, or the
False implied by `no_data_loss` — a declared `**kwargs: T` receives the additional keys converted to `T`
(func.py:242-249 appends the implicit `Options(addition=T or True)` after the user's options).  Together with
`C08_binding_partial`, which is stated for every `Opts` (`addition`, `noDataLoss`, `ignoreRequired`,
`data_first_search`, `ignore_alias_conflicts`), a call Python binds reaches the body with its `**kwargs` values
converted to the annotation under all of these options. -/
theorem C08_kwargs_declaration_wins (s : Sig N V T) (o : Opts) (n : N) (t : Option T) (h : s.vk = some (n, t)) :
    effAddition s o = .allow t := effAddition_vk s o n t h

/-- without `**kwargs` the decorator's value stands: unknown keys are dropped (unset), refused (False / no_data_loss),
and a truthy value is rejected when the function is decorated -/
theorem C08_no_kwargs_addition (s : Sig N V T) (o : Opts) (h : s.vk = none) :
    (o.userAddition = none → effAddition s o = .drop) ∧
    (o.userAddition = some false → effAddition s o = .deny) ∧
    (o.userAddition = some true → declOk s o = false) := by
  refine ⟨?_, ?_, ?_⟩ <;> intro hu
  · unfold effAddition; rw [h, hu]
  · unfold effAddition; rw [h, hu]
  · unfold declOk; rw [h, hu]; rfl

/-- the other merge order (the user's options applied on top of the implicit one): `no_data_loss` would refuse every
additional key of a function that declares `**kwargs` -/
def effAdditionUserLast (s : Sig N V T) (o : Opts) : Addition T :=
  match o.userAddition with
  | some false => .deny
  | some true => .allow none
  | none => match s.vk with
    | some (_, t) => .allow t
    | none => .drop

/-- non-vacuity of `C08_method_binding` / `C08_method_result`: `def m(cls, a: T = 3)` as a classmethod object, called
`m(77, a=2)`; and `self` by keyword on a method of a class decorated as a whole -/
def sM : Sig Nat Nat Nat := { pos := [{ name := 900 }, { name := 3, ann := some 0, dflt := some 3 }] }

/-! ### witnesses: the full statement is false of the code, the hypotheses are satisfiable -/

/-- a concrete world: names, values and types are numbers; names ≥ 1000 are private; `lower` folds 500-999 onto
0-499; the transformer accepts values below 50 and adds 100 (so a conversion is visible and can fail) -/
def W₁ : World Nat Nat Nat where
  conv := fun _ v => if v < 50 then some (v + 100) else none
  priv := fun n => decide (1000 ≤ n)
  lower := fun n => if 500 ≤ n ∧ n < 1000 then n - 500 else n
  noneV := 0
  isInst := fun v => decide (70 ≤ v)

theorem W₁_lowerIdem : LowerIdem W₁ := by
  intro n
  simp only [W₁]
  by_cases h : 500 ≤ n ∧ n < 1000
  · have h2 : ¬ (500 ≤ n - 500 ∧ n - 500 < 1000) := by omega
    simp [h, h2]
  · simp [h]

/-- `def f(_x=1)`: Python binds `f(_x=7)` with `_x = 7`; the decorated function runs its body with `_x = 1` -/
def sPrivKw : Sig Nat Nat Nat := { pos := [{ name := 1000, dflt := some 1 }] }

theorem C08_private_kw_dropped_witness :
    Spec.expected W₁ sPrivKw [] [(1000, 7)] = some (.body ⟨[7], [], [], []⟩) ∧
    call W₁ sPrivKw {} [] [(1000, 7)] = .body ⟨[1], [], [], []⟩ ∧
    KnownDefect.privateKw W₁ sPrivKw [(1000, 7)] = true := by decide

/-- … and where unknown keys are refused (`Options(no_data_loss=True)` / `addition=False`, no `**kwargs`) the same
keyword is refused with an ExceedError instead of being ignored: the call Python binds does not reach the body -/
theorem C08_private_kw_refused_witness :
    Spec.expected W₁ sPrivKw [] [(1000, 7)] = some (.body ⟨[7], [], [], []⟩) ∧
    call W₁ sPrivKw { noDataLoss := true } [] [(1000, 7)] = .perr ∧
    call W₁ sPrivKw { addition := some false } [] [(1000, 7)] = .perr := by decide

/-- `parse_params` before fix C06-dup-positional-keyword (96c9822): no duplicate check in front -/
def callBeforeDupCheck (W : World N V T) (s : Sig N V T) (o : Opts) (args : List V) (kw : List (N × V)) :
    Outcome N V :=
  match parseParams W s o args kw with
  | .error _ => .perr
  | .ok (args', kw') =>
    match pyBindCore s args' kw' with
    | none => .tyerr
    | some b => .body b

/-- `def f(a, **kw)`: `f(1, a=2)` — Python refuses the call ("got multiple values for argument 'a'").  Before the
fix, field-first did too (the duplicate landed in `**kw` and the raw call raised the same TypeError) but data-first
skipped the keyword of an already parsed field and ran the body with `a = 1`, and without `**kwargs` both strategies
ignored the duplicate.  Now the duplicate check answers as Python does, under either strategy, with or without
`**kwargs`.  (The specification is silent: Python does not bind the call.) -/
def sDup : Sig Nat Nat Nat := { pos := [{ name := 1 }], vk := some (8, none) }

theorem C08_legacy_dup_positional_keyword_witness :
    Spec.expected W₁ sDup [1] [(1, 2)] = none ∧
    callBeforeDupCheck W₁ sDup { dfs := some false } [1] [(1, 2)] = .tyerr ∧
    callBeforeDupCheck W₁ sDup { dfs := some true } [1] [(1, 2)] = .body ⟨[1], [], [], []⟩ ∧
    callBeforeDupCheck W₁ { sDup with vk := none } { dfs := some false } [1] [(1, 2)] = .body ⟨[1], [], [], []⟩ ∧
    callBeforeDupCheck W₁ { sDup with vk := none } { dfs := some true } [1] [(1, 2)] = .body ⟨[1], [], [], []⟩ ∧
    call W₁ sDup { dfs := some false } [1] [(1, 2)] = .tyerr ∧
    call W₁ sDup { dfs := some true } [1] [(1, 2)] = .tyerr ∧
    call W₁ { sDup with vk := none } { dfs := some false } [1] [(1, 2)] = .tyerr ∧
    call W₁ { sDup with vk := none } { dfs := some true } [1] [(1, 2)] = .tyerr := by decide

/-- `def f(_x: int)`: the property wants `f(7)` converted (`107` in this world); the body gets the raw `7` -/
def sPrivAnn : Sig Nat Nat Nat := { pos := [{ name := 1000, ann := some 0 }] }

theorem C08_private_unparsed_witness :
    Spec.expected W₁ sPrivAnn [7] [] = some (.body ⟨[107], [], [], []⟩) ∧
    call W₁ sPrivAnn {} [7] [] = .body ⟨[7], [], [], []⟩ ∧
    KnownDefect.privateAnnotated W₁ sPrivAnn = true := by decide

/-- `def f(a: T, _p=9, b: T = Param(5, alias=600, case_insensitive=True), /, c: T = 3, *args: T, d, **kw: T)` -/
def sDemo : Sig Nat Nat Nat :=
  { pos := [{ name := 1, posOnly := true, ann := some 0 },
            { name := 1001, posOnly := true, dflt := some 9 },
            { name := 2, posOnly := true, ann := some 0, dflt := some 5 },
            { name := 3, ann := some 0, dflt := some 3, alias := some 600, ci := true }],
    vp := some (7, some 0),
    kos := [{ name := 4 }],
    vk := some (8, some 0) }

theorem sDemo_wf : WF W₁ sDemo :=
  ⟨by decide, by decide, by decide, by decide, by decide, by decide⟩

/-- non-vacuity: the hypotheses of `C08_binding_partial` hold together, on a call that omits a private and a
positional-only default, spells a parameter by an upper-case alias and carries an extra keyword, under both search
strategies; the expected outcome is a real binding -/
example :
    WF W₁ sDemo ∧ LowerIdem W₁ ∧ KnownDefect.privateAnnotated W₁ sDemo = false ∧
    KnownDefect.privateKw W₁ sDemo [(100, 2), (4, 60), (20, 1)] = false ∧
    Spec.expected W₁ sDemo [10] [(100, 2), (4, 60), (20, 1)]
      = some (.body ⟨[110, 9, 5, 102], [], [60], [(20, 101)]⟩) ∧
    call W₁ sDemo {} [10] [(100, 2), (4, 60), (20, 1)] = .body ⟨[110, 9, 5, 102], [], [60], [(20, 101)]⟩ ∧
    call W₁ sDemo { dfs := some true } [10] [(100, 2), (4, 60), (20, 1)]
      = .body ⟨[110, 9, 5, 102], [], [60], [(20, 101)]⟩ :=
  ⟨sDemo_wf, W₁_lowerIdem, by decide, by decide, by decide, by decide, by decide⟩

/-- … and a value that does not convert stops the call before the body -/
example : Spec.expected W₁ sDemo [70] [(4, 1)] = some .perr ∧ call W₁ sDemo {} [70] [(4, 1)] = .perr := by decide

/-! ### why the forwarding test must be `is not None` -/

/-- a forwarder that tests truthiness (`gen.send(sent) if sent else next(gen)`) instead: 0 counts as "nothing sent" -/
def truthyIsNone : Option Nat → Bool
  | none => true
  | some v => v == 0

/-- with a truthiness test a sent 0 reaches the raw generator as `next()`: the running generator `demoStep'` (which
ends when resumed with None) stops early — `[0, stop]` where the undecorated generator gives `[0, 100, 205, stop]` -/
def demoStep' (k : Nat) (inp : Option Nat) : Step Nat Nat :=
  match k, inp with
  | 0, _ => .yield 0 1
  | _, none => .ret none
  | k + 1, some x => .yield (100 * (k + 1) + x) (k + 2)

/-! ### the asynchronous wrappers before the fix -/

/-- a raw generator that yields `100·k + (what it was resumed with)` four times -/
def demoStep (k : Nat) (inp : Option Nat) : Step Nat Nat :=
  if k < 4 then .yield (100 * k + inp.getD 0) (k + 1) else .ret none

def W₂ : World Nat Nat Nat := { W₁ with conv := fun _ v => some v }

/-- Pre-fix `async_from_generator`: the value yielded in response to `asend` is dropped and the raw generator is
resumed once more with None — the caller sees `[0, 200, stop]` where the undecorated generator gives
`[0, 101, 202, 303]`; the repaired wrapper (`wrapTrace`) agrees with the specification. -/
theorem C08_legacy_asend_witness :
    legacyAsyncTrace W₂ {} demoStep 0 [some 1, some 2, some 3] = [.yielded 0, .yielded 200, .returned none] ∧
    Spec.pointwise W₂ {} demoStep 0 none [some 1, some 2, some 3]
      = [.yielded 0, .yielded 101, .yielded 202, .yielded 303] ∧
    wrapTrace W₂ {} demoStep 0 none [some 1, some 2, some 3]
      = [.yielded 0, .yielded 101, .yielded 202, .yielded 303] := by decide

theorem C08_truthy_forward_witness :
    lazyTrace W₂ {} demoStep' truthyIsNone 0 none [some 0, some 5, none] = [.yielded 0, .returned none] ∧
    lazyTrace W₂ {} demoStep' pyIsNone 0 none [some 0, some 5, none]
      = [.yielded 0, .yielded 100, .yielded 205, .returned none] ∧
    Spec.pointwise W₂ {} demoStep' 0 none [some 0, some 5, none]
      = [.yielded 0, .yielded 100, .yielded 205, .returned none] := by decide

/-- a generator that yields 0, then — whatever it is resumed with — hands over to one that yields 50 and echoes -/
def demoRaw (k : Nat) (inp : Option Nat) : RawStep Nat Nat :=
  match k with
  | 0 => .yield 0 1
  | 1 => .delegate 10
  | 10 => .yield 50 11
  | 11 => .yield (60 + inp.getD 0) 12
  | _ => .ret none

/-- Without clearing the pending sent value at a hand-over (sync_from_generator before fix C08-sync-delegate-sent; the
async wrapper with the reset removed) a value sent just before the hand-over is sent again to the just-started
generator and CPython's TypeError escapes; with the reset the trace is the specification's.  Without a previous send
both agree. -/
theorem C08_delegation_sent_witness :
    wrapTrace W₂ {} (hop false demoRaw 5) 0 none [some 3, some 4] = [.yielded 0, .escaped] ∧
    wrapTrace W₂ {} (hop true demoRaw 5) 0 none [some 3, some 4] = [.yielded 0, .yielded 50, .yielded 64] ∧
    Spec.pointwise W₂ {} (Spec.flat demoRaw 5) 0 none [some 3, some 4] = [.yielded 0, .yielded 50, .yielded 64] ∧
    wrapTrace W₂ {} (hop false demoRaw 5) 0 none [none, some 4] = [.yielded 0, .yielded 50, .yielded 64] := by
  decide

/-- the binding of the demo call is the same under every decorator-level option the model knows, and the `**kwargs`
value arrives converted (`(20, 101)`); with the user's options merged last instead, `no_data_loss` / `addition=False`
would refuse the key and `addition=True` would drop the annotation -/
theorem C08_options_witness :
    (∀ o ∈ ([{ noDataLoss := true }, { addition := some false }, { addition := some true },
             { noDataLoss := true, addition := some true, ignoreRequired := true, dfs := none },
             { ignoreRequired := true, dfs := some true }] : List Opts),
      call W₁ sDemo o [10] [(100, 2), (4, 60), (20, 1)] = .body ⟨[110, 9, 5, 102], [], [60], [(20, 101)]⟩) ∧
    (match effAdditionUserLast sDemo { noDataLoss := true } with | .deny => true | _ => false) = true ∧
    (match effAdditionUserLast sDemo { addition := some true } with | .allow none => true | _ => false) = true ∧
    (match effAddition sDemo { noDataLoss := true } with | .allow (some 0) => true | _ => false) = true := by
  decide

/-! ### non-vacuity of the class-context theorems -/

def sMtail : Sig Nat Nat Nat := { sM with pos := [{ name := 3, ann := some 0, dflt := some 3 }] }

theorem sMtail_wf : WF W₁ sMtail := ⟨by decide, by decide, by decide, by decide, by decide, by decide⟩

/-- `C08_method_binding` applied: `m(77, a=2)` on a classmethod object -/
example : callDecl W₁ { isClassm := true } sM {} [77] [(3, 2)] = consFirst 77 (.body ⟨[102], [], [], []⟩) :=
  C08_method_binding W₁ W₁_lowerIdem { isClassm := true } sM { name := 900 } _ {} 77 [] [(3, 2)] _
    (by decide) rfl (by decide) sMtail_wf (by decide) (by decide) (by decide) (by decide) (by decide)

/-- `C08_method_binding_self_kw` applied: a method of a class decorated as a whole, `self` passed by keyword -/
example : callDecl W₁ { fromClass := true } sM {} [] [(900, 77), (3, 2)]
    = consFirst 77 (.body ⟨[102], [], [], []⟩) :=
  C08_method_binding_self_kw W₁ W₁_lowerIdem { fromClass := true } sM { name := 900 } _ {} 77 [(900, 77), (3, 2)] _
    (by decide) rfl (by decide) (by decide) sMtail_wf (by decide) (by decide) (by decide) (by decide)

/-- … and a first argument that is not an instance (5) is refused before the body; the result of a method call and of
the coroutine variants, computed -/
example :
    callDecl W₁ { fromClass := true } sM {} [5] [(3, 2)] = .perr ∧
    callR W₁ { isClassm := true } sM {} (some 0) (fun b => b.pos.length) [77] [(3, 2)]
      = .returned ⟨[77, 102], [], [], []⟩ 102 ∧
    coroCall true W₁ { isClassm := true } sM {} (some 0) (fun _ => 60) [77] [(3, 2)]
      = .awaited (.resultErr ⟨[77, 102], [], [], []⟩) ∧
    coroCall true W₁ { isClassm := true } sM {} (some 0) (fun _ => 1) [77] [(3, 70)] = .raisedAtCall .perr ∧
    coroCall false W₁ { isClassm := true } sM {} (some 0) (fun _ => 1) [77] [(3, 70)] = .awaited .perr := by decide

end Utv.C08
