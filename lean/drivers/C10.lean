import Utv.Model.C10
import Utv.Util.J
/-! Line-protocol driver for C10: runs the Lean model (`Utv.C10.run`, `failsAlone`, the context
operations) on one JSON case per line.  See harness/c10.py for the case format. -/
open Lean Utv.J Utv.C10

partial def decVal (j : Json) : Val :=
  match obj? j "l" with
  | some x => .seq 0 ((arr! x).map decVal)
  | none =>
  match obj? j "t" with
  | some x => .seq 1 ((arr! x).map decVal)
  | none =>
  match obj? j "m" with
  | some x => .map ((arr! x).map fun p => match arr! p with
      | [k, v] => (decVal k, decVal v) | _ => (.atom "?", .atom "?"))
  | none => .atom j.compress

partial def encVal : Val → Json
  | .atom a => (Json.parse a).toOption.getD (Json.str a)
  | .seq 0 xs => Json.mkObj [("l", Json.arr (xs.map encVal).toArray)]
  | .seq _ xs => Json.mkObj [("t", Json.arr (xs.map encVal).toArray)]
  | .map kvs => Json.mkObj [("m", Json.arr (kvs.map fun (k, v) => Json.arr #[encVal k, encVal v]).toArray)]

def decPolicy (j : Json) : Option Policy :=
  match j with
  | .str "throw" => some .throw
  | .str "exclude" => some .exclude
  | .str "preserve" => some .preserve
  | _ => none

partial def decTy (j : Json) : Ty :=
  match obj? j "leaf" with
  | some t => .leaf (nat! t)
  | none =>
  match obj? j "rule" with
  | some r =>
    let kind := match str! (fld r "kind") with
      | "seq" => ArgKind.seq (nat! (fld r "tag"))
      | "tuple" => .tuple
      | "map" => .map
      | _ => .none
    .rule (decTy (fld r "origin")) kind ((arr! (fld r "args")).map decTy) ((arr! (fld r "cons")).map nat!)
  | none =>
    let op := match str! (fld j "comb") with
      | "&" => Comb.all | "|" => .any | "^" => .one | _ => .neg
    .comb op ((arr! (fld j "args")).map decTy)

def decOptBool (j : Json) : Option Bool :=
  match j with
  | .bool b => some b
  | _ => none

def decAddition (j : Json) : Addition :=
  match j with
  | .bool true => .yes
  | .bool false => .no
  | _ => match obj? j "typed" with
    | some t => .typed (decTy t)
    | none => .none

def decOpts (j : Json) : Opts :=
  { ndl := bool! (fld j "ndl"), nec := bool! (fld j "nec"), addition := decAddition (fld j "addition"),
    addTy := if isNull (fld j "addTy") then none else some (decTy (fld j "addTy")),
    invalidItems := (decPolicy (fld j "invalid_items")).getD .throw,
    invalidKeys := (decPolicy (fld j "invalid_keys")).getD .throw,
    invalidValues := (decPolicy (fld j "invalid_values")).getD .throw,
    dfs := bool! (fld j "dfs"),
    maxParams := optNat (fld j "max_params"), minParams := optNat (fld j "min_params") }

def decField (j : Json) : FieldDecl :=
  { name := str! (fld j "name"),
    ty := if isNull (fld j "ty") then none else some (decTy (fld j "ty")),
    required := bool! (fld j "required"),
    default := (obj? j "default").map decVal,
    onError := decPolicy (fld j "on_error"),
    deps := (arr! (fld j "deps")).map str!,
    posOnly := bool! (fld j "posOnly") }

def decProp (j : Json) : PropDecl :=
  { name := str! (fld j "name"),
    ty := if isNull (fld j "ty") then none else some (decTy (fld j "ty")),
    onError := decPolicy (fld j "on_error"),
    src := match obj? j "field" with
      | some n => .field (str! n)
      | none => .const (decVal (fld j "const")) }

def decMode (j : Json) : Mode :=
  match arr! j with
  | [c, m] => { collect := bool! c, maxErrors := optNat m }
  | _ => Mode.ff

def kindName : Kind → String
  | .parse => "ParseError" | .absence => "AbsenceError" | .exceed => "ExceedError"
  | .tupleExceed => "TupleExceedError" | .constraint => "ConstraintError" | .oneOf => "OneOfViolatedError"
  | .negate => "NegateViolatedError" | .collected => "CollectedParseError" | .other => "other"
  | .paramsExceed => "ParamsExceedError" | .paramsLack => "ParamsLackError" | .depsAbsence => "DependenciesAbsenceError"

def encErr (e : Err) : Json :=
  Json.arr #[Json.str (kindName e.kind), match e.item with | some i => Json.str i | none => Json.null]

def encData (d : Data) : Json :=
  Json.arr (d.map fun (k, v) => Json.arr #[Json.str k, encVal v]).toArray

def encRes (enc : α → Json) : Res α → Json
  | .ok r => Json.mkObj [("ok", enc r)]
  | .error (.raw e) => Json.mkObj [("err", Json.str "raw"), ("errors", Json.arr #[encErr e])]
  | .error (.collected es) => Json.mkObj [("err", Json.str "collected"), ("errors", Json.arr (es.map encErr).toArray)]

/-- the concrete validators of the correspondence run: bounds on ints, lengths of str/list/tuple/dict -/
def atomInt (a : String) : Option Int :=
  match Json.parse a with
  | .ok (.bool b) => some (if b then 1 else 0)      -- bool is an int in Python
  | .ok j => match obj? j "i" with
    | some (.str s) => s.toInt?
    | _ => none
  | _ => none

def valLen (v : Val) : Option Nat :=
  match v with
  | .seq _ xs => some xs.length
  | .map kvs => some kvs.length
  | .atom a =>
    -- `len(value)`, or `len(str(value))` for a value without `__len__` (rule.py:1030-1080)
    match Json.parse a with
    | .ok (.bool b) => some (if b then 4 else 5)
    | .ok .null => some 4
    | .ok j =>
      match obj? j "s" with
      | some (.str s) => some s.length
      | _ =>
        match obj? j "i" with
        | some (.str s) => some s.length
        | _ =>
          match obj? j "f" with
          | some (.str s) => some s.length
          | _ => none
    | _ => none

def checkCons (cons : List (String × Int)) (k : Nat) (v : Val) : Option Val :=
  match cons[k]? with
  | none => none
  | some (name, b) =>
    let num (p : Int → Bool) : Option Val := match v with
      | .atom a => match atomInt a with
        | some i => if p i then some v else none
        | none => none
      | _ => none
    let len (p : Nat → Bool) : Option Val := match valLen v with
      | some n => if p n then some v else none
      | none => none
    match name with
    | "gt" => num (fun i => i > b)
    | "ge" => num (fun i => i ≥ b)
    | "lt" => num (fun i => i < b)
    | "le" => num (fun i => i ≤ b)
    | "min_length" => len (fun n => (n : Int) ≥ b)
    | "max_length" => len (fun n => (n : Int) ≤ b)
    | "length" => len (fun n => (n : Int) = b)
    | _ => none

structure Tables where
  conv : List ((Bool × Bool × Nat) × Val × Option Val)
  exact : List (Nat × Val)
  cons : List (String × Int)

def decTables (j : Json) : Tables :=
  { conv := (arr! (fld j "conv")).map fun p => match arr! p with
      | [a, b, t, k, r] => ((bool! a, bool! b, nat! t), decVal k, if isNull r then none else some (decVal (fld r "v")))
      | _ => ((false, false, 0), .atom "?", none)
    exact := (arr! (fld j "exact")).map fun p => match arr! p with
      | [t, k] => (nat! t, decVal k) | _ => (0, .atom "?")
    cons := (arr! (fld j "constraints")).map fun p => match arr! p with
      | [n, b] => (str! n, int! b) | _ => ("", 0) }

def missVal : Val := .atom "\"<prim-miss>\""

/-- the world of one case; a conversion the harness did not supply answers `onMiss` -/
def mkWorld (T : Tables) (onMiss : Option Val) : World :=
  { conv := fun a b t v =>
      if v == missVal then onMiss else
      match T.conv.find? (fun e => e.1 == (a, b, t) && e.2.1 == v) with
      | some e => e.2.2
      | none => onMiss
    exact := fun t v => T.exact.any (fun e => e.1 == t && e.2 == v)
    check := fun k v => if v == missVal then some v else checkCons T.cons k v
    isNone := fun v => v == .atom "null" }

def fuel : Nat := 40

/-- ops on a bare context (correspondence of the RuntimeContext methods themselves) -/
def ctxOps (m : Mode) (ops : List Json) : Json :=
  let step := fun (st : Ctx × List Json) (op : Json) =>
    let c := st.1
    let outs := st.2
    let errs (c : Ctx) := Json.mkObj [("errors", Json.arr (c.errors.map encErr).toArray), ("tmp", Json.arr (c.tmp.map encErr).toArray)]
    let raised (x : Option Exc) : Json := match x with
      | none => Json.null
      | some (.raw e) => Json.mkObj [("err", Json.str "raw"), ("errors", Json.arr #[encErr e])]
      | some (.collected es) => Json.mkObj [("err", Json.str "collected"), ("errors", Json.arr (es.map encErr).toArray)]
    let mkErr (j : Json) : Err := { kind := if str! (fld j "kind") == "AbsenceError" then .absence else .exceed,
                                    item := (obj? j "item").bind fun i => i.getStr?.toOption }
    match str! (fld op "op") with
    | "handle" =>
      let (c', x) := c.handleError (mkErr op) (bool! (fld op "force"))
      (c', outs ++ [Json.mkObj [("raised", raised x), ("state", errs c')]])
    | "tmp" =>
      let c' := c.collectTmp (mkErr op)
      (c', outs ++ [Json.mkObj [("raised", Json.null), ("state", errs c')]])
    | "clear" =>
      let c' := c.clearTmp
      (c', outs ++ [Json.mkObj [("raised", Json.null), ("state", errs c')]])
    | "raise" => (c, outs ++ [Json.mkObj [("raised", raised c.raiseError), ("state", errs c)]])
    | "enter" =>
      let c' := c.enter
      (c', outs ++ [Json.mkObj [("raised", Json.null), ("state", errs c')]])
    | _ => (c, outs ++ [Json.str "?"])
  Json.arr ((ops.foldl step (clean0 m {}, [])).2).toArray

def handle (j : Json) : Json :=
  match obj? j "ctx" with
  | some ops => Json.mkObj [("ctx", ctxOps (decMode (fld j "mode")) (arr! ops))]
  | none =>
  let T := decTables j
  match obj? j "type" with
  | some tj =>
    -- a bare type called on a value: the error list of that level is visible
    let ty := decTy tj
    let o := decOpts (fld j "opts")
    let v := decVal (fld j "value")
    let modes := (arr! (fld j "modes")).map decMode
    let go (W : World) : Json :=
      Json.mkObj [("runs", Json.arr (modes.map fun m => encRes encVal (runType W fuel ty m o v)).toArray)]
    let a := go (mkWorld T none)
    let b := go (mkWorld T (some missVal))
    Json.mkObj [("model", a), ("miss", Json.bool (a.compress != b.compress))]
  | none =>
  let decl := (arr! (fld j "decl")).map decField
  let o := decOpts (fld j "opts")
  let data : Data := (arr! (fld j "data")).map fun p => match arr! p with
    | [k, v] => (str! k, decVal v) | _ => ("?", .atom "?")
  let modes := (arr! (fld j "modes")).map decMode
  let legacy := bool! (fld j "legacy")
  let items := (arr! (fld j "items")).map str!
  let call := obj? j "call"
  let go (W : World) : Json :=
    match call with
    | none =>
      let props := (arr! (fld j "props")).map decProp
      let runs := modes.map fun m => encRes encData
        (if legacy then runLegacy W fuel decl m o data
         else if props.isEmpty then run W fuel decl m o data else runSchema W fuel decl props m o data)
      let alone := items.map fun i => Json.arr #[Json.str i, Json.bool (failsAlone W fuel decl o data i)]
      let palone := props.map fun p => Json.arr #[Json.str p.name, Json.bool (propFails W fuel decl o data p)]
      Json.mkObj [("runs", Json.arr runs.toArray), ("alone", Json.arr alone.toArray), ("palone", Json.arr palone.toArray)]
    | some cj =>
      let sg : Sig := { decl := decl, npos := nat! (fld cj "npos"), nposOnly := nat! (fld cj "nposOnly"),
                        hasVar := bool! (fld cj "hasVar"),
                        posTy := if isNull (fld cj "posTy") then none else some (decTy (fld cj "posTy")) }
      let args := (arr! (fld cj "args")).map decVal
      let encCall (r : List Val × Data) : Json :=
        Json.mkObj [("args", Json.arr (r.1.map encVal).toArray), ("kw", encData r.2)]
      let runs := modes.map fun m => encRes encCall (runCall W fuel sg m o args data)
      let alone := items.map fun i => Json.arr #[Json.str i, Json.bool (callFails W fuel sg o args data i)]
      Json.mkObj [("runs", Json.arr runs.toArray), ("alone", Json.arr alone.toArray)]
  let a := go (mkWorld T none)
  let b := go (mkWorld T (some missVal))
  Json.mkObj [("model", a), ("miss", Json.bool (a.compress != b.compress))]

def main : IO Unit := serve handle
