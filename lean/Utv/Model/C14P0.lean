import Utv.Model.C14
/-
C14 — `P0`: a concrete implementation of the builtins in `Prims`.

* date/time parsers (`strptime` for the formats that read `isoformat()` back, `time.fromisoformat`,
  the ISO-8601 duration pattern, `timedelta(**floats)` on digit strings): real fixed-width digit
  parsers.  The driver runs them, so their agreement with CPython on every encoded string is part of
  the correspondence check, and `PrimLaws P0` is proved in Lemmas/C14P0.lean (the classic
  `parse (pad n) = n` lemmas).
* number / UUID formatting (`float(d)`, `repr(float)`, `str(Decimal)`, `Decimal(str)`, `str(UUID)`):
  a *token-passing* instance (a float token is a decimal mantissa/exponent, a UUID is written in
  decimal) — lawful, used for non-vacuity only; the driver overrides these with CPython's answers
  supplied by the harness, and the laws themselves are audited against CPython on every run.
* UTF-8: Lean's own codec.  JSON text: a small prefix serialiser (non-vacuity of `json_rt` only).
-/
namespace Utv.C14.P0
open Utv.C14

/-! ### parser combinators on `List Char` -/

/-- exactly `w` decimal digits -/
def digitsN (w : Nat) (s : Str) : Option (Nat × Str) :=
  if w ≤ s.length ∧ (s.take w).all Char.isDigit = true then
    some (Nat.ofDigitChars 10 (s.take w) 0, s.drop w)
  else none

def lit (c : Char) : Str → Option Str
  | c' :: r => if c' = c then some r else none
  | [] => none

/-- `YYYY-MM-DD` -/
def pDate (s : Str) : Option (Date × Str) := do
  let (y, s) ← digitsN 4 s
  let s ← lit '-' s
  let (m, s) ← digitsN 2 s
  let s ← lit '-' s
  let (d, s) ← digitsN 2 s
  let dt : Date := ⟨y, m, d⟩
  if dt.valid then some (dt, s) else none

/-- `HH:MM:SS` -/
def pHMS (s : Str) : Option ((Nat × Nat × Nat) × Str) := do
  let (h, s) ← digitsN 2 s
  let s ← lit ':' s
  let (mi, s) ← digitsN 2 s
  let s ← lit ':' s
  let (sec, s) ← digitsN 2 s
  if h < 24 ∧ mi < 60 ∧ sec < 60 then some ((h, mi, sec), s) else none

/-- `[+-]HH:MM[:SS[.ffffff]]` up to the end of the string -/
def pOffset (s : Str) : Option Int :=
  match s with
  | c :: s =>
    if c = '+' ∨ c = '-' then do
      let (hh, s) ← digitsN 2 s
      let s ← lit ':' s
      let (mm, s) ← digitsN 2 s
      let (ss, us) ← (match s with
        | [] => some (0, 0)
        | ':' :: s => (do
            let (ss, s) ← digitsN 2 s
            match s with
            | [] => some (ss, 0)
            | '.' :: s => (do
                let (us, s) ← digitsN 6 s
                if s.isEmpty then some (ss, us) else none)
            | _ => none)
        | _ => none)
      if mm < 60 ∧ ss < 60 then
        let a : Nat := ((hh * 60 + mm) * 60 + ss) * 1000000 + us
        if a < 86400000000 then some (if c = '-' then -(a : Int) else (a : Int)) else none
      else none
    else none
  | [] => none

/-- `%Y-%m-%dT%H:%M:%S[.%f]` followed by nothing (`z = false`) or `%z` -/
def pIsoDateTime (frac z : Bool) (s : Str) : Option DateTime := do
  let (d, s) ← pDate s
  let s ← lit 'T' s
  let ((h, mi, sec), s) ← pHMS s
  let (us, s) ← (if frac then (do
      let s ← lit '.' s
      digitsN 6 s) else some (0, s))
  if z then do
    let o ← pOffset s
    some ⟨d, ⟨h, mi, sec, us⟩, some o⟩
  else if s.isEmpty then some ⟨d, ⟨h, mi, sec, us⟩, none⟩ else none

def fmtT : Str := "%Y-%m-%dT%H:%M:%S".toList
def fmtTF : Str := "%Y-%m-%dT%H:%M:%S.%f".toList
def fmtD : Str := "%Y-%m-%d".toList
def fmtZ : Str := "%z".toList

/-- `datetime.strptime` on the formats that read `isoformat()`; every other format fails -/
def strptime (s fmt : Str) : Option DateTime :=
  if fmt = fmtD then
    match pDate s with
    | some (d, []) => some ⟨d, midnight, none⟩
    | _ => none
  else if fmt = fmtT then pIsoDateTime false false s
  else if fmt = fmtTF then pIsoDateTime true false s
  else if fmt = fmtT ++ fmtZ then pIsoDateTime false true s
  else if fmt = fmtTF ++ fmtZ then pIsoDateTime true true s
  else none

/-- `time.fromisoformat`: `HH:MM:SS[.fff[fff]][+HH:MM[:SS[.ffffff]]]` -/
def timeFromIso (s : Str) : Option TimeV := do
  let ((h, mi, sec), s) ← pHMS s
  let (us, s) ← (match s with
    | '.' :: r =>
      match digitsN 6 r with
      | some (us, r') => some (us, r')
      | none => (do
          let (ms, r') ← digitsN 3 r
          some (ms * 1000, r'))
    | _ => some (0, s))
  match s with
  | [] => some ⟨⟨h, mi, sec, us⟩, none⟩
  | _ => do
    let o ← pOffset s
    -- CPython (`tzinfo_from_isoformat_results`) tests only the whole seconds of the offset for zero
    -- and then answers UTC, dropping a sub-second offset
    some ⟨⟨h, mi, sec, us⟩, some (if o.natAbs < 1000000 then 0 else o)⟩

/-- `float(s)` succeeds: `[+-]digits[.digits]` (the strings met are never exponent / inf / nan literals) -/
def floatParses (s : Str) : Bool :=
  let s := match s with
    | '-' :: r => r
    | '+' :: r => r
    | _ => s
  let ds := s.takeWhile Char.isDigit
  let r := s.dropWhile Char.isDigit
  !ds.isEmpty && (r.isEmpty || (match r with
    | '.' :: f => f.all Char.isDigit
    | _ => false))

/-- `DURATION_REGS[0]` can only match strings over `-0123456789 :.,days` -/
def reDuration0 (s : Str) : Bool :=
  !s.isEmpty && s.all (fun c => c.isDigit || "- :.,days".toList.contains c)

/-- `(?:(?P<g>\d+(.\d+)?)<unit>)?` at the head of `s`: the group and the rest -/
def pNumUnit (unit : Char) (s : Str) : Option Str × Str :=
  let ds := s.takeWhile Char.isDigit
  let r := s.dropWhile Char.isDigit
  if ds.isEmpty then (none, s) else
  -- greedy: try `(.\d+)` first
  let withFrac : Option (Str × Str) :=
    match r with
    | c :: r' =>
      let fs := r'.takeWhile Char.isDigit
      let r'' := r'.dropWhile Char.isDigit
      if !fs.isEmpty then
        match r'' with
        | u :: rest => if u = unit then some (ds ++ c :: fs, rest) else none
        | [] => none
      else none
    | [] => none
  match withFrac with
  | some (g, rest) => (some g, rest)
  | none =>
    match r with
    | u :: rest => if u = unit then (some ds, rest) else (none, s)
    | [] => (none, s)

/-- `DURATION_REGS[1]` after the sign: `P(?:(?P<days>…)D)?(?:T(?:(?P<hours>…)H)?(?:(?P<minutes>…)M)?(?:(?P<seconds>…)S)?)?$` -/
def reDurBody (sign : Str) (s : Str) : Option DurGroups :=
  match s with
  | 'P' :: s =>
    let (days, s) := pNumUnit 'D' s
    match s with
    | [] => some ⟨sign, days, none, none, none⟩
    | 'T' :: s =>
      let (hours, s) := pNumUnit 'H' s
      let (minutes, s) := pNumUnit 'M' s
      let (seconds, s) := pNumUnit 'S' s
      if s.isEmpty then some ⟨sign, days, hours, minutes, seconds⟩ else none
    | _ => none
  | _ => none

/-- `DURATION_REGS[1]`: `^(?P<sign>[-+]?)P…$` -/
def reDurationIso (s : Str) : Option DurGroups :=
  match s with
  | '-' :: r => reDurBody ['-'] r
  | '+' :: r => reDurBody ['+'] r
  | _ => reDurBody [] s

/-- `float(g)` for a group `digits` or `digits.digits{1,6}` as a number of microseconds per `unit` µs;
`none` where the result would not be an integer number of microseconds (never met) -/
def groupMicros (unit : Nat) : Option Str → Option Nat
  | none => some 0
  | some g =>
    let ds := g.takeWhile Char.isDigit
    let r := g.dropWhile Char.isDigit
    if ds.isEmpty then none else
    match r with
    | [] => some (Nat.ofDigitChars 10 ds 0 * unit)
    | '.' :: f =>
      if f.all Char.isDigit && !f.isEmpty && f.length ≤ 6 && unit % 1000000 = 0 then
        some (Nat.ofDigitChars 10 ds 0 * unit + Nat.ofDigitChars 10 f 0 * 10 ^ (6 - f.length) * (unit / 1000000))
      else none
    | _ => none

/-- `timedelta(days=…, hours=…, minutes=…, seconds=…)` in microseconds; OverflowError beyond 10^9 days -/
def tdOfGroups (g : DurGroups) : Option Int := do
  let d ← groupMicros 86400000000 g.days
  let h ← groupMicros 3600000000 g.hours
  let m ← groupMicros 60000000 g.minutes
  let s ← groupMicros 1000000 g.seconds
  let t := d + h + m + s
  if t < maxDelta then some (t : Int) else none

/-! ### numbers, UUID: token instances -/

def floatOfDec : Dec → F
  | .fin neg c e => .fin neg c e
  | .inf neg => .inf neg
  | .nan => .nan

def decOfFloat : F → Dec
  | .fin neg m e => .fin neg m e
  | .inf neg => .inf neg
  | .nan => .nan

/-- `[-]<coeff>E<exp>` | `[-]Infinity` | `NaN` -/
def decStr : Dec → Str
  | .fin neg c e => (if neg then ['-'] else []) ++ natStr c ++ 'E' :: intStr e
  | .inf neg => (if neg then ['-'] else []) ++ "Infinity".toList
  | .nan => "NaN".toList

def pNat (s : Str) : Option Nat :=
  if !s.isEmpty && s.all Char.isDigit then some (Nat.ofDigitChars 10 s 0) else none

def splitNeg (s : Str) : Bool × Str :=
  match s with
  | '-' :: r => (true, r)
  | _ => (false, s)

def pInt (s : Str) : Option Int :=
  let (neg, body) := splitNeg s
  (pNat body).map fun n => if neg then -(n : Int) else (n : Int)

/-- `Decimal(s)`: what `decStr` writes, and plain integers (`str(int)`) -/
def decOfStr (s : Str) : Option Dec :=
  let (neg, body) := splitNeg s
  if body = "Infinity".toList then some (.inf neg)
  else if s = "NaN".toList then some .nan
  else
    let ds := body.takeWhile Char.isDigit
    let r := body.dropWhile Char.isDigit
    if ds.isEmpty then none else
    match r with
    | [] => some (.fin neg (Nat.ofDigitChars 10 ds 0) 0)
    | 'E' :: es => (pInt es).map fun e => .fin neg (Nat.ofDigitChars 10 ds 0) e
    | _ => none

def uuidStr (n : Nat) : Str := natStr n
def uuidOfStr (s : Str) : Option Nat := pNat s

/-! ### UTF-8 (Lean's codec) -/

def utf8Encode (s : Str) : List UInt8 := (String.ofList s).toUTF8.data.toList

/-- valid input: the decoded text; invalid input: the replacement character alone (the driver gets
CPython's `errors="replace"` answer from the harness instead) -/
def utf8Decode (b : List UInt8) : Str :=
  let ba := ByteArray.mk b.toArray
  if h : ba.IsValidUTF8 then (String.fromUTF8 ba h).toList else ['�']

/-! ### JSON text: a prefix code (non-vacuity of `json_rt`; never run) -/

def serStr (s : Str) : Str := s.flatMap (fun c => ['c', c]) ++ ['e']

mutual
def ser : Js → Str
  | .null => ['n']
  | .bool b => [if b then 't' else 'f']
  | .int i => 'i' :: serStr (intStr i)
  | .float (.fin neg m e) => 'd' :: (if neg then '-' else '+') :: serStr (natStr m) ++ serStr (intStr e)
  | .float (.inf neg) => ['I', if neg then '-' else '+']
  | .float .nan => ['N']
  | .str s => 's' :: serStr s
  | .arr xs => 'a' :: serList xs
  | .obj kvs => 'o' :: serKVs kvs
def serList : List Js → Str
  | [] => [']']
  | x :: xs => ',' :: ser x ++ serList xs
def serKVs : List (Str × Js) → Str
  | [] => ['}']
  | (k, x) :: r => ',' :: serStr k ++ ser x ++ serKVs r
end

def unserStr : Str → Option (Str × Str)
  | 'e' :: r => some ([], r)
  | 'c' :: c :: r => (unserStr r).map fun (s, r') => (c :: s, r')
  | _ => none

mutual
def unser : Nat → Str → Option (Js × Str)
  | 0, _ => none
  | fuel + 1, s =>
    match s with
    | 'n' :: r => some (.null, r)
    | 't' :: r => some (.bool true, r)
    | 'f' :: r => some (.bool false, r)
    | 'N' :: r => some (.float .nan, r)
    | 'I' :: '-' :: r => some (.float (.inf true), r)
    | 'I' :: '+' :: r => some (.float (.inf false), r)
    | 'i' :: r => do
      let (ds, r) ← unserStr r
      let i ← pInt ds
      some (.int i, r)
    | 'd' :: sg :: r => do
      let (ms, r) ← unserStr r
      let (es, r) ← unserStr r
      let m ← pNat ms
      let e ← pInt es
      if sg = '-' then some (.float (.fin true m e), r)
      else if sg = '+' then some (.float (.fin false m e), r) else none
    | 's' :: r => do
      let (s, r) ← unserStr r
      some (.str s, r)
    | 'a' :: r => do
      let (xs, r) ← unserList fuel r
      some (.arr xs, r)
    | 'o' :: r => do
      let (kvs, r) ← unserKVs fuel r
      some (.obj kvs, r)
    | _ => none
def unserList : Nat → Str → Option (List Js × Str)
  | 0, _ => none
  | fuel + 1, s =>
    match s with
    | ']' :: r => some ([], r)
    | ',' :: r => do
      let (x, r) ← unser fuel r
      let (xs, r) ← unserList fuel r
      some (x :: xs, r)
    | _ => none
def unserKVs : Nat → Str → Option (List (Str × Js) × Str)
  | 0, _ => none
  | fuel + 1, s =>
    match s with
    | '}' :: r => some ([], r)
    | ',' :: r => do
      let (k, r) ← unserStr r
      let (x, r) ← unser fuel r
      let (kvs, r) ← unserKVs fuel r
      some ((k, x) :: kvs, r)
    | _ => none
end

def jsonDumps (j : Js) : Str := ser j

def jsonLoads (s : Str) : Option Js :=
  match unser (s.length + 1) s with
  | some (j, []) => some j
  | _ => none

end P0

/-- the concrete instance -/
def P0 : Prims where
  strptime := P0.strptime
  timeFromIso := P0.timeFromIso
  floatParses := P0.floatParses
  reDuration0 := P0.reDuration0
  reDurationIso := P0.reDurationIso
  tdOfGroups := P0.tdOfGroups
  floatOfDec := P0.floatOfDec
  decOfFloat := P0.decOfFloat
  decStr := P0.decStr
  decOfStr := P0.decOfStr
  uuidStr := P0.uuidStr
  uuidOfStr := P0.uuidOfStr
  utf8Decode := P0.utf8Decode
  utf8Encode := P0.utf8Encode
  jsonDumps := P0.jsonDumps
  jsonLoads := P0.jsonLoads

end Utv.C14
