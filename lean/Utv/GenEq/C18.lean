import Utv.GenEq.Support
import Utv.Gen.Options
import Utv.Model.C18
/-!
C18 — T1 obligations: the depth / route accounting of `RuntimeContext.__init__` (utype/parser/options.py), regenerated
on every run as `Utv.Gen.Options.RuntimeContext_init`, is what `Model/C18.lean` says it is:

* a context entered *with a route* (`context.enter(route, …)`, also for the falsy routes `0` and `''`) stays on the
  level of its parent and appends the route — `Utv.C18.enter Quirks.fixed`;
* a context made *without a route for a class* (`Options.make_context(cls=K, context=c)`) is one level deeper, and
  raises `DepthExceedError` exactly when `Utv.C18.exceeded max_depth (depth + 1)` — the `.data` branch of `step`;
* a class-less root context is level 0 (`parseTop`, `Quirks.fixed`).
-/
namespace Utv.GenEq.C18
open Utv.Obj Utv.C18 Utv.Gen

abbrev U := OVal Unit

def encMaxDepth : Option Nat → U
  | none => .none
  | some m => .int m

/-- the parent `RuntimeContext`: its level and the routes that lead to it -/
def encCtx (c : Ctx) (routes : List U) : U :=
  .obj "RuntimeContext" [("depth", .int c.depth), ("routes", .seq .list routes)]

/-- the `Options` of the new context (`max_depth` is the only attribute `__init__` reads) -/
def encOptions (md : Option Nat) : U := .obj "Options" [("max_depth", encMaxDepth md)]

/-- what the construction amounts to for the model: the level of the new context, or the depth error -/
def decode (r : M Unit (U × Outcome Unit)) : Option (Out Nat × List U) :=
  match r with
  | .ok (self', .ret _) =>
    (match getattr self' "depth", getattr self' "routes" with
     | .ok (.int d), .ok (.seq .list rs) => some (.ok d.toNat, rs)
     | _, _ => none)
  | .ok (_, .raise (.obj "DepthExceedError" _)) => some (.err { depth := true }, [])
  | _ => none

def outDepth : Out Ctx → Out Nat
  | .ok c => .ok c.depth
  | .err f => .err f

macro "ctx_simp" "[" ls:Lean.Parser.Tactic.simpLemma,* "]" : tactic =>
  `(tactic| obj_simp [Options.RuntimeContext_init, encCtx, encOptions, encMaxDepth, decode, getattr, setattr, lookupAttr,
      setAttrL, truthy, toList, iter, append, concat, add, intOf?, gt, lt,
      exceeded, enter, outDepth, Quirks.fixed, $ls,*])

/-- entering an item / key / field: same level, the route (falsy or not) is appended, no depth error as long as the
parent itself was within its limit -/
theorem C18_gen_init_enter (W : World Unit) (c : Ctx) (routes : List U) (route cls fe eh : U) (falsy : Bool) (m : Mode)
    (hr : route.isUnprovided = false) (hc : exceeded c.md c.depth = false) :
    decode (Options.RuntimeContext_init W (.obj "RuntimeContext" []) (encCtx c routes) cls route fe eh (encOptions c.md))
      = some (outDepth (enter Quirks.fixed c falsy m), routes ++ [route]) := by
  gen_obligation "C18_gen_init_enter: the regenerated code (Utv.Gen) is no longer equal to the hand model here" by
    obtain ⟨depth, mode, md⟩ := c
    cases md with
    | none => ctx_simp [hr]
    | some k =>
      simp only [exceeded] at hc
      by_cases h0 : k = 0
      · subst h0; ctx_simp [hr]
      · have h1 : ¬ k < depth := by simp_all
        ctx_simp [hr, h0, h1]

/-- a nested data class (no route, a class): one level deeper; `DepthExceedError` iff `exceeded max_depth (depth+1)`
(`md` is the class's own `max_depth`: `make_context` passes the class's options) -/
theorem C18_gen_init_level (W : World Unit) (c : Ctx) (routes : List U) (cls fe eh : U) (md : Option Nat)
    (hcls : cls.isNone = false) :
    decode (Options.RuntimeContext_init W (.obj "RuntimeContext" []) (encCtx c routes) cls .unprovided fe eh (encOptions md))
      = some (if exceeded md (c.depth + 1) then (.err { depth := true }, []) else (.ok (c.depth + 1), routes)) := by
  gen_obligation "C18_gen_init_level: the regenerated code (Utv.Gen) is no longer equal to the hand model here" by
    obtain ⟨depth, mode, cmd⟩ := c
    cases md with
    | none => ctx_simp [hcls, OVal.isUnprovided]
    | some k =>
      by_cases h0 : k = 0
      · subst h0; ctx_simp [hcls, OVal.isUnprovided]
      · by_cases h1 : k < depth + 1
        · have h1' : (k : Int) < (depth : Int) + 1 := by omega
          ctx_simp [hcls, OVal.isUnprovided, h0, h1, h1']
        · have h1' : ¬ (k : Int) < (depth : Int) + 1 := by omega
          ctx_simp [hcls, OVal.isUnprovided, h0, h1, h1']

/-- the class-less root context (`type_transform`, a function call): level 0, no routes -/
theorem C18_gen_init_root (W : World Unit) (fe eh : U) (md : Option Nat) :
    decode (Options.RuntimeContext_init W (.obj "RuntimeContext" []) .none .none .unprovided fe eh (encOptions md))
      = some (.ok 0, []) := by
  gen_obligation "C18_gen_init_root: the regenerated code (Utv.Gen) is no longer equal to the hand model here" by
    cases md with
    | none => ctx_simp [OVal.isUnprovided, OVal.isNone]
    | some k =>
      by_cases h0 : k = 0
      · subst h0; ctx_simp [OVal.isUnprovided, OVal.isNone]
      · have h1' : ¬ (k : Int) < 0 := by omega
        ctx_simp [OVal.isUnprovided, OVal.isNone, h0, h1']

/-- the root context of a class (`K(**data)`): level 1, checked against the class's `max_depth` -/
theorem C18_gen_init_class_root (W : World Unit) (cls fe eh : U) (md : Option Nat) (hcls : cls.isNone = false) :
    decode (Options.RuntimeContext_init W (.obj "RuntimeContext" []) .none cls .unprovided fe eh (encOptions md))
      = some (if exceeded md 1 then (.err { depth := true }, []) else (.ok 1, [])) := by
  gen_obligation "C18_gen_init_class_root: the regenerated code (Utv.Gen) is no longer equal to the hand model here" by
    cases md with
    | none => ctx_simp [hcls, OVal.isUnprovided]
    | some k =>
      by_cases h0 : k = 0
      · subst h0; ctx_simp [hcls, OVal.isUnprovided]
      · by_cases h1 : k < 1
        · omega
        · have h1' : ¬ (k : Int) < 1 := by omega
          ctx_simp [hcls, OVal.isUnprovided, h0, h1, h1']

/-! ### `Options.make_context` (what `__field_setter__`, `init_dataclass` and the generated `__init__` call) and
`RuntimeContext.enter` — through the translated constructor -/

/-- an `Options` object as `make_context` and `__init__` read it -/
def encOptionsO (md : Option Nat) : U := .obj "Options" [("max_depth", encMaxDepth md), ("override", .bool false)]

/-- the enclosing context, if any: its level, its routes, its options -/
def encParent : Option (Ctx × List U) → U
  | none => .none
  | some p => .obj "RuntimeContext" [("depth", .int p.1.depth), ("routes", .seq .list p.2), ("options", encOptionsO p.1.md)]

def parentDepth : Option (Ctx × List U) → Nat
  | none => 0
  | some p => p.1.depth

/-- a constructed context: its level, or the depth error the construction raised -/
def decodeNew (r : M Unit U) : Option (Out Nat) :=
  match r with
  | .ok self' => (match getattr self' "depth" with
    | .ok (.int d) => some (.ok d.toNat)
    | _ => none)
  | .error (.raised (.obj "DepthExceedError" _)) => some (.err { depth := true })
  | .error _ => none

/-- the object `__init__` builds when no route is given -/
def builtCtx (parent : U) (depth : Int) (routes : List U) (cls fe eh o : U) : U :=
  .obj "RuntimeContext" [("context", parent), ("depth", .int depth), ("route", .none), ("routes", .seq .list routes),
    ("errors", .seq .list []), ("tmp_errors", .seq .list []), ("warnings", .seq .list []), ("cls", cls),
    ("error_hooks", eh), ("options", o), ("force_error", fe)]

def depthErr (md : Option Nat) (depth : Int) (cls : U) : U :=
  .obj "DepthExceedError" [("max_depth", encMaxDepth md), ("depth", .int depth), ("type", cls)]

/-- `__init__` for a class, under a parent given by what `__init__` reads of it -/
theorem init_under (W : World Unit) (pc : String) (pattrs : List (String × U)) (pd : Nat) (rs : List U) (cls fe eh : U)
    (oc : String) (oattrs : List (String × U)) (md : Option Nat) (hcls : cls.isNone = false)
    (h1 : lookupAttr "depth" pattrs = some (.int pd)) (h2 : lookupAttr "routes" pattrs = some (.seq .list rs))
    (h3 : lookupAttr "max_depth" oattrs = some (encMaxDepth md)) :
    Options.RuntimeContext_init W (.obj "RuntimeContext" []) (.obj pc pattrs) cls .unprovided fe eh (.obj oc oattrs)
      = .ok (builtCtx (.obj pc pattrs) (pd + 1) rs cls fe eh (.obj oc oattrs),
          if exceeded md (pd + 1) then .raise (depthErr md (pd + 1) cls) else .ret .none) := by
  gen_obligation "C18_gen_make_context (its lemma init_under): the regenerated code (Utv.Gen) is no longer equal to the hand model here" by
    unfold Options.RuntimeContext_init
    cases md with
    | none =>
      obj_simp [getattr, setattr, lookupAttr, setAttrL, h1, h2, h3, hcls, OVal.isUnprovided, toList, iter, concat, add, intOf?,
        encMaxDepth, exceeded, builtCtx]
    | some k =>
      by_cases h0 : k = 0
      · subst h0
        obj_simp [getattr, setattr, lookupAttr, setAttrL, h1, h2, h3, hcls, OVal.isUnprovided, toList, iter, concat, add,
          intOf?, encMaxDepth, exceeded, builtCtx]
      · by_cases hk : k < pd + 1
        · have hk' : (k : Int) < (pd : Int) + 1 := by omega
          obj_simp [getattr, setattr, lookupAttr, setAttrL, h1, h2, h3, hcls, OVal.isUnprovided, toList, iter, concat, add,
            intOf?, encMaxDepth, exceeded, builtCtx, depthErr, gt, lt, h0, hk, hk']
        · have hk' : ¬ (k : Int) < (pd : Int) + 1 := by omega
          obj_simp [getattr, setattr, lookupAttr, setAttrL, h1, h2, h3, hcls, OVal.isUnprovided, toList, iter, concat, add,
            intOf?, encMaxDepth, exceeded, builtCtx, depthErr, gt, lt, h0, hk, hk']

/-- … and without a parent -/
theorem init_top (W : World Unit) (cls fe eh : U) (oc : String) (oattrs : List (String × U)) (md : Option Nat)
    (hcls : cls.isNone = false) (h3 : lookupAttr "max_depth" oattrs = some (encMaxDepth md)) :
    Options.RuntimeContext_init W (.obj "RuntimeContext" []) .none cls .unprovided fe eh (.obj oc oattrs)
      = .ok (builtCtx .none 1 [] cls fe eh (.obj oc oattrs),
          if exceeded md 1 then .raise (depthErr md 1 cls) else .ret .none) := by
  gen_obligation "C18_gen_make_context (its lemma init_top): the regenerated code (Utv.Gen) is no longer equal to the hand model here" by
    unfold Options.RuntimeContext_init
    cases md with
    | none =>
      obj_simp [getattr, setattr, lookupAttr, setAttrL, h3, hcls, OVal.isUnprovided, concat, add, intOf?, encMaxDepth,
        exceeded, builtCtx]
    | some k =>
      by_cases h0 : k = 0
      · subst h0
        obj_simp [getattr, setattr, lookupAttr, setAttrL, h3, hcls, OVal.isUnprovided, concat, add, intOf?, encMaxDepth,
          exceeded, builtCtx]
      · have hk' : ¬ (k : Int) < 1 := by omega
        have hk : ¬ k < 1 := by omega
        obj_simp [getattr, setattr, lookupAttr, setAttrL, h3, hcls, OVal.isUnprovided, concat, add, intOf?, encMaxDepth,
          exceeded, builtCtx, depthErr, gt, lt, h0, hk, hk']

theorem ga_built_depth (parent : U) (d : Int) (rs : List U) (cls fe eh o : U) :
    getattr (builtCtx parent d rs cls fe eh o) "depth" = .ok (.int d) := rfl

/-- `options.make_context(cls=K, context=parent)` is the model's `classCtx`: the class's own options, one level below
the parent (no parent — `__field_setter__`, `K(**data)` — is level 1), `DepthExceedError` iff that exceeds `max_depth` -/
theorem C18_gen_make_context (W : World Unit) (parent : Option (Ctx × List U)) (cls fe : U) (cd : ClassDecl)
    (hcls : cls.isNone = false) :
    decodeNew (Options.Options_make_context W (encOptionsO cd.maxDepth) cls fe (encParent parent))
      = some (outDepth (classCtx (parentDepth parent) cd)) := by
  gen_obligation "C18_gen_make_context: the regenerated code (Utv.Gen) is no longer equal to the hand model here" by
    obtain ⟨fields, mode, md, dfs⟩ := cd
    have go : getattr (encOptionsO md) "override" = .ok (.bool false) := rfl
    cases parent with
    | none =>
      have hi := init_top W cls fe .none "Options" [("max_depth", encMaxDepth md), ("override", .bool false)] md hcls rfl
      unfold Options.Options_make_context Options.RuntimeContext_new
      simp only [encParent, truthy_none, bind, Except.bind, pure, Except.pure, Bool.false_eq_true, if_false]
      simp only [encOptionsO, hi]
      cases he : exceeded md 1 <;>
        simp [decodeNew, ga_built_depth, classCtx, parentDepth, outDepth, he, depthErr, pure, Except.pure, throw, throwThe,
          MonadExceptOf.throw]
    | some p =>
      obtain ⟨⟨depth, pm, pmd⟩, routes⟩ := p
      have hi := init_under W "RuntimeContext"
        [("depth", .int depth), ("routes", .seq .list routes), ("options", encOptionsO pmd)] depth routes cls fe .none
        "Options" [("max_depth", encMaxDepth md), ("override", .bool false)] md hcls rfl rfl rfl
      have gp : getattr (encParent (some (⟨depth, pm, pmd⟩, routes))) "options" = .ok (encOptionsO pmd) := rfl
      have gpo : getattr (encOptionsO pmd) "override" = .ok (.bool false) := rfl
      unfold Options.Options_make_context Options.RuntimeContext_new
      simp only [show truthy (encParent (some (⟨depth, pm, pmd⟩, routes))) = .ok true from rfl, go, gp, gpo, truthy_bool, bind,
        Except.bind, pure, Except.pure, Bool.not_false, Bool.false_eq_true, if_false, if_true]
      simp only [encOptionsO] at hi
      simp only [encOptionsO, encParent, hi]
      cases he : exceeded md (depth + 1) <;>
        simp [decodeNew, ga_built_depth, classCtx, parentDepth, outDepth, he, depthErr, pure, Except.pure, throw, throwThe,
          MonadExceptOf.throw]

end Utv.GenEq.C18
