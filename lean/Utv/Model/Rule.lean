import Utv.Gen.Constraints
/-!
The validator phase of `Rule.parse` (rule.py:1727-1746) and `LogicalType.__instancecheck__`
(rule.py:97-114), hand-written on top of the *generated* validators (`Utv.Gen.Constraints`, T1).
-/
namespace Utv.Rule
open Utv.Py Utv.Gen

abbrev Validator := Prims → PyVal → PyVal → M PyVal

/-- `getattr(Constraints, name)` for the names `generate_validators` can produce (rule.py:853-866) -/
def validatorOf : String → Option Validator
  | "gt" => some Constraints.gt
  | "ge" => some Constraints.ge
  | "lt" => some Constraints.lt
  | "le" => some Constraints.le
  | "const" => some Constraints.const
  | "enum" => some Constraints.enum
  | "regex" => some Constraints.regex
  | "decimal_places" => some Constraints.decimal_places
  | "multiple_of" => some Constraints.multiple_of
  | "max_digits" => some Constraints.max_digits
  | "length" => some Constraints.length
  | "max_length" => some Constraints.max_length
  | "min_length" => some Constraints.min_length
  | "unique_items" => some Constraints.unique_items
  | "lax_ge" => some Constraints.lax_ge
  | "lax_le" => some Constraints.lax_le
  | "lax_const" => some Constraints.lax_const
  | "lax_enum" => some Constraints.lax_enum
  | "lax_decimal_places" => some Constraints.lax_decimal_places
  | "lax_multiple_of" => some Constraints.lax_multiple_of
  | "lax_max_digits" => some Constraints.lax_max_digits
  | "lax_length" => some Constraints.lax_length
  | "lax_max_length" => some Constraints.lax_max_length
  | "lax_unique_items" => some Constraints.lax_unique_items
  | _ => none

/-- fail-fast validator loop: `for key, constraint, validator in cls.__validators__: value = validator(value, constraint)`;
the first exception aborts (wrapped into ConstraintError by the caller). -/
def validate (P : Prims) : List (String × PyVal) → PyVal → M PyVal
  | [], v => pure v
  | (name, bound) :: cs, v =>
    match validatorOf name with
    | none => throw (.unmodelled "unknown validator")
    | some f => do
      let v' ← f P v bound
      validate P cs v'

/-- constraint key of a validator name (`lax_x` validates constraint `x`) -/
def baseKey (name : String) : String :=
  if name.startsWith "lax_" then (name.drop 4).toString else name

/-- `generate_validators` iterates `__constraints__` in order (rule.py:836-846) -/
def ordered (cs : List (String × PyVal)) : List (String × PyVal) :=
  Tables.constraintOrder.flatMap fun key => cs.filter fun c => baseKey c.1 == key

/-- `isinstance(obj, T)` for a constrained type with a class origin (rule.py:105-113):
origin isinstance check, then a full parse.  `parse` is the type's own parse. -/
def instancecheck (originOk : PyVal → Bool) (parse : PyVal → M PyVal) (v : PyVal) : Bool :=
  if !originOk v then false
  else match parse v with
    | .ok _ => true
    | .error _ => false

end Utv.Rule
