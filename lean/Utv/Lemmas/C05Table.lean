import Utv.Lemmas.C05Doc
/-! What the contract holds for one field / one unknown key / each kind of error (lookups into `Spec.contract`). -/
namespace Utv.C05
open Spec

variable {V : Type}

theorem contract_result_eq [DecidableEq V] (W : World V) (P : Parser V) (o : Opts V) (data : List (Key × V)) :
    (contract W P o data).result =
      ((P.fields.map (·.2)).filterMap fun f => (fieldContract W o f data).value.map (f.name, ·))
      ++ ((extras W P data).filterMap fun kv =>
            (additionContract W P.additionTyped (P.excludeVars.contains kv.1) o kv).1.map (kv.1, ·)) := by
  unfold contract
  simp only
  rw [← extras_eq]
  simp only [List.filterMap_map]
  rfl

theorem extras_not_name {W : World V} (LL : LowerLaws W) {P : Parser V} (wf : WF W P) {data : List (Key × V)}
    {kf : Key × PField V} (hf : kf ∈ P.fields) {kv : Key × V} (hkv : kv ∈ extras W P data) : kv.1 ≠ kf.2.name := by
  intro e
  unfold extras at hkv
  rw [List.mem_filter] at hkv
  have hacc := wf.accepts_name LL hf
  rw [← e] at hacc
  have : anyAccepts W P kv.1 = true := by
    unfold anyAccepts; rw [List.any_eq_true]; exact ⟨kf, hf, hacc⟩
  rw [this] at hkv; exact absurd hkv.2 (by simp)

/-- the value the contract holds for a field -/
theorem contract_field_value [DecidableEq V] {W : World V} (LL : LowerLaws W) {P : Parser V} (wf : WF W P)
    (o : Opts V) (data : List (Key × V)) {kf : Key × PField V} (hf : kf ∈ P.fields) :
    dget kf.2.name (contract W P o data).result = (fieldContract W o kf.2 data).value := by
  have hndF : ((P.fields.map (·.2)).map (·.name)).Nodup := by simp only [List.map_map]; exact wf.names_nodup
  rw [contract_result_eq, dget_append,
    dget_filterMap_values (fun f => fieldContract W o f data) _ hndF (List.mem_map.mpr ⟨kf, hf, rfl⟩)]
  cases hv : (fieldContract W o kf.2 data).value with
  | some v => rfl
  | none =>
    simp only [Option.orElse]
    rw [dget_eq_none_iff]
    intro hc
    simp only [List.map_filterMap, List.mem_filterMap] at hc
    obtain ⟨kv, hkv, he⟩ := hc
    generalize (additionContract W P.additionTyped (P.excludeVars.contains kv.1) o kv).1 = X at he
    cases X with
    | none => simp at he
    | some y =>
      have : kv.1 = kf.2.name := by simpa using he
      exact extras_not_name LL wf hf hkv this

/-- the value the contract holds for an unknown key -/
theorem contract_extra_value [DecidableEq V] {W : World V} (LL : LowerLaws W) {P : Parser V} (wf : WF W P)
    (o : Opts V) (data : List (Key × V)) (hnd : (data.map (·.1)).Nodup) {kv : Key × V} (hkv : kv ∈ extras W P data) :
    dget kv.1 (contract W P o data).result
      = (additionContract W P.additionTyped (P.excludeVars.contains kv.1) o kv).1 := by
  have hndE : ((extras W P data).map (·.1)).Nodup := nodup_filter_keys _ hnd
  rw [contract_result_eq, dget_append]
  have hA : dget kv.1 ((P.fields.map (·.2)).filterMap fun f => (fieldContract W o f data).value.map (f.name, ·)) = none := by
    apply dget_filterMap_values_other
    intro hc
    simp only [List.map_map, List.mem_map] at hc
    obtain ⟨kf, hf, hn⟩ := hc
    exact extras_not_name LL wf hf hkv hn.symm
  rw [hA]
  simp only [Option.orElse]
  cases hv : (additionContract W P.additionTyped (P.excludeVars.contains kv.1) o kv).1 with
  | none =>
    rw [dget_eq_none_iff]
    intro hc
    simp only [List.map_filterMap, List.mem_filterMap] at hc
    obtain ⟨kv', hkv', he⟩ := hc
    cases hX : (additionContract W P.additionTyped (P.excludeVars.contains kv'.1) o kv').1 with
    | none => rw [hX] at he; simp at he
    | some y =>
      rw [hX] at he
      have hk : kv'.1 = kv.1 := by simpa using he
      -- distinct keys: kv' = kv
      have : kv' = kv := by
        have h1 := dget_of_mem hndE hkv'
        have h2 := dget_of_mem hndE hkv
        rw [hk] at h1
        rw [h1] at h2
        cases kv'; cases kv; simp only at hk h2; subst hk; simp at h2; rw [h2]
      rw [this, hv] at hX; cases hX
  | some x =>
    apply dget_of_mem
    · rw [keys_filterMap_add W P.additionTyped (fun k => P.excludeVars.contains k)]; exact nodup_filter_keys _ hndE
    · rw [List.mem_filterMap]; exact ⟨kv, hkv, by rw [hv]; rfl⟩

/-- every violation of the contract is of one of four kinds -/
theorem contract_errs_cases [DecidableEq V] (W : World V) (P : Parser V) (o : Opts V) (data : List (Key × V)) (e : Err)
    (h : e ∈ (contract W P o data).errs) :
      e ∈ paramsContract o data.length
      ∨ (∃ kf ∈ P.fields, e ∈ (fieldContract W o kf.2 data).errs)
      ∨ (∃ lack, lack ≠ [] ∧ e = .depsAbsence lack)
      ∨ (∃ kv ∈ extras W P data, e ∈ (additionContract W P.additionTyped (P.excludeVars.contains kv.1) o kv).2) := by
  unfold contract at h
  simp only at h
  rw [← extras_eq] at h
  simp only [List.mem_append, List.mem_flatMap, List.mem_map] at h
  rcases h with ((h | ⟨fo, ⟨f, ⟨kf, hf, rfl⟩, rfl⟩, h⟩) | h) | ⟨a, ⟨kv, hkv, rfl⟩, h⟩
  · exact Or.inl h
  · exact Or.inr (Or.inl ⟨kf, hf, h⟩)
  · split at h
    · simp at h
    · rename_i hne
      simp only [List.mem_singleton] at h
      exact Or.inr (Or.inr (Or.inl ⟨_, by simpa using hne, h⟩))
  · exact Or.inr (Or.inr (Or.inr ⟨kv, hkv, h⟩))

theorem contract_errs_of_params [DecidableEq V] (W : World V) (P : Parser V) (o : Opts V) (data : List (Key × V))
    (e : Err) (h : e ∈ paramsContract o data.length) : e ∈ (contract W P o data).errs := by
  unfold contract; simp only [List.mem_append]; exact Or.inl (Or.inl (Or.inl h))

theorem contract_errs_of_field [DecidableEq V] (W : World V) (P : Parser V) (o : Opts V) (data : List (Key × V))
    (e : Err) {kf : Key × PField V} (hf : kf ∈ P.fields) (h : e ∈ (fieldContract W o kf.2 data).errs) :
    e ∈ (contract W P o data).errs := by
  unfold contract
  simp only [List.mem_append, List.mem_flatMap, List.mem_map]
  exact Or.inl (Or.inl (Or.inr ⟨_, ⟨kf.2, ⟨kf, hf, rfl⟩, rfl⟩, h⟩))

theorem contract_errs_of_extra [DecidableEq V] (W : World V) (P : Parser V) (o : Opts V) (data : List (Key × V))
    (e : Err) {kv : Key × V} (hkv : kv ∈ extras W P data)
    (h : e ∈ (additionContract W P.additionTyped (P.excludeVars.contains kv.1) o kv).2) :
    e ∈ (contract W P o data).errs := by
  unfold contract
  simp only
  rw [← extras_eq]
  simp only [List.mem_append, List.mem_flatMap, List.mem_map]
  exact Or.inr ⟨_, ⟨kv, hkv, rfl⟩, h⟩

/-- the errors of one field's contract: an absence error only for a missing required field, a conflict or a parse
error only for a field that was given -/
theorem fieldContract_errs [DecidableEq V] (W : World V) (o : Opts V) (f : PField V) (data : List (Key × V)) (e : Err)
    (h : e ∈ (fieldContract W o f data).errs) :
    (e = .absence f.name ∧ given W f data = false ∧ required o f = true)
    ∨ ((e = .aliasConflict f.name ∨ e = .parse f.name) ∧ given W f data = true) := by
  unfold fieldContract at h
  unfold given
  cases hc : candidates W f data with
  | nil =>
    rw [hc] at h
    simp only at h
    cases hr : required o f
    · simp [hr] at h
    · simp only [hr, if_true, List.mem_singleton] at h
      exact Or.inl ⟨h, rfl, rfl⟩
  | cons c rest =>
    rw [hc] at h
    right
    refine ⟨?_, rfl⟩
    simp only at h
    split at h
    · simp at h
    · have hconf : ∀ x, x ∈ (if (!o.ignoreAliasConflicts && rest.any (· ≠ c)) = true then [Err.aliasConflict f.name] else [])
          → x = .aliasConflict f.name := by
        intro x hx; split at hx
        · simpa using hx
        · simp at hx
      split at h
      · exact Or.inl (hconf e h)
      · split at h
        · rcases List.mem_append.mp h with h | h
          · exact Or.inl (hconf e h)
          · exact Or.inr (by simpa using h)
        · exact Or.inl (hconf e h)
        · split at h
          · rcases List.mem_append.mp h with h | h
            · exact Or.inl (hconf e h)
            · exact Or.inr (by simpa using h)
          · exact Or.inl (hconf e h)

end Utv.C05
