import Utv.Model.C04Data
import Utv.Model.C04Ts
/-!
C04 — specification vocabulary and the closure lemmas the property theorems are assembled from.

Spec (one screen, written without looking at the code):

* `Res.escapes r`   : the call ended with an exception that is **not** an instance of ParseError.
* `Res.diverges r`  : the call never returns.
* `Safe m`          : from every context state, `m` does not let a non-ParseError exception out.
* `Term m`          : from every context state, `m` returns or raises.
* `Quiet m`         : `m` appends nothing to the event trace (components are assumed quiet: only the entry points
  emit `enterBody` / `attrsSet` / `postInit`), used for the trace statements "the body is entered / attributes are
  set only after a successful parse" (Props/C04.lean).
-/
namespace Utv.C04

def Res.escapes {α : Type} : Res α → Bool
  | .raise e => !e.isPerr
  | _ => false

def Res.diverges {α : Type} : Res α → Bool
  | .diverge => true
  | _ => false

def Res.isOk {α : Type} : Res α → Bool
  | .ok _ => true
  | _ => false

/-- no exception other than a ParseError leaves `m`, whatever the context state -/
structure Safe {α : Type} (m : M α) : Prop where
  h : ∀ s, (m s).1.escapes = false

/-- `m` comes back (with a value or an exception), whatever the context state -/
structure Term {α : Type} (m : M α) : Prop where
  h : ∀ s, (m s).1.diverges = false

variable {α β : Type}

@[simp] theorem pure_apply (a : α) (s : St) : (pure a : M α) s = (.ok a, s) := rfl

theorem bind_apply (m : M α) (f : α → M β) (s : St) :
    (m >>= f) s = match m s with
      | (.ok a, s') => f a s'
      | (.raise e, s') => (.raise e, s')
      | (.diverge, s') => (.diverge, s') := rfl

/-! ### Safe -/

theorem safe_pure (a : α) : Safe (pure a : M α) := ⟨fun _ => rfl⟩

theorem safe_bind {m : M α} {f : α → M β} (hm : Safe m) (hf : ∀ a, Safe (f a)) : Safe (m >>= f) := by
  constructor
  intro s
  rw [bind_apply]
  have h := hm.h s
  rcases hms : m s with ⟨r, s'⟩
  rw [hms] at h
  cases r with
  | ok a => exact (hf a).h s'
  | raise e => simpa [Res.escapes] using h
  | diverge => rfl

theorem safe_raise {e : Exc} (h : e.isPerr = true) : Safe (raise e : M α) := by
  constructor
  intro s; simp [raise, Res.escapes, h]

theorem safe_diverge : Safe (divergeM : M α) := ⟨fun _ => rfl⟩

/-- `except Exception` stops everything: only the handler matters -/
theorem safe_tryExcept {m : M α} {h : Exc → M α} (hh : ∀ e, Safe (h e)) : Safe (tryExcept m h) := by
  constructor
  intro s
  unfold tryExcept
  rcases hms : m s with ⟨r, s'⟩
  cases r with
  | ok a => rfl
  | raise e => exact (hh e).h s'
  | diverge => rfl

/-- a narrow `except (A, B)` is only as safe as the protected block -/
theorem safe_tryExceptIf {p : Exc → Bool} {m : M α} {h : Exc → M α} (hm : Safe m) (hh : ∀ e, Safe (h e)) :
    Safe (tryExceptIf p m h) := by
  constructor
  intro s
  unfold tryExceptIf
  have h1 := hm.h s
  rcases hms : m s with ⟨r, s'⟩
  rw [hms] at h1
  cases r with
  | ok a => rfl
  | raise e =>
    by_cases hp : p e
    · simp only [hp, if_true]; exact (hh e).h s'
    · simp only [hp]; simpa [Res.escapes] using h1
  | diverge => rfl

theorem safe_emit (ev : Ev) : Safe (emit ev) := ⟨fun _ => rfl⟩

theorem safe_handleError (o : Opts) {e : Exc} (force : Bool) (he : e.isPerr = true) :
    Safe (handleError o e force) := by
  constructor
  intro s
  unfold handleError
  dsimp only
  split
  · simp [Res.escapes, he]
  · split
    · split <;> simp [Res.escapes, Exc.isPerr]
    · rfl

theorem safe_raiseError : Safe raiseError := by
  constructor
  intro s
  unfold raiseError
  split <;> simp [Res.escapes, Exc.isPerr]

theorem safe_collectTmp (e : Exc) : Safe (collectTmp e) := ⟨fun _ => rfl⟩
theorem safe_clearTmp : Safe clearTmp := ⟨fun _ => rfl⟩

theorem safe_isolated {m : M α} (hm : Safe m) : Safe (isolated m) := by
  constructor
  intro s
  unfold isolated
  exact hm.h _

theorem safe_enterCheck {V : Type} (W : World V) (r : Nat) : Safe (enterCheck W r) := by
  unfold enterCheck
  split
  · exact safe_raise rfl
  · exact safe_pure _

@[simp] theorem mk_isPerr (k site : Nat) (item : Option Nat) : (mk k site item).isPerr = true := rfl
@[simp] theorem wrap_isPerr (site : Nat) (e : Exc) (item : Option Nat) : (wrap site e item).isPerr = true := rfl

/-! ### Term -/

theorem term_pure (a : α) : Term (pure a : M α) := ⟨fun _ => rfl⟩

theorem term_bind {m : M α} {f : α → M β} (hm : Term m) (hf : ∀ a, Term (f a)) : Term (m >>= f) := by
  constructor
  intro s
  rw [bind_apply]
  have h := hm.h s
  rcases hms : m s with ⟨r, s'⟩
  rw [hms] at h
  cases r with
  | ok a => exact (hf a).h s'
  | raise e => rfl
  | diverge => simp [Res.diverges] at h

theorem term_raise (e : Exc) : Term (raise e : M α) := ⟨fun _ => rfl⟩

theorem term_tryExcept {m : M α} {h : Exc → M α} (hm : Term m) (hh : ∀ e, Term (h e)) :
    Term (tryExcept m h) := by
  constructor
  intro s
  unfold tryExcept
  have h1 := hm.h s
  rcases hms : m s with ⟨r, s'⟩
  rw [hms] at h1
  cases r with
  | ok a => rfl
  | raise e => exact (hh e).h s'
  | diverge => simp [Res.diverges] at h1

theorem term_tryExceptIf {p : Exc → Bool} {m : M α} {h : Exc → M α} (hm : Term m) (hh : ∀ e, Term (h e)) :
    Term (tryExceptIf p m h) := by
  constructor
  intro s
  unfold tryExceptIf
  have h1 := hm.h s
  rcases hms : m s with ⟨r, s'⟩
  rw [hms] at h1
  cases r with
  | ok a => rfl
  | raise e =>
    by_cases hp : p e
    · simp only [hp, if_true]; exact (hh e).h s'
    · simp only [hp]; rfl
  | diverge => simp [Res.diverges] at h1

theorem term_emit (ev : Ev) : Term (emit ev) := ⟨fun _ => rfl⟩

theorem term_handleError (o : Opts) (e : Exc) (force : Bool) : Term (handleError o e force) := by
  constructor
  intro s
  unfold handleError
  dsimp only
  split
  · rfl
  · split
    · split <;> rfl
    · rfl

theorem term_raiseError : Term raiseError := by
  constructor
  intro s
  unfold raiseError
  split <;> rfl

theorem term_collectTmp (e : Exc) : Term (collectTmp e) := ⟨fun _ => rfl⟩
theorem term_clearTmp : Term clearTmp := ⟨fun _ => rfl⟩

theorem term_isolated {m : M α} (hm : Term m) : Term (isolated m) := by
  constructor
  intro s
  unfold isolated
  exact hm.h _

theorem term_enterCheck {V : Type} (W : World V) (r : Nat) : Term (enterCheck W r) := by
  unfold enterCheck
  split
  · exact term_raise _
  · exact term_pure _

theorem term_getItem {V : Type} (W : World V) (v : V) (xs : List V) (i : Nat) : Term (getItem W v xs i) := by
  unfold getItem
  split
  · exact term_raise _
  · split
    · exact term_pure _
    · exact term_raise _

/-! ### Quiet: nothing is appended to the event trace -/

structure Quiet {α : Type} (m : M α) : Prop where
  h : ∀ s, (m s).2.trace = s.trace

theorem quiet_pure (a : α) : Quiet (pure a : M α) := ⟨fun _ => rfl⟩

theorem quiet_bind {m : M α} {f : α → M β} (hm : Quiet m) (hf : ∀ a, Quiet (f a)) : Quiet (m >>= f) := by
  constructor
  intro s
  rw [bind_apply]
  have h := hm.h s
  rcases hms : m s with ⟨r, s'⟩
  rw [hms] at h
  cases r with
  | ok a => simp only; rw [(hf a).h s']; exact h
  | raise e => exact h
  | diverge => exact h

theorem quiet_raise (e : Exc) : Quiet (raise e : M α) := ⟨fun _ => rfl⟩

theorem quiet_tryExcept {m : M α} {h : Exc → M α} (hm : Quiet m) (hh : ∀ e, Quiet (h e)) :
    Quiet (tryExcept m h) := by
  constructor
  intro s
  unfold tryExcept
  have h1 := hm.h s
  rcases hms : m s with ⟨r, s'⟩
  rw [hms] at h1
  cases r with
  | ok a => exact h1
  | raise e => simp only; rw [(hh e).h s']; exact h1
  | diverge => exact h1

theorem quiet_tryExceptIf {p : Exc → Bool} {m : M α} {h : Exc → M α} (hm : Quiet m) (hh : ∀ e, Quiet (h e)) :
    Quiet (tryExceptIf p m h) := by
  constructor
  intro s
  unfold tryExceptIf
  have h1 := hm.h s
  rcases hms : m s with ⟨r, s'⟩
  rw [hms] at h1
  cases r with
  | ok a => exact h1
  | raise e =>
    by_cases hp : p e
    · simp only [hp, if_true]; rw [(hh e).h s']; exact h1
    · simp only [hp]; exact h1
  | diverge => exact h1

theorem quiet_handleError (o : Opts) (e : Exc) (force : Bool) : Quiet (handleError o e force) := by
  constructor
  intro s
  unfold handleError
  dsimp only
  split
  · rfl
  · split
    · split <;> rfl
    · rfl

theorem quiet_raiseError : Quiet raiseError := by
  constructor
  intro s
  unfold raiseError
  split <;> rfl

theorem quiet_collectTmp (e : Exc) : Quiet (collectTmp e) := ⟨fun _ => rfl⟩
theorem quiet_clearTmp : Quiet clearTmp := ⟨fun _ => rfl⟩

theorem quiet_isolated {m : M α} (hm : Quiet m) : Quiet (isolated m) := by
  constructor
  intro s
  unfold isolated
  exact hm.h _

theorem quiet_enterCheck {V : Type} (W : World V) (r : Nat) : Quiet (enterCheck W r) := by
  unfold enterCheck
  split
  · exact quiet_raise _
  · exact quiet_pure _

theorem quiet_getItem {V : Type} (W : World V) (v : V) (xs : List V) (i : Nat) : Quiet (getItem W v xs i) := by
  unfold getItem
  split
  · exact quiet_raise _
  · split
    · exact quiet_pure _
    · exact quiet_raise _

/-! ### automation: peel one constructor of a `do` block -/

macro "safe_step" : tactic => `(tactic| first
  | assumption
  | exact ‹∀ s, Safe (World.warn _ s)› _
  | exact safe_pure _
  | exact safe_raiseError
  | exact safe_clearTmp
  | exact safe_collectTmp _
  | exact safe_emit _
  | exact safe_enterCheck _ _
  | exact safe_handleError _ _ rfl
  | exact safe_handleError _ _ (by simp)
  | exact safe_raise rfl
  | apply safe_tryExcept
  | apply safe_bind
  | assumption
  | intro _
  | split
  | dsimp only)

macro "safe_auto" : tactic => `(tactic| repeat' safe_step)

macro "term_step" : tactic => `(tactic| first
  | assumption
  | exact term_pure _
  | exact term_raiseError
  | exact term_clearTmp
  | exact term_collectTmp _
  | exact term_emit _
  | exact term_enterCheck _ _
  | exact term_handleError _ _ _
  | exact term_raise _
  | exact term_getItem _ _ _ _
  | apply term_isolated
  | apply term_tryExcept
  | apply term_tryExceptIf
  | apply term_bind
  | assumption
  | intro _
  | split
  | dsimp only)

macro "term_auto" : tactic => `(tactic| repeat' term_step)

macro "quiet_step" : tactic => `(tactic| first
  | assumption
  | exact quiet_pure _
  | exact quiet_raiseError
  | exact quiet_clearTmp
  | exact quiet_collectTmp _
  | exact quiet_enterCheck _ _
  | exact quiet_handleError _ _ _
  | exact quiet_raise _
  | exact quiet_getItem _ _ _ _
  | apply quiet_isolated
  | apply quiet_tryExcept
  | apply quiet_tryExceptIf
  | apply quiet_bind
  | intro _
  | split
  | dsimp only)

macro "quiet_auto" : tactic => `(tactic| repeat' quiet_step)

end Utv.C04
