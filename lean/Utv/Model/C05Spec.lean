import Utv.Model.C05
/-!
C05 — `FieldContract`: what the documentation (docs/en/references/field.md, options.md "Field behavior
options" / "Field alias options") prescribes for the instance built from a declaration and an input
mapping.  Written per field, declaratively, without loops over the input or accumulated state; it does
not mention the lookup strategy.
-/
namespace Utv.C05.Spec
open Utv.C05

variable {V : Type}

/-- the key as the field sees it: letter case is irrelevant for a case-insensitive field -/
def normKey (W : World V) (f : PField V) (k : Key) : Key := if f.ci then W.lower k else k

/-- "Accepted keys": attribute name, alias, alias_from entries — in any letter case when case-insensitive. -/
def accepts (W : World V) (f : PField V) (k : Key) : Bool := f.allAliases.contains (normKey W f k)

/-- The input values offered to the field, by declared priority of the key (output name, attribute name,
alias_from in order), then by position in the input. -/
def candidates (W : World V) (f : PField V) (data : List (Key × V)) : List V :=
  f.allAliases.flatMap fun a => data.filterMap fun kv => if normKey W f kv.1 = a then some kv.2 else none

/-! ### The documented meaning of the field parameters and options, as propositions
(docs/en/references/field.md "Optional and default", "Input and output", "Mode configuration"; options.md "Field
behavior options", "Data processing options").  The boolean functions below them are what the driver evaluates; each
is tied to its proposition by an `_iff` theorem in Props/C05.lean, and so are the model's predicates. -/

/-- The parse runs in a mode the field does not support: `mode='rw'` lists the supported modes; no `mode` (or an empty
one) supports every mode, and so does a parse without mode. -/
def ModeOff (o : Opts V) (f : PField V) : Prop :=
  ∃ m fm, o.mode = some m ∧ f.mode = some fm ∧ fm ≠ [] ∧ m ∉ fm

/-- A `no_input=` / `no_output=` flag is on for the value: it is True, or a predicate that holds for the value, or a
mode string naming the current mode — or the field does not support the current mode ("mode restricts both"). -/
def FlagOn (W : World V) (o : Opts V) (f : PField V) (fl : Flag) (v : V) : Prop :=
  fl = .yes ∨ (∃ k, fl = .pred k ∧ W.pred k v = true) ∨ (∃ ms m, fl = .modes ms ∧ o.mode = some m ∧ m ∈ ms) ∨ ModeOff o f

/-- The field takes no input whatever the value (a predicate does not count). -/
def NeverInput (o : Opts V) (f : PField V) : Prop :=
  f.noInput = .yes ∨ (∃ ms m, f.noInput = .modes ms ∧ o.mode = some m ∧ m ∈ ms) ∨ ModeOff o f

/-- Leaving the field out is an error: `required=True` (the default without a default value), or `required='rw'`
naming the current mode — unless `ignore_required`, or the field cannot be given in this mode anyway. -/
def Required (o : Opts V) (f : PField V) : Prop :=
  o.ignoreRequired = false ∧ ¬ NeverInput o f ∧
  (f.required = .yes ∨ ∃ ms m, f.required = .modes ms ∧ o.mode = some m ∧ m ∈ ms)

/-- `x` is the default a missing field gets at parse time (`deferred = false`) or on attribute access (`deferred = true`):
nothing under `no_default`; deferred iff `defer_default` (field or options); `force_default` before the field's own;
always a copy (`copy_value`). -/
def IsDefault (W : World V) (o : Opts V) (f : PField V) (deferred : Bool) (x : V) : Prop :=
  o.noDefault = false ∧ (f.deferDefault || o.deferDefault) = deferred ∧
  ∃ d, x = W.copy d ∧ (o.forceDefault = some d ∨ (o.forceDefault = none ∧ f.default = some d))

/-- What happens to an unknown key `k` with value `v` under the addition policy: rejected (False), dropped (None),
kept (True) or converted (a type; a failed conversion follows `invalid_values`).  The names the class keeps for itself
(`_private`, ClassVar, methods) are never kept. -/
inductive AdditionRule (W : World V) (typed excluded : Bool) (o : Opts V) (k : Key) (v : V) : Option V → List Err → Prop
  | rejected : o.addition = .forbid → AdditionRule W typed excluded o k v none [.exceed k]
  | ownName : o.addition ≠ .forbid → excluded = true → AdditionRule W typed excluded o k v none []
  | dropped : o.addition = .ignore → excluded = false → AdditionRule W typed excluded o k v none []
  | kept : o.addition = .allow → excluded = false → typed = false → AdditionRule W typed excluded o k v (some v) []
  | converted (r : V) : o.addition = .allow → excluded = false → typed = true → W.addConv v = some r →
      AdditionRule W typed excluded o k v (some r) []
  | badExcluded : o.addition = .allow → excluded = false → typed = true → W.addConv v = none →
      o.invalidValues = .exclude → AdditionRule W typed excluded o k v none []
  | badPreserved : o.addition = .allow → excluded = false → typed = true → W.addConv v = none →
      o.invalidValues = .preserve → AdditionRule W typed excluded o k v (some v) []
  | badThrown : o.addition = .allow → excluded = false → typed = true → W.addConv v = none →
      o.invalidValues = .throw → AdditionRule W typed excluded o k v (some v) [.parse k]

/-- the mode test as a boolean -/
def modeOff (o : Opts V) (f : PField V) : Bool :=
  match o.mode, f.mode with | some m, some fm => !fm.isEmpty && !fm.contains m | _, _ => false

def flagOn (W : World V) (o : Opts V) (f : PField V) (fl : Flag) (v : V) : Bool :=
  (match fl with
   | .yes => true
   | .pred k => W.pred k v
   | .modes ms => (match o.mode with | some m => ms.contains m | none => false)
   | .no => false)
  || modeOff o f

def noInput (W : World V) (o : Opts V) (f : PField V) (v : V) : Bool := flagOn W o f f.noInput v
def noOutput (W : World V) (o : Opts V) (f : PField V) (v : V) : Bool := flagOn W o f f.noOutput v

def neverInput (o : Opts V) (f : PField V) : Bool :=
  (match f.noInput with
   | .yes => true
   | .modes ms => (match o.mode with | some m => ms.contains m | none => false)
   | _ => false)
  || modeOff o f

def required (o : Opts V) (f : PField V) : Bool :=
  !o.ignoreRequired && !neverInput o f &&
  (match f.required with
   | .yes => true
   | .modes ms => (match o.mode with | some m => ms.contains m | none => false)
   | .no => false)

/-- the default filled in at parse time -/
def filled (W : World V) (o : Opts V) (f : PField V) : Option V :=
  if o.noDefault || f.deferDefault || o.deferDefault then none
  else (match o.forceDefault with | some d => some d | none => f.default).map W.copy

/-- the default computed on attribute access (defer_default) -/
def deferred (W : World V) (o : Opts V) (f : PField V) : Option V :=
  if o.noDefault || !(f.deferDefault || o.deferDefault) then none
  else (match o.forceDefault with | some d => some d | none => f.default).map W.copy

/-- an accepted key of the field is in the input -/
def given (W : World V) (f : PField V) (data : List (Key × V)) : Bool := !(candidates W f data).isEmpty

structure FieldOut (V : Type) where
  value : Option V            -- what the instance holds for the field
  errs : List Err
  provided : Bool             -- an accepted key was in the input and its value was not dropped by 'exclude'
  active : Bool               -- its dependencies must be present
  deriving Repr

/-- The contract of one field. -/
def fieldContract [DecidableEq V] (W : World V) (o : Opts V) (f : PField V) (data : List (Key × V)) :
    FieldOut V :=
  match candidates W f data with
  | [] =>                                   -- missing: absence error, or default, or stays absent
    if required o f then ⟨none, [.absence f.name], false, false⟩ else ⟨filled W o f, [], false, false⟩
  | c :: rest =>
    if noInput W o f c then ⟨filled W o f, [], true, false⟩ else          -- input ignored
    let conflict := if !o.ignoreAliasConflicts && rest.any (· ≠ c) then [Err.aliasConflict f.name] else []
    match convert W f c with
    | some r => ⟨some r, conflict, true, true⟩
    | none =>
      match f.onError.getD o.invalidValues with
      | .throw => ⟨none, conflict ++ [.parse f.name], true, false⟩
      | .preserve => ⟨some c, conflict, true, true⟩
      | .exclude =>
        -- a required field cannot be excluded; otherwise the dropped value leaves the field as one that was
        -- not given: its default applies, it satisfies nobody's dependency and demands none
        if required o f then ⟨filled W o f, conflict ++ [.parse f.name], true, (filled W o f).isSome⟩
        else ⟨filled W o f, conflict, false, false⟩

/-- Unknown keys: rejected (False), dropped (None), kept (True), converted (type) — `AdditionRule` as a function. -/
def additionContract (W : World V) (typed excluded : Bool) (o : Opts V) (kv : Key × V) : Option V × List Err :=
  match o.addition with
  | .forbid => (none, [.exceed kv.1])
  | .ignore => (none, [])
  | .allow =>
    if excluded then (none, []) else
    if !typed then (some kv.2, []) else
    match W.addConv kv.2, o.invalidValues with
    | some r, _ => (some r, [])
    | none, .exclude => (none, [])
    | none, .preserve => (some kv.2, [])
    | none, .throw => (some kv.2, [.parse kv.1])

/-- max_params / min_params: checked on the number of input keys, before anything else -/
def paramsContract (o : Opts V) (n : Nat) : List Err :=
  (if (match o.maxParams with | some m => decide (m ≠ 0 ∧ n > m) | none => false) then [Err.paramsExceed] else [])
  ++ (if (match o.minParams with | some m => decide (m ≠ 0 ∧ n < m) | none => false) then [Err.paramsLack] else [])

structure Contract (V : Type) where
  result : List (Key × V)     -- output name ↦ value, then the kept unknown keys
  errs : List Err             -- every violation (a fail-fast run reports one of them)
  deriving Repr

def contract [DecidableEq V] (W : World V) (P : Parser V) (o : Opts V) (data : List (Key × V)) : Contract V :=
  let fs := P.fields.map (·.2)
  let outs := fs.map fun f => (f, fieldContract W o f data)
  -- present: given, accepted (not excluded), and holding a value
  let present (n : Key) : Bool := outs.any fun fo => fo.1.name = n && fo.2.provided && fo.2.value.isSome
  let wanted := (outs.filter (·.2.active)).flatMap (·.1.deps)
  let lack := (fs.map (·.name)).filter fun n => wanted.contains n && !present n
  let extra := data.filter fun kv => !fs.any (accepts W · kv.1)
  let adds := extra.map fun kv => (kv.1, additionContract W P.additionTyped (P.excludeVars.contains kv.1) o kv)
  { result := outs.filterMap (fun fo => fo.2.value.map (fo.1.name, ·))
              ++ adds.filterMap (fun a => a.2.1.map (a.1, ·))
    errs := paramsContract o data.length ++ outs.flatMap (·.2.errs)
            ++ (if lack.isEmpty then [] else [.depsAbsence lack]) ++ adds.flatMap (·.2.2) }

/-- The two views of the instance: the mapping lacks the no_output fields, the attributes have them. -/
def mappingView (W : World V) (P : Parser V) (o : Opts V) (result : List (Key × V)) : List (Key × V) :=
  result.filter fun kv => !(P.fields.any fun kf => kf.2.name = kv.1 && noOutput W o kf.2 kv.2)

def attrView (P : Parser V) (result : List (Key × V)) : List (Key × V) :=
  result.map fun kv =>
    match P.fields.find? (fun kf => kf.2.name = kv.1) with
    | some kf => (kf.2.attname, kv.2)
    | none => kv

end Utv.C05.Spec
