import Utv.Model.C19
import Utv.Lemmas.C19
import Utv.Lemmas.C19Decl
/-!
C19 — parsing is pure: no input mutation, no shared defaults, no cross-call state.

Vocabulary (independent of the code).  A *world* holds the declarations with their default objects,
an allocator and the live roots (every input a caller built, every result a parse returned).
`Val.mutIds` lists the identities of the mutable objects reachable from a value.

* a parse **does not modify** what existed before it: the declarations, every earlier root and its own
  input are, after the parse, exactly what they were (`C19_input_unmodified`) — although the model applies
  every in-place write the code performs (`St.writes`) to everything that existed (`World.applyWrites`);
* defaults are **copied for every instance and call**: a result reaches no mutable object of a declared
  default and shares with earlier results only what the caller itself passed in (`C19_copy_fresh`,
  `C19_default_fresh`, `C19_result_fresh`, `C19_defaults_isolated`);
* **no cross-call state**: along every history of parses (successful or failing), caller mutations of
  objects reached through results, attribute assignments and copies, the declarations stay what they were
  (`C19_history_preserves_declaration`), hence a parse after the history returns what it returns in a
  world that has seen nothing — stated against a specification of the parse that has no process state at all
  (`World.callSpec`), proved from an invariant of the process state the parse reads and writes (`run_procOK`), and partial:
  outside the known defect `staleParserOptions` (`C19_history_independent_partial`).

All statements are for every environment of declarations, every type of the fragment, every input value,
every history; no bound on sizes, depths or lengths.  Scope of the default clauses, as in the property:
defaults that are nests of lists, sets, tuples and dicts (`InScope`: no opaque mutable such as a
bytearray, which `copy_value` hands back as it is).
-/
namespace Utv.C19

/-! ### specification vocabulary -/

/-- the property's scope: declared defaults are nests of lists, sets, tuples and dicts -/
def InScope (E : Env) : Prop := E.leak = []

/-- a well-formed world: every live object was allocated (`< next`), and no live root reaches a
declared default object (other than the opaque ones outside the property's scope) -/
structure WF (w : World) : Prop where
  decl_lt : ∀ i ∈ w.env.declIds, i < w.next
  root_lt : ∀ i ∈ w.rootIds, i < w.next
  iso : ∀ i ∈ w.rootIds, i ∈ w.env.declIds → i ∈ w.env.leak

/-- what a caller may do next: parse an input it built from new objects and from live objects (never the
declared default objects themselves); change an object it reaches through a root — append / add / store an atom or
another object it reaches through a root, clear, pop, delete a key —; assign an atom to a field; copy an instance;
read an attribute -/
def Op.Valid (w : World) : Op → Prop
  | .call _ _ bump input ro =>
      (∀ i ∈ input.mutIds, i < w.next + bump) ∧ (∀ i ∈ input.mutIds, i ∈ w.env.declIds → i ∈ w.env.leak)
      ∧ ro.opqIds = []          -- a forced default, if any, is an atom or a list/set/tuple/dict nest
  | .declare d bump =>
      -- the new declaration's default objects are new objects — or, for the fields a subclass takes over from its
      -- base, the base's own default objects —, in the property's scope
      (∀ i ∈ Env.declIds [d], (w.next ≤ i ∧ i < w.next + bump) ∨ i ∈ w.env.declIds) ∧ Env.leak [d] = []
  | .mutate i act => i ∈ w.rootIds ∧ ∀ j ∈ act.ids, j ∈ w.rootIds
  | .setattr _ _ v => v.mutIds = []
  | .copy _ => True
  | .getattr _ _ => True

def ValidHist : World → List Op → Prop
  | _, [] => True
  | w, op :: ops => op.Valid w ∧ ValidHist (w.step op).1 ops

/-- the parse as the world runs it now — with the registry cache as it is, the parser's forward references resolved
or not, the wrapper bound to whatever parser `apply_for` handed it -/
def World.callResult (w : World) (target wrapper bump : Nat) (input : Val) (ro : ROpts := {}) : Res × St :=
  w.callP effectiveOpts target wrapper bump input ro

/-- the parse as the *declarations alone* define it (a process that has seen nothing): the registry answers from its
registrations, the parser resolves its forward references now, a wrapper parses with the options of its decoration -/
def World.callSpec (w : World) (target wrapper bump : Nat) (input : Val) (ro : ROpts := {}) : Res × St :=
  callWith declaredOpts sel false ro w.env target wrapper (entriesOf input).1 (entriesOf input).2 { next := w.next + bump }

/-! ### copy_value and defaults -/

/-- **copy_value is fresh.**  For a nest of lists/sets/tuples/dicts whose objects all exist already, no
mutable object of the copy is an object of the original. -/
theorem C19_copy_fresh (d : Val) (s : St) (hscope : d.opqIds = []) (hlt : ∀ i ∈ d.mutIds, i < s.next) :
    ∀ i ∈ (copyValue d s).1.mutIds, i ∉ d.mutIds := by
  intro i hi hd
  rcases (copyValue_spec d s).2.2 i hi with h | h
  · have := hlt i hd; omega
  · simp [hscope] at h

/-- … for *every* default, whatever it contains: a mutable object of the copy is new, or is one of the
opaque objects (`opqIds`) that `copy_value` returns as they are. -/
theorem C19_copy_fresh_general (d : Val) (s : St) :
    ∀ i ∈ (copyValue d s).1.mutIds, (s.next ≤ i ∧ i < (copyValue d s).2.next) ∨ i ∈ d.opqIds :=
  (copyValue_spec d s).2.2

/-- the copy is "identical to default" as a value (`==`; for defaults without data-class instances — a Schema instance
comes back as a plain dict of its items, `C19_copy_schema_instance`), and making it writes to nothing -/
theorem C19_copy_equal (d : Val) (s : St) (hn : d.noInst = true) :
    (copyValue d s).1.veq d = true ∧ (copyValue d s).2.writes = s.writes :=
  ⟨copyValue_veq d s hn, (copyValue_spec d s).2.1⟩

/-- `copy_value` of a **Schema instance** (a dict subclass, schema.py): a new *plain dict* of its items, every item
copied; of a DataClass instance (a plain object): the instance itself. -/
theorem C19_copy_schema_instance (j c : Nat) (k0 : String) (ks : List String) (x0 : Val) (xs : List Val) (s : St) :
    (copyValue (.node j (.inst c true) (k0 :: ks) (x0 :: xs)) s).1
        = .node (copyList xs s).2.next .dict ks (copyList xs s).1
    ∧ (copyValue (.node j (.inst c false) (k0 :: ks) (x0 :: xs)) s).1 = .node j (.inst c false) (k0 :: ks) (x0 :: xs) := by
  constructor
  · simp only [copyValue]
  · simp [copyValue, Kind.copied, Kind.base]

/-- `get_default`: plain default, shared-object factory, fresh-object factory alike hand out objects
allocated by this very call (or the declared default's opaque objects). -/
theorem C19_default_fresh (ro : ROpts) (d : Dflt) (s : St) (v : Val) (h : (getDefault ro d s).1 = some v) :
    ∀ i ∈ v.mutIds, (s.next ≤ i ∧ i < (getDefault ro d s).2.next) ∨ i ∈ d.opqIds ∨ i ∈ ro.opqIds := by
  intro i hi
  have := (getDefault_fr ro d s).out i (by rw [h]; exact hi)
  rcases this with h' | h'
  · exact Or.inr (List.mem_append.mp h')
  · exact Or.inl h'

/-! ### one parse -/

theorem mergeKV_ids : ∀ (ks : List String) (xs : List Val) (acc : List String × List Val),
    ∀ i ∈ mutIdsL (mergeKV ks xs acc).2, i ∈ mutIdsL xs ∨ i ∈ mutIdsL acc.2
  | [], _, acc, i, h => by simp only [mergeKV] at h; exact Or.inr h
  | _ :: _, [], acc, i, h => by simp only [mergeKV] at h; exact Or.inr h
  | k :: ks, x :: xs, acc, i, h => by
    simp only [mergeKV] at h
    rcases mergeKV_ids ks xs _ i h with h' | h'
    · left; simp only [mutIdsL, List.mem_append]; exact Or.inr h'
    · rcases setKV_ids k x acc.1 acc.2 i h' with h'' | h''
      · exact Or.inr h''
      · left; simp only [mutIdsL, List.mem_append]; exact Or.inl h''

/-- whatever the calling style (`Cls(**d)`, `Cls(d)`, `Cls.__from__(d)`, `Cls(d, **kw)`), the parser only sees
objects the caller passed in -/
theorem entriesOf_ids (input : Val) : ∀ v ∈ (entriesOf input).2, ∀ i ∈ v.mutIds, i ∈ input.mutIds := by
  intro v hv i hi
  have hmem : i ∈ mutIdsL (entriesOf input).2 := mem_mutIdsL.mpr ⟨v, hv, hi⟩
  unfold entriesOf at hmem
  split at hmem
  · exact mutIdsL_sub_node hmem
  · rename_i j0 ks0 j1 ks xs j2 kks kxs
    apply mutIdsL_sub_node
    simp only [mutIdsL, List.mem_append, List.append_nil]
    rcases mergeKV_ids ks xs (kks, kxs) i hmem with h | h
    · exact Or.inl (mutIdsL_sub_node h)
    · exact Or.inr (mutIdsL_sub_node h)
  · simp [mutIdsL] at hmem

/-- **The frame of a parse** (every target: Schema, DataClass, decorated function; every calling style;
success or failure): the allocator only moves forward; every object written in place was allocated by
this parse; every mutable object of the result is one the input contained, one allocated by this parse,
or an opaque object of a declared default. -/
theorem C19_call_frame (w : World) (target wrapper bump : Nat) (input : Val) (ro : ROpts) :
    let r := w.callResult target wrapper bump input ro
    w.next + bump ≤ r.2.next ∧
    (∀ i ∈ r.2.writes, w.next + bump ≤ i ∧ i < r.2.next) ∧
    (∀ v, r.1 = .ok v → ∀ i ∈ v.mutIds,
        i ∈ input.mutIds ∨ i ∈ w.env.leak ++ ro.opqIds ∨ (w.next + bump ≤ i ∧ i < r.2.next)) := by
  have h := callWith_fr effectiveOpts w.proc.resolve (w.proc.resolved.contains target) ro w.env (input.mutIds ++ (w.env.leak ++ ro.opqIds))
    (fun i hi => List.mem_append_right _ (List.mem_append_left _ hi))
    (fun i hi => List.mem_append_right _ (List.mem_append_right _ hi))
    target wrapper (entriesOf input).1 (entriesOf input).2
    (fun v hv i hi => List.mem_append_left _ (entriesOf_ids input v hv i hi)) { next := w.next + bump }
  refine ⟨h.mono, ?_, ?_⟩
  · intro i hi
    rcases h.wr i hi with h' | h'
    · simp at h'
    · exact h'
  · intro v hv i hi
    have := h.out i (by unfold World.callResult World.callP at hv; rw [hv]; exact hi)
    rcases this with h' | h'
    · rcases List.mem_append.mp h' with h'' | h''
      · exact Or.inl h''
      · exact Or.inr (Or.inl h'')
    · exact Or.inr (Or.inr h')

/-! ### a parse in a world -/

theorem leak_sub_declIds (E : Env) : ∀ i ∈ E.leak, i ∈ E.declIds := by
  intro i hi
  obtain ⟨v, hv, h⟩ := mem_opqIdsL.mp hi
  exact mem_mutIdsL.mpr ⟨v, hv, opqIds_sub_mutIds v i h⟩

theorem mem_rootIds_push {w : World} {v : Val} {i : Nat} :
    i ∈ ({ w with roots := w.roots ++ [some v] } : World).rootIds ↔ i ∈ w.rootIds ∨ i ∈ v.mutIds := by
  simp [World.rootIds, World.rootVals, List.filterMap_append, mutIdsL_append, mutIdsL]

theorem mem_rootIds_push_none {w : World} {i : Nat} :
    i ∈ ({ w with roots := w.roots ++ [none] } : World).rootIds ↔ i ∈ w.rootIds := by
  simp [World.rootIds, World.rootVals, List.filterMap_append]

/-- what `step` does on a parse, in a well-formed world: although every logged in-place write is applied
to the declarations, to all earlier roots and to the input, nothing of that changes. -/
theorem step_call (w : World) (hw : WF w) (target wrapper bump : Nat) (input : Val) (ro : ROpts)
    (hin : ∀ i ∈ input.mutIds, i < w.next + bump) :
    w.step (.call target wrapper bump input ro) =
      (match w.callResult target wrapper bump input ro with
       | (.ok r, s1) => ({ w with next := s1.next, roots := w.roots ++ [some input] ++ [some r],
                                   proc := w.procAfter target }, Outcome.ok)
       | (.error e, s1) => ({ w with next := s1.next, roots := w.roots ++ [some input] ++ [none],
                                      proc := w.procAfter target }, Outcome.ofErr e)) := by
  have hfr := C19_call_frame w target wrapper bump input ro
  simp only at hfr
  have happ : ∀ ws : List Nat, (∀ i ∈ ws, w.next + bump ≤ i) →
      ({ w with roots := w.roots ++ [some input] } : World).applyWrites ws = { w with roots := w.roots ++ [some input] } := by
    intro ws hws
    apply applyWrites_eq_self
    intro i hi
    have hge := hws i hi
    refine ⟨fun hd => ?_, fun hr => ?_⟩
    · have := hw.decl_lt i hd; omega
    · rcases mem_rootIds_push.mp hr with h | h
      · have := hw.root_lt i h; omega
      · have := hin i h; omega
  unfold World.step World.stepWith
  simp only
  change (match w.callResult target wrapper bump input ro with
    | (.ok r, s1) => _
    | (.error e, s1) => _) = _
  cases hr : w.callResult target wrapper bump input ro with
  | mk r s1 =>
    rw [hr] at hfr
    have hws : ∀ i ∈ s1.writes, w.next + bump ≤ i := fun i hi => (hfr.2.1 i hi).1
    cases r with
    | ok v => simp only [happ s1.writes hws]
    | error e => simp only [happ s1.writes hws]

/-- **Parsing never modifies the caller's input objects** — nor anything else that existed: after a parse
(successful or failing) the declarations with their default objects are the same, every earlier root is
the same, and the input root is the input as the caller built it. -/
theorem C19_input_unmodified (w : World) (hw : WF w) (target wrapper bump : Nat) (input : Val) (ro : ROpts)
    (hin : ∀ i ∈ input.mutIds, i < w.next + bump) :
    (w.step (.call target wrapper bump input ro)).1.env = w.env ∧
    ∃ r, (w.step (.call target wrapper bump input ro)).1.roots = w.roots ++ [some input] ++ [r] := by
  rw [step_call w hw target wrapper bump input ro hin]
  cases hr : w.callResult target wrapper bump input ro with
  | mk r s1 =>
    cases r with
    | ok v => exact ⟨rfl, ⟨some v, rfl⟩⟩
    | error e => exact ⟨rfl, ⟨none, rfl⟩⟩

/-- **Freshness of a result**, in world terms: a mutable object of the result is one the caller passed in,
a new one, or (outside the property's scope) an opaque object of a declared default. -/
theorem C19_result_fresh (w : World) (target wrapper bump : Nat) (input : Val) (ro : ROpts) (r : Val) (s1 : St)
    (h : w.callResult target wrapper bump input ro = (.ok r, s1)) :
    ∀ i ∈ r.mutIds, i ∈ input.mutIds ∨ i ∈ w.env.leak ++ ro.opqIds ∨ (w.next + bump ≤ i ∧ i < s1.next) := by
  have hfr := C19_call_frame w target wrapper bump input ro
  simp only at hfr
  rw [h] at hfr
  exact hfr.2.2 r rfl

/-- **Mutable defaults are copied for every instance and call.**  In scope (defaults are nests of
lists/sets/tuples/dicts), for a caller that does not itself hand in a declared default object:
the result reaches no object of any declared default, and it shares with the earlier roots (earlier
instances, earlier calls' results) only objects the caller passed in with this input. -/
theorem C19_defaults_isolated (w : World) (hw : WF w) (hs : InScope w.env) (target wrapper bump : Nat)
    (input : Val) (ro : ROpts) (hv : Op.Valid w (.call target wrapper bump input ro)) (r : Val) (s1 : St)
    (h : w.callResult target wrapper bump input ro = (.ok r, s1)) :
    (∀ i ∈ r.mutIds, i ∉ w.env.declIds) ∧ (∀ i ∈ r.mutIds, i ∈ w.rootIds → i ∈ input.mutIds) := by
  have hf := C19_result_fresh w target wrapper bump input ro r s1 h
  have hro : ro.opqIds = [] := hv.2.2
  unfold InScope at hs
  refine ⟨fun i hi hd => ?_, fun i hi hr => ?_⟩
  · rcases hf i hi with h' | h' | h'
    · have := hv.2.1 i h' hd; simp [hs] at this
    · simp [hs, hro] at h'
    · have := hw.decl_lt i hd; omega
  · rcases hf i hi with h' | h' | h'
    · exact h'
    · simp [hs, hro] at h'
    · have := hw.root_lt i hr; omega

/-! ### histories -/

def idsOfRoots (rs : List (Option Val)) : List Nat := mutIdsL (rs.filterMap id)

theorem rootIds_eq (w : World) : w.rootIds = idsOfRoots w.roots := rfl

theorem mem_idsOfRoots_push {rs : List (Option Val)} {v : Val} {i : Nat} :
    i ∈ idsOfRoots (rs ++ [some v]) ↔ i ∈ idsOfRoots rs ∨ i ∈ v.mutIds := by
  simp [idsOfRoots, List.filterMap_append, mutIdsL_append, mutIdsL]

theorem idsOfRoots_push_none (rs : List (Option Val)) : idsOfRoots (rs ++ [none]) = idsOfRoots rs := by
  simp [idsOfRoots, List.filterMap_append]

theorem WF_push (w : World) (hw : WF w) (n' : Nat) (hn : w.next ≤ n') (v : Val)
    (hlt : ∀ i ∈ v.mutIds, i < n') (hiso : ∀ i ∈ v.mutIds, i ∈ w.env.declIds → i ∈ w.env.leak) :
    WF { w with next := n', roots := w.roots ++ [some v] } := by
  refine ⟨fun i hi => ?_, fun i hi => ?_, fun i hi hd => ?_⟩
  · have := hw.decl_lt i hi; show i < n'; omega
  · show i < n'
    rw [rootIds_eq] at hi
    rcases mem_idsOfRoots_push.mp hi with h | h
    · have := hw.root_lt i h; omega
    · exact hlt i h
  · rw [rootIds_eq] at hi
    rcases mem_idsOfRoots_push.mp hi with h | h
    · exact hw.iso i h hd
    · exact hiso i h hd

theorem WF_push_none (w : World) (hw : WF w) (n' : Nat) (hn : w.next ≤ n') :
    WF { w with next := n', roots := w.roots ++ [none] } := by
  refine ⟨fun i hi => ?_, fun i hi => ?_, fun i hi hd => ?_⟩
  · have := hw.decl_lt i hi; show i < n'; omega
  · show i < n'
    rw [rootIds_eq] at hi
    simp only [idsOfRoots_push_none] at hi
    have := hw.root_lt i hi; omega
  · rw [rootIds_eq] at hi
    simp only [idsOfRoots_push_none] at hi
    exact hw.iso i hi hd

/-- a caller's write with atoms, to an object that is no declared default object, keeps the world
well-formed and leaves the declarations alone -/
theorem writeAll_WF' (S : List Nat) (w : World) (hw : WF w) (i : Nat)
    (f : Kind → List String → List Val → Option (List String × List Val))
    (hi : i ∉ w.env.declIds) (hf : AddsOnly S f) (hS : ∀ j ∈ S, j ∈ w.rootIds) :
    WF (w.writeAll i f) ∧ (w.writeAll i f).env = w.env ∧ (∀ j ∈ (w.writeAll i f).rootIds, j ∈ w.rootIds) := by
  have henv := writeAll_env_eq w i f hi
  have hsub : ∀ j ∈ (w.writeAll i f).rootIds, j ∈ w.rootIds := fun j hj =>
    (writeAll_rootIds_sub' S w i f hf j hj).elim id (hS j)
  refine ⟨⟨fun j hj => ?_, fun j hj => ?_, fun j hj hd => ?_⟩, henv, hsub⟩
  · rw [henv] at hj; exact hw.decl_lt j hj
  · exact hw.root_lt j (hsub j hj)
  · rw [henv] at hd ⊢; exact hw.iso j (hsub j hj) hd

theorem writeAll_WF (w : World) (hw : WF w) (i : Nat) (f : Kind → List String → List Val → Option (List String × List Val))
    (hi : i ∉ w.env.declIds) (hf : AddsNoIds f) :
    WF (w.writeAll i f) ∧ (w.writeAll i f).env = w.env ∧ (∀ j ∈ (w.writeAll i f).rootIds, j ∈ w.rootIds) := by
  have henv := writeAll_env_eq w i f hi
  have hsub := writeAll_rootIds_sub w i f hf
  refine ⟨⟨fun j hj => ?_, fun j hj => ?_, fun j hj hd => ?_⟩, henv, hsub⟩
  · rw [henv] at hj; exact hw.decl_lt j hj
  · exact hw.root_lt j (hsub j hj)
  · rw [henv] at hd ⊢; exact hw.iso j (hsub j hj) hd

theorem foldl_writeAll_WF (ps : List (Nat × (Kind → List String → List Val → Option (List String × List Val))))
    (w0 : World) : ∀ (w : World), WF w → w.env = w0.env → (∀ j ∈ w.rootIds, j ∈ w0.rootIds) →
    (∀ p ∈ ps, p.1 ∉ w0.env.declIds ∧ AddsNoIds p.2) →
    WF (ps.foldl (fun w p => w.writeAll p.1 p.2) w) ∧ (ps.foldl (fun w p => w.writeAll p.1 p.2) w).env = w0.env := by
  induction ps with
  | nil => intro w hw he _ _; exact ⟨hw, he⟩
  | cons p ps ih =>
    intro w hw he hsub hps
    simp only [List.foldl]
    have hp := hps p (by simp)
    obtain ⟨h1, h2, h3⟩ := writeAll_WF w hw p.1 p.2 (by rw [he]; exact hp.1) hp.2
    exact ih _ h1 (by rw [h2, he]) (fun j hj => hsub j (h3 j hj)) (fun q hq => hps q (List.mem_cons_of_mem _ hq))

theorem root_mem (w : World) (r : Nat) (v : Val) (h : w.root r = some v) : some v ∈ w.roots := by
  unfold World.root at h
  cases hr : w.roots[r]? with
  | none => simp [hr] at h
  | some o =>
    simp [hr] at h
    subst h
    exact List.mem_of_getElem? hr

/-- well-formedness does not look at the process state -/
theorem WF_proc {w : World} (h : WF w) (p : Proc) : WF { w with proc := p } :=
  ⟨h.decl_lt, h.root_lt, h.iso⟩

theorem step_setattr (w : World) (r : Nat) (fname : String) (v : Val) :
    w.step (.setattr r fname v) =
      (match w.root r with
       | some (.node i (.inst k b) ks xs) =>
           (match w.env[k]? with
            | some d => ((setattrWrites d fname v (.node i (.inst k b) ks xs)).foldl (fun w p => w.writeAll p.1 p.2) w, Outcome.ok)
            | none => (w, Outcome.skip))
       | _ => (w, Outcome.skip)) := rfl

theorem step_copy (w : World) (r : Nat) :
    w.step (.copy r) =
      (match w.root r with
       | some v =>
           (match schemaCopy v { next := w.next } with
            | (.ok c, s1) => ({ w with next := s1.next, roots := w.roots ++ [some c] }, Outcome.ok)
            | (.error _, _) => ({ w with roots := w.roots ++ [none] }, Outcome.skip))
       | none => ({ w with roots := w.roots ++ [none] }, Outcome.skip)) := rfl

theorem opqIdsL_append (xs ys : List Val) : opqIdsL (xs ++ ys) = opqIdsL xs ++ opqIdsL ys := by
  induction xs with
  | nil => simp [opqIdsL]
  | cons x xs ih => simp [opqIdsL, ih, List.append_assoc]

theorem declIds_append (E E' : Env) : Env.declIds (E ++ E') = E.declIds ++ Env.declIds E' := by
  simp [Env.declIds, Env.dfltVals, List.flatMap_append, mutIdsL_append]

theorem leak_append (E E' : Env) : Env.leak (E ++ E') = E.leak ++ Env.leak E' := by
  simp [Env.leak, Env.dfltVals, List.flatMap_append, opqIdsL_append]

theorem step_declare (w : World) (d : Decl) (bump : Nat) :
    w.step (.declare d bump) = ({ w with env := w.env ++ [d], next := w.next + bump }, Outcome.ok) := rfl

theorem readAttr_ids (b : Bool) (fname : String) (j : Nat) (k : Kind) (ks : List String) (xs : List Val) (v : Val)
    (h : readAttr b fname ks xs = some v) : ∀ i ∈ v.mutIds, i ∈ (Val.node j k ks xs).mutIds := by
  intro i hi
  apply mutIdsL_sub_node
  unfold readAttr at h
  split at h
  · rename_i v' hv'
    cases h
    split at hv'
    · have hm := lookupKV_mem _ _ _ _ hv'
      exact mem_mutIdsL.mpr ⟨v, List.mem_of_mem_drop hm, hi⟩
    · cases hv'
  · split at h
    · rename_i a aks avs rest
      have hm := lookupKV_mem _ _ _ _ h
      simp only [mutIdsL, List.mem_append]
      exact Or.inl (mutIdsL_sub_node (mem_mutIdsL.mpr ⟨v, hm, hi⟩))
    · cases h

theorem step_getattr (w : World) (r : Nat) (fname : String) : w.step (.getattr r fname) = w.getattr r fname := rfl

/-- reading an attribute hands out an object the instance holds, or a fresh copy of a deferred default -/
theorem getattr_WF (w : World) (hw : WF w) (hs : InScope w.env) (r : Nat) (fname : String) :
    WF (w.getattr r fname).1 ∧ (w.getattr r fname).1.env = w.env ∧ (w.getattr r fname).1.proc = w.proc := by
  have hfail : WF ({ w with roots := w.roots ++ [none] } : World) := WF_push_none w hw w.next (Nat.le_refl _)
  unfold World.getattr
  simp only
  split
  · rename_i j k b ks xs hroot
    have hmem := root_mem w r _ hroot
    split
    · exact ⟨hfail, rfl, rfl⟩
    · rename_i d hd
      split
      · exact ⟨hfail, rfl, rfl⟩
      · rename_i f hf
        split
        · rename_i v hv
          refine ⟨WF_push w hw w.next (Nat.le_refl _) v (fun i hi => ?_) (fun i hi hdcl => ?_), rfl, rfl⟩
          · exact hw.root_lt i (rootIds_of_root hmem i (readAttr_ids b fname j _ ks xs v hv i hi))
          · exact hw.iso i (rootIds_of_root hmem i (readAttr_ids b fname j _ ks xs v hv i hi)) hdcl
        · split
          · have hfr := getDefaultAt_fr true f.defer {} f.dflt { next := w.next }
            have hfm : f ∈ d.fields := List.mem_of_find?_eq_some hf
            have hleak : ∀ i ∈ f.dflt.opqIds ++ ({} : ROpts).opqIds, False := by
              intro i hi
              simp only [ROpts.opqIds, List.append_nil] at hi
              have := leak_of_field hd f hfm i hi
              rw [hs] at this; cases this
            split
            · rename_i v s1 hg
              rw [hg] at hfr
              refine ⟨WF_push w hw s1.next hfr.mono v (fun i hi => ?_) (fun i hi hdcl => ?_), rfl, rfl⟩
              · rcases hfr.out i (by simpa [optIds] using hi) with h | h
                · exact (hleak i h).elim
                · exact h.2
              · rcases hfr.out i (by simpa [optIds] using hi) with h | h
                · exact (hleak i h).elim
                · have := hw.decl_lt i hdcl; simp at h; omega
            · exact ⟨hfail, rfl, rfl⟩
          · exact ⟨hfail, rfl, rfl⟩
  · exact ⟨hfail, rfl, rfl⟩

/-- every step of a valid history keeps the world well-formed; the declarations made so far stay exactly
what they were (a `declare` appends one, nothing else touches `env`) -/
theorem step_WF (w : World) (hw : WF w) (hs : InScope w.env) (op : Op) (hv : op.Valid w) :
    WF (w.step op).1 ∧
    ((w.step op).1.env = w.env ∨ ∃ d, (w.step op).1.env = w.env ++ [d] ∧ Env.leak [d] = []) := by
  have hleak : w.env.leak = [] := hs
  have hnotdecl : ∀ i ∈ w.rootIds, i ∉ w.env.declIds := fun i hi hd => by
    have := hw.iso i hi hd; simp [hleak] at this
  cases op with
  | declare d bump =>
    obtain ⟨hnew, hl⟩ := hv
    rw [step_declare]
    refine ⟨⟨fun i hi => ?_, fun i hi => ?_, fun i hi hd => ?_⟩, Or.inr ⟨d, rfl, hl⟩⟩
    · simp only [declIds_append, List.mem_append] at hi
      show i < w.next + bump
      rcases hi with h | h
      · have := hw.decl_lt i h; omega
      · rcases hnew i h with h' | h'
        · exact h'.2
        · have := hw.decl_lt i h'; omega
    · show i < w.next + bump
      have := hw.root_lt i hi; omega
    · simp only [declIds_append, List.mem_append] at hd
      simp only [leak_append, List.mem_append]
      rcases hd with h | h
      · exact Or.inl (hw.iso i hi h)
      · rcases hnew i h with h' | h'
        · have h1 := hw.root_lt i hi
          omega
        · exact Or.inl (hw.iso i hi h')
  | call target wrapper bump input ro =>
    obtain ⟨hin, hnd, hro⟩ := hv
    rw [step_call w hw target wrapper bump input ro hin]
    have hfr := C19_call_frame w target wrapper bump input ro
    simp only at hfr
    cases hr : w.callResult target wrapper bump input ro with
    | mk r s1 =>
      rw [hr] at hfr
      simp only at hfr
      have hw1 : WF { w with next := s1.next, roots := w.roots ++ [some input] } :=
        WF_push w hw s1.next (by have := hfr.1; omega) input (fun i hi => by have := hin i hi; have := hfr.1; omega) hnd
      cases r with
      | error e => exact ⟨WF_proc (WF_push_none _ hw1 s1.next (Nat.le_refl _)) _, Or.inl rfl⟩
      | ok v =>
        refine ⟨WF_proc (WF_push _ hw1 s1.next (Nat.le_refl _) v (fun i hi => ?_) (fun i hi hd => ?_)) _, Or.inl rfl⟩
        · rcases hfr.2.2 v rfl i hi with h | h | h
          · have := hin i h; have := hfr.1; omega
          · simp [hleak, hro] at h
          · exact h.2
        · rcases hfr.2.2 v rfl i hi with h | h | h
          · exact hnd i h hd
          · simp [hleak, hro] at h
          · have := hw.decl_lt i hd; omega
  | mutate i act =>
    obtain ⟨hi, ha⟩ := hv
    obtain ⟨h1, h2, _⟩ := writeAll_WF' act.ids w hw i act.apply (hnotdecl i hi) (act_addsOnly act) ha
    exact ⟨h1, Or.inl h2⟩
  | setattr r fname v =>
    have hv' : v.mutIds = [] := hv
    rw [step_setattr]
    cases hroot : w.root r with
    | none => exact ⟨hw, Or.inl rfl⟩
    | some rv =>
      cases rv with
      | none => exact ⟨hw, Or.inl rfl⟩
      | int n => exact ⟨hw, Or.inl rfl⟩
      | str x => exact ⟨hw, Or.inl rfl⟩
      | node i k ks xs =>
        cases k with
        | inst c =>
          simp only
          cases hd : w.env[c]? with
          | none => exact ⟨hw, Or.inl rfl⟩
          | some d =>
            simp only
            have hmem := root_mem w r _ hroot
            have hfo := foldl_writeAll_WF _ w w hw rfl (fun _ h => h) (fun p hp => by
              obtain ⟨h1, h2⟩ := setattrWrites_ok d fname v hv' _ p hp
              exact ⟨hnotdecl p.1 (rootIds_of_root hmem p.1 h1), h2⟩)
            exact ⟨hfo.1, Or.inl hfo.2⟩
        | list => exact ⟨hw, Or.inl rfl⟩
        | tuple => exact ⟨hw, Or.inl rfl⟩
        | set => exact ⟨hw, Or.inl rfl⟩
        | fset => exact ⟨hw, Or.inl rfl⟩
        | dict => exact ⟨hw, Or.inl rfl⟩
        | opq _ => exact ⟨hw, Or.inl rfl⟩
        | usr _ => exact ⟨hw, Or.inl rfl⟩
  | copy r =>
    rw [step_copy]
    cases hroot : w.root r with
    | none => exact ⟨WF_push_none w hw w.next (Nat.le_refl _), Or.inl rfl⟩
    | some rv =>
      simp only
      have hfr := schemaCopy_fr rv { next := w.next }
      have hmem := root_mem w r _ hroot
      cases hc : schemaCopy rv { next := w.next } with
      | mk res s1 =>
        rw [hc] at hfr
        simp only at hfr
        cases res with
        | error e => exact ⟨WF_push_none w hw w.next (Nat.le_refl _), Or.inl rfl⟩
        | ok c =>
          simp only
          refine ⟨WF_push w hw s1.next hfr.mono c (fun i hi => ?_) (fun i hi hd => ?_), Or.inl (by trivial)⟩
          · rcases hfr.out i hi with h | h
            · have := hw.root_lt i (rootIds_of_root hmem i h); have := hfr.mono; simp only at this; omega
            · exact h.2
          · rcases hfr.out i hi with h | h
            · exact hw.iso i (rootIds_of_root hmem i h) hd
            · have := hw.decl_lt i hd; simp only at h; omega

  | getattr r fname =>
    rw [step_getattr]
    obtain ⟨h1, h2, _⟩ := getattr_WF w hw hs r fname
    exact ⟨h1, Or.inl h2⟩

/-- **No cross-call state through the declarations.**  Along every valid history — parses that succeed
or fail (under any running options), the caller changing objects it reaches through results, assigning
attributes, copying instances, *declaring further classes, subclasses and variants* — every declaration made
so far, including every declared default object, stays exactly what it was: the environment only grows at
its end.  The world stays well-formed and in scope.  (Induction on the history; no bound on its length.) -/
theorem C19_history_preserves_declaration (ops : List Op) :
    ∀ (w : World), WF w → InScope w.env → ValidHist w ops →
      (∃ ds, (w.run ops).1.env = w.env ++ ds) ∧ InScope (w.run ops).1.env ∧ WF (w.run ops).1 := by
  induction ops with
  | nil => intro w hw hs _; exact ⟨⟨[], by simp [World.run, World.runWith]⟩, hs, hw⟩
  | cons op ops ih =>
    intro w hw hs hv
    obtain ⟨h1, h2⟩ := step_WF w hw hs op hv.1
    have hs1 : InScope (w.step op).1.env := by
      unfold InScope at hs ⊢
      rcases h2 with h | ⟨d, h, hl⟩
      · rw [h]; exact hs
      · rw [h, leak_append, hs, hl]; rfl
    have hpre : ∃ ds, (w.step op).1.env = w.env ++ ds := by
      rcases h2 with h | ⟨d, h, _⟩
      · exact ⟨[], by simp [h]⟩
      · exact ⟨[d], h⟩
    have := ih (w.step op).1 h1 hs1 hv.2
    unfold World.run World.runWith
    cases hst : World.step w op with
    | mk w1 o =>
      rw [hst] at this hpre
      simp only
      cases hrun : World.runWith World.step w1 ops with
      | mk w2 os =>
        have e : World.run w1 ops = (w2, os) := hrun
        rw [e] at this
        simp only at this ⊢ hpre
        obtain ⟨⟨ds2, hd2⟩, hsc, hwf⟩ := this
        obtain ⟨ds1, hd1⟩ := hpre
        exact ⟨⟨ds1 ++ ds2, by rw [hd2, hd1, List.append_assoc]⟩, hsc, hwf⟩

/-! ### process state: the registry cache and the lazily resolved forward references

`World.proc` is read by every parse (`World.callP`) and written by every parse (`World.procAfter`).  History
independence is an invariant argument: in every reachable state the cache answers what the registrations answer and
a parser marked "resolved" can indeed resolve — so the lookups of a parse answer as in the initial state. -/

/-- the invariant of the process state -/
structure ProcOK (w : World) : Prop where
  cache : ∀ e ∈ w.proc.regCache, e.2 = sel e.1
  resolved : ∀ k ∈ w.proc.resolved, ∃ d, w.env[k]? = some d ∧ d.scoped w.env.length = true

theorem same_sel : ∀ (a b : Ty), a.same b = true → sel a = sel b := by
  intro a b h
  cases a <;> cases b <;> simp [Ty.same] at h <;> try rfl
  · rename_i k k'; subst h; rfl
  all_goals (try (simp [sel]))

theorem resolve_eq_sel (p : Proc) (h : ∀ e ∈ p.regCache, e.2 = sel e.1) : p.resolve = sel := by
  funext t
  unfold Proc.resolve
  cases hf : p.regCache.find? (fun e => e.1.same t) with
  | none => rfl
  | some e =>
    simp only
    have hm := List.mem_of_find?_eq_some hf
    have hs := List.find?_some hf
    rw [h e hm]
    exact same_sel e.1 t hs

theorem declScoped_mono {d : Decl} {n m : Nat} (h : d.scoped n = true) (hm : n ≤ m) : d.scoped m = true := by
  simp only [Decl.scoped, Bool.and_eq_true, List.all_eq_true] at h ⊢
  refine ⟨fun f hf => scoped_mono (h.1 f hf) hm, ?_⟩
  cases hr : d.ret with
  | none => rfl
  | some rt => have := h.2; rw [hr] at this; exact scoped_mono this hm

theorem procAfter_ok (w : World) (h : ProcOK w) (target : Nat) :
    ProcOK { w with proc := w.procAfter target } := by
  unfold World.procAfter
  cases hd : w.env[target]? with
  | none => exact ⟨h.cache, h.resolved⟩
  | some d =>
    refine ⟨?_, ?_⟩
    · intro e he
      simp only [List.mem_append, List.mem_map] at he
      rcases he with ⟨f, _, rfl⟩ | he
      · simp only; rw [resolve_eq_sel w.proc h.cache]
      · exact h.cache e he
    · intro k hk
      simp only at hk
      split at hk
      · rename_i hsc
        rcases List.mem_cons.mp hk with rfl | hk
        · exact ⟨d, hd, hsc⟩
        · exact h.resolved k hk
      · exact h.resolved k hk

theorem procOK_of_ext {w w' : World} (h : ProcOK w) (hp : w'.proc = w.proc) (he : ∃ ds, w'.env = w.env ++ ds) :
    ProcOK w' := by
  obtain ⟨ds, he⟩ := he
  refine ⟨by rw [hp]; exact h.cache, ?_⟩
  intro k hk
  rw [hp] at hk
  obtain ⟨d, hd, hsc⟩ := h.resolved k hk
  have hlt : k < w.env.length := (List.getElem?_eq_some_iff.mp hd).1
  exact ⟨d, by rw [he, List.getElem?_append_left hlt]; exact hd, declScoped_mono hsc (by rw [he]; simp)⟩

theorem foldl_writeAll_proc (ps : List (Nat × (Kind → List String → List Val → Option (List String × List Val)))) :
    ∀ w : World, (ps.foldl (fun w p => w.writeAll p.1 p.2) w).proc = w.proc := by
  induction ps with
  | nil => intro w; rfl
  | cons p ps ih => intro w; simp only [List.foldl]; rw [ih]; rfl

/-- only a parse writes the process state -/
theorem step_proc_eq (w : World) (op : Op) (h : ∀ t wr b i ro, op ≠ .call t wr b i ro) :
    (w.step op).1.proc = w.proc := by
  cases op with
  | call t wr b i ro => exact absurd rfl (h t wr b i ro)
  | declare d bump => rfl
  | mutate i act => rfl
  | setattr r fname v =>
    rw [step_setattr]
    split
    · split
      · exact foldl_writeAll_proc _ w
      · rfl
    · rfl
  | copy r =>
    rw [step_copy]
    split
    · split <;> rfl
    · rfl
  | getattr r fname =>
    rw [step_getattr]
    unfold World.getattr
    simp only
    repeat' split
    all_goals rfl

/-- the process state stays within the invariant along every step (declaring more classes included) -/
theorem step_procOK (w : World) (hw : WF w) (hs : InScope w.env) (h : ProcOK w) (op : Op) (hv : op.Valid w) :
    ProcOK (w.step op).1 := by
  have hext : ∃ ds, (w.step op).1.env = w.env ++ ds := by
    rcases (step_WF w hw hs op hv).2 with he | ⟨d, he, _⟩
    · exact ⟨[], by simp [he]⟩
    · exact ⟨[d], he⟩
  cases op with
  | call target wrapper bump input ro =>
    rw [step_call w hw target wrapper bump input ro hv.1]
    have hp := procAfter_ok w h target
    cases hr : w.callResult target wrapper bump input ro with
    | mk r s1 =>
      cases r with
      | ok v => exact ⟨hp.cache, hp.resolved⟩
      | error e => exact ⟨hp.cache, hp.resolved⟩
  | declare d bump => exact procOK_of_ext h (step_proc_eq w _ (by intros; simp)) hext
  | mutate i act => exact procOK_of_ext h (step_proc_eq w _ (by intros; simp)) hext
  | setattr r fname v => exact procOK_of_ext h (step_proc_eq w _ (by intros; simp)) hext
  | copy r => exact procOK_of_ext h (step_proc_eq w _ (by intros; simp)) hext
  | getattr r f => exact procOK_of_ext h (step_proc_eq w _ (by intros; simp)) hext

/-- along every valid history: declarations only grow at the end, the world stays well-formed and in scope
(`C19_history_preserves_declaration`), and the process state stays within its invariant -/
theorem run_procOK (ops : List Op) :
    ∀ (w : World), WF w → InScope w.env → ProcOK w → ValidHist w ops → ProcOK (w.run ops).1 := by
  induction ops with
  | nil => intro w _ _ h _; exact h
  | cons op ops ih =>
    intro w hw hs h hv
    obtain ⟨h1, h2⟩ := step_WF w hw hs op hv.1
    have hs1 : InScope (w.step op).1.env := by
      unfold InScope at hs ⊢
      rcases h2 with he | ⟨d, he, hl⟩
      · rw [he]; exact hs
      · rw [he, leak_append, hs, hl]; rfl
    have := ih (w.step op).1 h1 hs1 (step_procOK w hw hs h op hv.1) hv.2
    unfold World.run World.runWith
    cases hst : World.step w op with
    | mk w1 o =>
      rw [hst] at this
      simp only
      cases hrun : World.runWith World.step w1 ops with
      | mk w2 os =>
        have e : World.run w1 ops = (w2, os) := hrun
        rw [e] at this
        exact this

/-- **What a declaration accepts is fixed by its own declaration.**  Declaring further classes — a subclass of
an earlier class with other Options (`case_insensitive`, …), a variant, another function — leaves every parse of
an earlier declaration exactly what it was: for an environment `E` without dangling forward references
(`Env.closed`), a target of `E` parses the same in `E` and in `E ++ ds`, for every `ds`. -/
theorem C19_declaration_independent (w : World) (ds : Env) (hE : w.env.closed = true)
    (target : Nat) (ht : target < w.env.length) (wrapper bump : Nat) (input : Val) (ro : ROpts) :
    ({ w with env := w.env ++ ds } : World).callSpec target wrapper bump input ro
      = w.callSpec target wrapper bump input ro := by
  unfold World.callSpec
  rw [callWith_append declaredOpts sel ro w.env ds hE target ht wrapper _ _ _ false]
  -- in a closed environment the forward references of the target resolve: checking now or having checked is the same
  have h0 := callWith_append declaredOpts sel ro w.env [] hE target ht wrapper
    (entriesOf input).1 (entriesOf input).2 { next := w.next + bump } false
  simp only [List.append_nil] at h0
  exact h0.symm

/-! ### the `__parsers__` cache (known finding `parser-cache-options`)

Full statement (false of the unchanged code):
  `∀ ws j, j < ws.length → effectiveOpts ws j = declaredOpts ws j`
— a wrapper made by `utype.parse(raw, options=O)` parses with `O`, whatever was decorated before. -/

/-- `utype.parse(raw)` *without* options after an earlier `utype.parse(raw, options=…)` of the same function:
`apply_for` hands back the cached parser, built with the earlier options (base.py:57-63). -/
def KnownDefect.staleParserOptions (ws : List (Option Opts)) (j : Nat) : Bool :=
  (ws[j]? == some none) && (ws.take j).any Option.isSome

theorem effectiveOptsAux_some (o : Opts) : ∀ (ws : List (Option Opts)) (j : Nat) (cached : Option Opts),
    ws[j]? = some (some o) → effectiveOptsAux cached ws j = o
  | [], j, _, h => by simp at h
  | w :: ws, 0, cached, h => by
    simp at h; subst h
    simp [effectiveOptsAux]
  | w :: ws, j + 1, cached, h => by
    simp only [effectiveOptsAux]
    exact effectiveOptsAux_some o ws j _ (by simpa using h)

theorem effectiveOptsAux_none : ∀ (ws : List (Option Opts)) (j : Nat) (cached : Option Opts),
    ws[j]? = some none → (∀ w ∈ ws.take j, w = none) → (cached = none ∨ cached = some {}) →
    effectiveOptsAux cached ws j = {}
  | [], j, _, h, _, _ => by simp at h
  | w :: ws, 0, cached, h, _, hc => by
    simp at h; subst h
    rcases hc with rfl | rfl <;> simp [effectiveOptsAux]
  | w :: ws, j + 1, cached, h, hp, hc => by
    have hw : w = none := hp w (by simp)
    subst hw
    simp only [effectiveOptsAux]
    refine effectiveOptsAux_none ws j _ (by simpa using h) (fun x hx => hp x (by simp [hx])) ?_
    rcases hc with rfl | rfl <;> simp

/-- Outside the known defect every wrapper parses with the options it was declared with. -/
theorem C19_wrapper_options_partial (ws : List (Option Opts)) (j : Nat) (hj : j < ws.length)
    (hk : KnownDefect.staleParserOptions ws j = false) : effectiveOpts ws j = declaredOpts ws j := by
  unfold effectiveOpts declaredOpts
  have hget : ws[j]? = some ws[j] := List.getElem?_eq_getElem hj
  cases hw : ws[j] with
  | some o =>
    rw [hw] at hget
    rw [effectiveOptsAux_some o ws j none hget, hget]; rfl
  | none =>
    rw [hw] at hget
    have hall : ∀ w ∈ ws.take j, w = none := by
      intro w hwm
      simp only [KnownDefect.staleParserOptions, hget, beq_self_eq_true, Bool.true_and] at hk
      cases w with
      | none => rfl
      | some o =>
        have : (ws.take j).any Option.isSome = true := List.any_eq_true.mpr ⟨some o, hwm, rfl⟩
        rw [this] at hk; cases hk
    rw [effectiveOptsAux_none ws j none hget hall (Or.inl rfl), hget]; rfl

/-- Negation of the full statement, with the witness replayed on the real code
(`parse(raw, options=Options(no_explicit_cast=True))` then `parse(raw)`). -/
theorem C19_wrapper_options_witness :
    effectiveOpts [some { strict := true }, none] 1 ≠ declaredOpts [some { strict := true }, none] 1 := by decide

def envW : Env := [{ kind := .func, fields := [{ name := "a", ty := .int, dflt := .none }],
                     wrappers := [some { strict := true }, none] }]

/-- … and at the level of outcomes: `f2('12')` fails although `f2` was declared without options. -/
theorem C19_stale_options_outcome_witness :
    (callWith effectiveOpts sel false {} envW 0 1 ["a"] [.str "12"] { next := 0 }).1.isOk = false ∧
    (callWith declaredOpts sel false {} envW 0 1 ["a"] [.str "12"] { next := 0 }).1.isOk = true := by decide

/-- non-vacuity: declarations outside the defect exist -/
example : KnownDefect.staleParserOptions [none, some { strict := true }] 1 = false ∧
    KnownDefect.staleParserOptions [none, none] 1 = false := by decide

theorem callWith_opts_congr (o1 o2 : List (Option Opts) → Nat → Opts) (L : Ty → Cid) (rb : Bool) (ro : ROpts) (E : Env)
    (target wrapper : Nat) (ks : List String) (xs : List Val) (s : St)
    (h : ∀ d, E[target]? = some d → d.kind = .func → o1 d.wrappers wrapper = o2 d.wrappers wrapper) :
    callWith o1 L rb ro E target wrapper ks xs s = callWith o2 L rb ro E target wrapper ks xs s := by
  simp only [callWith]
  cases hd : E[target]? with
  | none => rfl
  | some d =>
    simp only
    split
    · rfl
    · split
      · rename_i hk
        have hk' : d.kind = .func := by simpa using hk
        rw [h d hd hk']
      · rfl

/-- **The outcome of a parse depends only on the declaration, the options and the input** — outside the known
defect.  Full statement (false of the unchanged code, `C19_stale_options_outcome_witness`): the same without `hk`.

After any valid history — earlier parses that succeeded or failed under whatever running options (each of which read
and wrote the registry cache and the forward-reference state), caller mutations, attribute assignments, copies, further
declarations — a parse of a declaration that existed at the start returns exactly what the declarations alone define
(`callSpec`: registry without cache, forward references unresolved, wrapper bound to its declared options), with the
allocator at the same position.  `hk`: the wrapper is not one that `apply_for` served from the `__parsers__` cache with
another decoration's options. -/
theorem C19_history_independent_partial (ops : List Op) (w : World) (hw : WF w) (hs : InScope w.env)
    (hE : w.env.closed = true) (hp : ProcOK w) (hv : ValidHist w ops)
    (target : Nat) (ht : target < w.env.length) (wrapper bump : Nat) (input : Val) (ro : ROpts)
    (hk : ∀ d, w.env[target]? = some d → d.kind = .func →
      wrapper < d.wrappers.length ∧ KnownDefect.staleParserOptions d.wrappers wrapper = false) :
    (w.run ops).1.callResult target wrapper bump input ro
      = ({ w with next := (w.run ops).1.next } : World).callSpec target wrapper bump input ro := by
  obtain ⟨ds, hds⟩ := (C19_history_preserves_declaration ops w hw hs hv).1
  have hpo := run_procOK ops w hw hs hp hv
  unfold World.callResult World.callP World.callSpec
  rw [hds, resolve_eq_sel _ hpo.cache,
    callWith_append effectiveOpts sel ro w.env ds hE target ht wrapper _ _ _ _]
  have h0 := callWith_append declaredOpts sel ro w.env [] hE target ht wrapper
    (entriesOf input).1 (entriesOf input).2 { next := (w.run ops).1.next + bump } false
  simp only [List.append_nil] at h0
  rw [h0]
  exact callWith_opts_congr _ _ sel true ro w.env target wrapper _ _ _
    (fun d hd hf => C19_wrapper_options_partial d.wrappers wrapper (hk d hd hf).1 (hk d hd hf).2)

/-- the hypotheses are satisfiable in the initial state: nothing cached, nothing resolved -/
theorem procOK_init (w : World) (h : w.proc = {}) : ProcOK w := by
  refine ⟨?_, ?_⟩
  · intro e he; rw [h] at he; simp at he
  · intro k hk; rw [h] at hk; simp at hk

/-! ### `Schema.copy()` (fixed finding `copy-shares-dict`) -/

def attrsId : Val → Option Nat
  | .node _ (.inst _ _) _ (.node a .dict _ _ :: _) => some a
  | _ => none

/-- after the fix a copy is a new instance with a new attribute dict; it shares only the field values -/
theorem C19_copy_owns_its_dict (v c : Val) (s s' : St) (h : schemaCopy v s = (.ok c, s'))
    (hlt : ∀ i ∈ v.mutIds, i < s.next) :
    (∃ a, attrsId c = some a ∧ a ∉ v.mutIds) ∧ (∀ i ∈ c.mutIds, i ∈ v.mutIds ∨ s.next ≤ i) := by
  have hfr := schemaCopy_fr v s
  rw [h] at hfr
  refine ⟨?_, fun i hi => (hfr.out i hi).imp id (fun h => h.1)⟩
  unfold schemaCopy at h
  split at h
  · simp only [mk, fill, Bool.false_eq_true, ↓reduceIte, Prod.mk.injEq, Except.ok.injEq] at h
    obtain ⟨rfl, _⟩ := h
    refine ⟨_, rfl, fun hm => ?_⟩
    have := hlt _ hm
    omega
  · simp at h

def instW : Val := .node 0 (.inst 0 true) ["__dict__", "a"] [.node 1 .dict ["a", "p"] [.int 1, .int 0], .int 1]

/-- the behaviour before the fix: the copy's attribute dict *is* the original's -/
theorem C19_legacy_copy_alias_witness :
    attrsId (schemaCopyLegacy instW { next := 2 }).1.toOption.get! = attrsId instW := by decide

theorem foldl_writeAll_last (ps : List (Nat × (Kind → List String → List Val → Option (List String × List Val))))
    (rs : List (Option Val)) (hps : ∀ p ∈ ps, p.1 ∉ idsOfRoots rs) :
    ∀ (w : World) (c : Val), w.roots = rs ++ [some c] →
      ∃ c', (ps.foldl (fun w p => w.writeAll p.1 p.2) w).roots = rs ++ [some c'] := by
  induction ps with
  | nil => intro w c h; exact ⟨c, h⟩
  | cons p ps ih =>
    intro w c h
    simp only [List.foldl]
    apply ih (fun q hq => hps q (List.mem_cons_of_mem _ hq)) (w.writeAll p.1 p.2) (c.write p.1 p.2)
    simp only [World.writeAll, h, List.map_append, List.map_cons, List.map_nil, Option.map]
    congr 1
    apply map_eq_self
    intro r hr
    cases r with
    | none => rfl
    | some v =>
      have hv : p.1 ∉ v.mutIds := fun hh => hps p (by simp) (mem_mutIdsL.mpr ⟨v, by
        simp only [List.mem_filterMap]; exact ⟨some v, hr, rfl⟩, hh⟩)
      simp [write_eq_self p.1 p.2 v hv]

/-- **Changing one instance's value never changes another instance** — the copy clause: after
`c = s.copy()`, assigning any field of `c` leaves every earlier root, `s` included, exactly as it was. -/
theorem C19_setattr_on_copy_isolated (w : World) (hw : WF w) (r : Nat) (v c : Val) (s1 : St)
    (hroot : w.root r = some v) (hc : schemaCopy v { next := w.next } = (.ok c, s1))
    (fname : String) (x : Val) :
    ∃ c', ((w.step (.copy r)).1.step (.setattr w.roots.length fname x)).1.roots = w.roots ++ [some c'] := by
  have hstep : (w.step (.copy r)).1 = { w with next := s1.next, roots := w.roots ++ [some c] } := by
    rw [step_copy, hroot]; simp only [hc]
  rw [hstep, step_setattr]
  have hget : ({ w with next := s1.next, roots := w.roots ++ [some c] } : World).root w.roots.length = some c := by
    simp [World.root]
  rw [hget]
  unfold schemaCopy at hc
  split at hc
  · simp only [Prod.mk.injEq, Except.ok.injEq] at hc
    obtain ⟨rfl, _⟩ := hc
    simp only
    split
    · refine foldl_writeAll_last _ w.roots (fun p hp hin => ?_) _ _ rfl
      have hlt := hw.root_lt p.1 hin
      rcases setattrWrites_targets _ fname x _ _ _ _ _ _ _ _ p hp with h | h <;> omega
    · exact ⟨_, rfl⟩
  · simp at hc

/-! ### non-vacuity: the hypotheses of the history theorems are satisfiable -/

def dfl0 : Val := .node 0 .list [] [.int 1, .node 1 .list [] [.int 2]]
def env0 : Env := [{ kind := .schema, fields := [{ name := "a", ty := .bare .list, dflt := .val dfl0 },
                                               { name := "n", ty := .int, dflt := .none }] }]
def w0 : World := { env := env0, next := 2 }
def in0 : Val := .node 2 .dict ["n"] [.int 1]
def in0' : Val := .node 9 .dict ["n"] [.int 1]
/-- `A(n=1)`; `A(n='x')` (fails); mutate the first result's `a[1]` in place; `A(n=3)` -/
def hist0 : List Op :=
  [.call 0 0 1 in0, .call 0 0 1 (.node 9 .dict ["n"] [.str "x"]), .mutate 8 (.append (.int 9)),
   .call 0 0 1 (.node 16 .dict ["n"] [.int 3])]

example : InScope env0 := by unfold InScope; decide
example : (w0.run hist0).2 = [.ok, .perr, .ok, .ok] := by decide +kernel

instance (w : World) (op : Op) : Decidable (op.Valid w) := by
  cases op <;> unfold Op.Valid <;> infer_instance

instance decValidHist : (w : World) → (ops : List Op) → Decidable (ValidHist w ops)
  | _, [] => isTrue trivial
  | w, op :: ops => @instDecidableAnd _ _ inferInstance (decValidHist (w.step op).1 ops)

example : WF w0 := ⟨by decide, by decide, by decide⟩
example : ValidHist w0 hist0 := by decide +kernel
/-- the parse after the history got a copy of the *declared* default `[1, [2]]` (ids 0, 1 untouched),
although the first result's copy (ids 8, 7) was mutated in between; no two results share an object -/
example : (w0.run hist0).1.env.dfltVals.map Val.mutIds = [[0, 1]] ∧
    ((w0.run hist0).1.roots.map (fun r => r.map Val.mutIds)) =
      [some [2], some [4, 5, 8, 7, 8, 7], some [9], none, some [16], some [18, 19, 22, 21, 22, 21]] := by decide +kernel

/-- a history with running options and a later declaration of a case-insensitive subclass:
`A.__from__({}, Options(ignore_required=True))`; `A(n=1)`; declare `Sub(A)` with `case_insensitive`; `A()` fails
(required `n` absent) exactly as it would have before anything happened -/
def sub0 : Decl := { kind := .schema, ci := true, fields := [
    { name := "a", ty := .bare .list, dflt := .val dfl0 },
    { name := "n", ty := .int, dflt := .none }] }
def hist1 : List Op :=
  [.call 0 0 1 (.node 2 .dict [] []) { ignoreRequired := true }, .call 0 0 1 in0',
   .declare sub0 0, .call 0 0 1 (.node 16 .dict [] [])]
example : env0.closed = true := by decide
example : (w0.run hist1).2 = [.ok, .ok, .ok, .perr] := by decide +kernel
example : ValidHist w0 hist1 := by decide +kernel

/-- the initial world of the examples satisfies the process-state invariant, and so does the world after `hist1` -/
example : ProcOK w0 := procOK_init w0 rfl
example : (w0.run hist1).1.proc.resolved = [0, 0, 0] ∧ (w0.run hist1).1.proc.regCache.length = 6 := by decide +kernel

/-- the caller stores an object of the first result into the second (`r2.a.append(r1.a[1])`), pops from and clears the first
result's list, reads an attribute; the parse after that still gets a copy of the declared default `[1, [2]]` -/
def hist2 : List Op :=
  [.call 0 0 1 in0, .call 0 0 1 in0',
   .mutate 15 (.append (.node 7 .list [] [.int 2])),
   .mutate 8 .popLast, .mutate 8 .clear,
   .getattr 1 "a",
   .call 0 0 1 (.node 16 .dict ["n"] [.int 3])]
example : ValidHist w0 hist2 := by decide +kernel
example : (w0.run hist2).2 = [.ok, .ok, .ok, .ok, .ok, .ok, .ok] ∧
    (w0.run hist2).1.env.dfltVals.map Val.mutIds = [[0, 1]] ∧
    ((w0.run hist2).1.roots.map (fun r => r.map Val.mutIds)) =
      [some [2], some [4, 5, 8, 8], some [9], some [11, 12, 15, 14, 7, 15, 14, 7], some [8], some [16],
       some [18, 19, 22, 21, 22, 21]] := by decide +kernel

/-- a deferred default (`Field(defer_default=True)`): the parse does not fill it in, every attribute read computes a new
copy (ids 8/7, 10/9, 17/16 — the declared default keeps ids 0/1), also after one copy was changed and after a parse under
`Options(defer_default=True)` -/
def envD : Env := [{ kind := .schema, fields := [{ name := "a", ty := .bare .list, dflt := .val dfl0, defer := true }] }]
def wD : World := { env := envD, next := 2 }
def histD : List Op :=
  [.call 0 0 1 (.node 2 .dict [] []), .getattr 1 "a", .getattr 1 "a", .mutate 7 (.append (.int 9)),
   .call 0 0 1 (.node 11 .dict [] []) { deferDefault := true }, .getattr 1 "a"]
example : WF wD := ⟨by decide, by decide, by decide⟩
example : ValidHist wD histD := by decide +kernel
example : (wD.run histD).2 = [.ok, .ok, .ok, .ok, .ok, .ok] ∧
    (wD.run histD).1.env.dfltVals.map Val.mutIds = [[0, 1]] ∧
    ((wD.run histD).1.roots.map (fun r => r.map Val.mutIds)) =
      [some [2], some [4, 5], some [8, 7], some [10, 9], some [11], some [13, 14], some [17, 16]] := by decide +kernel

/-! ### the write clause excludes something

An in-place write is logged under the identity its *target value* carries.  Had `__init__` filled the caller's
positional dict instead of its own kwargs (`_d.setdefault(key, val)` — the seeded change C19-B), or a lax length
validator popped items off the validated object (C19-r2-C), the model step would be `fill input …`, and the write
conjunct of `C19_call_frame` would be false: -/
theorem C19_inplace_write_hits_its_target (i : Nat) (k : Kind) (ks0 ks : List String) (xs0 xs : List Val) (s : St) :
    i ∈ (fill (.node i k ks0 xs0) ks xs s).2.writes ∧ (fill (.node i k ks0 xs0) ks xs s).2.next = s.next := by
  simp [fill]

/-- … so a computation that fills an object it was *given* (any id below the allocator) violates the frame -/
theorem C19_write_to_argument_violates_frame (i : Nat) (k : Kind) (ks : List String) (xs : List Val) (s : St)
    (hi : i < s.next) (hw : i ∉ s.writes) :
    ¬ (∀ j ∈ (fill (.node i k [] []) ks xs s).2.writes, j ∈ s.writes ∨ s.next ≤ j) := by
  intro h
  rcases h i (by simp [fill]) with h' | h'
  · exact hw h'
  · omega

end Utv.C19
