import Utv.GenEq.Support
import Utv.Gen.Registry
import Utv.Model.C16
/-!
C16 — T1 obligations: `TypeRegistry.register` (its inner `decorator`: insert at the front, stable sort by priority,
drop the cache, count the generation) and `TypeRegistry.resolve`, regenerated from `utype/utils/base.py` on every run
(`Utv.Gen.Registry.*`), are the hand model's `Utv.C16.register` / `Utv.C16.resolve`.

Encoding: the model's abstract value type is `Det` (a detector as data); an entry is the Python tuple
`(detector, f, priority)`; the lookup cache is the dict `{class: f}` (insertion order = oldest first, the model keeps
the most recent first); classes are `OVal.cls t`, transformers `OVal.fn f`.  The world answers what the model's
`World` answers: calling a detector (`detAnswer`: a custom detector that raises is a `TypeError`), the shortcut
attribute of a class, the validator, and `base.resolve(t)` / `default` (`World.fallback`).
-/
namespace Utv.GenEq.C16
open Utv.Obj Utv.C16 Utv.Gen

abbrev D := OVal Det

def encEntry (e : Entry) : D := .seq .tuple [.val e.det, .fn e.fn, .int e.prio]

def encKV (p : Nat × Nat) : D × D := (.cls p.1, .fn p.2)

def encCache (c : List (Nat × Nat)) : D := .dict (c.reverse.map encKV)

def encOptFn : Option Nat → D
  | none => .none
  | some f => .fn f

/-- a `TypeRegistry` instance: the model's state plus the attributes the model treats as the world's -/
def encReg (r : Reg) (gen : Int) (sc vd base dflt : D) : D :=
  .obj "TypeRegistry" [
    ("_registry", .seq .list (r.entries.map encEntry)),
    ("_cache", encCache r.cache),
    ("cache", .bool r.cacheOn),
    ("_generation", .int gen),
    ("shortcut", sc), ("validator", vd), ("base", base), ("default", dflt)]

/-! ### register -/

def keyed (e : Entry) : Int × D := (-e.prio, encEntry e)

theorem insByKey_keyed (e : Entry) (l : List Entry) :
    insByKey (-e.prio) (encEntry e) (l.map keyed) = (ins e l).map keyed := by
  induction l with
  | nil => rfl
  | cons x xs ih =>
    simp only [List.map_cons, keyed, insByKey, ins]
    by_cases h : x.prio > e.prio
    · have h' : -x.prio < -e.prio := by omega
      simp only [h, h', if_true, List.map_cons, keyed]
      rw [← ih]
    · have h' : ¬ -x.prio < -e.prio := by omega
      simp only [h, h', if_false, List.map_cons, keyed]

theorem sortKeyed_keyed (l : List Entry) : sortKeyed (l.map keyed) = (sortPrio l).map keyed := by
  induction l with
  | nil => rfl
  | cons x xs ih =>
    simp only [List.map_cons, sortPrio]
    rw [show keyed x = (-x.prio, encEntry x) from rfl, sortKeyed, ih, insByKey_keyed]

theorem mapM_keyOf (key : D → M Det D) (hkey : ∀ e : Entry, key (encEntry e) = .ok (.int (-e.prio))) (l : List Entry) :
    (l.map encEntry).mapM (keyOf key) = .ok (l.map keyed) := by
  induction l with
  | nil => rfl
  | cons x xs ih =>
    simp only [List.map_cons, List.mapM_cons, ih]
    obj_simp [keyOf, hkey, intOf?, keyed]

/-- `registry.sort(key=…)` for any key function that answers `-priority` on an entry -/
theorem sortByKey_entries (key : D → M Det D) (hkey : ∀ e : Entry, key (encEntry e) = .ok (.int (-e.prio)))
    (l : List Entry) :
    sortByKey key (.seq .list (l.map encEntry)) = .ok (.seq .list ((sortPrio l).map encEntry)) := by
  simp only [sortByKey, mapM_keyOf key hkey]
  obj_simp []
  rw [sortKeyed_keyed]
  simp [List.map_map, Function.comp_def, keyed]

/-- `register(…)(f)`: the new registry is `Utv.C16.register r e`, the generation is counted, `f` is handed back -/
theorem C16_gen_register (W : World Det) (r : Reg) (e : Entry) (gen : Int) (sc vd base dflt : D)
    (hv : W.call vd [.fn e.fn] = .ok (.bool true)) :
    Registry.register_decorator W (encReg r gen sc vd base dflt) (.val e.det) (.int e.prio) (.fn e.fn)
      = .ok (encReg (register r e) (gen + 1) sc vd base dflt, Outcome.ret (.fn e.fn)) := by
  gen_obligation "C16_gen_register: the regenerated code (Utv.Gen) is no longer equal to the hand model here" by
    have he : OVal.seq .tuple [.val e.det, .fn e.fn, .int e.prio] = encEntry e := rfl
    obj_simp [Registry.register_decorator, encReg, getattr, setattr, lookupAttr, setAttrL, hv, truthy, dictClear, encCache,
      concat, add, intOf?, register]
    rw [he, ← List.map_cons, sortByKey_entries]
    intro x
    obj_simp [encEntry, index, neg, intOf?]

/-- a target the validator refuses is a `TypeError`, the registry is untouched -/
theorem C16_gen_register_invalid (W : World Det) (r : Reg) (e : Entry) (gen : Int) (sc vd base dflt : D)
    (hv : W.call vd [.fn e.fn] = .ok (.bool false)) :
    Registry.register_decorator W (encReg r gen sc vd base dflt) (.val e.det) (.int e.prio) (.fn e.fn)
      = .ok (encReg r gen sc vd base dflt, Outcome.raise (.obj "TypeError" [])) := by
  gen_obligation "C16_gen_register_invalid: the regenerated code (Utv.Gen) is no longer equal to the hand model here" by
    obj_simp [Registry.register_decorator, encReg, getattr, lookupAttr, hv, truthy]

/-! ### resolve -/

/-- what calling a detector on a class answers: the closure built by `register` answers its conjunction; a custom
detector answers what the model's world says, and raising (`none`) is a `TypeError` -/
def detAnswer (W16 : C16.World) (d : Det) (t : Nat) : M Det D :=
  match d with
  | .custom k => (match W16.custom k t with
    | some b => .ok (.bool b)
    | none => .error .typeError)
  | d => .ok (.bool (d.matches W16 t))

/-- the world of the translated code answers as the model's world does -/
structure WorldOk (W : Obj.World Det) (W16 : C16.World) (scn : String) (vd base dflt : D) (b : Bool) : Prop where
  det : ∀ d t, W.call (.val d) [.cls t] = detAnswer W16 d t
  shortcut : ∀ t, W.clsAttr t scn = (W16.shortcut t).map .fn
  valid : ∀ f, W.call vd [.fn f] = .ok (.bool true)
  baseTruth : truthy base = .ok b
  fallback : ∀ t, (if b then W.ext "resolve" [base, .cls t] else .ok dflt) = .ok (encOptFn (W16.fallback t))

theorem lookupKey_enc (t : Nat) (l : List (Nat × Nat)) :
    lookupKey (V := Det) (.cls t) (l.map encKV) = .ok ((lookup t l).map .fn) := by
  induction l with
  | nil => rfl
  | cons x xs ih =>
    obtain ⟨k, v⟩ := x
    simp only [List.map_cons, encKV, lookupKey, lookup, ih]
    obj_simp [eq, eqS]
    by_cases h : t = k
    · subst h; simp
    · have h' : ¬ k = t := fun hh => h hh.symm
      simp [h, h']

theorem lookup_append (t : Nat) (a b : List (Nat × Nat)) :
    lookup t (a ++ b) = (lookup t a).orElse fun _ => lookup t b := by
  induction a with
  | nil => rfl
  | cons x xs ih =>
    obtain ⟨k, v⟩ := x
    simp only [List.cons_append, lookup, ih]
    by_cases h : (k == t) = true <;> simp [h]

theorem lookup_none_of_not_mem (t : Nat) (l : List (Nat × Nat)) (h : t ∉ l.map (·.1)) : lookup t l = none := by
  induction l with
  | nil => rfl
  | cons x xs ih =>
    obtain ⟨k, v⟩ := x
    simp only [List.map_cons, List.mem_cons, not_or] at h
    have hk : (k == t) = false := by simpa using fun hh : k = t => h.1 hh.symm
    simp only [lookup, hk, ih h.2]
    rfl

theorem lookup_reverse (t : Nat) (l : List (Nat × Nat)) (h : (l.map (·.1)).Nodup) :
    lookup t l.reverse = lookup t l := by
  induction l with
  | nil => rfl
  | cons x xs ih =>
    obtain ⟨k, v⟩ := x
    simp only [List.map_cons, List.nodup_cons] at h
    rw [List.reverse_cons, lookup_append, ih h.2]
    by_cases hk : (k == t) = true
    · have : k = t := by simpa using hk
      subst this
      simp [lookup, lookup_none_of_not_mem k xs h.1]
    · simp only [lookup, hk]
      cases lookup t xs <;> simp [Option.orElse]

theorem setKey_enc (t : Nat) (v : D) (l : List (Nat × Nat)) (h : lookup t l = none) :
    setKey (V := Det) (.cls t) v (l.map encKV) = .ok (l.map encKV ++ [(.cls t, v)]) := by
  induction l with
  | nil => rfl
  | cons x xs ih =>
    obtain ⟨k, w⟩ := x
    simp only [lookup] at h
    by_cases hk : (k == t) = true
    · simp [hk] at h
    · simp only [hk] at h
      have hk' : ¬ t = k := fun hh => hk (by simp [hh])
      obj_simp [List.map_cons, encKV, setKey, eq, eqS, hk', ih h]

/-- a loop that stops at the first entry satisfying `p` and otherwise leaves its state alone -/
theorem forIn_find {σ : Type} (g : Entry → σ → M Det (ForInStep σ)) (s0 : σ) (p : Entry → Bool) (fin : Entry → σ)
    (hf : ∀ e, g e s0 = .ok (if p e then .done (fin e) else .yield s0)) (es : List Entry) :
    forIn es s0 g = .ok (match es.find? p with
      | some e => fin e
      | none => s0) := by
  induction es with
  | nil => rfl
  | cons x xs ih =>
    rw [List.forIn_cons, hf]
    cases hp : p x with
    | true => simp [List.find?, hp, bind, Except.bind, pure, Except.pure]
    | false => simp [List.find?, hp, bind, Except.bind, ih]

theorem detAnswer_cases (W16 : C16.World) (d : Det) (t : Nat) :
    (detAnswer W16 d t = .ok (.bool (d.matches W16 t))) ∨
    (detAnswer W16 d t = .error .typeError ∧ d.matches W16 t = false) := by
  cases d with
  | std cs sub m a => left; rfl
  | custom k =>
    cases h : W16.custom k t with
    | some b => left; simp [detAnswer, Det.matches, h]
    | none => right; simp [detAnswer, Det.matches, h]

/-- `resolve(t)`: the answer and the registry afterwards (the cache entry it may add) are `Utv.C16.resolve` -/
theorem C16_gen_resolve (W : Obj.World Det) (W16 : C16.World) (r : Reg) (t : Nat) (gen : Int) (scn : String)
    (vd base dflt : D) (b : Bool) (hscn : scn.toList ≠ []) (hw : WorldOk W W16 scn vd base dflt b)
    (hc : (r.cache.map (·.1)).Nodup) :
    Registry.resolve W (encReg r gen (.str scn) vd base dflt) (.cls t) =
      .ok (encReg (C16.resolve W16 r t).1 gen (.str scn) vd base dflt, .ret (encOptFn (C16.resolve W16 r t).2)) := by
  gen_obligation "C16_gen_resolve: the regenerated code (Utv.Gen) is no longer equal to the hand model here" by
    obtain ⟨entries, cache, cacheOn⟩ := r
    unfold Registry.resolve C16.resolve
    have hsc := hw.shortcut t
    have hfb := hw.fallback t
    have hbt := hw.baseTruth
    cases hs : W16.shortcut t with
    | some f =>
      rw [hs] at hsc
      obj_simp [encReg, getattr, lookupAttr, hscn, hasattrW, getattrW, hsc, hw.valid, encOptFn]
    | none =>
      rw [hs] at hsc
      cases cacheOn with
      | false =>
        obj_simp [encReg, getattr, lookupAttr, hscn, hasattrW, getattrW, hsc, iter]
        rw [forIn_find (p := fun e => e.det.matches W16 t)
          (fin := fun e => (some (encReg ⟨entries, cache, false⟩ gen (.str scn) vd base dflt, Outcome.ret (.fn e.fn)),
                           encReg ⟨entries, cache, false⟩ gen (.str scn) vd base dflt))]
        · cases hfind : entries.find? (fun e => e.det.matches W16 t) with
          | some e => simp [encReg, encOptFn]
          | none =>
            simp only [lookupAttr]
            cases b <;> simp_all [encOptFn]
        · intro e
          rcases detAnswer_cases W16 e.det t with h | ⟨h, hm⟩
          · cases hm : e.det.matches W16 t <;>
              obj_simp [unpack3, encEntry, hw.det, encReg, tryCatch, tryCatchThe, MonadExceptOf.tryCatch, Except.tryCatch, h, hm,
                getattr, lookupAttr, EarlyReturnT.return, ExceptT.run, OptionT.run, OptionT.pure, ExceptT.pure, ExceptT.mk, OptionT.mk]
            all_goals rfl
          · obj_simp [unpack3, encEntry, hw.det, encReg, tryCatch, tryCatchThe, MonadExceptOf.tryCatch, Except.tryCatch, h, hm,
                Exc.isA, ExceptT.run, ContinueT.continue, OptionT.run]
            rfl
      | true =>
        have hlk : lookupKey (V := Det) (.cls t) (cache.map encKV).reverse = .ok ((lookup t cache).map .fn) := by
          rw [← List.map_reverse, lookupKey_enc, lookup_reverse t cache hc]
        cases hl : lookup t cache with
        | some f =>
          rw [hl] at hlk
          obj_simp [encReg, getattr, lookupAttr, hscn, hasattrW, getattrW, hsc, iter, dictGet, encCache, hlk, OVal.isNone,
            encOptFn]
        | none =>
          rw [hl] at hlk
          have hset : ∀ v : D, setKey (V := Det) (.cls t) v (cache.map encKV).reverse
              = .ok ((cache.map encKV).reverse ++ [(.cls t, v)]) := by
            intro v
            rw [← List.map_reverse]
            exact setKey_enc t v cache.reverse (by rw [lookup_reverse t cache hc, hl])
          obj_simp [encReg, getattr, lookupAttr, hscn, hasattrW, getattrW, hsc, iter, dictGet, encCache, hlk, OVal.isNone]
          rw [forIn_find (p := fun e => e.det.matches W16 t)
            (fin := fun e => (some (encReg ⟨entries, (t, e.fn) :: cache, true⟩ gen (.str scn) vd base dflt, Outcome.ret (.fn e.fn)),
                             encReg ⟨entries, cache, true⟩ gen (.str scn) vd base dflt))]
          · cases hfind : entries.find? (fun e => e.det.matches W16 t) with
            | some e => simp [encReg, encOptFn, encCache]
            | none =>
              simp only [lookupAttr]
              cases b <;> simp_all [encOptFn]
          · intro e
            rcases detAnswer_cases W16 e.det t with h | ⟨h, hm⟩
            · cases hm : e.det.matches W16 t <;>
                obj_simp [unpack3, encEntry, hw.det, encReg, tryCatch, tryCatchThe, MonadExceptOf.tryCatch, Except.tryCatch, h, hm,
                  getattr, setattr, setAttrL, lookupAttr, EarlyReturnT.return, ExceptT.run, OptionT.run, OptionT.pure, ExceptT.pure, ExceptT.mk, OptionT.mk,
                  eq, eqS, intOf?, dictSet, encCache, hset, encKV]
              all_goals rfl
            · obj_simp [unpack3, encEntry, hw.det, encReg, tryCatch, tryCatchThe, MonadExceptOf.tryCatch, Except.tryCatch, h, hm,
                  Exc.isA, ExceptT.run, ContinueT.continue, OptionT.run]
              rfl

/-- `WorldOk` is satisfiable for every model world (with a base registry that answers `fallback`) -/
def encWorld (W16 : C16.World) (scn : String) : Obj.World Det where
  call f args := match f, args with
    | .val d, [.cls t] => detAnswer W16 d t
    | .fn 0, [.fn _] => .ok (.bool true)           -- the validator (`callable`)
    | _, _ => .error (.unmodelled "call outside the encoding")
  ext name args := match name, args with
    | "resolve", [.obj "TypeRegistry" [], .cls t] => .ok (encOptFn (W16.fallback t))
    | _, _ => .error (.unmodelled "external function outside the encoding")
  clsAttr t n := if n = scn then (W16.shortcut t).map .fn else none

example (W16 : C16.World) (scn : String) :
    WorldOk (encWorld W16 scn) W16 scn (.fn 0) (.obj "TypeRegistry" []) .none true :=
  ⟨fun _ _ => rfl, fun _ => by simp [encWorld], fun _ => rfl, rfl, fun _ => rfl⟩

/-! ### the detector closure `register` builds (base.py `detector(_cls)`) -/

/-- the class world of the translated code answers as the model's; `nm` names the model's attribute numbers -/
structure ClassWorldOk (W : Obj.World Det) (W16 : C16.World) (nm : Nat → String) : Prop where
  issub : ∀ (t : Nat) (cs : List Nat),
    W.ext "issubclass" [.cls t, .seq .tuple (cs.map OVal.cls)] = .ok (.bool (cs.any fun c => W16.issub t c))
  isinst : ∀ (t m : Nat), W.ext "isinstance" [.cls t, .cls m] = .ok (.bool (W16.isinst t m))
  hasattr : ∀ (t a : Nat), (W.clsAttr t (nm a)).isSome = W16.hasattr t a
  named : ∀ a : Nat, ((nm a).toList != []) = true

def encOptCls : Option Nat → D
  | none => .none
  | some m => .cls m

def encOptAttr (nm : Nat → String) : Option Nat → D
  | none => .none
  | some a => .str (nm a)

theorem memS_cls (t : Nat) (cs : List Nat) : memS (V := Det) (.cls t) (cs.map OVal.cls) = .ok (cs.contains t) := by
  induction cs with
  | nil => rfl
  | cons c rest ih =>
    simp only [List.map_cons, memS, Obj.eq, eqS, ih, bind, Except.bind, pure, Except.pure, List.contains_cons]
    by_cases h : t = c
    · subst h; simp
    · simp [h]

/-- the closure is the model's `detClosure` (so `detAnswer (.std …)` is what the regenerated closure answers) -/
theorem C16_gen_detector (W : Obj.World Det) (W16 : C16.World) (nm : Nat → String) (hw : ClassWorldOk W W16 nm)
    (cs : List Nat) (sub : Bool) (m a : Option Nat) (t : Nat) :
    Registry.register_detector W (.seq .tuple (cs.map OVal.cls)) (.bool sub) (encOptCls m) (encOptAttr nm a) (.cls t)
      = .ok (.bool (detClosure W16 cs sub m a t)) := by
  gen_obligation "C16_gen_detector: the regenerated code (Utv.Gen) is no longer equal to the hand model here" by
    have hc : contains (V := Det) (.seq .tuple (cs.map OVal.cls)) (.cls t) = .ok (cs.contains t) := by
      simp only [contains, memS_cls]
    have he : (List.map (OVal.cls (V := Det)) cs).isEmpty = cs.isEmpty := by cases cs <;> rfl
    unfold Registry.register_detector detClosure
    cases hce : cs.isEmpty <;> cases sub <;> cases m <;> cases a <;>
      simp only [truthy_seq, truthy_bool, truthy_none, truthy_cls, truthy_str, he, hce, hc, hw.issub, hw.isinst, hw.named,
        encOptCls, encOptAttr, hasattrW, hw.hasattr, bind, Except.bind, pure, Except.pure, Bool.not_true, Bool.not_false,
        Bool.false_eq_true, if_false, if_true, Bool.true_and, Bool.false_and] <;>
      (try (first | rfl | grind | (split <;> simp_all)))

/-! ### `register(…)(f)` as one statement (`registerCall`'s last step), and the outer `register` -/

/-- the decorator under a validator that answers as the model's `World.valid` -/
theorem C16_gen_register_call (W : Obj.World Det) (W16 : C16.World) (r : Reg) (e : Entry) (gen : Int) (sc vd base dflt : D)
    (hv : W.call vd [.fn e.fn] = .ok (.bool (W16.valid e.fn))) :
    Registry.register_decorator W (encReg r gen sc vd base dflt) (.val e.det) (.int e.prio) (.fn e.fn)
      = .ok (if W16.valid e.fn then (encReg (register r e) (gen + 1) sc vd base dflt, Outcome.ret (.fn e.fn))
             else (encReg r gen sc vd base dflt, Outcome.raise (.obj "TypeError" []))) := by
  gen_obligation "C16_gen_register_call: the regenerated code (Utv.Gen) is no longer equal to the hand model here" by
    cases h : W16.valid e.fn
    · rw [h] at hv; simpa using C16_gen_register_invalid W r e gen sc vd base dflt hv
    · rw [h] at hv; simpa using C16_gen_register W r e gen sc vd base dflt hv

def encClsArg : ClsArg → D
  | .cls c => .cls c
  | .notClass => .str "not a class"

def encAttrArg (nm : Nat → String) : AttrArg → D
  | .absent => .none
  | .name a => .str (nm a)
  | .notStr => .int 1

/-- the keyword arguments of a `register(*classes, …)` call (a custom detector is a callable) -/
def encKwArgs (nm : Nat → String) (a : RegArgs) : List (String × D) :=
  [("attr", encAttrArg nm a.attr), ("detector", match a.detector with | none => .none | some k => .fn k),
   ("metaclass", encOptCls a.metaclass), ("allow_subclasses", .bool a.allowSub), ("priority", .int a.priority)]

/-- what the decorator captures as `detector`: the custom callable, or the closure over the four arguments -/
def encDetC (nm : Nat → String) : Det → D
  | .custom k => .fn k
  | .std cs sub m at_ => .obj "closure:detector" [("allow_subclasses", .bool sub), ("attr", encOptAttr nm at_),
      ("classes", .seq .tuple (cs.map OVal.cls)), ("metaclass", encOptCls m)]

def encRegErr : RegErr → D
  | .valueError => .obj "ValueError" []
  | .assertionError => .obj "AssertionError" []
  | .typeError => .obj "TypeError" []

/-- `inspect.isclass` answers for the two kinds of positional argument -/
structure IsclassOk (W : Obj.World Det) : Prop where
  yes : ∀ c : Nat, W.ext "isclass" [.cls c] = .ok (.bool true)
  no : W.ext "isclass" [encClsArg .notClass] = .ok (.bool false)

/-- the `for c in classes: assert inspect.isclass(c)` loop -/
theorem forIn_isclass (g : ClsArg → PUnit → M Det (ForInStep PUnit))
    (hg : ∀ x : ClsArg, g x ⟨⟩ =
      if x == .notClass then .error (.raised (.obj "AssertionError" [])) else .ok (.yield ⟨⟩)) :
    ∀ cs : List ClsArg, forIn cs PUnit.unit g =
      if cs.any (· == .notClass) then .error (.raised (.obj "AssertionError" [])) else .ok ⟨⟩ := by
  intro cs
  induction cs with
  | nil => rfl
  | cons x xs ih =>
    rw [List.forIn_cons, hg]
    cases x <;> simp [bind, Except.bind, ih]

theorem classes_ok (cs : List ClsArg) (h : cs.any (· == .notClass) = false) :
    cs.map encClsArg = (cs.filterMap fun | .cls c => some c | .notClass => none).map (OVal.cls (V := Det)) := by
  induction cs with
  | nil => rfl
  | cons x xs ih =>
    cases x with
    | cls c =>
      have h' : xs.any (· == .notClass) = false := by simpa using h
      simp [encClsArg, ih h']
    | notClass => simp at h

/-- the outer `register`: it raises exactly when `registerOuter` refuses (the same error), and otherwise the decorator
captures the detector `registerOuter` builds (and the priority) -/
theorem C16_gen_register_outer (W : Obj.World Det) (hi : IsclassOk W) (nm : Nat → String)
    (hnm : ∀ a : Nat, ((nm a).toList != []) = true) (self : D) (a : RegArgs) :
    Registry.register_outer W self (.seq .tuple (a.classes.map encClsArg)) (encKwArgs nm a)
      = match registerOuter a with
        | .error e => .error (.raised (encRegErr e))
        | .ok d => .ok (.obj "locals" [("detector", encDetC nm d), ("priority", .int a.priority)]) := by
  gen_obligation "C16_gen_register_outer: the regenerated code (Utv.Gen) is no longer equal to the hand model here" by
    obtain ⟨classes, attr, detector, metaclass, allowSub, priority⟩ := a
    unfold Registry.register_outer registerOuter
    cases detector with
    | some k => obj_simp [encKwArgs, lookupAttr, encDetC]
    | none =>
      obj_simp [encKwArgs, lookupAttr, iter]
      rw [forIn_isclass]
      · by_cases hn : classes.any (· == ClsArg.notClass) = true
        · have hm : ClsArg.notClass ∈ classes := by simpa using hn
          have hne : classes ≠ [] := by intro h; subst h; simp at hm
          cases attr <;> cases metaclass <;>
            simp [hn, hm, hne, encAttrArg, encOptCls, hnm, isinstance, encRegErr, pure, Except.pure]
        · have hn' : classes.any (· == ClsArg.notClass) = false := by
            cases h : classes.any (· == ClsArg.notClass) <;> simp_all
          have hm : ¬ ClsArg.notClass ∈ classes := by
            intro hmem; have : classes.any (· == ClsArg.notClass) = true := List.any_eq_true.mpr ⟨_, hmem, by simp⟩
            simp [hn'] at this
          have hcl := classes_ok classes hn'
          cases attr <;> cases metaclass <;> by_cases hc : classes = [] <;>
            simp [hn', hm, hc, hcl, encAttrArg, encOptCls, encOptAttr, hnm, isinstance, encRegErr, encDetC, RegArgs.classIds,
              RegArgs.attrName, pure, Except.pure] <;> rfl
      · intro x
        cases x <;> simp [encClsArg, hi.yes, (show W.ext "isclass" [OVal.str "not a class"] = _ from hi.no), bind, Except.bind]

end Utv.GenEq.C16
