import Utv.Util.J
import Utv.Model.Conv
/-!
JSON codec for the converter model `Utv.Conv` (drivers only; the model never imports this).

Line protocol (shared with `harness/c12.py`, reusable by the C01 / C04 drivers):
  value   : null | true | false | {"i": "<int>", "c": n} | {"f": F, "c": n} | {"z": [F, F]} | {"d": D, "c": n}
          | {"s": "<str>", "c": n} | {"b": "<hex>", "k": "bytes|bytearray|memoryview", "c": n}
          | {"q": [v…], "k": "list|tuple|set|frozenset|deque", "c": n} | {"m": [[k, v]…], "c": n}
          | {"date": [y, m, d], "c": n} | {"dt": [y, m, d, H, M, S, us, tz|null], "c": n}
          | {"tm": [H, M, S, us, tz|null], "c": n} | {"td": "<µs>", "c": n} | {"u": "<int>", "c": n}
          | {"e": [enum, member]} | {"o": k}
  target  : {"cls": "<base>", "sub": n} | {"enum": k} | {"abc": "sequence|iterable|iterator|mapping"} | {"obj": k}
  env     : [{"mt": null | "<base>", "members": [["name", value]…]}…]
  outcome : {"ok": value} | {"perr": "TypeError|ValueError|JSONDecodeError"} | {"escape": "<class>"}
          | {"diverge": true} | {"unmodelled": "<why>"}
  prims   : {"<prim>": {"<key>": outcome-of-result}}; a missing entry makes the model answer
            `unmodelled "prim-miss:{\"prim\":…, \"arg\":…}"` and the harness re-sends the line with the entry added.
-/
namespace Utv.ConvJson
open Lean Utv.J Utv.Conv
open Utv.Py (FloatV DecV)

def baseOfName : String → Base
  | "NoneType" => .noneType | "bool" => .bool | "int" => .int | "float" => .float | "complex" => .complex
  | "Decimal" => .decimal | "str" => .str | "bytes" => .bytes | "bytearray" => .bytearray
  | "memoryview" => .memoryview | "list" => .list | "tuple" => .tuple | "set" => .set
  | "frozenset" => .frozenset | "deque" => .deque | "dict" => .dict | "date" => .date
  | "datetime" => .datetime | "time" => .time | "timedelta" => .timedelta | "UUID" => .uuid
  | _ => .noneType

def baseName : Base → String
  | .noneType => "NoneType" | .bool => "bool" | .int => "int" | .float => "float" | .complex => "complex"
  | .decimal => "Decimal" | .str => "str" | .bytes => "bytes" | .bytearray => "bytearray"
  | .memoryview => "memoryview" | .list => "list" | .tuple => "tuple" | .set => "set"
  | .frozenset => "frozenset" | .deque => "deque" | .dict => "dict" | .date => "date"
  | .datetime => "datetime" | .time => "time" | .timedelta => "timedelta" | .uuid => "UUID"

def bytesKOfName : String → BytesK
  | "bytearray" => .bytearray | "memoryview" => .memoryview | _ => .bytes
def seqKOfName : String → SeqK
  | "tuple" => .tuple | "set" => .set | "frozenset" => .frozenset | "deque" => .deque | _ => .list

def intOfJson (j : Json) : Int :=
  match j with
  | .str s => s.toInt?.getD 0
  | _ => int! j

def decodeFloat (j : Json) : FloatV :=
  match j with
  | .str "inf" => .inf false
  | .str "-inf" => .inf true
  | .str "nan" => .nan
  | _ => match arr! j with
    | [m, e] => .fin (intOfJson m) (intOfJson e)
    | _ => .nan

def decodeDec (j : Json) : DecV :=
  match j with
  | .str "inf" => .inf false
  | .str "-inf" => .inf true
  | .str "nan" => .nan false
  | .str "snan" => .nan true
  | _ => match arr! j with
    | [s, c, e] => .fin (intOfJson s != 0) (intOfJson c).toNat (intOfJson e)
    | _ => .nan false

def encFloat : FloatV → Json
  | .fin m e => Json.arr #[Json.str (toString m), Json.str (toString e)]
  | .inf false => Json.str "inf"
  | .inf true => Json.str "-inf"
  | .nan => Json.str "nan"

def encDec : DecV → Json
  | .fin s c e => Json.arr #[Json.str (if s then "1" else "0"), Json.str (toString c), Json.str (toString e)]
  | .inf false => Json.str "inf"
  | .inf true => Json.str "-inf"
  | .nan false => Json.str "nan"
  | .nan true => Json.str "snan"

def hexDigit (n : Nat) : Char := if n < 10 then Char.ofNat (48 + n) else Char.ofNat (87 + n)
def hexOf (bs : List UInt8) : String :=
  String.ofList (bs.flatMap fun b => [hexDigit (b.toNat / 16), hexDigit (b.toNat % 16)])
def hexVal (c : Char) : Nat :=
  let n := c.toNat
  if 48 ≤ n && n ≤ 57 then n - 48 else if 97 ≤ n && n ≤ 102 then n - 87 else if 65 ≤ n && n ≤ 70 then n - 55 else 0
def unhex : List Char → List UInt8
  | a :: b :: rest => UInt8.ofNat (hexVal a * 16 + hexVal b) :: unhex rest
  | _ => []

def optIntJ (j : Json) : Option Int := if isNull j then none else some (intOfJson j)

def subTag (j : Json) : Nat := nat! (fld j "c")

partial def decodeV (j : Json) : V :=
  match j with
  | .null => .none
  | .bool b => .bool b
  | _ =>
    let c := subTag j
    match obj? j "i" with
    | some x => .int c (intOfJson x)
    | none =>
    match obj? j "f" with
    | some x => .float c (decodeFloat x)
    | none =>
    match obj? j "z" with
    | some x => (match arr! x with | [a, b] => .complex (decodeFloat a) (decodeFloat b) | _ => .none)
    | none =>
    match obj? j "d" with
    | some x => .dec c (decodeDec x)
    | none =>
    match obj? j "s" with
    | some x => .str c (str! x)
    | none =>
    match obj? j "b" with
    | some x => .bytes (bytesKOfName (str! (fld j "k"))) c (unhex (str! x).toList)
    | none =>
    match obj? j "q" with
    | some x => .seq (seqKOfName (str! (fld j "k"))) c ((arr! x).map decodeV)
    | none =>
    match obj? j "m" with
    | some x => .dict c ((arr! x).map fun p => match arr! p with
        | [k, v] => (decodeV k, decodeV v) | _ => (.none, .none))
    | none =>
    match obj? j "date" with
    | some x => (match arr! x with | [y, m, d] => .date c ⟨nat! y, nat! m, nat! d⟩ | _ => .none)
    | none =>
    match obj? j "dt" with
    | some x => (match arr! x with
        | [y, m, d, hh, mi, ss, us, tz] => .datetime c ⟨nat! y, nat! m, nat! d⟩ ⟨nat! hh, nat! mi, nat! ss, nat! us, optIntJ tz⟩
        | _ => .none)
    | none =>
    match obj? j "tm" with
    | some x => (match arr! x with
        | [hh, mi, ss, us, tz] => .time c ⟨nat! hh, nat! mi, nat! ss, nat! us, optIntJ tz⟩
        | _ => .none)
    | none =>
    match obj? j "td" with
    | some x => .delta c (intOfJson x)
    | none =>
    match obj? j "u" with
    | some x => .uuid c (intOfJson x).toNat
    | none =>
    match obj? j "e" with
    | some x => (match arr! x with | [k, i] => .enum (nat! k) (nat! i) | _ => .none)
    | none =>
    match obj? j "o" with
    | some x => .obj (nat! x)
    | none => .obj 999

def optIntE (o : Option Int) : Json := match o with | some i => Json.num (Lean.JsonNumber.fromInt i) | none => Json.null

def withC (c : Nat) (fields : List (String × Json)) : Json :=
  Json.mkObj (if c == 0 then fields else fields ++ [("c", Json.num c)])

partial def encodeV : V → Json
  | .none => Json.null
  | .bool b => Json.bool b
  | .int c i => withC c [("i", Json.str (toString i))]
  | .float c f => withC c [("f", encFloat f)]
  | .complex a b => Json.mkObj [("z", Json.arr #[encFloat a, encFloat b])]
  | .dec c d => withC c [("d", encDec d)]
  | .str c s => withC c [("s", Json.str s)]
  | .bytes k c bs => withC c [("b", Json.str (hexOf bs)), ("k", Json.str (baseName k.base))]
  | .seq k c xs => withC c [("q", Json.arr (xs.map encodeV).toArray), ("k", Json.str (baseName k.base))]
  | .dict c kvs => withC c [("m", Json.arr (kvs.map fun (k, v) => Json.arr #[encodeV k, encodeV v]).toArray)]
  | .date c d => withC c [("date", Json.arr #[Json.num d.y, Json.num d.m, Json.num d.d])]
  | .datetime c d t => withC c [("dt", Json.arr #[Json.num d.y, Json.num d.m, Json.num d.d, Json.num t.hh,
      Json.num t.mi, Json.num t.ss, Json.num t.us, optIntE t.tz])]
  | .time c t => withC c [("tm", Json.arr #[Json.num t.hh, Json.num t.mi, Json.num t.ss, Json.num t.us, optIntE t.tz])]
  | .delta c us => withC c [("td", Json.str (toString us))]
  | .uuid c n => withC c [("u", Json.str (toString n))]
  | .enum k i => Json.mkObj [("e", Json.arr #[Json.num k, Json.num i])]
  | .obj k => Json.mkObj [("o", Json.num k)]

def decodeTarget (j : Json) : Target :=
  match obj? j "cls" with
  | some b => .cls (baseOfName (str! b)) (nat! (fld j "sub"))
  | none =>
  match obj? j "enum" with
  | some k => .enum (nat! k)
  | none =>
  match obj? j "abc" with
  | some a => .abc (match str! a with
      | "sequence" => .sequence | "iterable" => .iterable | "iterator" => .iterator | _ => .mapping)
  | none => .obj (nat! (fld j "obj"))

def decodeEnv (j : Json) : Env :=
  { enums := (arr! j).map fun e =>
      { memberType := (if isNull (fld e "mt") then none else some (baseOfName (str! (fld e "mt"))))
        members := (arr! (fld e "members")).map fun m => match arr! m with
          | [n, v] => (str! n, decodeV v) | _ => ("", .none) } }

def decodeUnresolved (j : Json) : Unresolved :=
  match str! j with
  | "init" => .init | "ignore" => .ignore | _ => .throw

def perrName : PErr → String
  | .typeError => "TypeError" | .valueError => "ValueError" | .jsonDecode => "JSONDecodeError"
def perrOfName : String → PErr
  | "TypeError" => .typeError | "JSONDecodeError" => .jsonDecode | _ => .valueError
def escName : Esc → String
  | .invalidOperation => "InvalidOperation" | .overflow => "OverflowError" | .attribute => "AttributeError"
  | .syntax => "SyntaxError" | .other n => n
def escOfName : String → Esc
  | "InvalidOperation" => .invalidOperation | "OverflowError" => .overflow | "AttributeError" => .attribute
  | "SyntaxError" => .syntax | n => .other n

def encodeOutcomeWith {α} (enc : α → Json) : Outcome α → Json
  | .ok a => Json.mkObj [("ok", enc a)]
  | .perr e => Json.mkObj [("perr", Json.str (perrName e))]
  | .escape e => Json.mkObj [("escape", Json.str (escName e))]
  | .diverge => Json.mkObj [("diverge", Json.bool true)]
  | .unmodelled w => Json.mkObj [("unmodelled", Json.str w)]

def encodeOutcome : Outcome V → Json := encodeOutcomeWith encodeV

def decodeOutcomeWith {α} (dec : Json → α) (j : Json) : Outcome α :=
  match obj? j "ok" with
  | some x => .ok (dec x)
  | none =>
  match obj? j "perr" with
  | some x => .perr (perrOfName (str! x))
  | none =>
  match obj? j "escape" with
  | some x => .escape (escOfName (str! x))
  | none =>
  match obj? j "diverge" with
  | some _ => .diverge
  | none => .unmodelled (str! (fld j "unmodelled"))

/-! ### keys of prim-table entries (the same functions exist in harness/c12.py) -/

def fkey : FloatV → String
  | .fin m e => s!"{m}p{e}"
  | .inf false => "inf"
  | .inf true => "-inf"
  | .nan => "nan"

def dkey : DecV → String
  | .fin s c e => s!"{if s then 1 else 0}:{c}:{e}"
  | .inf false => "inf"
  | .inf true => "-inf"
  | .nan false => "nan"
  | .nan true => "snan"

def tzkey : Option Int → String
  | some i => toString i
  | none => "n"

partial def vkey : V → String
  | .none => "N"
  | .bool b => if b then "T" else "F"
  | .int c i => s!"i{c}:{i}"
  | .float c f => s!"f{c}:{fkey f}"
  | .complex a b => s!"z:{fkey a}:{fkey b}"
  | .dec c d => s!"d{c}:{dkey d}"
  | .str c s => s!"s{c}:{s.length}:{s}"
  | .bytes k c bs => s!"b{baseName k.base}{c}:{hexOf bs}"
  | .seq k c xs => s!"q{baseName k.base}{c}[" ++ ",".intercalate (xs.map vkey) ++ "]"
  | .dict c kvs => s!"m{c}" ++ "{" ++ ",".intercalate (kvs.map fun (k, v) => vkey k ++ "=" ++ vkey v) ++ "}"
  | .date c d => s!"D{c}:{d.y}-{d.m}-{d.d}"
  | .datetime c d t => s!"DT{c}:{d.y}-{d.m}-{d.d}-{t.hh}-{t.mi}-{t.ss}-{t.us}-{tzkey t.tz}"
  | .time c t => s!"TM{c}:{t.hh}-{t.mi}-{t.ss}-{t.us}-{tzkey t.tz}"
  | .delta c us => s!"TD{c}:{us}"
  | .uuid c n => s!"U{c}:{n}"
  | .enum k i => s!"e{k}:{i}"
  | .obj k => s!"o{k}"

def miss {α} (prim : String) (arg : Json) : Outcome α :=
  .unmodelled ("prim-miss:" ++ (Json.mkObj [("prim", Json.str prim), ("arg", arg)]).compress)

def lookupWith {α} (tbl : Json) (prim key : String) (arg : Json) (dec : Json → α) : Outcome α :=
  match obj? (fld tbl prim) key with
  | some r => decodeOutcomeWith dec r
  | none => miss prim arg

def decodeKw (j : Json) : Option (List (String × Option String)) :=
  if isNull j then none else
  some ((arr! j).map fun p => match arr! p with
    | [k, v] => (str! k, if isNull v then none else some (str! v))
    | _ => ("", none))

/-- `Prims` backed by the table the harness filled with the real builtins' answers -/
def decodePrims (tbl : Json) : Conv.Prims :=
  { decode := fun strict bs =>
      let key := (if strict then "1" else "0") ++ hexOf bs
      lookupWith tbl "decode" key (Json.arr #[Json.bool strict, Json.str (hexOf bs)]) str!
    strOf := fun v => lookupWith tbl "strOf" (vkey v) (encodeV v) str!
    floatOfStr := fun s => lookupWith tbl "floatOfStr" s (Json.str s) decodeFloat
    floatOfInt := fun i => lookupWith tbl "floatOfInt" (toString i) (Json.str (toString i)) decodeFloat
    floatOfDec := fun d => lookupWith tbl "floatOfDec" (dkey d) (encDec d) decodeFloat
    decOfStr := fun s => lookupWith tbl "decOfStr" s (Json.str s) decodeDec
    decOfFloatRepr := fun f => lookupWith tbl "decOfFloatRepr" (fkey f) (encFloat f) decodeDec
    complexOf := fun v => lookupWith tbl "complexOf" (vkey v) (encodeV v) decodeV
    complexOf2 := fun a b => lookupWith tbl "complexOf2" (vkey a ++ "|" ++ vkey b) (Json.arr #[encodeV a, encodeV b]) decodeV
    timestampOf := fun v => lookupWith tbl "timestampOf" (vkey v) (encodeV v) decodeFloat
    totalSeconds := fun us => lookupWith tbl "totalSeconds" (toString us) (Json.str (toString us)) decodeFloat
    div1000 := fun v => lookupWith tbl "div1000" (vkey v) (encodeV v) decodeV
    utcFromTs := fun v => lookupWith tbl "utcFromTs" (vkey v) (encodeV v) decodeV
    strptime := fun s fmt =>
      match obj? (fld tbl "strptime") s with
      | some per => (match obj? per fmt with
          | some r => decodeOutcomeWith decodeV r
          | none => .perr .valueError)
      | none => miss "strptime" (Json.str s)
    timeFromIso := fun s => lookupWith tbl "timeFromIso" s (Json.str s) decodeV
    uuidOfStr := fun s => lookupWith tbl "uuidOfStr" s (Json.str s) (fun j => (intOfJson j).toNat)
    jsonLoads := fun strict s =>
      lookupWith tbl "jsonLoads" ((if strict then "1" else "0") ++ s) (Json.arr #[Json.bool strict, Json.str s]) decodeV
    literalEval := fun s => lookupWith tbl "literalEval" s (Json.str s) decodeV
    parseQs := fun s => lookupWith tbl "parseQs" s (Json.str s) decodeV
    durationMatch := fun i s =>
      lookupWith tbl "durationMatch" (toString i ++ ":" ++ s) (Json.arr #[Json.num i, Json.str s]) decodeKw
    timedeltaKw := fun sign kw =>
      let key := toString sign ++ ";" ++ ";".intercalate (kw.map fun (k, f) => k ++ "=" ++ fkey f)
      lookupWith tbl "timedeltaKw" key
        (Json.arr #[Json.num (Lean.JsonNumber.fromInt sign), Json.arr (kw.map fun (k, f) => Json.arr #[Json.str k, encFloat f]).toArray]) decodeV
    timedeltaSec := fun f => lookupWith tbl "timedeltaSec" (fkey f) (encFloat f) decodeV
    initObj := fun k v => lookupWith tbl "initObj" (toString k ++ "|" ++ vkey v) (Json.arr #[Json.num k, encodeV v]) decodeV }

def convOfName : String → Option Conv
  | "to_null" => some .null | "to_str" => some .str | "to_bytes" => some .bytes | "to_array_types" => some .array
  | "to_dict" => some .dict | "to_float" => some .float | "to_integer" => some .int | "to_decimal" => some .decimal
  | "to_complex" => some .complex | "to_bool" => some .bool | "to_date" => some .date | "to_datetime" => some .datetime
  | "to_timedelta" => some .timedelta | "to_time" => some .time | "to_uuid" => some .uuid | "to_enum" => some .enum
  | "to_iter_types" => some .iter | "to_mapping" => some .mapping | _ => none

/-- one converter call: `{"target", "nec", "ndl", "value", "env", "unresolved"?, "func"?, "prims"}` -/
def runCall (j : Json) (nec ndl : Bool) : Outcome V :=
  let P := decodePrims (fld j "prims")
  let E := decodeEnv (fld j "env")
  let t := decodeTarget (fld j "target")
  let v := decodeV (fld j "value")
  let u := decodeUnresolved (fld j "unresolved")
  match obj? j "func" with
  | some fn => if isNull fn then transformU P E ⟨nec, ndl⟩ u t v else Conv.apply P E ⟨nec, ndl⟩ u t (convOfName (str! fn)) v
  | none => transformU P E ⟨nec, ndl⟩ u t v

/-- line server that flushes after every answer (interactive use: the harness answers prim misses) -/
partial def serveFlush (f : Json → Json) : IO Unit := do
  let stdin ← IO.getStdin
  let stdout ← IO.getStdout
  let rec loop : IO Unit := do
    let line ← stdin.getLine
    if line.isEmpty then return ()
    let l := line.trimAscii.toString
    if l.isEmpty then loop else
    match Json.parse l with
    | .ok j => stdout.putStrLn (f j).compress
    | .error e => stdout.putStrLn (Json.mkObj [("driver-error", Json.str e)]).compress
    stdout.flush
    loop
  loop

end Utv.ConvJson
