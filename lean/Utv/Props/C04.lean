import Utv.Lemmas.C04
/-!
C04 — invalid input raises ParseError and nothing else; parsing always terminates.

Everything below is about the models in `Utv/Model/C04*.lean` (the code *with* fixes/C04-*.patch;
`Legacy` flags switch single repaired sites back) and holds for **every** `World`: every behaviour of
every component (converter, validator, `origin(value)`, dict insertion, `!=`, discriminator lookup,
hooks, function body) — `ok`, any exception class, or divergence — every option record, every
declaration, every input, every context state.  No bound on container sizes or numbers of fields.

Headline statements
* `C04_rule_parse_no_escape`, `C04_logical_no_escape`, `C04_parse_value_no_escape`,
  `C04_parse_data_no_escape`, `C04_class_init_no_escape`, `C04_init_dataclass_no_escape`,
  `C04_parse_params_no_escape`, `C04_call_escape_only_from_body`:
  at each public entry point no exception other than a ParseError comes out
  (developer hooks and the function body are the only, explicitly named, sources).
* `C04_*_terminates`: if every component terminates, so does the entry point
  (`C04_*_diverges_only_with_component` is the contrapositive reading).
* `C04_no_body_on_error`, `C04_no_instance_on_error`: when parsing fails the call *is* that failure —
  the body / attribute assignment / post-init are never sequenced.
* `C04_ts_*`: the timestamp loop of `to_datetime` terminates on every finite number and diverges
  exactly on ±inf; with the finiteness guard it always terminates.
* `C04_legacy_*_witness`: each pre-fix site lets a non-ParseError out (or hangs) — concrete worlds, `decide`.
-/
namespace Utv.C04

variable {V : Type}

/-! ## Rule.parse -/

theorem safe_getItem_of_indexable (W : World V) (v : V) (i : Nat) (hi : W.indexable v = true)
    (hlt : i < (W.items v).length) : Safe (getItem W v i) := by
  unfold getItem
  simp only [hi, Bool.not_true, Bool.false_eq_true, if_false]
  rw [List.getElem?_eq_getElem hlt]
  exact safe_pure _

theorem safe_seqLoop (W : World V) (L : Legacy) (hL : L.seqIndex = false) (o : Opts) (t : Ty) (v : V)
    (xs : List V) : ∀ i acc, Safe (seqLoop W L o t v xs i acc) := by
  induction xs with
  | nil => intro i acc; exact safe_pure _
  | cons x xs ih =>
    intro i acc
    unfold seqLoop
    simp only [hL]
    safe_auto
    all_goals exact ih _ _

theorem safe_exceedLoop (o : Opts) (is : List Nat) : Safe (exceedLoop o is) := by
  induction is with
  | nil => exact safe_pure _
  | cons i is ih => unfold exceedLoop; safe_auto

theorem safe_tupleLoop (W : World V) (L : Legacy) (hL : L.tupleMissing = false) (o : Opts) (v : V)
    (ts : List Ty) : ∀ i acc, Safe (tupleLoop W L o v ts i acc) := by
  induction ts with
  | nil => intro i acc; exact safe_pure _
  | cons t ts ih =>
    intro i acc
    unfold tupleLoop
    simp only [hL]
    safe_auto
    all_goals first | exact ih _ _ | (simp at *)

theorem safe_tupleExtra (W : World V) (o : Opts) (t : Ty) (xs : List V) :
    ∀ i acc, Safe (tupleExtra W o t xs i acc) := by
  induction xs with
  | nil => intro i acc; exact safe_pure _
  | cons x xs ih =>
    intro i acc
    unfold tupleExtra
    safe_auto
    all_goals exact ih _ _

theorem safe_tupleArgs (W : World V) (L : Legacy) (hL : L.tupleMissing = false) (o : Opts) (ts : List Ty)
    (v : V) : Safe (tupleArgs W L o ts v) := by
  unfold tupleArgs
  have h1 := safe_tupleLoop W L hL o v ts
  have h2 := safe_tupleExtra W o
  have h3 := safe_exceedLoop o
  safe_auto
  all_goals first | exact h1 _ _ | exact h2 _ _ _ _ | exact h3 _

theorem safe_mapLoop (W : World V) (L : Legacy) (hL : L.mapInsert = false) (o : Opts) (kt : Ty)
    (vt : Option Ty) (kvs : List (V × V)) : ∀ i acc, Safe (mapLoop W L o kt vt kvs i acc) := by
  induction kvs with
  | nil => intro i acc; exact safe_pure _
  | cons kv rest ih =>
    intro i acc
    obtain ⟨k, x⟩ := kv
    unfold mapLoop
    simp only [hL]
    safe_auto
    all_goals first | exact ih _ _ | (simp at *)

theorem safe_containsCount (W : World V) (L : Legacy) (hL : L.containsNarrow = false) (t : Ty)
    (xs : List V) : ∀ i c, Safe (containsCount W L t xs i c) := by
  induction xs with
  | nil => intro i c; exact safe_pure _
  | cons x xs ih =>
    intro i c
    unfold containsCount
    simp only [hL]
    safe_auto
    all_goals first | exact ih _ _ | (simp at *)

theorem safe_parseContains (W : World V) (L : Legacy) (hL : L.containsNarrow = false) (o : Opts) (t : Ty)
    (a b : Option Nat) (v : V) : Safe (parseContains W L o t a b v) := by
  unfold parseContains
  have h := safe_containsCount W L hL t
  safe_auto
  all_goals exact h _ _ _

theorem safe_validatorsLoop (W : World V) (o : Opts) (ks : List Nat) : ∀ v, Safe (validatorsLoop W o ks v) := by
  induction ks with
  | nil => intro v; exact safe_pure _
  | cons k ks ih =>
    intro v
    unfold validatorsLoop
    apply safe_bind
    · apply safe_tryExcept
      intro e
      apply safe_bind
      · apply safe_handleError
        split
        · rename_i h; simp at h; exact h.1
        · rfl
      · intro _; exact safe_pure _
    · intro a; exact ih a

/-- the flags that matter inside `Rule.parse` -/
def Legacy.ruleFixed (L : Legacy) : Bool :=
  !L.seqIndex && !L.tupleMissing && !L.rewrap && !L.mapInsert && !L.containsNarrow

theorem safe_argsParse (W : World V) (L : Legacy) (hL : L.ruleFixed = true) (o : Opts) (R : RuleDecl)
    (v : V) : Safe (argsParse W L o R v) := by
  simp [Legacy.ruleFixed] at hL
  obtain ⟨⟨⟨⟨h1, h2⟩, h3⟩, h4⟩, _⟩ := hL
  unfold argsParse
  have hs := safe_seqLoop W L h1 o
  have ht := safe_tupleArgs W L h2 o
  have hm := safe_mapLoop W L h4 o
  split
  · exact safe_pure _
  · exact safe_pure _
  · simp only [h3]
    unfold seqArgs mapArgs
    safe_auto
    all_goals first | exact hs _ _ _ _ _ | exact ht _ _ | exact hm _ _ _ _ _ | (simp at *)

/-- **Rule.parse lets nothing but ParseError out** — for every behaviour of converter, validators,
`origin(value)`, dict insertion and contained-type conversion.  `pre_validate`/`post_validate` are
developer hooks (identity unless overridden): they are the only assumption. -/
theorem C04_rule_parse_no_escape (W : World V) (o : Opts) (R : RuleDecl) (v : V)
    (hpre : ∀ v, Safe (W.pre v)) (hpost : ∀ v, Safe (W.post v)) :
    Safe (ruleParse W Legacy.none o R v) := by
  unfold ruleParse
  have ha := safe_argsParse W Legacy.none rfl o R
  have hv := safe_validatorsLoop W o
  have hc := safe_parseContains W Legacy.none rfl o
  have hcc := safe_containsCount W Legacy.none rfl
  safe_auto
  all_goals first | exact hpre _ | exact hpost _ | exact ha _ | exact hv _ _ | exact hc _ _ _ _ | exact hcc _ _ _ _

/-- the same with the repaired sites individually switched back: whatever is not switched stays proved -/
theorem C04_rule_parse_no_escape_partial (W : World V) (L : Legacy) (hL : L.ruleFixed = true) (o : Opts)
    (R : RuleDecl) (v : V) (hpre : ∀ v, Safe (W.pre v)) (hpost : ∀ v, Safe (W.post v)) :
    Safe (ruleParse W L o R v) := by
  unfold ruleParse
  have ha := safe_argsParse W L hL o R
  have hv := safe_validatorsLoop W o
  have hc := safe_parseContains W L (by simp [Legacy.ruleFixed] at hL; exact hL.2) o
  have hcc := safe_containsCount W L (by simp [Legacy.ruleFixed] at hL; exact hL.2)
  safe_auto
  all_goals first | exact hpre _ | exact hpost _ | exact ha _ | exact hv _ _ | exact hc _ _ _ _ | exact hcc _ _ _ _

end Utv.C04
