import Utv.GenEq.Support
import Utv.Gen.Tables
import Utv.Gen.CodecTables
import Utv.Gen.Encode
import Utv.Model.C14
/-!
C14 — T1 obligations: the tables of `utype/utils/transform.py` / `encode.py` the codec model (`Model/C14.lean`)
holds copies of are the ones regenerated from the source on every run.
-/
namespace Utv.GenEq.C14
open Utv.C14 Utv.Gen

theorem C14_gen_tables :
    DATE_FORMATS = CodecTables.DATE_FORMATS.map String.toList ∧
    DATETIME_FORMATS = CodecTables.DATETIME_FORMATS.map String.toList ∧
    NULL_VALUES = Tables.NULL_VALUES.map String.toList ∧
    FALSE_VALUES = Tables.FALSE_VALUES.map String.toList ∧
    TRUE_VALUES = Tables.TRUE_VALUES.map String.toList ∧
    (maxSafe : Int) = CodecTables.MAX_SAFE_NUMBER ∧ -(maxSafe : Int) = CodecTables.MIN_SAFE_NUMBER := by
  gen_obligation "C14_gen_tables: the regenerated code (Utv.Gen) is no longer equal to the hand model here" by
    refine ⟨?_, ?_, ?_, ?_, ?_, ?_, ?_⟩ <;> decide

/-- `js_unsafe` on an integer-valued Decimal `±c` (exponent 0; the bounds are inlined from encode.py as they are
now) is the model's `jsUnsafe c 0` -/
theorem C14_gen_js_unsafe (W : Utv.Obj.World Unit) (c : Nat) (neg : Bool) :
    Encode.js_unsafe W (.int (if neg then -(c : Int) else c)) = .ok (.bool (jsUnsafe c 0)) := by
  gen_obligation "C14_gen_js_unsafe: the regenerated code (Utv.Gen) is no longer equal to the hand model here" by
    cases neg <;>
      simp [Encode.js_unsafe, Utv.Obj.gt, Utv.Obj.lt, Utv.Obj.intOf?, jsUnsafe, maxSafe, bind, Except.bind, pure, Except.pure]
    · by_cases h1 : 9007199254740991 < c
      · have h2 : (9007199254740991 : Int) < (c : Int) := by omega
        simp [h1, h2]
      · have h2 : ¬ (9007199254740991 : Int) < (c : Int) := by omega
        have h3 : ¬ (c : Int) < -9007199254740991 := by omega
        simp [h1, h2, h3]
    · have h0 : ¬ (9007199254740991 : Int) < -(c : Int) := by omega
      by_cases h1 : 9007199254740991 < c
      · have h2 : (9007199254740991 : Int) < (c : Int) := by omega
        simp [h0, h1, h2]
      · have h2 : ¬ (9007199254740991 : Int) < (c : Int) := by omega
        simp [h0, h1, h2]

open Utv.Obj

/-! ### `duration_iso_string` (timedelta = its three normalised attributes; `str.format` on the fragment used) -/

abbrev D := OVal Unit

theorem fmt_main (sg ms : String) (d h m s : Int) :
    strFormat (V := Unit) (OVal.str "{}P{}DT{:02d}H{:02d}M{:02d}{}S") [.str sg, .int d, .int h, .int m, .int s, .str ms]
      = .ok (.str (String.ofList (sg.toList ++ ('P' :: (intRepr d ++ ('D' :: ('T' :: (padInt 2 h ++ ('H' ::
          (padInt 2 m ++ ('M' :: (padInt 2 s ++ (ms.toList ++ ('S' :: [])))))))))))))) := by
  rfl
theorem fmt_ms (u : Int) :
    strFormat (V := Unit) (OVal.str ".{:06d}") [.int u] = .ok (.str (String.ofList ('.' :: (padInt 6 u ++ [])))) := by
  rfl

theorem deltaUs_mk (us : Int) : deltaUs? (mkDelta us : D) = some us := by
  simp only [mkDelta, deltaUs?]
  congr 1
  omega
theorem ga_days (x : Int) : getattr (mkDelta x : D) "days" = .ok (.int (x / 86400000000)) := rfl
theorem ga_seconds (x : Int) : getattr (mkDelta x : D) "seconds" = .ok (.int (x % 86400000000 / 1000000)) := rfl
theorem ga_micro (x : Int) : getattr (mkDelta x : D) "microseconds" = .ok (.int (x % 1000000)) := rfl
theorem fd60 (x : Int) : floordiv (.int x : D) (.int 60) = .ok (.int (x / 60)) := by
  simp [floordiv, intOf?, Int.fdiv_eq_ediv_of_nonneg, pure, Except.pure]
theorem md60 (x : Int) : Utv.Obj.mod (.int x : D) (.int 60) = .ok (.int (x % 60)) := by
  simp [Utv.Obj.mod, intOf?, Int.fmod_eq_emod_of_nonneg, pure, Except.pure]
theorem intRepr_of {i : Int} {n : Nat} (h : i = n) : intRepr i = natStr n := by
  subst h; simp [intRepr, natStr, natDigits]
theorem padInt_of {i : Int} {n : Nat} (w : Nat) (h : i = n) : padInt w i = pad w n := by
  subst h
  have : ¬ ((n : Int) < 0) := by omega
  simp [padInt, pad, padDigits, natStr, natDigits, this]

/-- the formatting of a non-negative duration of `a` microseconds, after the sign: what is left of the function once
the attribute reads and the integer divisions are evaluated (the same whatever order the source does them in) -/
theorem body (a : Nat) (sg : String) :
    Except.bind (if ((a : Int) % 1000000 != 0) = true then strFormat (V := Unit) (OVal.str ".{:06d}") [OVal.int ((a : Int) % 1000000)]
            else Except.ok (OVal.str ""))
      (fun v => strFormat (OVal.str "{}P{}DT{:02d}H{:02d}M{:02d}{}S")
          [OVal.str sg, OVal.int ((a : Int) / 86400000000), OVal.int ((a : Int) % 86400000000 / 1000000 / 60 / 60),
            OVal.int ((a : Int) % 86400000000 / 1000000 / 60 % 60), OVal.int ((a : Int) % 86400000000 / 1000000 % 60), v])
    = (.ok (.str (String.ofList (sg.toList ++ ('P' :: natStr (a / 86400000000) ++ 'D' :: 'T' ::
        pad 2 (a % 86400000000 / 1000000 / 60 / 60) ++ 'H' :: pad 2 (a % 86400000000 / 1000000 / 60 % 60) ++ 'M' ::
        pad 2 (a % 86400000000 / 1000000 % 60) ++
        (if a % 86400000000 % 1000000 != 0 then '.' :: pad 6 (a % 86400000000 % 1000000) else []) ++ ['S'])))) : M Unit D) := by
  have h1 : (a : Int) / 86400000000 = ((a / 86400000000 : Nat) : Int) := by omega
  have h2 : (a : Int) % 86400000000 / 1000000 / 60 / 60 = ((a % 86400000000 / 1000000 / 60 / 60 : Nat) : Int) := by omega
  have h3 : (a : Int) % 86400000000 / 1000000 / 60 % 60 = ((a % 86400000000 / 1000000 / 60 % 60 : Nat) : Int) := by omega
  have h4 : (a : Int) % 86400000000 / 1000000 % 60 = ((a % 86400000000 / 1000000 % 60 : Nat) : Int) := by omega
  have h5 : (a : Int) % 1000000 = ((a % 86400000000 % 1000000 : Nat) : Int) := by omega
  by_cases hm : a % 86400000000 % 1000000 = 0
  · have hz : ((a : Int) % 1000000 != 0) = false := by
      have : (a : Int) % 1000000 = 0 := by omega
      simp [this]
    simp only [hz, Bool.false_eq_true, if_false, Except.bind, fmt_main, intRepr_of h1, padInt_of 2 h2, padInt_of 2 h3, padInt_of 2 h4]
    refine congrArg _ (congrArg _ (congrArg _ ?_))
    have hm2 : a % 1000000 = 0 := by omega
    simp [hm2]
  · have hz : ((a : Int) % 1000000 != 0) = true := by
      have : (a : Int) % 1000000 ≠ 0 := by omega
      simp [this]
    simp only [hz, if_true, fmt_ms, Except.bind, fmt_main, intRepr_of h1, padInt_of 2 h2, padInt_of 2 h3, padInt_of 2 h4, padInt_of 6 h5]
    refine congrArg _ (congrArg _ (congrArg _ ?_))
    have hm2 : a % 1000000 ≠ 0 := by omega
    simp [hm2]

theorem C14_gen_duration_iso_string (W : Utv.Obj.World Unit) (us : Int) :
    Encode.duration_iso_string W (mkDelta us) = .ok (.str (String.ofList (durationIso us))) := by
  gen_obligation "C14_gen_duration_iso_string: the regenerated code (Utv.Gen) is no longer equal to the hand model here" by
    unfold Encode.duration_iso_string
    have h0 : timedeltaDays (OVal.int 0 : D) = .ok (mkDelta 0) := rfl
    have h1 : neg (OVal.int 1 : D) = .ok (.int (-1)) := rfl
    have hlt : Utv.Obj.lt (mkDelta us : D) (mkDelta 0) = .ok (decide (us < 0)) := by
      simp only [Utv.Obj.lt, deltaUs_mk]
      rfl
    by_cases hneg : us < 0
    · have hm : mul (mkDelta us : D) (.int (-1)) = .ok (mkDelta ((us.natAbs : Nat) : Int)) := by
        have e : us * -1 = ((us.natAbs : Nat) : Int) := by omega
        simp only [mul, deltaUs_mk, ← e]
        rfl
      simp only [h0, h1, hlt, hneg, hm, bind, Except.bind, pure, Except.pure, decide_true, if_true, ga_days, ga_seconds,
        ga_micro, fd60, md60, truthy_int]
      refine (body us.natAbs "-").trans ?_
      refine congrArg _ (congrArg _ (congrArg _ ?_))
      simp [durationIso, hneg]
    · have e : us = ((us.natAbs : Nat) : Int) := by omega
      have hn : ¬ ((us.natAbs : Nat) : Int) < 0 := by omega
      simp only [h0, h1, hlt, hneg, bind, Except.bind, pure, Except.pure, decide_false, Bool.false_eq_true, if_false]
      rw [e]
      simp only [bind, Except.bind, pure, Except.pure, ga_days, ga_seconds, ga_micro, fd60, md60, truthy_int]
      refine (body us.natAbs "").trans ?_
      refine congrArg _ (congrArg _ (congrArg _ ?_))
      simp [durationIso, hn]

/-! ### `from_time`: which `isoformat` is asked for (the formatting itself is CPython's: the world's) -/

/-- the `datetime.time` object: its `microsecond` and its `isoformat` method -/
def encTime (t : TimeV) : D := .obj "time" [("microsecond", .int t.clock.us), ("isoformat", .fn 0)]

theorem C14_gen_from_time (W : Utv.Obj.World Unit) (t : TimeV)
    (hiso : W.call (.fn 0) [] = .ok (.str (String.ofList (isoTime t))))
    (hms : W.ext "isoformat" [encTime t, .seq .tuple [.str "timespec", .str "milliseconds"]]
      = .ok (.str (String.ofList (isoClockMs t.clock ++ isoTz t.tz)))) :
    Encode.from_time W (encTime t) = .ok (.str (String.ofList (fromTime Cfg.fixed t))) := by
  gen_obligation "C14_gen_from_time: the regenerated code (Utv.Gen) is no longer equal to the hand model here" by
    have hms' := hms
    simp only [encTime] at hms'
    by_cases h : t.clock.us = 0
    · obj_simp [Encode.from_time, encTime, getattr, lookupAttr, h, hiso, fromTime]
    · have h' : ¬ ((t.clock.us : Nat) : Int) = 0 := by omega
      obj_simp [Encode.from_time, encTime, getattr, lookupAttr, h, h', hms', fromTime, Cfg.fixed]

end Utv.GenEq.C14
